(** Extraction of the group "sort" (C16) to OCaml (ExtrOcamlBasic only; numbers
    stay inductive).  vp.py runs coqc on this file in .cache/ocaml/sort/. *)
From Coq Require Extraction ExtrOcamlBasic.
From DivanV Require Import Base.Res Base.ExtractPrelude Generated.Consts
  Model.Natural Model.SortBy Model.ArgCmp Model.TreeCmp.
Extraction Language OCaml.
Set Extraction KeepSingleton.
Extraction "model.ml" extraction_prelude
  natural_cmp natural_spec tokenize cut_offsets
  name_cmp_dec arg_cmp_dec sort_args_dec sort_sb_dec spec_arg_cmp_dec name_class dec_parse
  arg_cmp_tbl sort_args_tbl sort_sb_tbl spec_arg_cmp_tbl tbl_grammar_ok
  with_tie_breakers
  insert_entry insert_group dump_forest sort_forest_dec forest_sb_dec display_name cmp_by_attr spec_tree_cmp.
