(** Extraction of the group "select" (C13, C15) to OCaml. *)
From Coq Require Extraction ExtrOcamlBasic.
From DivanV Require Import Base.Res Base.ExtractPrelude Model.SplitVec Model.Filter Model.Retain.
Extraction Language OCaml.
Set Extraction KeepSingleton.
Extraction "model.ml" extraction_prelude
  fs_query is_match_spec is_match_sb cli_ops
  select retain retain_sb cases parents leaf_cases.
