(** Extraction of the group "select" (C13, C15) to OCaml. *)
From Coq Require Extraction ExtrOcamlBasic.
From DivanV Require Import Base.Res Base.ExtractPrelude Model.SplitVec Model.Filter Model.Retain Model.Options Model.RunnerConfig Model.TreeBuild.
Extraction Language OCaml.
Set Extraction KeepSingleton.
Extraction "model.ml" extraction_prelude
  fs_query is_match_spec is_match_sb cli_ops
  select retain retain_sb cases parents leaf_cases
  resolve resolve_sb overwrite o_default set_field get to_collection set_counter thread_counts thread_counts_sb
  set_threads strictly_increasing mem_N into_threads_usize into_threads_bool runner_level spec_runner spec_effective
  observe should_ignore effective_ignore first_some precedence norm_threads effective_skip_ext bytes_format_level decimal_nanos parse_seconds_sb time_limits
  runner_config_resolve config_spec runner_filter_is_match runner_filter_spec
  build_tree options_on_tree spec_options_of_bench unique_parents.
