(** Extraction of the group "tree" (C14, C12, C17) to OCaml. *)
From Coq Require Extraction ExtrOcamlBasic.
From DivanV Require Import Base.Res Base.ExtractPrelude Model.Registry Model.Tree Model.Driver.
Extraction Language OCaml.
Set Extraction KeepSingleton.
Extraction "model.ml" extraction_prelude
  str_eqb split_cc type_display value_to_string all_entries
  build_tree retain cases leaves wf_forest
  run_action list_benches test_benches lines executed exec_paths painted runs_something
  is_match args_evaluations expand spell_2015 flat_exec c12_flat_sb group_keys_distinct c17_label_sb c17_once_sb flat_list action_of_flags unqualify c17_type_label_sb c17_types_distinct_sb chain_path module_chain find_module_group
  c14_terse_sb c14_quiet_sb c14_roundtrip_sb.
