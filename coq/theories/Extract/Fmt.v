(** Extraction of the group "fmt" (C18) to OCaml (ExtrOcamlBasic only).
    vp.py runs coqc on this file in .cache/ocaml/fmt/: writes model.ml / model.mli there. *)
From Coq Require Extraction ExtrOcamlBasic.
From DivanV Require Import Base.Res Base.ExtractPrelude Generated.Consts
  Model.FmtF64 Model.FmtDuration Model.FmtScale.
Extraction Language OCaml.
Set Extraction KeepSingleton.
Extraction "model.ml" extraction_prelude
  fmt_duration_with duration_sb spec_duration_string
  format_f64 format_bytes display_throughput fmt_scaled
  throughput_sb bytes_sb f64_sb_approx scaled_sb_approx spec_scaled_string trunc_numeral printed_value
  display_throughput_with throughput_with_sb.
