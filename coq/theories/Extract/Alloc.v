(** Extraction of the group "alloc" (C10, C09) to OCaml (ExtrOcamlBasic only).
    vp.py runs coqc on this file in .cache/ocaml/alloc/: writes model.ml / model.mli there. *)
From Coq Require Extraction ExtrOcamlBasic.
From DivanV Require Import Base.Res Base.ExtractPrelude Model.Tally Model.Profiler Model.Record.
Extraction Language OCaml.
Set Extraction KeepSingleton.
Extraction "model.ml" extraction_prelude
  run run_ev tmap_run proj
  tally_sb tally_sb_why ev_sb ev_sb_why no_overflow all_ops ops_since_clear kind_of
  run_prof run_prof_trace prof_forest pre_reqs_f pre_ans_f nest_sb nest_sb_why op_of_req prof_sb prof_sb_why release_sb release_sb_why
  rec_run record_sb record_sb_why record_guard tallies_empty map_get.
