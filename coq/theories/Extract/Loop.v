(** Extraction of the group "loop" (C03, C04, C19) to OCaml.
    vp.py runs coqc on this file in .cache/ocaml/loop/: writes model.ml / model.mli there. *)
From Coq Require Extraction ExtrOcamlBasic.
From DivanV Require Import Base.Res Base.ExtractPrelude Generated.Consts Model.Timestamp Model.Loop.
Extraction Language OCaml.
Set Extraction KeepSingleton.
Extraction "model.ml" extraction_prelude
  fine_from_duration u128_max ai_zero
  bench_loop seen_of_outcome out_done out_state rounds_of
  c03_sb c04_sb c19_sb c03_e2e_sb elapsed_after continue_after first_pass
  qget qconst all_kinds decimal_nanos c04_os_sb c19_e2e_sb c03_fig_sb stat_sample_count stat_iter_count bench_loop_cal c04_cal_sb c04_dur_sb thr_norm c03_threads_sb c03_tuned_sb.
