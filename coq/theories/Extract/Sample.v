(** Extraction of the group "sample" (C01, C02) to OCaml. *)
From Coq Require Extraction ExtrOcamlBasic.
From DivanV Require Import Base.Res Base.ExtractPrelude Model.Sample.
Extraction Language OCaml.
Set Extraction KeepSingleton.
Extraction "model.ml" extraction_prelude
  sample_prog exec exec_ok empty_store obs vis_of mcfg_of sb_sample sb_timed
  thread_log thread_log_panic sb_thread sb_nodouble sb_nodouble_local split_samples
  rounds eff_aux eff_size run_threads run_vis
  interp kept_of script_fn sample_figures spec_figures run_alloc_infos figures_empty tally_of timed_ops
  panic_fires cut_prog mon_run mstate0 mon_final localize
  thread_log_sizes sb_thread_sizes sample_figures_at spec_figures_at
  resolve counters_in_force.
