(** Extraction of the group "round" (C08) to OCaml (ExtrOcamlBasic only).
    vp.py runs coqc on this file in .cache/ocaml/round/: writes model.ml / model.mli there. *)
From Coq Require Extraction ExtrOcamlBasic.
From DivanV Require Import Base.Res Base.ExtractPrelude Model.Round.
Extraction Language OCaml.
Set Extraction KeepSingleton.
Extraction "model.ml" extraction_prelude
  prog drops init step labels final inv_b phase_sb measure expected own_allocs summarise summarise_re
  records run_records obs_step taus replay log_sb plen ndrops finished panicked thread_faults.
