(** Extraction of the group "time" (C11) to OCaml (ExtrOcamlBasic only:
    bool/option/list/prod/unit/sumbool map to OCaml's; numbers stay inductive).
    vp.py runs coqc on this file in .cache/ocaml/time/: writes model.ml / model.mli there. *)
From Coq Require Extraction ExtrOcamlBasic.
From DivanV Require Import Base.Res Base.ExtractPrelude Generated.Consts Model.Timestamp.
Extraction Language OCaml.
Set Extraction KeepSingleton.
Extraction "model.ml" extraction_prelude
  tsc_duration fine_from_duration measure_precision prec_consumed prec_init
  tsc_sb dur_sb prec_sb os_duration_since osd_sb
  prec_queries pcache_empty precq_sb.
