(** Extraction of the executable models to OCaml (ExtrOcamlBasic only:
    bool/option/list/prod/unit/sumbool map to OCaml's; numbers stay inductive).
    Run from /verif/ocaml: writes model.ml / model.mli there. *)
From Coq Require Extraction ExtrOcamlBasic.
From DivanV Require Import Base.Res Generated.Consts Model.Timestamp Model.Pool.
Extraction Language OCaml.
Set Extraction KeepSingleton.
Extraction "model.ml"
  N.add N.mul N.div N.modulo N.sub N.compare N.eqb N.ltb N.leb N.of_nat N.to_nat
  Z.add Z.mul Z.sub Z.compare Z.of_N Z.to_N Z.opp Z.abs_N
  tsc_duration fine_from_duration measure_precision prec_consumed prec_init
  tsc_sb dur_sb prec_sb
  PoolM.init PoolM.step PoolM.run PoolM.final PoolM.candidate_labels PoolM.enabled_labels PoolM.inv_all
  PoolM.once_per_index PoolM.published PoolM.inner_measure PoolM.outer_measure.
