(** Extraction of the group "paint" (C20) to OCaml. *)
From Coq Require Extraction ExtrOcamlBasic.
From DivanV Require Import Base.Res Base.ExtractPrelude Model.Painter Model.DriverPaint Model.Parse Model.PaintThreads.
Extraction Language OCaml.
Set Extraction KeepSingleton.
Extraction "model.ml" extraction_prelude
  paint paint_ops invokes all_calls parse skeleton paint_sb lines classify mkRun mkCells norm_threads.
