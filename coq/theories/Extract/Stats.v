(** Extraction of the group "stats" (C05) to OCaml (ExtrOcamlBasic only).
    vp.py runs coqc on this file in .cache/ocaml/stats/: writes model.ml / model.mli there. *)
From Coq Require Extraction ExtrOcamlBasic.
From DivanV Require Import Base.Res Base.ExtractPrelude Model.Stats.
Extraction Language OCaml.
Set Extraction KeepSingleton.
Extraction "model.ml" extraction_prelude
  compute_stats admissibleb indexed stats_sb stats_sb_why per_iter_count per_iter_sb
  xq_close xq_eqb column_of all_ops tally_zero stored_counts_sb
  set_counter set_counter_old set_input_counter record_rounds constant_counter_sb no_counter_sb alloc_records_sb record_alloc_infos
  spec_fastest spec_slowest spec_median spec_mean printed_blocks blocks_spec column_counts_spec.
