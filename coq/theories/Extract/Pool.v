(** Extraction of the group "pool" (C06, C07). *)
From Coq Require Extraction ExtrOcamlBasic.
From DivanV Require Import Base.Res Base.ExtractPrelude Generated.Consts Model.Pool.
Extraction Language OCaml.
Set Extraction KeepSingleton.
Extraction "model.ml" extraction_prelude
  PoolM.code_cfg PoolM.init PoolM.step PoolM.run PoolM.final PoolM.candidate_labels PoolM.enabled_labels
  PoolM.inv_all PoolM.inv_failures
  PoolM.once_per_index PoolM.published PoolM.results_indexed PoolM.inner_measure PoolM.outer_measure
  PoolM.is_release PoolM.is_acquire PoolMon.check.
