(** Model of ONE sample on ONE thread and of the placement of samples on threads:
    [src/benchmark/mod.rs] — the six [Bencher] entry points and their closures
    ([bench], [bench_local], [with_inputs] + [bench_values] / [bench_refs] /
    [bench_local_values] / [bench_local_refs]: [read()] = move out of the slot,
    [assume_init_mut()] = lend, [assume_init_drop()] = drop in place),
    [bench_loop_local] ([thread_count = 1]), [sample_recorder] (the three code
    paths selected by [size_of::<I>() == 0], [size_of::<O>() == 0],
    [needs_drop]) and [src/benchmark/defer.rs] ([DeferStore::ONLY_INPUTS]).

    Executable definitions only (models and boolean specifications); the proofs
    are in Proofs/Sample.v, Proofs/SampleTimed.v, Proofs/SamplePanic.v. *)

From DivanV Require Import Base.Res.
Local Open Scope nat_scope.

(** * Entry points, type shapes, counters *)

Inductive entry := EBench | EBenchLocal | EValues | ELocalValues | ERefs | ELocalRefs.

(** [bench_local*] go through [bench_loop_local], which sets
    [self.thread_count = NonZeroUsize::MIN] before calling the threaded loop. *)
Definition is_local (e : entry) : bool :=
  match e with EBenchLocal | ELocalValues | ELocalRefs => true | _ => false end.

(** [bench_refs]/[bench_local_refs]: the closure given to the loop does
    [assume_init_mut] (lend) and [drop_input] does [assume_init_drop];
    all other entry points [read()] the input out of its cell (move) and
    [drop_input] is [|_input| {}]. *)
Definition by_ref (e : entry) : bool :=
  match e with ERefs | ELocalRefs => true | _ => false end.

(** [bench]/[bench_local] are [with_inputs(|| ()).bench_[local_]values(|_: ()| benched())]:
    the generator is the crate's own [|| ()], there is no user generator and no
    way to set an input counter. *)
Definition has_gen (e : entry) : bool :=
  match e with EBench | EBenchLocal => false | _ => true end.

Record shape := mkShape {
  i_zst : bool;   (* size_of::<I>() == 0 *)
  i_drop : bool;  (* needs_drop::<I>() *)
  o_zst : bool;   (* size_of::<O>() == 0 *)
  o_drop : bool   (* needs_drop::<O>() *)
}.

(** For [bench]/[bench_local] the input type is [()]: zero-sized, no destructor. *)
Definition eff_shape (e : entry) (sh : shape) : shape :=
  if has_gen e then sh else mkShape true false (o_zst sh) (o_drop sh).

(** [KnownCounterKind::ALL], in declaration order. *)
Inductive ckind := Bytes | Chars | Cycles | Items.
Definition all_kinds : list ckind := [Bytes; Chars; Cycles; Items].

(** Which kinds have an [input_counter] closure ([count_input.is_some()]). *)
Record counters := mkCs { c_bytes : bool; c_chars : bool; c_cycles : bool; c_items : bool }.

Definition uses (cs : counters) (k : ckind) : bool :=
  match k with Bytes => c_bytes cs | Chars => c_chars cs | Cycles => c_cycles cs | Items => c_items cs end.

Definition no_counters : counters := mkCs false false false false.

Definition eff_counters (e : entry) (cs : counters) : counters :=
  if has_gen e then cs else no_counters.

(** The three code paths of [sample_recorder]:
    [if size_of::<I>() == 0 && (size_of::<O>() == 0 || !needs_drop::<O>())] — ZST fast path;
    otherwise [DeferStore::slots()] is [Ok] (input+output slots) iff
    [!ONLY_INPUTS], [ONLY_INPUTS = !needs_drop::<O>()]. *)
Inductive path := PathZst | PathSlots | PathInputs.

Definition path_of (sh : shape) : path :=
  if i_zst sh && (o_zst sh || negb (o_drop sh)) then PathZst
  else if o_drop sh then PathSlots
  else PathInputs.

(** * Actions of a sample *)

(** Where the [UnsafeCell<MaybeUninit<T>>] handed to a closure comes from: a slot
    of the deferred store, or [MaybeUninit::<T>::zeroed()] made out of thin air
    (ZST fast path). *)
Inductive cell := InSlot | Thin.

Inductive action :=
| Gen (i : nat)                      (* gen_input() for index i; written to input cell i / bound to a local *)
| Count (k : ckind) (i : nat)        (* the input counter of kind k is shown &input i *)
| ForgetIn (i : nat)                 (* mem::forget(input)  (ZST fast path) *)
| SyncStart                          (* sync_threads(true): [barrier] clear tally [barrier] *)
| TsStart                            (* UntaggedTimestamp::start *)
| Call (i : nat) (r : bool) (c : cell)  (* benched(&cell i); r = by reference *)
| UserDropIn (i : nat)               (* the benchmarked function drops the input it was given by value *)
| StoreOut (i : nat)                 (* slot.output := MaybeUninit::new(output) *)
| ForgetOut (i : nat)                (* mem::forget(black_box(output)) *)
| DiscardOut (i : nat)               (* black_box_drop(output) of a type without drop glue *)
| TsEnd                              (* UntaggedTimestamp::end *)
| SyncEnd                            (* sync_threads(false): [barrier] *)
| Snapshot                           (* save_alloc_info() *)
| DropOut (i : nat) (c : cell)       (* output.assume_init_drop() / _ = mem::zeroed::<O>() *)
| DropIn (i : nat) (c : cell)        (* drop_input(cell) of bench_refs: assume_init_drop *)
| CallPanic (i : nat) (r : bool) (c : cell)  (* benched(&cell i) unwinds: no output *)
| GenPanic (i : nat)                 (* gen_input() unwinds: no value *)
| GuardWait.                         (* a barrier wait made by Drop for SampleBarrier while unwinding *)

(** What the loop does with an output inside the timed section. *)
Definition out_action (p : path) (i : nat) : action :=
  match p with
  | PathZst => ForgetOut i
  | PathSlots => StoreOut i
  | PathInputs => DiscardOut i
  end.

Definition in_cell (p : path) : cell :=
  match p with PathZst => Thin | _ => InSlot end.

(** [count_input(&input)]: [for counter_kind in KnownCounterKind::ALL] call the
    closure of that kind if one is set. *)
Definition count_actions (cs : counters) (i : nat) : list action :=
  flat_map (fun k => if uses cs k then [Count k i] else []) all_kinds.

(** One iteration of the input-generation loop. *)
Definition gen_block (p : path) (cs : counters) (i : nat) : list action :=
  [Gen i] ++ count_actions cs i ++
  match p with PathZst => [ForgetIn i] | _ => [] end.

(** One iteration of the sample loop. [u]: the benchmarked function drops a
    by-value input before returning (anything else it may do with an owned
    value — keep it, send it away — is the complement). *)
Definition call_block (p : path) (r u : bool) (i : nat) : list action :=
  [Call i r (in_cell p)] ++ (if negb r && u then [UserDropIn i] else []) ++ [out_action p i].

(** [drop_input(cell)]: [assume_init_drop] for the [_refs] entry points,
    [|_input| {}] for the by-value ones. *)
Definition drop_input (r : bool) (i : nat) (c : cell) : list action :=
  if r then [DropIn i c] else [].

(** One iteration of the drop loop of the ZST path and of the slots path. *)
Definition drop_block (p : path) (sh : shape) (r : bool) (i : nat) : list action :=
  match p with
  | PathZst =>
      (if o_zst sh then [DropOut i Thin] else []) ++
      (if i_drop sh then drop_input r i Thin else [])
  | PathSlots =>
      [DropOut i InSlot] ++ (if i_drop sh then drop_input r i InSlot else [])
  | PathInputs => drop_input r i InSlot
  end.

(** The drop phase; in the inputs-only path the [if needs_drop::<I>()] is outside the loop. *)
Definition drop_phase (p : path) (sh : shape) (r : bool) (n : nat) : list action :=
  match p with
  | PathInputs => if i_drop sh then flat_map (drop_block p sh r) (seq 0 n) else []
  | _ => flat_map (drop_block p sh r) (seq 0 n)
  end.

Definition gen_phase (p : path) (cs : counters) (n : nat) : list action :=
  flat_map (gen_block p cs) (seq 0 n).

Definition call_phase (p : path) (r u : bool) (n : nat) : list action :=
  flat_map (call_block p r u) (seq 0 n).

(** The sample, given the resolved path / shape / mode. *)
Definition sample_core (p : path) (sh : shape) (cs : counters) (r u : bool) (n : nat) : list action :=
  gen_phase p cs n ++ [SyncStart; TsStart] ++ call_phase p r u n ++
  [TsEnd; SyncEnd; Snapshot] ++ drop_phase p sh r n.

(** [sample_recorder]'s closure for entry point [e], declared type shape [sh],
    sample size [n], input counters [cs]. *)
Definition sample_prog (e : entry) (sh : shape) (n : nat) (cs : counters) (u : bool) : list action :=
  let s := eff_shape e sh in
  sample_core (path_of s) s (eff_counters e cs) (by_ref e) u n.

(** * Memory discipline: abstract store of input and output cells *)

Inductive ist := IUninit | IInit | IForgotten | IMoved | IDropped.
Inductive ost := OUninit | OHand | OInit | OForgotten | ODropped.

Definition store := nat -> ist * ost.
Definition empty_store : store := fun _ => (IUninit, OUninit).

Definition upd {A} (f : nat -> A) (i : nat) (v : A) : nat -> A :=
  fun j => if Nat.eqb j i then v else f j.

(** Misuse of a cell = undefined behaviour in the real code. *)
Inductive fault :=
| UseUninit | UseAfterMove | UseAfterDrop | DoubleDrop | Overwrite | BadCell | OutputNotInHand.

Inductive sres (A : Type) := SOk (a : A) | SFault (f : fault) (at_index : nat).
Arguments SOk {A} _.
Arguments SFault {A} _ _.

(** A live input is read through a cell: a slot must hold it ([IInit]); a
    thin-air ZST cell is legitimate only as the re-materialisation of a value
    that was [mem::forget]-ed ([IForgotten]). *)
Definition in_use_fault (c : cell) (s : ist) : option fault :=
  match s, c with
  | IInit, InSlot => None
  | IForgotten, Thin => None
  | IInit, Thin | IForgotten, InSlot => Some BadCell
  | IUninit, _ => Some UseUninit
  | IMoved, _ => Some UseAfterMove
  | IDropped, _ => Some UseAfterDrop
  end.

Definition in_drop_fault (c : cell) (s : ist) : option fault :=
  match s with
  | IDropped => Some DoubleDrop
  | _ => in_use_fault c s
  end.

Definition out_drop_fault (c : cell) (s : ost) : option fault :=
  match s, c with
  | OInit, InSlot => None
  | OForgotten, Thin => None
  | OInit, Thin | OForgotten, InSlot => Some BadCell
  | OUninit, _ => Some UseUninit
  | OHand, _ => Some OutputNotInHand
  | ODropped, _ => Some DoubleDrop
  end.

(** The index of the cell an action works on. *)
Definition act_index (a : action) : option nat :=
  match a with
  | Gen i | Count _ i | ForgetIn i | Call i _ _ | UserDropIn i | StoreOut i | ForgetOut i
  | DiscardOut i | DropOut i _ | DropIn i _ | CallPanic i _ _ => Some i
  | GenPanic _ | SyncStart | TsStart | TsEnd | SyncEnd | Snapshot | GuardWait => None
  end.

(** Effect of an action on the (input cell, output cell) pair it works on. *)
Definition cell_step (v : ist * ost) (a : action) : fault + ist * ost :=
  let si := fst v in
  let so := snd v in
  match a with
  | Gen _ =>
      match si with IUninit => inr (IInit, so) | _ => inl Overwrite end
  | Count _ _ =>
      match in_use_fault InSlot si with Some f => inl f | None => inr v end
  | ForgetIn _ =>
      match in_use_fault InSlot si with Some f => inl f | None => inr (IForgotten, so) end
  | Call _ r c =>
      match in_use_fault c si with
      | Some f => inl f
      | None =>
          match so with
          | OUninit => inr (if r then si else IMoved, OHand)
          | _ => inl Overwrite
          end
      end
  | CallPanic _ r c =>
      match in_use_fault c si with
      | Some f => inl f
      | None => inr (if r then si else IDropped, so)   (* an owned argument dies with the unwinding callee *)
      end
  | UserDropIn _ =>
      match si with
      | IMoved => inr (IDropped, so)
      | IDropped => inl DoubleDrop
      | _ => inl BadCell
      end
  | StoreOut _ => match so with OHand => inr (si, OInit) | _ => inl OutputNotInHand end
  | ForgetOut _ => match so with OHand => inr (si, OForgotten) | _ => inl OutputNotInHand end
  | DiscardOut _ => match so with OHand => inr (si, ODropped) | _ => inl OutputNotInHand end
  | DropOut _ c =>
      match out_drop_fault c so with Some f => inl f | None => inr (si, ODropped) end
  | DropIn _ c =>
      match in_drop_fault c si with Some f => inl f | None => inr (IDropped, so) end
  | GenPanic _ | SyncStart | TsStart | TsEnd | SyncEnd | Snapshot | GuardWait => inr v
  end.

Definition exec_step (s : store) (a : action) : sres store :=
  match act_index a with
  | None => SOk s
  | Some i =>
      match cell_step (s i) a with
      | inl f => SFault f i
      | inr v => SOk (upd s i v)
      end
  end.

Fixpoint exec (l : list action) (s : store) : sres store :=
  match l with
  | [] => SOk s
  | a :: rest =>
      match exec_step s a with
      | SOk s' => exec rest s'
      | SFault f i => SFault f i
      end
  end.

Definition exec_ok (l : list action) : bool :=
  match exec l empty_store with SOk _ => true | SFault _ _ => false end.

(** * Observable events (what user closures, destructors and the hooks see) *)

Inductive oev (A : Type) :=
| OGen (id : A)
| OCount (k : ckind) (id : A)
| OBarArrive (b : nat)          (* 1 = start, 2 = after clear, 0 = end, 3 = by the guard while unwinding *)
| OBarLeave (b : nat)
| OClear
| OTsStart
| OCall (in_id out_id : A)
| OUDropIn (id : A)             (* Drop of an input inside the benchmarked function *)
| OTsEnd
| OSnapshot
| ODropOut (id : A)
| ODropIn (id : A)              (* Drop of an input outside the benchmarked function *)
| OCallPanic (in_id : A)
| OGenPanic.
Arguments OGen {A} _.
Arguments OCount {A} _ _.
Arguments OBarArrive {A} _.
Arguments OBarLeave {A} _.
Arguments OClear {A}.
Arguments OTsStart {A}.
Arguments OCall {A} _ _.
Arguments OUDropIn {A} _.
Arguments OTsEnd {A}.
Arguments OSnapshot {A}.
Arguments ODropOut {A} _.
Arguments ODropIn {A} _.
Arguments OCallPanic {A} _.
Arguments OGenPanic {A}.

Definition map_ev {A B} (f g : A -> B) (e : oev A) : oev B :=
  match e with
  | OGen i => OGen (f i)
  | OCount k i => OCount k (f i)
  | OBarArrive b => OBarArrive b
  | OBarLeave b => OBarLeave b
  | OClear => OClear
  | OTsStart => OTsStart
  | OCall i o => OCall (f i) (g o)
  | OUDropIn i => OUDropIn (f i)
  | OTsEnd => OTsEnd
  | OSnapshot => OSnapshot
  | ODropOut o => ODropOut (g o)
  | ODropIn i => ODropIn (f i)
  | OCallPanic i => OCallPanic (f i)
  | OGenPanic => OGenPanic
  end.

(** Visibility: what has user code attached.  [v_gen]: user generator;
    [v_idrop]/[v_odrop]: the type has a [Drop] impl; [v_multi]: a barrier exists
    ([thread_count > 1]). *)
Record vis := mkVis { v_gen : bool; v_idrop : bool; v_odrop : bool; v_multi : bool }.

Definition obs1 (v : vis) (a : action) : list (oev nat) :=
  match a with
  | Gen i => if v_gen v then [OGen i] else []
  | Count k i => [OCount k i]
  | ForgetIn _ => []
  | SyncStart =>
      if v_multi v then [OBarArrive 1; OBarLeave 1; OClear; OBarArrive 2; OBarLeave 2] else [OClear]
  | TsStart => [OTsStart]
  | Call i _ _ => [OCall i i]
  | UserDropIn i => if v_idrop v then [OUDropIn i] else []
  | StoreOut _ | ForgetOut _ | DiscardOut _ => []
  | TsEnd => [OTsEnd]
  | SyncEnd => if v_multi v then [OBarArrive 0; OBarLeave 0] else []
  | Snapshot => [OSnapshot]
  | DropOut i _ => if v_odrop v then [ODropOut i] else []
  | DropIn i _ => if v_idrop v then [ODropIn i] else []
  | CallPanic i r _ => OCallPanic i :: (if negb r && v_idrop v then [OUDropIn i] else [])
  | GenPanic _ => [OGenPanic]
  | GuardWait => if v_multi v then [OBarArrive 3; OBarLeave 3] else []
  end.

Definition obs (v : vis) (l : list action) : list (oev nat) := flat_map (obs1 v) l.

Definition vis_of (e : entry) (sh : shape) (multi : bool) : vis :=
  let s := eff_shape e sh in mkVis (has_gen e) (i_drop s) (o_drop s) multi.

(** * The property as a monitor over observable events of ONE sample *)

(** Life of a generated input / of an output, as the property speaks of them. *)
Inductive ival := VNone | VLive | VGiven | VDropped.
Inductive oval := WNone | WLive | WDropped.

Record vst := mkV { v_in : ival; v_cnt : counters; v_out : oval }.
Definition vst0 : vst := mkV VNone no_counters WNone.

Inductive phase := PPre | PCleared | PTimed | PEnded | PPost.

Record mcfg := mkM {
  m_gen : bool;        (* a user generator exists (otherwise the input is [()]) *)
  m_cs : counters;     (* input counters set *)
  m_ref : bool;        (* inputs are lent by reference *)
  m_idrop : bool;      (* the input type has a destructor *)
  m_odrop : bool;      (* the output type has a destructor *)
  m_n : nat            (* sample size *)
}.

Record mstate := mkS { ph : phase; vals : nat -> vst; ncall : nat }.
Definition mstate0 : mstate := mkS PPre (fun _ => vst0) 0.

Definition set_cnt (cs : counters) (k : ckind) : counters :=
  match k with
  | Bytes => mkCs true (c_chars cs) (c_cycles cs) (c_items cs)
  | Chars => mkCs (c_bytes cs) true (c_cycles cs) (c_items cs)
  | Cycles => mkCs (c_bytes cs) (c_chars cs) true (c_items cs)
  | Items => mkCs (c_bytes cs) (c_chars cs) (c_cycles cs) true
  end.

Definition cs_eqb (a b : counters) : bool :=
  Bool.eqb (c_bytes a) (c_bytes b) && Bool.eqb (c_chars a) (c_chars b) &&
  Bool.eqb (c_cycles a) (c_cycles b) && Bool.eqb (c_items a) (c_items b).

Definition ival_eqb (a b : ival) : bool :=
  match a, b with
  | VNone, VNone | VLive, VLive | VGiven, VGiven | VDropped, VDropped => true
  | _, _ => false
  end.

Definition oval_eqb (a b : oval) : bool :=
  match a, b with
  | WNone, WNone | WLive, WLive | WDropped, WDropped => true
  | _, _ => false
  end.

Definition phase_eqb (a b : phase) : bool :=
  match a, b with
  | PPre, PPre | PCleared, PCleared | PTimed, PTimed | PEnded, PEnded | PPost, PPost => true
  | _, _ => false
  end.

(** Which clause of the property an event violates. *)
Inductive clause :=
| ClGenOnce          (* a value generated twice / outside the generation phase / index out of range *)
| ClCountOnce        (* counted twice, for a kind without counter, before its Gen, or after the start *)
| ClCallOnce         (* called out of order / twice / without having been generated and counted / outside the timed section *)
| ClTimedPure        (* something other than a call between the two timestamps *)
| ClOrder            (* clear/start/end/snapshot out of order *)
| ClDropOutOnce      (* output dropped twice / never produced / before the snapshot *)
| ClDropInOnce       (* lent input dropped twice / not live / before its output / before the snapshot *)
| ClByValueDropped   (* the framework dropped an input it had given away by value *)
| ClUserDrop         (* a drop inside a call of something the call does not own *)
| ClLeak             (* at the end: a value with a destructor that nobody dropped, or calls missing *)
| ClPanicEvent.      (* a panic marker in a run without injected panic *)

Definition in_ready (m : mcfg) (v : vst) : bool :=
  if m_gen m then ival_eqb (v_in v) VLive && cs_eqb (v_cnt v) (m_cs m)
  else ival_eqb (v_in v) VNone.

Definition ev_index (e : oev nat) : option nat :=
  match e with
  | OGen i | OCount _ i | OCall i _ | OUDropIn i | ODropOut i | ODropIn i | OCallPanic i => Some i
  | _ => None
  end.

(** Events about the value with index [i]: given the phase [p], the number of
    calls made so far [nc] and the life [v] of value [i], either the clause that
    is violated or the new life of the value and the new number of calls. *)
Definition mon_local (m : mcfg) (p : phase) (nc : nat) (i : nat) (v : vst) (e : oev nat)
  : clause + vst * nat :=
  let timed := phase_eqb p PTimed in
  match e with
  | OGen _ =>
      (* generated once, before the tally is cleared *)
      if m_gen m && phase_eqb p PPre && (i <? m_n m) && ival_eqb (v_in v) VNone
      then inr (mkV VLive (v_cnt v) (v_out v), nc)
      else inl (if timed then ClTimedPure else ClGenOnce)
  | OCount k _ =>
      (* shown once to each counter that exists, after its generation, before the clear *)
      if phase_eqb p PPre && (i <? m_n m) && ival_eqb (v_in v) VLive
         && uses (m_cs m) k && negb (uses (v_cnt v) k)
      then inr (mkV (v_in v) (set_cnt (v_cnt v) k) (v_out v), nc)
      else inl (if timed then ClTimedPure else ClCountOnce)
  | OCall _ o =>
      (* inside the timed section, in generation order, once, after all counters *)
      if timed && (i <? m_n m) && Nat.eqb i nc && Nat.eqb o i
         && in_ready m v && oval_eqb (v_out v) WNone
      then inr (mkV (if m_gen m then (if m_ref m then VLive else VGiven) else VNone) (v_cnt v) WLive, S nc)
      else inl ClCallOnce
  | OUDropIn _ =>
      (* the benchmarked function drops what it was given by value, during its own call *)
      if timed && Nat.eqb (S i) nc && ival_eqb (v_in v) VGiven && m_idrop m
      then inr (mkV VDropped (v_cnt v) (v_out v), nc)
      else inl ClUserDrop
  | ODropOut _ =>
      (* after the snapshot, once, only an output that exists *)
      if phase_eqb p PPost && (i <? m_n m) && m_odrop m && oval_eqb (v_out v) WLive
      then inr (mkV (v_in v) (v_cnt v) WDropped, nc)
      else inl (if timed then ClTimedPure else ClDropOutOnce)
  | ODropIn _ =>
      (* only lent inputs, after the snapshot, once, after the output computed from it *)
      if negb (m_ref m) then inl (if timed then ClTimedPure else ClByValueDropped)
      else if phase_eqb p PPost && (i <? m_n m) && m_idrop m && ival_eqb (v_in v) VLive
              && oval_eqb (v_out v) (if m_odrop m then WDropped else WLive)
      then inr (mkV VDropped (v_cnt v) (v_out v), nc)
      else inl (if timed then ClTimedPure else ClDropInOnce)
  | _ => inl ClPanicEvent
  end.

(** Events that are not about a value: the new phase. *)
Definition mon_global (m : mcfg) (p : phase) (nc : nat) (e : oev nat) : clause + phase :=
  match e with
  | OBarArrive _ | OBarLeave _ => if phase_eqb p PTimed then inl ClTimedPure else inr p
  | OClear => if phase_eqb p PPre then inr PCleared else inl ClOrder
  | OTsStart => if phase_eqb p PCleared then inr PTimed else inl ClOrder
  | OTsEnd =>
      if phase_eqb p PTimed then (if Nat.eqb nc (m_n m) then inr PEnded else inl ClLeak)
      else inl ClOrder
  | OSnapshot => if phase_eqb p PEnded then inr PPost else inl ClOrder
  | _ => inl ClPanicEvent
  end.

Definition mon_step (m : mcfg) (s : mstate) (e : oev nat) : clause + mstate :=
  match ev_index e with
  | Some i =>
      match mon_local m (ph s) (ncall s) i (vals s i) e with
      | inl c => inl c
      | inr (v, nc) => inr (mkS (ph s) (upd (vals s) i v) nc)
      end
  | None =>
      match mon_global m (ph s) (ncall s) e with
      | inl c => inl c
      | inr p => inr (mkS p (vals s) (ncall s))
      end
  end.

Inductive mres := MOk (s : mstate) | MBad (c : clause) (pos : nat).

Fixpoint mon_run (m : mcfg) (l : list (oev nat)) (s : mstate) (pos : nat) : mres :=
  match l with
  | [] => MOk s
  | e :: rest =>
      match mon_step m s e with
      | inr s' => mon_run m rest s' (S pos)
      | inl c => MBad c pos
      end
  end.

(** At the end of the sample: every value with a destructor that the framework
    still owned was dropped; nothing else was. *)
Definition final_val (m : mcfg) (v : vst) : bool :=
  (if m_gen m then
     if m_ref m then (if m_idrop m then ival_eqb (v_in v) VDropped else ival_eqb (v_in v) VLive)
     else ival_eqb (v_in v) VGiven || ival_eqb (v_in v) VDropped
   else ival_eqb (v_in v) VNone)
  && oval_eqb (v_out v) (if m_odrop m then WDropped else WLive).

Definition mon_final (m : mcfg) (s : mstate) : bool :=
  phase_eqb (ph s) PPost && Nat.eqb (ncall s) (m_n m) &&
  forallb (fun i => final_val m (vals s i)) (seq 0 (m_n m)).

(** [sb_sample m l]: the observable events [l] of one sample satisfy C01's
    per-sample clauses and C02's ordering clauses. *)
Definition sb_sample (m : mcfg) (l : list (oev nat)) : bool :=
  match mon_run m l mstate0 0 with
  | MOk s => mon_final m s
  | MBad _ _ => false
  end.

Definition mcfg_of (e : entry) (sh : shape) (n : nat) (cs : counters) : mcfg :=
  let s := eff_shape e sh in
  mkM (has_gen e) (eff_counters e cs) (by_ref e) (i_drop s) (o_drop s) n.

(** * C02: the timed section, stated directly on event lists *)

Definition is_pre_ev {A} (e : oev A) : bool :=
  match e with OGen _ | OCount _ _ | OBarArrive _ | OBarLeave _ | OClear => true | _ => false end.

Definition is_timed_ev {A} (e : oev A) : bool :=
  match e with OCall _ _ | OUDropIn _ => true | _ => false end.

Definition is_post_ev {A} (e : oev A) : bool :=
  match e with ODropOut _ | ODropIn _ => true | _ => false end.

Definition is_end_sync_ev {A} (e : oev A) : bool :=
  match e with OBarArrive _ | OBarLeave _ => true | _ => false end.

Fixpoint split_at {A} (p : A -> bool) (l : list A) : list A * option (A * list A) :=
  match l with
  | [] => ([], None)
  | x :: r => if p x then ([], Some (x, r))
              else let '(a, b) := split_at p r in (x :: a, b)
  end.

Definition is_ts_start {A} (e : oev A) : bool := match e with OTsStart => true | _ => false end.
Definition is_ts_end {A} (e : oev A) : bool := match e with OTsEnd => true | _ => false end.
Definition is_snapshot {A} (e : oev A) : bool := match e with OSnapshot => true | _ => false end.
Definition is_clear {A} (e : oev A) : bool := match e with OClear => true | _ => false end.

(** [l = pre ++ OTsStart :: timed ++ OTsEnd :: sync ++ OSnapshot :: post] with
    [pre] only generation / counting / start synchronisation including exactly
    one clear, [timed] only calls (and what the called function does itself),
    [sync] only the end barrier, [post] only drops. *)
Definition sb_timed {A} (l : list (oev A)) : bool :=
  match split_at is_ts_start l with
  | (pre, Some (_, r1)) =>
      match split_at is_ts_end r1 with
      | (timed, Some (_, r2)) =>
          match split_at is_snapshot r2 with
          | (sync, Some (_, post)) =>
              forallb is_pre_ev pre && Nat.eqb (length (filter is_clear pre)) 1
              && forallb is_timed_ev timed && forallb is_end_sync_ev sync && forallb is_post_ev post
          | _ => false
          end
      | _ => false
      end
  | _ => false
  end.

(** * C02: allocation attribution *)

Inductive aop := Alloc (size : N) | Dealloc (size : N) | Realloc (old new : N).

(** The figures of [ThreadAllocInfo] ([tallies] in [AllocOp::ALL] order grow,
    shrink, alloc, dealloc; then the current/max pairs).  Unbounded integers:
    the width/overflow behaviour of the tally arithmetic is C10's subject. *)
Record figures := mkF {
  f_grow : N * N; f_shrink : N * N; f_alloc : N * N; f_dealloc : N * N;
  f_cur_count : Z; f_max_count : Z; f_cur_size : Z; f_max_size : Z
}.

Definition figures0 : figures := mkF (0, 0)%N (0, 0)%N (0, 0)%N (0, 0)%N 0 0 0 0.

Definition bump (t : N * N) (size : N) : N * N := (fst t + 1, snd t + size)%N.

Definition tally_step (f : figures) (o : aop) : figures :=
  match o with
  | Alloc sz =>
      let cc := (f_cur_count f + 1)%Z in
      let cs := (f_cur_size f + Z.of_N sz)%Z in
      mkF (f_grow f) (f_shrink f) (bump (f_alloc f) sz) (f_dealloc f)
          cc (Z.max (f_max_count f) cc) cs (Z.max (f_max_size f) cs)
  | Dealloc sz =>
      mkF (f_grow f) (f_shrink f) (f_alloc f) (bump (f_dealloc f) sz)
          (f_cur_count f - 1)%Z (f_max_count f) (f_cur_size f - Z.of_N sz)%Z (f_max_size f)
  | Realloc old new =>
      let cs := (f_cur_size f + (Z.of_N new - Z.of_N old))%Z in
      if (new <? old)%N then
        mkF (f_grow f) (bump (f_shrink f) (old - new)) (f_alloc f) (f_dealloc f)
            (f_cur_count f) (f_max_count f) cs (Z.max (f_max_size f) cs)
      else
        mkF (bump (f_grow f) (new - old)) (f_shrink f) (f_alloc f) (f_dealloc f)
            (f_cur_count f) (f_max_count f) cs (Z.max (f_max_size f) cs)
  end.

Definition tally_of (ops : list aop) : figures := fold_left tally_step ops figures0.

(** Only user code allocates: generator, counters, benchmarked function,
    destructors.  The crate's own steps between clear and snapshot perform no
    allocator operation (checked by the zero-allocation runs of the
    correspondence). *)
Definition is_user (a : action) : bool :=
  match a with
  | Gen _ | Count _ _ | Call _ _ _ | UserDropIn _ | DropOut _ _ | DropIn _ _ => true
  | _ => false
  end.

Definition ops_of (script : action -> list aop) (a : action) : list aop :=
  if is_user a then script a else [].

(** Thread-local tally: operations since the last clear, and the copy taken by
    [save_alloc_info]. *)
Record tstate := mkT { t_cur : list aop; t_snap : option (list aop) }.
Definition tstate0 (before : list aop) : tstate := mkT before None.

Definition tally_act (script : action -> list aop) (t : tstate) (a : action) : tstate :=
  match a with
  | SyncStart => mkT [] (t_snap t)
  | Snapshot => mkT (t_cur t) (Some (t_cur t))
  | _ => mkT (t_cur t ++ ops_of script a) (t_snap t)
  end.

Definition run_tally (script : action -> list aop) (l : list action) (t : tstate) : tstate :=
  fold_left (tally_act script) l t.

Definition snapshot_figures (t : tstate) : option figures :=
  match t_snap t with Some ops => Some (tally_of ops) | None => None end.

(** The operations of the calls of a sample, in order. *)
Definition timed_ops (script : action -> list aop) (p : path) (r u : bool) (n : nat) : list aop :=
  flat_map (ops_of script) (call_phase p r u n).

(** * Placement of samples on threads (explicit sample size and count) *)

Record rcfg := mkR {
  r_entry : entry; r_shape : shape; r_cs : counters; r_udrop : bool;
  r_size : nat;        (* options.sample_size = Some r_size *)
  r_count : nat;       (* options.sample_count = Some r_count *)
  r_aux : nat;         (* configured thread count - 1 *)
  r_test : bool        (* Action::Test *)
}.

(** [bench_loop_local] overwrites [thread_count] with 1; otherwise the
    configured count is used. *)
Definition eff_aux (c : rcfg) : nat := if is_local (r_entry c) then 0 else r_aux c.

Definition eff_size (c : rcfg) : nat := if r_test c then 1 else r_size c.

(** [while rem_samples > 0 { one round on all threads; rem = rem.saturating_sub(1) per raw sample }]. *)
Fixpoint rounds_loop (fuel rem threads : nat) : nat :=
  match fuel with
  | O => 0
  | S f => if Nat.eqb rem 0 then 0 else S (rounds_loop f (rem - threads) threads)
  end.

Definition rounds (c : rcfg) : nat :=
  if Nat.eqb (r_size c) 0 || Nat.eqb (r_count c) 0 then 0     (* !has_samples() *)
  else if r_test c then 1
  else rounds_loop (r_count c) (r_count c) (S (eff_aux c)).

(** Every event of a run: (thread, round, action). *)
Definition run_events (c : rcfg) : list (nat * nat * action) :=
  flat_map (fun rd =>
    flat_map (fun t =>
      map (fun a => (t, rd, a))
          (sample_prog (r_entry c) (r_shape c) (eff_size c) (r_cs c) (r_udrop c)))
      (seq 0 (S (eff_aux c))))
    (seq 0 (rounds c)).

Definition run_threads (c : rcfg) : list nat := map (fun x => fst (fst x)) (run_events c).

(** Global identifiers: thread number in the high half, per-thread ordinal in the low half. *)
Definition gid (t : nat) (base : nat) (i : nat) : N :=
  (N.of_nat t * 4294967296 + N.of_nat (base + i))%N.

Definition run_vis (c : rcfg) : vis :=
  vis_of (r_entry c) (r_shape c) (negb (Nat.eqb (eff_aux c) 0)).

(** The expected log of thread [t]: the caller first reads the clock once
    ([initial_start], [skip_ext_time] unset); then one sample per round. *)
Definition thread_log (c : rcfg) (t : nat) : list (oev N) :=
  (if Nat.eqb t 0 && negb (Nat.eqb (rounds c) 0) then [OTsStart] else []) ++
  flat_map (fun rd =>
    let g := gid t (rd * eff_size c) in
    map (map_ev g g)
        (obs (run_vis c) (sample_prog (r_entry c) (r_shape c) (eff_size c) (r_cs c) (r_udrop c))))
    (seq 0 (rounds c)).

(** ** Injected panic: the benchmarked function panics at the [k]-th call of
    thread [pt] (per-thread ordinal over the whole run), or the generator at its
    [k]-th call. *)
Inductive psite := PanicCall | PanicGen.

Fixpoint cut_at_call (k : nat) (l : list action) : list action :=
  match l with
  | [] => []
  | Call i r c :: rest => if Nat.eqb i k then [CallPanic i r c] else Call i r c :: cut_at_call k rest
  | a :: rest => a :: cut_at_call k rest
  end.

Fixpoint cut_at_gen (k : nat) (l : list action) : list action :=
  match l with
  | [] => []
  | Gen i :: rest => if Nat.eqb i k then [GenPanic i] else Gen i :: cut_at_gen k rest
  | a :: rest => a :: cut_at_gen k rest
  end.

(** What unwinding out of [sample_recorder]'s closure runs.  On values:
    nothing — [DeferStore::drop] frees a [Vec] of [MaybeUninit] cells (no element
    destructor); the thin-air cells are [MaybeUninit]; the argument of a by-value
    call is owned by the unwinding benchmarked function ([CallPanic] covers it).
    [Drop for SampleBarrier] performs the barrier waits of this sample that were
    not reached: [remaining] starts at [WAIT_COUNT = 3], every [wait()] does
    [saturating_sub(1)] ([SyncStart] waits twice, [SyncEnd] once). Without a
    barrier ([thread_count = 1]) there is no guard: the waits are then invisible
    (see [obs1]). *)
Definition wait_count : nat := 3.

Fixpoint remaining_waits (l : list action) (rem : nat) : nat :=
  match l with
  | [] => rem
  | SyncStart :: rest => remaining_waits rest (rem - 2)
  | SyncEnd :: rest => remaining_waits rest (rem - 1)
  | _ :: rest => remaining_waits rest rem
  end.

Definition unwind_actions (ran : list action) : list action :=
  repeat GuardWait (remaining_waits ran wait_count).

Definition cut_prog (site : psite) (k : nat) (l : list action) : list action :=
  let ran := match site with PanicCall => cut_at_call k l | PanicGen => cut_at_gen k l end in
  ran ++ unwind_actions ran.

Definition thread_log_panic (c : rcfg) (site : psite) (pt k : nat) (t : nat) : list (oev N) :=
  let n := eff_size c in
  let prog := sample_prog (r_entry c) (r_shape c) n (r_cs c) (r_udrop c) in
  let total := rounds c * n in
  if Nat.eqb n 0 || negb (k <? total) || negb (pt <=? eff_aux c) then thread_log c t
  else
    let prd := Nat.div k n in      (* n <> 0 here *)
    (if Nat.eqb t 0 then [OTsStart] else []) ++
    flat_map (fun rd =>
      let g := gid t (rd * n) in
      map (map_ev g g)
          (obs (run_vis c)
               (if Nat.eqb t pt && Nat.eqb rd prd then cut_prog site (Nat.modulo k n) prog else prog)))
      (seq 0 (S prd)).

(** * Specification over the log of a whole thread *)

(** Cut a thread's log into samples: after an end timestamp, the first event
    of a generation/synchronisation/start kind opens the next sample. *)
Definition opens_sample {A} (e : oev A) : bool :=
  match e with
  | OGen _ | OCount _ _ | OClear | OTsStart => true
  | OBarArrive b | OBarLeave b => Nat.eqb b 1
  | _ => false
  end.

Fixpoint split_samples_aux {A} (l : list (oev A)) (cur : list (oev A)) (ended : bool)
  : list (list (oev A)) :=
  match l with
  | [] => match cur with [] => [] | _ => [rev cur] end
  | e :: rest =>
      if ended && opens_sample e then rev cur :: split_samples_aux rest [e] false
      else split_samples_aux rest (e :: cur) (ended || is_ts_end e)
  end.

Definition split_samples {A} (l : list (oev A)) : list (list (oev A)) :=
  split_samples_aux l [] false.

(** Global id -> index inside the sample with base [base]; ids of another
    thread or another sample map to the out-of-range index [n]. *)
Definition localize (t base n : nat) (id : N) : nat :=
  let lo := gid t base 0 in
  if (lo <=? id)%N && (id <? lo + N.of_nat n)%N then N.to_nat (id - lo) else n.

Fixpoint sb_samples (m : mcfg) (t : nat) (k : nat) (ss : list (list (oev N))) : bool :=
  match ss with
  | [] => true
  | s :: rest =>
      let f := localize t (k * m_n m) (m_n m) in
      sb_sample m (map (map_ev f f) s) && sb_timed s && sb_samples m t (S k) rest
  end.

(** The caller's log starts with the read of [initial_start]. *)
Definition strip_initial (t : nat) (l : list (oev N)) : option (list (oev N)) :=
  if Nat.eqb t 0 then
    match l with
    | [] => Some []
    | OTsStart :: rest => Some rest
    | _ => None
    end
  else Some l.

Definition ev_thread_ok (t : nat) (e : oev N) : bool :=
  let okid id := (id / 4294967296 =? N.of_nat t)%N in
  match e with
  | OGen i | OCount _ i | OUDropIn i | ODropIn i | OCallPanic i => okid i
  | OCall i o => okid i && okid o
  | ODropOut o => okid o
  | _ => true
  end.

(** Full per-thread specification of a run without panic: thread [t] ran
    [expected] samples, each satisfying the per-sample clauses, on values of its
    own; threads that must not take part have an empty log. *)
Definition sb_thread (c : rcfg) (t : nat) (l : list (oev N)) : bool :=
  let m := mcfg_of (r_entry c) (r_shape c) (eff_size c) (r_cs c) in
  if eff_aux c <? t then match l with [] => true | _ => false end
  else
    match strip_initial t l with
    | None => false
    | Some l' =>
        let ss := split_samples l' in
        Nat.eqb (length ss) (rounds c) && forallb (ev_thread_ok t) l' && sb_samples m t 0 ss
    end.

(** ** Under a panic: nothing is dropped twice, nothing is used after its drop *)

Record ndstate := mkND { nd_in : list N; nd_out : list N }.   (* dropped ids *)

Definition memN (x : N) (l : list N) : bool := existsb (N.eqb x) l.

Definition nd_step (s : ndstate) (e : oev N) : option ndstate :=
  match e with
  | OCount _ i | OCallPanic i => if memN i (nd_in s) then None else Some s
  | OCall i o => if memN i (nd_in s) || memN o (nd_out s) then None else Some s
  | OUDropIn i | ODropIn i => if memN i (nd_in s) then None else Some (mkND (i :: nd_in s) (nd_out s))
  | ODropOut o => if memN o (nd_out s) then None else Some (mkND (nd_in s) (o :: nd_out s))
  | _ => Some s
  end.

Fixpoint nd_run (l : list (oev N)) (s : ndstate) : bool :=
  match l with
  | [] => true
  | e :: rest => match nd_step s e with Some s' => nd_run rest s' | None => false end
  end.

Definition sb_nodouble (l : list (oev N)) : bool := nd_run l (mkND [] []).

(** The same on sample-local indices (used by the theorem on the model). *)
Record ndl := mkNDL { ndl_in : nat -> bool; ndl_out : nat -> bool }.

Definition ndl_step (s : ndl) (e : oev nat) : option ndl :=
  match e with
  | OCount _ i | OCallPanic i => if ndl_in s i then None else Some s
  | OCall i o => if ndl_in s i || ndl_out s o then None else Some s
  | OUDropIn i | ODropIn i => if ndl_in s i then None else Some (mkNDL (upd (ndl_in s) i true) (ndl_out s))
  | ODropOut o => if ndl_out s o then None else Some (mkNDL (ndl_in s) (upd (ndl_out s) o true))
  | _ => Some s
  end.

Fixpoint ndl_run (l : list (oev nat)) (s : ndl) : bool :=
  match l with
  | [] => true
  | e :: rest => match ndl_step s e with Some s' => ndl_run rest s' | None => false end
  end.

Definition sb_nodouble_local (l : list (oev nat)) : bool :=
  ndl_run l (mkNDL (fun _ => false) (fun _ => false)).

(** * Allocation scripts of the correspondence check *)

(** [TA n]: allocate [n] bytes (pushed); [TD]: free the top; [TG n]/[TS n]:
    grow/shrink the top to [n] bytes (realloc); what is left is leaked.
    [TK] (generator script): keep the top buffer for the call that will get this
    input — no allocator operation, the buffer leaves the script's stack;
    [TT] (call script): take the next buffer the generator kept — no allocator
    operation, it is now the top.  So a call can resize or free memory that was
    allocated outside the timed section. *)
Inductive tok := TA (n : N) | TD | TG (n : N) | TS (n : N) | TK | TT
               | TR            (* [GlobalAlloc::realloc] of the top buffer to its own size: one grow of 0 bytes *)
               | TZ (n : N).   (* allocate [n] zero-initialised bytes: [GlobalAlloc::alloc_zeroed], tallied as an allocation *)

Fixpoint interp (l : list tok) (stack : list N) (kept : list N) : list aop :=
  match l with
  | [] => []
  | TA n :: r | TZ n :: r => Alloc n :: interp r (n :: stack) kept
  | TD :: r => match stack with s :: st => Dealloc s :: interp r st kept | [] => interp r [] kept end
  | TG n :: r | TS n :: r =>
      match stack with s :: st => Realloc s n :: interp r (n :: st) kept | [] => interp r [] kept end
  | TR :: r => match stack with s :: st => Realloc s s :: interp r (s :: st) kept | [] => interp r [] kept end
  | TK :: r => match stack with _ :: st => interp r st kept | [] => interp r [] kept end
  | TT :: r => match kept with s :: ks => interp r (s :: stack) ks | [] => interp r stack [] end
  end.

(** Sizes of the buffers a script keeps, in the order kept. *)
Fixpoint kept_of (l : list tok) (stack : list N) : list N :=
  match l with
  | [] => []
  | TA n :: r | TZ n :: r => kept_of r (n :: stack)
  | TD :: r => match stack with _ :: st => kept_of r st | [] => kept_of r [] end
  | TG n :: r | TS n :: r => match stack with _ :: st => kept_of r (n :: st) | [] => kept_of r [] end
  | TK :: r => match stack with s :: st => s :: kept_of r st | [] => kept_of r [] end
  | TT :: r | TR :: r => kept_of r stack
  end.

Record scripts := mkScr {
  sc_gen : list tok; sc_count : list tok; sc_call : list tok; sc_dropout : list tok; sc_dropin : list tok
}.

(** Which user code runs at an action, hence which script: destructor scripts
    only for types that have a destructor, the generator script only for a user
    generator. *)
Definition script_fn (v : vis) (s : scripts) (a : action) : list aop :=
  match a with
  | Gen _ => if v_gen v then interp (sc_gen s) [] [] else []
  | Count _ _ => interp (sc_count s) [] []
  | Call _ _ _ => interp (sc_call s) [] (if v_gen v then kept_of (sc_gen s) [] else [])
  | UserDropIn _ | DropIn _ _ => if v_idrop v then interp (sc_dropin s) [] [] else []
  | DropOut _ _ => if v_odrop v then interp (sc_dropout s) [] [] else []
  | _ => []
  end.

Definition figures_empty (f : figures) : bool :=
  let z t := (fst t =? 0)%N && (snd t =? 0)%N in
  z (f_grow f) && z (f_shrink f) && z (f_alloc f) && z (f_dealloc f).

(** The figures a sample of the run reports: the tally is threaded through the
    whole sample, starting from whatever was tallied [before]. *)
Definition sample_figures (c : rcfg) (s : scripts) (before : list aop) : option figures :=
  snapshot_figures
    (run_tally (script_fn (run_vis c) s)
               (sample_prog (r_entry c) (r_shape c) (eff_size c) (r_cs c) (r_udrop c))
               (tstate0 before)).

(** What the specification says they must be: the tally of the calls' operations. *)
Definition spec_figures (c : rcfg) (s : scripts) : figures :=
  let sh := eff_shape (r_entry c) (r_shape c) in
  tally_of (timed_ops (script_fn (run_vis c) s) (path_of sh) (by_ref (r_entry c)) (r_udrop c) (eff_size c)).

(** [alloc_info_by_sample]: one entry per recorded sample whose tallies are not
    all zero; nothing is recorded in test mode. Sample index = round * threads + thread. *)
Definition run_alloc_infos (c : rcfg) (f : option figures) : list (nat * figures) :=
  match f with
  | None => []
  | Some f =>
      if r_test c || figures_empty f then []
      else map (fun i => (i, f)) (seq 0 (rounds c * S (eff_aux c)))
  end.

(** Does the injected panic fire? *)
Definition panic_fires (c : rcfg) (site : psite) (pt k : nat) : bool :=
  negb (Nat.eqb (eff_size c) 0) && (k <? rounds c * eff_size c) && (pt <=? eff_aux c).

(** * Runs with an arbitrary list of round sizes (tuned sample size)

    Without an explicit [sample_size] the loop starts in [Tune { sample_size: 1 }]
    and doubles the size round after round, then collects with the size reached:
    a run is the concatenation, per thread, of sample programs of sizes
    [n_0, n_1, ...] — which sizes is group [loop]'s subject (C19); here the list
    is a parameter (taken from the recorded history in the correspondence check).
    The same input counters are registered in every round. *)

Fixpoint thread_log_rounds (c : rcfg) (t : nat) (sizes : list nat) (base : nat) : list (oev N) :=
  match sizes with
  | [] => []
  | n :: rest =>
      let g := gid t base in
      map (map_ev g g) (obs (run_vis c) (sample_prog (r_entry c) (r_shape c) n (r_cs c) (r_udrop c)))
      ++ thread_log_rounds c t rest (base + n)
  end.

Definition thread_log_sizes (c : rcfg) (sizes : list nat) (t : nat) : list (oev N) :=
  (if Nat.eqb t 0 then match sizes with [] => [] | _ => [OTsStart] end else []) ++
  thread_log_rounds c t sizes 0.

Fixpoint sb_samples_sizes (c : rcfg) (t base : nat) (sizes : list nat) (ss : list (list (oev N))) : bool :=
  match sizes, ss with
  | [], [] => true
  | n :: rest, s :: rs =>
      let m := mcfg_of (r_entry c) (r_shape c) n (r_cs c) in
      let f := localize t base n in
      sb_sample m (map (map_ev f f) s) && sb_timed s && sb_samples_sizes c t (base + n) rest rs
  | _, _ => false
  end.

(** Thread [t] ran one sample per element of [sizes], in that order, each of
    the given size and each satisfying the per-sample clauses with the run's
    counter set — in every round. *)
Definition sb_thread_sizes (c : rcfg) (sizes : list nat) (t : nat) (l : list (oev N)) : bool :=
  if eff_aux c <? t then match l with [] => true | _ => false end
  else
    match strip_initial t l with
    | None => false
    | Some l' => forallb (ev_thread_ok t) l' && sb_samples_sizes c t 0 sizes (split_samples l')
    end.

(** Call script limited to the calls whose per-thread ordinal is below [lim]. *)
Definition script_fn_lim (v : vis) (s : scripts) (lim : option nat) (base : nat) (a : action) : list aop :=
  match a, lim with
  | Call i _ _, Some l => if base + i <? l then script_fn v s a else []
  | _, _ => script_fn v s a
  end.

Definition sample_figures_at (c : rcfg) (s : scripts) (lim : option nat) (n base : nat) (before : list aop)
  : option figures :=
  snapshot_figures
    (run_tally (script_fn_lim (run_vis c) s lim base)
               (sample_prog (r_entry c) (r_shape c) n (r_cs c) (r_udrop c))
               (tstate0 before)).

Definition spec_figures_at (c : rcfg) (s : scripts) (lim : option nat) (n base : nat) : figures :=
  let sh := eff_shape (r_entry c) (r_shape c) in
  tally_of (timed_ops (script_fn_lim (run_vis c) s lim base) (path_of sh) (by_ref (r_entry c)) (r_udrop c) n).

(** * Which input counters are in force: the sequence of counter calls on the bencher

    [Bencher::input_counter(f)] / [count_inputs_as::<K>()] register a counter of
    kind [K] computed from each input ([set_input_counter]: replaces whatever was
    there for [K]); [Bencher::counter(c)] sets a constant of [c]'s kind
    ([set_counter]: replaces whatever was there for that kind, including an
    input-based counter).  Kinds are independent: a call touches its own kind
    only.  [logged]: the closure is user code (visible in the event log);
    [count_inputs_as] uses a closure of the crate itself. *)
Inductive ccall := CInput (k : ckind) (logged : bool) | CConst (k : ckind).
Inductive kstat := KNone | KConst | KInput (logged : bool).

Definition kind_eqb (a b : ckind) : bool :=
  match a, b with
  | Bytes, Bytes | Chars, Chars | Cycles, Cycles | Items, Items => true
  | _, _ => false
  end.

Definition ccall_kind (c : ccall) : ckind := match c with CInput k _ | CConst k => k end.
Definition ccall_stat (c : ccall) : kstat := match c with CInput _ l => KInput l | CConst _ => KConst end.

Definition cc_step (st : ckind -> kstat) (c : ccall) : ckind -> kstat :=
  fun k => if kind_eqb k (ccall_kind c) then ccall_stat c else st k.

Definition resolve (l : list ccall) : ckind -> kstat := fold_left cc_step l (fun _ => KNone).

(** The kinds every generated input must be shown to; [only_logged]: those whose closure is user code. *)
Definition counters_in_force (st : ckind -> kstat) (only_logged : bool) : counters :=
  let on k := match st k with KInput l => if only_logged then l else true | _ => false end in
  mkCs (on Bytes) (on Chars) (on Cycles) (on Items).
