(** Model of [src/entry/tree.rs]: [EntryTree], [from_benches] / [insert_entry] /
    [from_path] / [get_children] (36-58, 290-345), [insert_group] (133-170),
    [display_name] (388-397), [bench_options] (369-378), [retain] (172-211).
    Executable definitions only. *)
From DivanV Require Import Base.Res Model.Registry.
Local Open Scope N_scope.

(** [args]: the code keeps [&'static &'static str] pointers into the names
    slice of the entry's [BenchArgsRunner]; the model keeps the indices. *)
Inductive tree :=
| Parent (raw : str) (group : option group_entry) (children : list tree)
| Leaf (e : any_entry) (args : option (list N)).

Definition is_nil {A} (l : list A) : bool := match l with [] => true | _ => false end.

(** [entry.arg_names().map(|args| args.iter().collect())] *)
Definition index_list (n : nat) : list N := map N.of_nat (seq 0 n).
Definition mk_leaf (e : any_entry) : tree :=
  Leaf e (match entry_runner e with
          | RPlain => None
          | RArgs _ vals => Some (index_list (length vals))
          end).

(** [from_path] *)
Fixpoint from_path (e : any_entry) (cur : str) (rest : list str) : tree :=
  Parent cur None [match rest with
                   | [] => mk_leaf e
                   | n :: r => from_path e n r
                   end].

Definition is_parent_named (m : str) (t : tree) : bool :=
  match t with Parent r _ _ => str_eqb r m | Leaf _ _ => false end.

(** Apply [f] to the first element satisfying [p]; [None] if there is none
    (the [find_map] of [get_children], the two loops of [insert_group]). *)
Fixpoint update_first (p : tree -> bool) (f : tree -> tree) (l : list tree) : option (list tree) :=
  match l with
  | [] => None
  | x :: tl => if p x then Some (f x :: tl)
               else match update_first p f tl with
                    | Some tl' => Some (x :: tl')
                    | None => None
                    end
  end.

Definition map_children (f : list tree -> list tree) (t : tree) : tree :=
  match t with Parent r g ch => Parent r g (f ch) | Leaf _ _ => t end.

(** [insert_entry] *)
Fixpoint insert_entry (path : list str) (e : any_entry) (t : list tree) {struct path} : list tree :=
  match path with
  | [] => t ++ [mk_leaf e]
  | m :: rest =>
      match update_first (is_parent_named m) (map_children (insert_entry rest e)) t with
      | Some t' => t'
      | None => t ++ [from_path e m rest]
      end
  end.

Definition from_benches (es : list any_entry) : list tree :=
  fold_left (fun t e => insert_entry (entry_path e) e t) es [].

(** [insert_group]: walk down along the group's module path (first parent whose
    raw name matches, at each level), then set the slot of the first parent
    whose raw name is the group's raw name.  No match: nothing happens. *)
Definition set_group (g : group_entry) (t : tree) : tree :=
  match t with Parent r _ ch => Parent r (Some g) ch | Leaf _ _ => t end.

Definition or_same (t : list tree) (o : option (list tree)) : list tree :=
  match o with Some t' => t' | None => t end.

Fixpoint descend (comps : list str) (k : list tree -> list tree) (t : list tree) : list tree :=
  match comps with
  | [] => k t
  | c :: rest => or_same t (update_first (is_parent_named c) (map_children (descend rest k)) t)
  end.

(** The final match compares modulo a leading "r#": [module_path!()] spells a
    raw-identifier module without the prefix when the name is not a keyword in the
    crate's edition ([mod r#try] in edition 2015 is [krate::try]) whereas the
    group's [raw_name] is the identifier as written. *)
Definition is_parent_named_raw (m : str) (t : tree) : bool :=
  match t with Parent r _ _ => str_eqb (strip_raw r) (strip_raw m) | Leaf _ _ => false end.

Definition insert_group (t : list tree) (g : group_entry) : list tree :=
  descend (module_components (g_meta g))
          (fun t => or_same t (update_first (is_parent_named_raw (m_raw (g_meta g))) (set_group g) t)) t.

Definition build_tree (benches : list bench_entry) (groups : list group_entry) : list tree :=
  fold_left insert_group groups (from_benches (all_entries benches groups)).

(** [meta], [bench_options], [display_name] *)
Definition node_meta (t : tree) : option meta :=
  match t with
  | Parent _ (Some g) _ => Some (g_meta g)
  | Parent _ None _ => None
  | Leaf e _ => Some (entry_meta e)
  end.

Definition node_opts (t : tree) : option opts :=
  match node_meta t with Some m => m_opts m | None => None end.

Definition display_name (t : tree) : str :=
  match t with
  | Leaf e _ => entry_display e
  | Parent _ (Some g) _ => m_display (g_meta g)
  | Parent raw None _ => strip_raw raw
  end.

(** Paths as [retain] and [run_tree_list] build them: no separator after an
    empty parent path. *)
Definition join_path (parent name : str) : str :=
  if is_nil parent then name else parent ++ s_colons ++ name.

(** The name an argument pointer points to.  (A dereference, not an indexing
    operation: there is no panic site; [Proofs/Tree.v] shows the indices kept
    in trees are always in range, so the default is never used.) *)
Definition entry_arg_names (e : any_entry) : list str :=
  match entry_runner e with RPlain => [] | RArgs _ vals => arg_names vals end.
Definition arg_label (e : any_entry) (i : N) : str :=
  match nth_error (entry_arg_names e) (N.to_nat i) with Some s => s | None => [] end.
Definition arg_path (path : str) (e : any_entry) (i : N) : str :=
  path ++ s_colons ++ arg_label e i.

(** [retain] *)
Fixpoint retain_node (f : str -> bool) (pp : str) (t : tree) : list tree :=
  let path := join_path pp (display_name t) in
  match t with
  | Parent r g ch =>
      let ch' := flat_map (retain_node f path) ch in
      if is_nil ch' then [] else [Parent r g ch']
  | Leaf e None => if f path then [t] else []
  | Leaf e (Some args) =>
      let args' := filter (fun i => f (arg_path path e i)) args in
      if is_nil args' then [] else [Leaf e (Some args')]
  end.
Definition retain (f : str -> bool) (t : list tree) : list tree :=
  flat_map (retain_node f []) t.

(** All cases below a forest with their display paths, in tree order
    (what the filters address): (path, entry, argument index). *)
Fixpoint cases_node (pp : str) (t : tree) : list (str * any_entry * option N) :=
  let path := join_path pp (display_name t) in
  match t with
  | Parent _ _ ch => flat_map (cases_node path) ch
  | Leaf e None => [(path, e, None)]
  | Leaf e (Some args) => map (fun i => (arg_path path e i, e, Some i)) args
  end.
Definition cases (pp : str) (t : list tree) := flat_map (cases_node pp) t.

(** Leaves with the raw module path under which they hang (C12). *)
Fixpoint leaves_node (rp : list str) (t : tree) : list (list str * any_entry) :=
  match t with
  | Parent r _ ch => flat_map (leaves_node (rp ++ [r])) ch
  | Leaf e _ => [(rp, e)]
  end.
Definition leaves (t : list tree) := flat_map (leaves_node []) t.

(** Well-formedness kept by construction, [retain] and sorting: a leaf has an
    argument list iff its entry has an [Args] runner, the indices are in range. *)
Fixpoint wf_node (t : tree) : bool :=
  match t with
  | Parent _ _ ch => forallb wf_node ch
  | Leaf e None => match entry_runner e with RPlain => true | RArgs _ _ => false end
  | Leaf e (Some args) =>
      match entry_runner e with
      | RPlain => false
      | RArgs _ vals => forallb (fun i => i <? N.of_nat (length vals)) args
      end
  end.
Definition wf_forest (t : list tree) : bool := forallb wf_node t.
