(** Model of [SortingAttr::cmp_bench_arg_names] ([src/config/mod.rs:124-195],
    as it is after the three [fix:] commits 758f795, 1ce8e0b, 6cb0c72) and of the argument sorting in
    [EntryTree::sort_by_attr] ([src/entry/tree.rs:228-233]).

    Integer parsing ([str::parse::<u128>], [str::parse::<i128>]) is modelled
    exactly, ranges included.  [str::parse::<f64>] followed by the NaN filter is
    a parameter [fparse : bytes -> option V] with a comparison [vcmp] on its
    values (the [partial_cmp] of two non-NaN floats, which is never [None]);
    the proofs constrain it only by what they need.  [dec_parse] below is the
    instance used by the extracted model and by the specification: Rust's float
    grammar with the exact rational value of the literal.
    Executable definitions only; proofs are in Proofs/ArgCmp.v. *)

From Coq Require Import QArith.
From DivanV Require Import Base.Res Generated.Consts Model.Natural Model.SortBy.
Local Open Scope N_scope.

(** * [u128::from_str], [i128::from_str] (radix 10) *)

(** Sign handling of [from_ascii_radix]: a lone "+" or "-" is invalid; "+" is
    always accepted, "-" only by signed types (for unsigned types it is left in
    the digits and rejected there). *)
Definition int_digits_ok (d : bytes) : bool := negb (is_nil d) && all_digits d.

Definition parse_u128 (s : bytes) : option N :=
  match s with
  | [] => None
  | c :: r =>
      let d := if c =? 43 then r else s in
      if int_digits_ok d then
        let v := digits_val d in
        if v <? 2 ^ 128 then Some v else None
      else None
  end.

Definition parse_i128 (s : bytes) : option Z :=
  match s with
  | [] => None
  | c :: r =>
      let neg := c =? 45 in
      let d := if (c =? 43) || (c =? 45) then r else s in
      if int_digits_ok d then
        let v := digits_val d in
        if neg then (if v <=? 2 ^ 127 then Some (- Z.of_N v)%Z else None)
        else (if v <? 2 ^ 127 then Some (Z.of_N v) else None)
      else None
  end.

(** [x.parse::<i128>().is_ok_and(|x| x < 0)]. *)
Definition neg_i128 (s : bytes) : bool :=
  match parse_i128 s with
  | Some z => (z <? 0)%Z
  | None => false
  end.

(** The integer value of a name that parses as [u128] or [i128]. *)
Definition int_val (s : bytes) : option Z :=
  match parse_u128 s with
  | Some n => Some (Z.of_N n)
  | None => parse_i128 s
  end.

(** [s.parse::<u128>().is_ok() || s.parse::<i128>().is_ok()]. *)
Definition is_int (s : bytes) : bool :=
  match parse_u128 s with
  | Some _ => true
  | None => match parse_i128 s with Some _ => true | None => false end
  end.

(** [bool::cmp]: [false < true]. *)
Definition bool_cmp (a b : bool) : comparison :=
  match a, b with
  | false, true => Lt
  | true, false => Gt
  | _, _ => Eq
  end.

(** * The comparator *)

Section ArgCmp.
Variable V : Type.
Variable vcmp : V -> V -> comparison.
Variable fparse : bytes -> option V.

(** "Compare as floats" (among names equal as floats, integers come first:
    [is_int(b).cmp(&is_int(a))]), then the natural order. *)
Definition float_cmp (a b : bytes) : comparison :=
  match fparse a, fparse b with
  | Some x, Some y =>
      match vcmp x y with
      | Eq => bool_cmp (is_int b) (is_int a)
      | o => o
      end
  | Some _, None => Lt
  | None, Some _ => Gt
  | None, None => natural_cmp a b
  end.

(** The [SortingAttr::Name] arm. *)
Definition name_cmp (a b : bytes) : comparison :=
  match parse_u128 a, parse_u128 b with
  | Some x, Some y => x ?= y
  | Some _, None => if neg_i128 b then Gt else float_cmp a b
  | None, Some _ => if neg_i128 a then Lt else float_cmp a b
  | None, None =>
      match parse_i128 a, parse_i128 b with
      | Some x, Some y => (x ?= y)%Z
      | _, _ => float_cmp a b
      end
  end.

(** One attribute.  An argument is (position in the slice, name): the
    [Location] arm compares the addresses of two elements of one slice. *)
Definition arg_cmp_attr (attr : sort_attr) (x y : N * bytes) : comparison :=
  match attr with
  | SKind => Eq
  | SName => name_cmp (snd x) (snd y)
  | SLocation => fst x ?= fst y
  end.

(** [for attr in self.with_tie_breakers() { ... if ordering != Equal { return } }]. *)
Fixpoint cascade {A} (cs : list (A -> A -> comparison)) (x y : A) : comparison :=
  match cs with
  | [] => Eq
  | c :: r => match c x y with Eq => cascade r x y | o => o end
  end.

Definition arg_cmp (attr : sort_attr) : N * bytes -> N * bytes -> comparison :=
  cascade (map arg_cmp_attr (with_tie_breakers attr)).

(** [args.sort_by(|&a, &b| apply_reverse(attr.cmp_bench_arg_names(a, b)))];
    the result is given as the positions, in output order. *)
Definition sort_args (attr : sort_attr) (reverse : bool) (names : list bytes) : res (list N) :=
  do l <- sort_by (revc reverse (arg_cmp attr)) (indexed names);
  Ok (map fst l).

(** * Specification (declarative; does not go through the comparator's code)

    A name is a number (it has a value) or it is not.  Numbers come first, by
    value; among numbers of equal (float) value the integers come first, by
    their exact value, then the other spellings; other names follow in natural
    order (sequence of token keys). *)
Definition spec_name_cmp (a b : bytes) : comparison :=
  match fparse a, fparse b with
  | Some x, Some y =>
      match vcmp x y with
      | Eq => match int_val a, int_val b with
              | Some p, Some q => (p ?= q)%Z
              | Some _, None => Lt
              | None, Some _ => Gt
              | None, None => Eq
              end
      | o => o
      end
  | Some _, None => Lt
  | None, Some _ => Gt
  | None, None => natural_spec a b
  end.

(** "x is shown before y" in ascending order for the attribute: by kind and by
    name the name decides and the declaration order breaks ties (arguments all
    have the same kind); by location the declaration order decides. *)
Definition spec_before (attr : sort_attr) (x y : N * bytes) : bool :=
  match attr with
  | SLocation => fst x <? fst y
  | _ => match spec_name_cmp (snd x) (snd y) with
         | Lt => true
         | Eq => fst x <? fst y
         | Gt => false
         end
  end.

(** The output (positions) is a permutation of the input; read in the chosen
    direction it is strictly ascending for [spec_before] on every pair.
    [--sortr] is exactly the reverse of [--sort]. *)
Definition sort_sb (attr : sort_attr) (reverse : bool) (names : list bytes) (out : list N) : bool :=
  is_perm_of_range (N.of_nat (length names)) out &&
  let asc := if reverse then rev out else out in
  let elems := map (fun i => (i, match nth_opt names i with Some s => s | None => [] end)) asc in
  all_before (spec_before attr) elems.

(** What one comparison must answer. *)
Definition spec_arg_cmp (attr : sort_attr) (x y : N * bytes) : comparison :=
  match attr with
  | SLocation => fst x ?= fst y
  | _ => match spec_name_cmp (snd x) (snd y) with
         | Eq => fst x ?= fst y
         | o => o
         end
  end.

End ArgCmp.

(** * The float grammar of [core::num::dec2flt] with exact values *)

Inductive fval := FNegInf | FFin (q : Q) | FPosInf.

Definition fval_cmp (x y : fval) : comparison :=
  match x, y with
  | FNegInf, FNegInf => Eq
  | FNegInf, _ => Lt
  | _, FNegInf => Gt
  | FPosInf, FPosInf => Eq
  | FPosInf, _ => Gt
  | _, FPosInf => Lt
  | FFin p, FFin q => Qcompare p q
  end.

(** Longest prefix of ASCII digits and the rest ([try_parse_digits]). *)
Fixpoint span_digits (s : bytes) : bytes * bytes :=
  match s with
  | c :: r => if is_digit c then let (d, rest) := span_digits r in (c :: d, rest) else ([], s)
  | [] => ([], [])
  end.

Definition lower (c : N) : N := if (65 <=? c) && (c <=? 90) then c + 32 else c.

Fixpoint bytes_eqb (a b : bytes) : bool :=
  match a, b with
  | [], [] => true
  | x :: a', y :: b' => (x =? y) && bytes_eqb a' b'
  | _, _ => false
  end.

(** "inf" / "infinity", any case ([parse_inf_nan]); "nan" parses as NaN, which
    the comparator filters out, so it is simply not a number here. *)
Definition is_inf_word (s : bytes) : bool :=
  let l := map lower s in
  bytes_eqb l [105; 110; 102] || bytes_eqb l [105; 110; 102; 105; 110; 105; 116; 121].

(** [parse_scientific]: optional sign, at least one digit, nothing after. *)
Definition parse_exp (s : bytes) : option Z :=
  match s with
  | [] => None
  | c :: r =>
      let neg := c =? 45 in
      let d := if (c =? 43) || (c =? 45) then r else s in
      let (ed, rest) := span_digits d in
      if is_nil ed || negb (is_nil rest) then None
      else Some (if neg then - Z.of_N (digits_val ed) else Z.of_N (digits_val ed))%Z
  end.

(** [parse_number]: digits [. digits] [(e|E) exponent], at least one digit in
    the mantissa, the whole input consumed.  Result: mantissa digits as a
    number and the decimal exponent. *)
Definition parse_number (s : bytes) : option (N * Z) :=
  let (ip, r1) := span_digits s in
  let '(fp, r2) := match r1 with
                   | 46 :: r => span_digits r
                   | _ => ([], r1)
                   end in
  if is_nil ip && is_nil fp then None
  else
    let m := digits_val (ip ++ fp) in
    let e0 := (- Z.of_nat (length fp))%Z in
    match r2 with
    | [] => Some (m, e0)
    | c :: r3 =>
        if (c =? 101) || (c =? 69) then
          match parse_exp r3 with
          | Some e => Some (m, (e0 + e)%Z)
          | None => None
          end
        else None
    end.

(** [sign * m * 10^e] as a rational. *)
Definition dec_q (neg : bool) (m : N) (e : Z) : Q :=
  let z := if neg then (- Z.of_N m)%Z else Z.of_N m in
  Qmake (z * 10 ^ Z.max e 0)%Z (Z.to_pos (10 ^ Z.max (- e) 0)).

(** [s.parse::<f64>().ok().filter(|x| !x.is_nan())] with exact values. *)
Definition dec_parse (s : bytes) : option fval :=
  match s with
  | [] => None
  | c :: r =>
      let neg := c =? 45 in
      let body := if (c =? 43) || (c =? 45) then r else s in
      if is_nil body then None
      else match parse_number body with
           | Some (m, e) => Some (FFin (dec_q neg m e))
           | None => if is_inf_word body then Some (if neg then FNegInf else FPosInf) else None
           end
  end.

(** A recorded oracle: what [str::parse::<f64>] returned for each name of the
    case on the implementation side (history-driven runs), as an integer key
    that orders like the float ([-0.0] and [0.0] share a key; NaN and parse
    errors are [None]). *)
Fixpoint tbl_oracle (tbl : list (bytes * option Z)) (s : bytes) : option Z :=
  match tbl with
  | [] => None
  | (k, v) :: r => if bytes_eqb k s then v else tbl_oracle r s
  end.

Definition arg_cmp_tbl (tbl : list (bytes * option Z)) := arg_cmp Z Z.compare (tbl_oracle tbl).
Definition sort_args_tbl (tbl : list (bytes * option Z)) := sort_args Z Z.compare (tbl_oracle tbl).
Definition sort_sb_tbl (tbl : list (bytes * option Z)) := sort_sb Z Z.compare (tbl_oracle tbl).
Definition spec_arg_cmp_tbl (tbl : list (bytes * option Z)) := spec_arg_cmp Z Z.compare (tbl_oracle tbl).

(** The grammar of the recorded oracle is the modelled one: a name got a
    (non-NaN) float exactly when [dec_parse] accepts it. *)
Definition tbl_grammar_ok (tbl : list (bytes * option Z)) : bool :=
  forallb (fun kv => match snd kv, dec_parse (fst kv) with
                     | Some _, Some _ | None, None => true
                     | _, _ => false
                     end) tbl.

(** The instances the extracted driver runs. *)
Definition name_cmp_dec := name_cmp fval fval_cmp dec_parse.
Definition arg_cmp_dec := arg_cmp fval fval_cmp dec_parse.
Definition sort_args_dec := sort_args fval fval_cmp dec_parse.
Definition sort_sb_dec := sort_sb fval fval_cmp dec_parse.
Definition spec_arg_cmp_dec := spec_arg_cmp fval fval_cmp dec_parse.

(** Class of a name, for the input histogram and the domain check of the
    correspondence streams: 0 = u128, 1 = negative i128, 2 = other i128 ("-0"),
    3 = other finite number, 4 = infinity, 5 = not a number.  And the number of
    significant decimal digits of a finite number (0 when not applicable). *)
Definition name_class (s : bytes) : N :=
  match parse_u128 s with
  | Some _ => 0
  | None =>
    match parse_i128 s with
    | Some z => if (z <? 0)%Z then 1 else 2
    | None =>
      match dec_parse s with
      | Some (FFin _) => 3
      | Some _ => 4
      | None => 5
      end
    end
  end.
