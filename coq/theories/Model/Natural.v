(** Model of [src/util/sort.rs]: the tokeniser, [cmp_int], [Token::cmp] and
    [natural_cmp].  Strings are lists of bytes ([N], each < 256; nothing below
    depends on the bound).  Executable definitions only; proofs are in
    Proofs/Natural.v. *)

From DivanV Require Import Base.Res.
Local Open Scope N_scope.

Definition bytes := list N.

(** [u8::is_ascii_digit]. *)
Definition is_digit (b : N) : bool := (48 <=? b) && (b <=? 57).

(** Generic lexicographic extension of a comparison to lists:
    [Iterator::cmp] / [<[T] as Ord>::cmp] (a proper prefix is [Less]). *)
Fixpoint lex {A} (c : A -> A -> comparison) (a b : list A) : comparison :=
  match a, b with
  | [], [] => Eq
  | [], _ :: _ => Lt
  | _ :: _, [] => Gt
  | x :: a', y :: b' =>
      match c x y with
      | Eq => lex c a' b'
      | o => o
      end
  end.

(** [str::cmp]: byte-wise lexicographic. *)
Definition bytes_cmp (a b : bytes) : comparison := lex N.compare a b.

(** [str::trim_start_matches('0')]. *)
Fixpoint trim0 (s : bytes) : bytes :=
  match s with
  | c :: r => if c =? 48 then trim0 r else s
  | [] => []
  end.

Definition is_nil {A} (l : list A) : bool := match l with [] => true | _ => false end.

(** [cmp_int]: strip leading zeros, compare to 0, compare length, compare digits. *)
Definition cmp_int (a b : bytes) : comparison :=
  let a' := trim0 a in
  let b' := trim0 b in
  match is_nil a', is_nil b' with
  | true, true => Eq
  | true, false => Lt
  | false, true => Gt
  | false, false =>
      match N.of_nat (length a') ?= N.of_nat (length b') with
      | Eq => bytes_cmp a' b'
      | o => o
      end
  end.

(** [Token { is_int, text }]. *)
Definition token : Type := bool * bytes.

(** [Token::cmp]. *)
Definition token_cmp (x y : token) : comparison :=
  if fst x && fst y then cmp_int (snd x) (snd y) else bytes_cmp (snd x) (snd y).

(** [Tokenizer::next], iterated.  [tok_go k acc s] is the state of the inner
    [for ch in bytes] loop: the current token has kind [k] and its text so far
    is [rev acc]; a byte of the other kind ends it ([break]) and starts the next
    token with that byte.  Left to right, structurally recursive, no fuel. *)
Fixpoint tok_go (k : bool) (acc : bytes) (s : bytes) : list token :=
  match s with
  | [] => [(k, rev acc)]
  | c :: r =>
      if Bool.eqb (is_digit c) k then tok_go k (c :: acc) r
      else (k, rev acc) :: tok_go (is_digit c) [c] r
  end.

Definition tokenize (s : bytes) : list token :=
  match s with
  | [] => []
  | c :: r => tok_go (is_digit c) [c] r
  end.

(** [natural_cmp a b = Iterator::cmp(Tokenizer a, Tokenizer b)]. *)
Definition natural_cmp (a b : bytes) : comparison :=
  lex token_cmp (tokenize a) (tokenize b).

(** Value of a run of ASCII digits (arbitrary length; specification side). *)
Definition digits_val (s : bytes) : N :=
  fold_left (fun acc c => acc * 10 + (c - 48)) s 0.

Definition all_digits (s : bytes) : bool := forallb is_digit s.

(** * Specification side: the key of a token and of a name.
    class 0: non-digit run starting below '0'; class 1: digit run, by value;
    class 2: non-digit run starting above '9'.  Keys compare by class, then
    value, then text; names compare as the sequences of their token keys. *)
Definition tkey : Type := N * (N * bytes).

Definition token_key (t : token) : tkey :=
  if fst t then (1, (digits_val (snd t), []))
  else match snd t with
       | c :: _ => if c <? 48 then (0, (0, snd t)) else (2, (0, snd t))
       | [] => (0, (0, []))
       end.

Definition tkey_cmp (x y : tkey) : comparison :=
  match fst x ?= fst y with
  | Eq => match fst (snd x) ?= fst (snd y) with
          | Eq => bytes_cmp (snd (snd x)) (snd (snd y))
          | o => o
          end
  | o => o
  end.

Definition nat_key (s : bytes) : list tkey := map token_key (tokenize s).

Definition natural_spec (a b : bytes) : comparison := lex tkey_cmp (nat_key a) (nat_key b).

(** Byte offsets at which the tokeniser cuts the input ([get_unchecked(..kind_len)]),
    i.e. the cumulative lengths of the tokens. *)
Fixpoint cut_offsets (off : N) (ts : list token) : list N :=
  match ts with
  | [] => []
  | t :: r => let o := off + N.of_nat (length (snd t)) in o :: cut_offsets o r
  end.

(** UTF-8 continuation byte. *)
Definition is_cont (b : N) : bool := (128 <=? b) && (b <=? 191).
