(** Model of option resolution: [BenchOptions::overwrite]
    ([src/benchmark/options.rs]), [CounterSet::overwrite] / [to_collection] /
    [CounterCollection::set_counter] ([src/counter/collection.rs]), the descent
    through nested groups in [Divan::run_tree], the runner-level override and
    the thread-list normalisation in [Divan::run_bench_entry], the ignore
    decision ([RunIgnored::should_run], [Divan::should_ignore]), the setters of
    the runner level ([Divan::config_with_args], builder methods,
    [IntoThreads]).  Executable definitions only; proofs are in Proofs/Options.v. *)

From DivanV Require Import Base.Res Generated.Consts.
Local Open Scope N_scope.

(** [Option::or] *)
Definition opt_or {A : Type} (a b : option A) : option A :=
  match a with Some _ => a | None => b end.

(** [KnownCounterKind::ALL = [Bytes, Chars, Cycles, Items]] *)
Inductive counter_kind : Type := Bytes | Chars | Cycles | Items.
Definition all_kinds : list counter_kind := [Bytes; Chars; Cycles; Items].

(** [CounterSet { counts: [Option<MaxCountUInt>; COUNT] }] *)
Record counter_set : Type := {
  cs_bytes : option N; cs_chars : option N; cs_cycles : option N; cs_items : option N
}.
Definition cs_empty : counter_set :=
  {| cs_bytes := None; cs_chars := None; cs_cycles := None; cs_items := None |}.

(** [CounterSet::get] *)
Definition cs_get (cs : counter_set) (k : counter_kind) : option N :=
  match k with Bytes => cs_bytes cs | Chars => cs_chars cs | Cycles => cs_cycles cs | Items => cs_items cs end.

(** [CounterSet::insert]: replaces the count of the counter's own kind. *)
Definition cs_insert (cs : counter_set) (k : counter_kind) (count : N) : counter_set :=
  match k with
  | Bytes => {| cs_bytes := Some count; cs_chars := cs_chars cs; cs_cycles := cs_cycles cs; cs_items := cs_items cs |}
  | Chars => {| cs_bytes := cs_bytes cs; cs_chars := Some count; cs_cycles := cs_cycles cs; cs_items := cs_items cs |}
  | Cycles => {| cs_bytes := cs_bytes cs; cs_chars := cs_chars cs; cs_cycles := Some count; cs_items := cs_items cs |}
  | Items => {| cs_bytes := cs_bytes cs; cs_chars := cs_chars cs; cs_cycles := cs_cycles cs; cs_items := Some count |}
  end.

(** [CounterSet::overwrite]: [ALL.map(|kind| self.get(kind).or(other.get(kind)))] *)
Definition cs_overwrite (self other : counter_set) : counter_set :=
  {| cs_bytes := opt_or (cs_bytes self) (cs_bytes other);
     cs_chars := opt_or (cs_chars self) (cs_chars other);
     cs_cycles := opt_or (cs_cycles self) (cs_cycles other);
     cs_items := opt_or (cs_items self) (cs_items other) |}.

(** [BenchOptions]. Durations are kept as an opaque number (nanoseconds). *)
Record options : Type := {
  o_sample_count : option N;
  o_sample_size : option N;
  o_threads : option (list N);
  o_counters : counter_set;
  o_min_time : option N;
  o_max_time : option N;
  o_skip_ext_time : option bool;
  o_ignore : option bool
}.

(** [BenchOptions::default()] *)
Definition o_default : options :=
  {| o_sample_count := None; o_sample_size := None; o_threads := None; o_counters := cs_empty;
     o_min_time := None; o_max_time := None; o_skip_ext_time := None; o_ignore := None |}.

(** [BenchOptions::overwrite(&self, other)]: "overwrites [other] with values
    set in [self]". *)
Definition overwrite (self other : options) : options :=
  {| o_sample_count := opt_or (o_sample_count self) (o_sample_count other);
     o_sample_size := opt_or (o_sample_size self) (o_sample_size other);
     o_threads := opt_or (o_threads self) (o_threads other);
     o_counters := cs_overwrite (o_counters self) (o_counters other);
     o_min_time := opt_or (o_min_time self) (o_min_time other);
     o_max_time := opt_or (o_max_time self) (o_max_time other);
     o_skip_ext_time := opt_or (o_skip_ext_time self) (o_skip_ext_time other);
     o_ignore := opt_or (o_ignore self) (o_ignore other) |}.

(** One step of [run_tree]: combine the options inherited so far with the
    options of the child node (a group, a module without attribute = [None],
    or the benchmark itself). *)
Definition descend_step (parent_options child_options : option options) : option options :=
  match parent_options, child_options with
  | None, None => None
  | Some o, None => Some o
  | None, Some o => Some o
  | Some p, Some c => Some (overwrite c p)
  end.

(** The path from the root to a benchmark: the nodes' own options, outermost
    first, the benchmark's own options last. [run_tree] starts with [None]. *)
Definition descend (levels : list (option options)) : option options :=
  fold_left descend_step levels None.

(** [run_bench_entry]: "User runtime options override all other options." *)
Definition at_leaf (runner : options) (entry_options : option options) : options :=
  match entry_options with
  | None => runner
  | Some e => overwrite runner e
  end.

(** Effective options of a benchmark below [groups] (outermost first). *)
Definition resolve (runner : options) (groups : list (option options)) (bench : option options) : options :=
  at_leaf runner (descend (groups ++ [bench])).

(** * Thread lists *)

Fixpoint insert_sorted (x : N) (l : list N) : list N :=
  match l with
  | [] => [x]
  | y :: r => if x <=? y then x :: l else y :: insert_sorted x r
  end.

(** [sort_unstable] on [usize]: the result of any correct sort is the same
    list; insertion sort stands for it. *)
Definition sort (l : list N) : list N := fold_right insert_sorted [] l.

(** [Vec::dedup]: removes consecutive repeated elements. *)
Fixpoint dedup (l : list N) : list N :=
  match l with
  | [] => []
  | x :: r =>
      match r with
      | [] => [x]
      | y :: _ => if x =? y then dedup r else x :: dedup r
      end
  end.

(** What every setter of a thread list does ([Divan::threads], [--threads] /
    [DIVAN_THREADS], [IntoThreads] for iterables): sort, dedup. *)
Definition set_threads (l : list N) : list N := dedup (sort l).

(** [run_bench_entry]: 0 stands for the available parallelism; sort; dedup;
    an unset or empty list means one thread. *)
Definition thread_counts (parallelism : N) (threads : option (list N)) : list N :=
  let mapped := map (fun n => if n =? 0 then parallelism else n)
                    (match threads with Some l => l | None => [] end) in
  let counts := dedup (sort mapped) in
  match counts with
  | [] => [1]
  | _ => counts
  end.

(** * Ignoring *)

(** [RunIgnored]: [No] (default), [Yes] = [--include-ignored], [Only] = [--ignored]. *)
Inductive run_ignored : Type := RunNo | RunYes | RunOnly.

Definition should_run (r : run_ignored) (ignored : bool) : bool :=
  if ignored then match r with RunYes | RunOnly => true | RunNo => false end
  else match r with RunYes | RunNo => true | RunOnly => false end.

(** [Divan::should_ignore] *)
Definition should_ignore (r : run_ignored) (ignored : bool) : bool := negb (should_run r ignored).

(** [options.ignore.unwrap_or_default()] *)
Definition effective_ignore (o : options) : bool :=
  match o_ignore o with Some b => b | None => false end.

(** The benchmark is skipped (painted "(ignored)") iff: *)
Definition skipped (r : run_ignored) (runner : options) (groups : list (option options)) (bench : option options) : bool :=
  should_ignore r (effective_ignore (resolve runner groups bench)).

(** * Counters seen by the [Bencher] *)

(** [CounterSet::to_collection]: per kind the list of counts (0 or 1 element). *)
Definition to_collection (cs : counter_set) (k : counter_kind) : list N :=
  match cs_get cs k with Some c => [c] | None => [] end.

(** [CounterCollection::set_counter] ([Bencher::counter]): replaces the first
    count of the counter's own kind, or pushes it; other kinds untouched. *)
Definition set_counter (coll : counter_kind -> list N) (k : counter_kind) (count : N)
  : counter_kind -> list N :=
  fun k' =>
    if match k, k' with
       | Bytes, Bytes | Chars, Chars | Cycles, Cycles | Items, Items => true
       | _, _ => false
       end
    then match coll k' with [] => [count] | _ :: r => count :: r end
    else coll k'.

(** * The runner level

    [config_with_args]: clap yields the flag's value, else the [DIVAN_*]
    variable's; a present value overwrites what a builder call set before;
    builder calls made afterwards overwrite again.  Thread lists are
    normalised by every setter. *)
Definition norm_threads (o : options) : options :=
  {| o_sample_count := o_sample_count o; o_sample_size := o_sample_size o;
     o_threads := match o_threads o with Some l => Some (set_threads l) | None => None end;
     o_counters := o_counters o; o_min_time := o_min_time o; o_max_time := o_max_time o;
     o_skip_ext_time := o_skip_ext_time o; o_ignore := o_ignore o |}.

Definition runner_level (builder_before flags env builder_after : options) : options :=
  overwrite (norm_threads builder_after)
    (overwrite (overwrite (norm_threads flags) (norm_threads env)) (norm_threads builder_before)).

(** * Specification, independent of [overwrite]: first [Some] in a list. *)
Fixpoint first_some {A : Type} (l : list (option A)) : option A :=
  match l with
  | [] => None
  | Some a :: _ => Some a
  | None :: r => first_some r
  end.

(** Projection of a field from a level that may carry no options at all. *)
Definition lproj {A : Type} (f : options -> option A) (o : option options) : option A :=
  match o with Some x => f x | None => None end.

(** Precedence order: runner, benchmark, innermost group, ..., outermost group. *)
Definition precedence {A : Type} (f : options -> option A)
  (runner : options) (groups : list (option options)) (bench : option options) : list (option A) :=
  f runner :: lproj f bench :: rev (map (lproj f) groups).

Definition opt_eqb {A : Type} (eqb : A -> A -> bool) (a b : option A) : bool :=
  match a, b with
  | Some x, Some y => eqb x y
  | None, None => true
  | _, _ => false
  end.

Fixpoint list_N_eqb (a b : list N) : bool :=
  match a, b with
  | [], [] => true
  | x :: r, y :: s => (x =? y) && list_N_eqb r s
  | _, _ => false
  end.

(** Boolean specification of a resolved option set [out]. *)
Definition field_ok {A : Type} (eqb : A -> A -> bool) (f : options -> option A)
  (runner : options) (groups : list (option options)) (bench : option options) (out : options) : bool :=
  opt_eqb eqb (f out) (first_some (precedence f runner groups bench)).

Definition resolve_sb (runner : options) (groups : list (option options)) (bench : option options)
  (out : options) : bool :=
  field_ok N.eqb o_sample_count runner groups bench out
  && field_ok N.eqb o_sample_size runner groups bench out
  && field_ok list_N_eqb o_threads runner groups bench out
  && field_ok N.eqb o_min_time runner groups bench out
  && field_ok N.eqb o_max_time runner groups bench out
  && field_ok Bool.eqb o_skip_ext_time runner groups bench out
  && field_ok Bool.eqb o_ignore runner groups bench out
  && forallb (fun k => field_ok N.eqb (fun o => cs_get (o_counters o) k) runner groups bench out) all_kinds.

(** Boolean specification of a normalised thread list [out]: strictly
    increasing, and exactly the inputs with 0 replaced ([1] for no input). *)
Fixpoint strictly_increasing (l : list N) : bool :=
  match l with
  | [] => true
  | x :: r => match r with [] => true | y :: _ => (x <? y) && strictly_increasing r end
  end.

Definition mem_N (x : N) (l : list N) : bool := existsb (N.eqb x) l.

Definition thread_counts_sb (parallelism : N) (threads : option (list N)) (out : list N) : bool :=
  let wanted := map (fun n => if n =? 0 then parallelism else n)
                    (match threads with Some l => l | None => [] end) in
  strictly_increasing out
  && match wanted with
     | [] => list_N_eqb out [1]
     | _ => forallb (fun x => mem_N x out) wanted && forallb (fun x => mem_N x wanted) out
     end.

(** * Observables of an end-to-end run in bench mode (formula of C03, used
    only to turn effective options into something visible; not a theorem
    here): with sample count [c], sample size [s] and thread count [t] every
    round takes one sample per thread, so [ceil(c / t) * t] samples of [s]
    iterations are recorded. *)
Definition samples_recorded (c t : N) : N :=
  if t =? 0 then 0 else ((c + t - 1) / t) * t.

(** * Fields, uniformly (for stating per-field theorems once). *)
Inductive value : Type := VNum (n : N) | VList (l : list N) | VBool (b : bool).

Inductive field : Type :=
| FSampleCount | FSampleSize | FThreads | FMinTime | FMaxTime | FSkipExtTime | FIgnore
| FCounter (k : counter_kind).

Definition get (fd : field) (o : options) : option value :=
  match fd with
  | FSampleCount => option_map VNum (o_sample_count o)
  | FSampleSize => option_map VNum (o_sample_size o)
  | FThreads => option_map VList (o_threads o)
  | FMinTime => option_map VNum (o_min_time o)
  | FMaxTime => option_map VNum (o_max_time o)
  | FSkipExtTime => option_map VBool (o_skip_ext_time o)
  | FIgnore => option_map VBool (o_ignore o)
  | FCounter k => option_map VNum (cs_get (o_counters o) k)
  end.

Definition kind_eqb (a b : counter_kind) : bool :=
  match a, b with
  | Bytes, Bytes | Chars, Chars | Cycles, Cycles | Items, Items => true
  | _, _ => false
  end.

Definition field_eqb (a b : field) : bool :=
  match a, b with
  | FSampleCount, FSampleCount | FSampleSize, FSampleSize | FThreads, FThreads | FMinTime, FMinTime
  | FMaxTime, FMaxTime | FSkipExtTime, FSkipExtTime | FIgnore, FIgnore => true
  | FCounter k1, FCounter k2 => kind_eqb k1 k2
  | _, _ => false
  end.

(** Set (or unset) one field, leaving the others alone; ill-typed values unset. *)
Definition as_num (v : option value) : option N := match v with Some (VNum n) => Some n | _ => None end.
Definition as_list (v : option value) : option (list N) := match v with Some (VList l) => Some l | _ => None end.
Definition as_bool (v : option value) : option bool := match v with Some (VBool b) => Some b | _ => None end.

Definition cs_set (cs : counter_set) (k : counter_kind) (v : option N) : counter_set :=
  match k with
  | Bytes => {| cs_bytes := v; cs_chars := cs_chars cs; cs_cycles := cs_cycles cs; cs_items := cs_items cs |}
  | Chars => {| cs_bytes := cs_bytes cs; cs_chars := v; cs_cycles := cs_cycles cs; cs_items := cs_items cs |}
  | Cycles => {| cs_bytes := cs_bytes cs; cs_chars := cs_chars cs; cs_cycles := v; cs_items := cs_items cs |}
  | Items => {| cs_bytes := cs_bytes cs; cs_chars := cs_chars cs; cs_cycles := cs_cycles cs; cs_items := v |}
  end.

Definition set_field (fd : field) (v : option value) (o : options) : options :=
  {| o_sample_count := match fd with FSampleCount => as_num v | _ => o_sample_count o end;
     o_sample_size := match fd with FSampleSize => as_num v | _ => o_sample_size o end;
     o_threads := match fd with FThreads => as_list v | _ => o_threads o end;
     o_counters := match fd with FCounter k => cs_set (o_counters o) k (as_num v) | _ => o_counters o end;
     o_min_time := match fd with FMinTime => as_num v | _ => o_min_time o end;
     o_max_time := match fd with FMaxTime => as_num v | _ => o_max_time o end;
     o_skip_ext_time := match fd with FSkipExtTime => as_bool v | _ => o_skip_ext_time o end;
     o_ignore := match fd with FIgnore => as_bool v | _ => o_ignore o end |}.

(** [IntoThreads] for a scalar and for [bool] ([src/private.rs]); iterables are
    [set_threads]. *)
Definition into_threads_usize (n : N) : list N := [n].
Definition into_threads_bool (b : bool) : list N := if b then [0] else [1].

(** * What a bench-mode run shows of the effective options (end-to-end stream).
    Rows: one per thread count [(t, samples, iterations)]; iterations and the
    number of calls are unknown ([None]) when the sample size is tuned. *)
Record observed : Type := {
  ob_ignored : bool;
  ob_branches : bool;                       (* "t=N" branches are printed *)
  ob_rows : list (N * N * option N);
  ob_kinds : list counter_kind;             (* throughput lines printed *)
  ob_calls : option N;
  ob_no_samples : bool
}.

Definition sum_N (l : list N) : N := fold_right N.add 0 l.

Definition observe (parallelism : N) (mode : run_ignored) (eff : options) : observed :=
  let ts := thread_counts parallelism (o_threads eff) in
  let c := match o_sample_count eff with Some c => c | None => default_sample_count end in
  (* "Don't bother running if user specifies 0 max time or 0 samples." *)
  let none := match o_max_time eff with Some 0 => true | _ => false end
              || match o_sample_count eff with Some 0 => true | _ => false end
              || match o_sample_size eff with Some 0 => true | _ => false end in
  let row t :=
    let samples := if none then 0 else samples_recorded c t in
    (t, samples, if none then Some 0 else option_map (fun s => samples * s) (o_sample_size eff)) in
  {| ob_ignored := should_ignore mode (effective_ignore eff);
     ob_branches := match ts with _ :: _ :: _ => true | _ => false end;
     ob_rows := map row ts;
     ob_kinds := filter (fun k => match cs_get (o_counters eff) k with Some _ => true | None => false end) all_kinds;
     ob_calls := if none then Some 0
                 else option_map (fun s => sum_N (map (fun t => samples_recorded c t * s) ts)) (o_sample_size eff);
     ob_no_samples := none |}.

(** Effective options stated by the specification only (first [Some] in
    precedence order, per field), for the violation search. *)
Definition spec_effective (runner : options) (groups : list (option options)) (bench : option options) : options :=
  {| o_sample_count := first_some (precedence o_sample_count runner groups bench);
     o_sample_size := first_some (precedence o_sample_size runner groups bench);
     o_threads := first_some (precedence o_threads runner groups bench);
     o_counters :=
       {| cs_bytes := first_some (precedence (fun o => cs_bytes (o_counters o)) runner groups bench);
          cs_chars := first_some (precedence (fun o => cs_chars (o_counters o)) runner groups bench);
          cs_cycles := first_some (precedence (fun o => cs_cycles (o_counters o)) runner groups bench);
          cs_items := first_some (precedence (fun o => cs_items (o_counters o)) runner groups bench) |};
     o_min_time := first_some (precedence o_min_time runner groups bench);
     o_max_time := first_some (precedence o_max_time runner groups bench);
     o_skip_ext_time := first_some (precedence o_skip_ext_time runner groups bench);
     o_ignore := first_some (precedence o_ignore runner groups bench) |}.

Definition spec_runner (builder_before flags env builder_after : options) : options :=
  let nb := norm_threads builder_before in let nf := norm_threads flags in
  let ne := norm_threads env in let na := norm_threads builder_after in
  {| o_sample_count := first_some [o_sample_count na; o_sample_count nf; o_sample_count ne; o_sample_count nb];
     o_sample_size := first_some [o_sample_size na; o_sample_size nf; o_sample_size ne; o_sample_size nb];
     o_threads := first_some [o_threads na; o_threads nf; o_threads ne; o_threads nb];
     o_counters :=
       {| cs_bytes := first_some (map (fun o => cs_bytes (o_counters o)) [na; nf; ne; nb]);
          cs_chars := first_some (map (fun o => cs_chars (o_counters o)) [na; nf; ne; nb]);
          cs_cycles := first_some (map (fun o => cs_cycles (o_counters o)) [na; nf; ne; nb]);
          cs_items := first_some (map (fun o => cs_items (o_counters o)) [na; nf; ne; nb]) |};
     o_min_time := first_some [o_min_time na; o_min_time nf; o_min_time ne; o_min_time nb];
     o_max_time := first_some [o_max_time na; o_max_time nf; o_max_time ne; o_max_time nb];
     o_skip_ext_time := first_some [o_skip_ext_time na; o_skip_ext_time nf; o_skip_ext_time ne; o_skip_ext_time nb];
     o_ignore := first_some [o_ignore na; o_ignore nf; o_ignore ne; o_ignore nb] |}.

(** [options.skip_ext_time.unwrap_or_default()] (bench loop). *)
Definition effective_skip_ext (o : options) : bool :=
  match o_skip_ext_time o with Some b => b | None => false end.

(** [Divan::bytes_format] is a runner-only setting ([true] = binary): a builder
    call sets it, [config_with_args] overwrites it iff the flag or the
    [DIVAN_BYTES_FORMAT] variable is present, a later builder call overwrites
    again; [BytesFormat::default()] is decimal. *)
Definition bytes_format_level (builder_before flag env builder_after : option bool) : bool :=
  match opt_or builder_after (opt_or (opt_or flag env) builder_before) with
  | Some b => b
  | None => false
  end.

(** * Seconds given as decimal text ([--min-time], [--max-time], [DIVAN_MIN_TIME], [DIVAN_MAX_TIME])

    [ParsedSeconds::from_str] is [Duration::try_from_secs_f64(f64::from_str(s)?)?].
    For plain decimal text [digits[.digits]] with at most 9 fractional digits and
    a value below 2^52 ns the correctly rounded [f64] and the correctly rounded
    conversion to nanoseconds give exactly the decimal's nanoseconds (the
    relative error 2^-53 of the [f64] moves the product by less than half a
    nanosecond) — that part is std's and is assumed; what is modelled is the
    exact decimal reading.  Text bytes: '+' = 43, '.' = 46, '0'..'9' = 48..57. *)
Definition digit_of (c : N) : option N :=
  if (48 <=? c) && (c <=? 57) then Some (c - 48) else None.

Fixpoint digits_val_acc (acc : N) (l : list N) : option N :=
  match l with
  | [] => Some acc
  | c :: r => match digit_of c with Some d => digits_val_acc (acc * 10 + d) r | None => None end
  end.

Definition digits_val (l : list N) : option N := digits_val_acc 0 l.

(** Split at the first '.'. *)
Fixpoint split_dot (l : list N) : list N * option (list N) :=
  match l with
  | [] => ([], None)
  | c :: r => if c =? 46 then ([], Some r)
              else let (a, b) := split_dot r in (c :: a, b)
  end.

(** Integer and fractional digit strings; [None]: not of the form
    [+?digits[.digits]] with at least one digit. *)
Definition decimal_parts (text : list N) : option (list N * list N) :=
  let t := match text with 43 :: r => r | _ => text end in
  let (ip, fp) := split_dot t in
  let fp := match fp with Some f => f | None => [] end in
  match ip, fp with
  | [], [] => None
  | _, _ => Some (ip, fp)
  end.

(** [(secs, subsec_nanos)] of the [Duration]; [None] = rejected (or more than
    9 fractional digits, which this model does not cover). *)
Definition decimal_nanos (text : list N) : option (N * N) :=
  match decimal_parts text with
  | None => None
  | Some (ip, fp) =>
      if (9 <? N.of_nat (length fp)) then None
      else match digits_val ip, digits_val fp with
           | Some i, Some f =>
               let total := i * 10 ^ 9 + f * 10 ^ (9 - N.of_nat (length fp)) in
               Some (total / 10 ^ 9, total mod 10 ^ 9)
           | _, _ => None
           end
  end.

(** Boolean specification of a parsed duration, with multiplications only:
    [(secs * 10^9 + nanos) * 10^k = (int * 10^k + frac) * 10^9] for [k]
    fractional digits. *)
Definition parse_seconds_sb (text : list N) (out : option (N * N)) : bool :=
  match decimal_parts text with
  | None => match out with None => true | Some _ => false end
  | Some (ip, fp) =>
      match digits_val ip, digits_val fp with
      | Some i, Some f =>
          let k := N.of_nat (length fp) in
          match out with
          | Some (s, n) => (n <? 10 ^ 9) && ((s * 10 ^ 9 + n) * 10 ^ k =? (i * 10 ^ k + f) * 10 ^ 9)
          | None => false
          end
      | _, _ => match out with None => true | Some _ => false end
      end
  end.

(** [BenchOptions::min_time()] / [max_time()] as the loop reads them, in
    picoseconds ([FineDuration::from(Duration)] = nanos * 1000; unset floor = 0,
    unset ceiling = [FineDuration::MAX] = u128::MAX). *)
Definition time_limits (o : options) : N * N :=
  (match o_min_time o with Some n => n * 1000 | None => 0 end,
   match o_max_time o with Some n => n * 1000 | None => 2 ^ 128 - 1 end).
