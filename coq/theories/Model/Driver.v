(** Model of [src/divan.rs:96-459]: [run_action], [run_tree_list], [run_tree],
    [run_bench_entry] as sequences of observable actions, and of
    [config/mod.rs] [RunIgnored::should_run].
    Executable definitions and boolean specifications only.

    Not modelled here (other groups): the filter language (a predicate on the
    display path), the sort comparator (an arbitrary permutation of siblings and
    of argument pointers, [sib_perm] in Proofs), thread counts (options without
    [threads]: one run per case). *)
From DivanV Require Import Base.Res Model.Registry Model.Tree.
Local Open Scope N_scope.

Inductive run_ignored := RINo | RIYes | RIOnly.

Definition should_run (ri : run_ignored) (ignored : bool) : bool :=
  if ignored then match ri with RIYes | RIOnly => true | RINo => false end
  else match ri with RIYes | RINo => true | RIOnly => false end.

Inductive act := Bench | Test | List | ListTerse.
Definition is_list (a : act) : bool := match a with List => true | _ => false end.
Definition is_bench (a : act) : bool := match a with Bench => true | _ => false end.

Record cfg := {
  c_run_ignored : run_ignored;
  c_opts : opts;                 (* Divan.bench_options (run-time level) *)
  c_filter : str -> bool;        (* Divan::filter *)
  c_threads : list N             (* run-time [threads] (--threads / DIVAN_THREADS / Divan::threads), sorted, distinct,
                                    non-zero as config_with_args / the builder leave them; [] = not given *)
}.

(** The thread counts a benchmark runs over.  Run-time options win over entry and
    group options; entry-level [threads] other than absent / empty are not modelled
    (an absent or empty list is one run on one thread: the [is_empty] fallback). *)
Definition thread_counts (c : cfg) : list N :=
  match c_threads c with [] => [1] | l => l end.

Definition should_ignore (c : cfg) (ignored : bool) : bool :=
  negb (should_run (c_run_ignored c) ignored).

Definition default_false (o : option bool) : bool := match o with Some b => b | None => false end.

(** What a walk does.  [path] fields are ghost values: the display path under
    which [retain] addresses the node. *)
Inductive action :=
| AStartParent (name path : str) (is_last : bool)
| AFinishParent
| AIgnoreLeaf (name path : str) (is_last : bool)
| AStartLeaf (name path : str) (is_last : bool)
| AFinishEmptyLeaf
| AFinishLeafStats
| APrintln (line : str)
| AMakeRunner (id : N)                               (* [bench_runner()] in run_bench_entry *)
| ANewBencher (id : N)                               (* BenchContext::new + Bencher::new *)
| AInvoke (id : N) (path : str) (arg : option (N * value))    (* with_bencher(..): the entry's function runs *)
| AInvokeMore (id : N) (path : str) (arg : option (N * value)) (threads : N).
                                 (* the same case again, for a further thread count *)

(** A walk can be cut short by a panic. *)
Definition trace := (list action * option panic)%type.
Definition tret (l : list action) : trace := (l, None).
Definition tseq (a b : trace) : trace :=
  match a with
  | (_, Some _) => a
  | (l, None) => (l ++ fst b, snd b)
  end.

(** The [match (parent_options, child_options)] of run_tree / run_tree_list. *)
Definition merge_opts (parent child : option opts) : option opts :=
  match parent, child with
  | None, None => None
  | Some o, None | None, Some o => Some o
  | Some p, Some c => Some (opts_overwrite c p)
  end.

(** The [run_bench] closure (divan.rs:371-430).  One thread count: a leaf labelled
    [name].  Two or more ([has_thread_branches]): a parent labelled [name] with one
    leaf "t=N" per thread count. *)
Definition thread_name (tc : N) : str := [116; 61] ++ dec_of_N tc.       (* format!("t={thread_count}") *)

Fixpoint run_threads (a : act) (id : N) (path : str) (arg : option (N * value)) (first : bool) (tcs : list N)
  : list action :=
  match tcs with
  | [] => []
  | tc :: tl =>
      [AStartLeaf (thread_name tc) (join_path path (thread_name tc)) (is_nil tl); ANewBencher id;
       if first then AInvoke id path arg else AInvokeMore id path arg tc;
       if is_bench a then AFinishLeafStats else AFinishEmptyLeaf]
      ++ run_threads a id path arg false tl
  end.

Definition run_bench (tcs : list N) (a : act) (id : N) (name path : str) (is_last : bool)
           (arg : option (N * value)) : list action :=
  match tcs with
  | _ :: _ :: _ => [AStartParent name path is_last] ++ run_threads a id path arg true tcs ++ [AFinishParent]
  | _ => [AStartLeaf name path is_last; ANewBencher id; AInvoke id path arg;
          if is_bench a then AFinishLeafStats else AFinishEmptyLeaf]
  end.

(** The loop over [bench_arg_names]: pointer -> index ([slice_ptr_index]) ->
    [typed_args[arg_index]] (an indexing operation: out of range panics). *)
Fixpoint run_args (tcs : list N) (a : act) (e : any_entry) (vals : list value) (path : str) (args : list N) : trace :=
  match args with
  | [] => tret []
  | i :: tl =>
      match nth_error vals (N.to_nat i) with
      | None => ([AStartLeaf (arg_label e i) (arg_path path e i) (is_nil tl); ANewBencher (entry_id e)],
                 Some OutOfBounds)
      | Some v =>
          tseq (tret (run_bench tcs a (entry_id e) (arg_label e i) (arg_path path e i) (is_nil tl) (Some (i, v))))
               (run_args tcs a e vals path tl)
      end
  end.

Definition run_bench_entry (c : cfg) (a : act) (e : any_entry) (args : option (list N))
           (entry_options : option opts) (path : str) (is_last : bool) : trace :=
  let name := entry_display e in
  let options := match entry_options with
                 | None => c_opts c
                 | Some eo => opts_overwrite (c_opts c) eo
                 end in
  if should_ignore c (default_false (o_ignore options)) then tret [AIgnoreLeaf name path is_last]
  else if is_list a then tret [AStartLeaf name path is_last; AFinishEmptyLeaf]
  else match entry_runner e with
       | RPlain => tret (run_bench (thread_counts c) a (entry_id e) name path is_last None)
       | RArgs _ vals =>
           tseq (tret [AStartParent name path is_last; AMakeRunner (entry_id e)])
                (tseq (run_args (thread_counts c) a e vals path (match args with Some l => l | None => [] end))
                      (tret [AFinishParent]))
       end.

Fixpoint run_node (c : cfg) (a : act) (pp : str) (po : option opts) (is_last : bool) (t : tree) : trace :=
  let name := display_name t in
  let path := join_path pp name in
  let options := merge_opts po (node_opts t) in
  match t with
  | Leaf e args => run_bench_entry c a e args options path is_last
  | Parent _ _ ch =>
      tseq (tret [AStartParent name path is_last])
           (tseq ((fix forest (l : list tree) : trace :=
                     match l with
                     | [] => tret []
                     | x :: tl => tseq (run_node c a path options (is_nil tl) x) (forest tl)
                     end) ch)
                 (tret [AFinishParent]))
  end.

Fixpoint run_forest (c : cfg) (a : act) (pp : str) (po : option opts) (l : list tree) : trace :=
  match l with
  | [] => tret []
  | x :: tl => tseq (run_node c a pp po (is_nil tl) x) (run_forest c a pp po tl)
  end.

(** [run_tree_list] (terse listing). *)
Fixpoint list_node (c : cfg) (pp : str) (po : option opts) (t : tree) : list action :=
  let options := merge_opts po (node_opts t) in
  let full := join_path pp (display_name t) in
  match t with
  | Leaf e args =>
      let ignore := default_false
                      (opt_or (o_ignore (c_opts c))
                              (match options with Some o => o_ignore o | None => None end)) in
      if should_ignore c ignore then []
      else match args with
           | None => [APrintln (full ++ s_benchmark)]
           | Some l => map (fun i => APrintln (arg_path full e i ++ s_benchmark)) l
           end
  | Parent _ _ ch => flat_map (list_node c full options) ch
  end.
Definition list_forest (c : cfg) (pp : str) (po : option opts) (l : list tree) : list action :=
  flat_map (list_node c pp po) l.

(** [run_action]; [srt] stands for [EntryTree::sort_by_attr]. *)
Definition run_action (c : cfg) (srt : list tree -> list tree) (a : act)
           (benches : list bench_entry) (groups : list group_entry) : trace :=
  let t := retain (c_filter c) (build_tree benches groups) in
  if is_nil t then tret []
  else match a with
       | ListTerse => tret (list_forest c [] None t)
       | _ => run_forest c a [] None (srt t)
       end.

(** Public entry points (divan.rs:61-81). *)
Definition list_benches c srt := run_action c srt List.
Definition test_benches c srt := run_action c srt Test.

(** * Observations *)

Definition lines (l : list action) : list str :=
  flat_map (fun x => match x with APrintln s => [s] | _ => [] end) l.

(** The cases a walk executed: (entry id, display path, argument). *)
Definition executed (l : list action) : list (N * str * option (N * value)) :=
  flat_map (fun x => match x with AInvoke id p a => [(id, p, a)] | _ => [] end) l.

Definition exec_paths (l : list action) : list str := map (fun x => snd (fst x)) (executed l).

Definition runs_something (x : action) : bool :=
  match x with ANewBencher _ | AInvoke _ _ _ | AInvokeMore _ _ _ _ | AMakeRunner _ => true | _ => false end.

(** Painted nodes: kind (0 parent, 1 ignored leaf, 2 leaf) and ghost path. *)
Definition painted (l : list action) : list (N * str) :=
  flat_map (fun x => match x with
                     | AStartParent _ p _ => [(0, p)]
                     | AIgnoreLeaf _ p _ => [(1, p)]
                     | AStartLeaf _ p _ => [(2, p)]
                     | _ => [] end) l.


(** * The concrete filters used by the correspondence check: exact names, or
    regular expressions that are plain literals (substring search).  The
    theorems treat the filter as an arbitrary predicate. *)
Fixpoint prefixb (p s : str) : bool :=
  match p, s with
  | [], _ => true
  | x :: p', y :: s' => (x =? y) && prefixb p' s'
  | _ :: _, [] => false
  end.
Fixpoint contains (p s : str) : bool :=
  prefixb p s || match s with [] => false | _ :: tl => contains p tl end.

Definition filter_match (exact : bool) (pat path : str) : bool :=
  if exact then str_eqb pat path else contains pat path.
(** [FilterSet::is_match] for a set of positive and a set of skip filters. *)
Definition is_match (exact : bool) (pos skip : list str) (path : str) : bool :=
  negb (existsb (fun s => filter_match exact s path) skip)
  && (is_nil pos || existsb (fun s => filter_match exact s path) pos).

(** First evaluation of each argument list: [from_benches] asks every entry for
    its argument names, which initialises the entry's [BenchArgs] [OnceLock]
    the first time; later [bench_runner()] calls find it initialised. *)
Definition args_owner (e : any_entry) : list N :=
  match entry_runner e with RArgs o _ => [o] | RPlain => [] end.
Fixpoint dedup (l : list N) (seen : list N) : list N :=
  match l with
  | [] => []
  | x :: tl => if existsb (N.eqb x) seen then dedup tl seen else x :: dedup tl (x :: seen)
  end.
Definition args_evaluations (es : list any_entry) : list N := dedup (flat_map args_owner es) [].

(** * Boolean specifications (C14), evaluated on the implementation's outputs. *)

Fixpoint list_eqb {A} (eqb : A -> A -> bool) (a b : list A) : bool :=
  match a, b with
  | [], [] => true
  | x :: a', y :: b' => eqb x y && list_eqb eqb a' b'
  | _, _ => false
  end.

Fixpoint remove_one (s : str) (l : list str) : option (list str) :=
  match l with
  | [] => None
  | x :: tl => if str_eqb x s then Some tl
               else match remove_one s tl with Some r => Some (x :: r) | None => None end
  end.
Fixpoint multiset_eqb (a b : list str) : bool :=
  match a with
  | [] => is_nil b
  | x :: tl => match remove_one x b with Some b' => multiset_eqb tl b' | None => false end
  end.

(** "The terse listing prints exactly one line `path: benchmark` for every case
    a test run would execute, and nothing else": [terse] = stdout lines of the
    listing, [ran] = display paths of the cases the test run executed. *)
Definition c14_terse_sb (terse ran : list str) : bool :=
  multiset_eqb terse (map (fun p => p ++ s_benchmark) ran).

(** "Listing never invokes anything": the invocation log is empty. *)
Definition c14_quiet_sb (log_len : N) : bool := log_len =? 0.

(** Exact round trip: the listing and the run under the single exact filter
    [p] are exactly [p]. *)
Definition c14_roundtrip_sb (p : str) (terse ran : list str) : bool :=
  list_eqb str_eqb terse [p ++ s_benchmark] && list_eqb str_eqb ran [p].

(** * Which cases a walk executes, said directly (no painter, no flags):
    the reference against which [run_forest], [list_forest] and [retain] are
    proved (Proofs/Driver.v). *)
Definition leaf_ignored (c : cfg) (options : option opts) : bool :=
  should_ignore c (default_false
    (opt_or (o_ignore (c_opts c)) (match options with Some o => o_ignore o | None => None end))).

Definition arg_case (e : any_entry) (vals : list value) (path : str) (i : N) : list (N * str * option (N * value)) :=
  match nth_error vals (N.to_nat i) with
  | Some v => [(entry_id e, arg_path path e i, Some (i, v))]
  | None => []
  end.

Fixpoint exec_node (c : cfg) (pp : str) (po : option opts) (t : tree) : list (N * str * option (N * value)) :=
  let options := merge_opts po (node_opts t) in
  let path := join_path pp (display_name t) in
  match t with
  | Leaf e args =>
      if leaf_ignored c options then []
      else match entry_runner e with
           | RPlain => [(entry_id e, path, None)]
           | RArgs _ vals =>
               flat_map (arg_case e vals path) (match args with Some l => l | None => [] end)
           end
  | Parent _ _ ch => flat_map (exec_node c path options) ch
  end.
Definition exec_forest (c : cfg) (pp : str) (po : option opts) (l : list tree) :=
  flat_map (exec_node c pp po) l.

(** * C12: the registry said directly ("flat" semantics, no tree).

    Every entry is found at its module path; every path component that is a
    [#[divan::bench_group]] module contributes its display name and options;
    a generic function's own [GroupEntry] does so for its instantiations.
    This is what the property promises; [Proofs/Flat.v] relates it to the tree. *)
Definition group_key (g : group_entry) : list str :=
  module_components (g_meta g) ++ [m_raw (g_meta g)].

Definition is_module_group (g : group_entry) : bool :=
  match g_generic g with None => true | Some _ => false end.

Definition path_eqb (a b : list str) : bool := list_eqb str_eqb a b.

(** Equal paths, the last component compared modulo a leading "r#": a
    [#[divan::bench_group]] on [mod r#try] is the group of the module that
    [module_path!()] spells [try] (edition 2015) or [r#try] (later editions). *)
Fixpoint npath_eqb (a b : list str) : bool :=
  match a, b with
  | [], [] => true
  | x :: a', y :: b' =>
      match a', b' with
      | [], [] => str_eqb (strip_raw x) (strip_raw y)
      | _, _ => str_eqb x y && npath_eqb a' b'
      end
  | _, _ => false
  end.

(** The [bench_group] module standing at a raw path, if any; [mt g key]: group
    [g] is the group of the module at [key]. *)
Definition find_module_group_by (mt : group_entry -> list str -> bool) (groups : list group_entry) (key : list str)
  : option group_entry :=
  find (fun g => is_module_group g && mt g key) groups.
Definition find_module_group (groups : list group_entry) : list str -> option group_entry :=
  find_module_group_by (fun g key => npath_eqb (group_key g) key) groups.

(** For each component of an entry's raw path: the group standing there ([fm]: lookup of module groups). *)
Fixpoint module_chain (fm : list str -> option group_entry) (pre : list str) (comps : list str)
  : list (str * option group_entry) :=
  match comps with
  | [] => []
  | c :: tl => (c, fm (pre ++ [c])) :: module_chain fm (pre ++ [c]) tl
  end.

Definition entry_chain (fm : list str -> option group_entry) (e : any_entry) : list (str * option group_entry) :=
  match e with
  | ABench b => module_chain fm [] (module_components (b_meta b))
  | AGeneric g ge =>
      module_chain fm [] (module_components (g_meta g))
      ++ [(m_raw (g_meta g), Some g)]
      ++ match ge_kind ge with
         | GConst (Some t) _ => [(type_display t, None)]
         | _ => []
         end
  end.

Definition chain_display (x : str * option group_entry) : str :=
  match snd x with Some g => m_display (g_meta g) | None => strip_raw (fst x) end.
Definition chain_opts (x : str * option group_entry) : option opts :=
  match snd x with Some g => m_opts (g_meta g) | None => None end.

Definition chain_path (ch : list (str * option group_entry)) : str :=
  fold_left (fun p x => join_path p (chain_display x)) ch [].
Definition chain_options (ch : list (str * option group_entry)) : option opts :=
  fold_left (fun o x => merge_opts o (chain_opts x)) ch None.

Definition flat_case (c : cfg) (fm : list str -> option group_entry) (e : any_entry)
  : list (N * str * option (N * value)) :=
  let ch := entry_chain fm e in
  let path := join_path (chain_path ch) (entry_display e) in
  let options := merge_opts (chain_options ch) (m_opts (entry_meta e)) in
  if leaf_ignored c options then []
  else match entry_runner e with
       | RPlain => if c_filter c path then [(entry_id e, path, None)] else []
       | RArgs _ vals =>
           filter (fun x => c_filter c (snd (fst x)))
                  (flat_map (arg_case e vals path) (index_list (length vals)))
       end.

Definition flat_exec (c : cfg) (benches : list bench_entry) (groups : list group_entry) :=
  flat_map (flat_case c (find_module_group groups)) (all_entries benches groups).

(** Boolean specification for C12, evaluated on what the implementation ran:
    the executed (path, entry, argument) triples, rendered as strings by the
    driver, are the flat semantics' as multisets. *)
Definition c12_flat_sb (expected got : list str) : bool := multiset_eqb expected got.

(** Keys of all group entries are distinct (always true of module groups in a
    Rust program; a generic function may share its name with a sibling module). *)
Fixpoint nodup_paths (l : list (list str)) : bool :=
  match l with
  | [] => true
  | x :: tl => negb (existsb (path_eqb x) tl) && nodup_paths tl
  end.
Definition group_keys_distinct (groups : list group_entry) : bool :=
  nodup_paths (map group_key groups).

(** * C17: boolean specifications evaluated on the implementation's output. *)
Fixpoint suffixb (suf s : str) : bool :=
  str_eqb suf s || match s with [] => false | _ :: tl => suffixb suf tl end.

(** The case displayed under [path] received [v]: the path ends in "::" ++ to_string v. *)
Definition c17_label_sb (path : str) (v : value) : bool :=
  suffixb (s_colons ++ value_to_string v) path.

(** Type labels (C17): the label names the type — label and [type_name] agree once
    every [ident::] qualifier is deleted from both — ... *)
Definition c17_type_label_sb (raw label : str) : bool := str_eqb (unqualify label) (unqualify raw).

(** ... and within one benchmark two instantiations share a label only if their
    type names agree up to qualifiers ([(raw, label)] pairs of one function). *)
Fixpoint c17_types_distinct_sb (l : list (str * str)) : bool :=
  match l with
  | [] => true
  | (raw, label) :: tl =>
      forallb (fun x => negb (str_eqb (snd x) label) || str_eqb (unqualify (fst x)) (unqualify raw)) tl
      && c17_types_distinct_sb tl
  end.

(** Every argument list was evaluated exactly once. *)
Definition c17_once_sb (counts : list N) : bool := forallb (N.eqb 1) counts.

(** What [--list] shows of one entry under the flat semantics: one leaf at the
    entry's display path if the filter keeps it (for argument entries: if it
    keeps at least one argument), marked ignored (1) or not (2). *)
Definition flat_list_case (c : cfg) (fm : list str -> option group_entry) (e : any_entry) : list (N * str) :=
  let ch := entry_chain fm e in
  let path := join_path (chain_path ch) (entry_display e) in
  let options := merge_opts (chain_options ch) (m_opts (entry_meta e)) in
  let kept := match entry_runner e with
              | RPlain => c_filter c path
              | RArgs _ vals => existsb (fun i => c_filter c (arg_path path e i)) (index_list (length vals))
              end in
  if kept then [(if leaf_ignored c options then 1 else 2, path)] else [].
Definition flat_list (c : cfg) (benches : list bench_entry) (groups : list group_entry) :=
  flat_map (flat_list_case c (find_module_group groups)) (all_entries benches groups).

(** * Which action the command line selects ([Divan::config_with_args], divan.rs:523-544,
    and the clap declaration in cli.rs: [--test] and [--list] conflict).
    [terse]: a [--format terse] value was accepted, which requires [NEXTEST=1] and [--list]. *)
Definition action_of_flags (list test bench terse : bool) : option act :=
  if list && test then None                       (* clap rejects the command line: nothing runs *)
  else if list then Some (if terse then ListTerse else List)
  else if test || negb bench then Some Test
  else Some Bench.
