(** Reading the painted tree back (C20): a parser from the text written to
    stdout to a tree skeleton that uses only newlines, indentation units,
    branch/corner glyphs, double spaces and the column separator, and the
    skeleton a given input tree is expected to produce.  Also the boolean
    specification used by the violation search.  Executable definitions only. *)

From DivanV Require Import Base.Res Model.Painter Model.DriverPaint.

Inductive sk := Sk (name : str) (cells : list str) (rows : list (list str)) (children : list sk).

(** ** Lexing *)

(** Split on a delimiter; the result has one more element than there are
    delimiters. *)
Fixpoint split_on (d : N) (s : str) : list str :=
  match s with
  | [] => [[]]
  | c :: r =>
    if N.eqb c d then [] :: split_on d r
    else match split_on d r with
         | l :: ls => (c :: l) :: ls
         | [] => [[c]]
         end
  end.

(** The lines of a text that ends with a newline. *)
Definition lines (s : str) : option (list str) :=
  match rev (split_on nl s) with
  | [] :: r => Some (rev r)
  | _ => None
  end.

Fixpoint drop_sp (s : str) : str :=
  match s with
  | c :: r => if N.eqb c sp then drop_sp r else s
  | [] => []
  end.

Definition trim (s : str) : str := rev (drop_sp (rev (drop_sp s))).

(** Indentation units: [true] for "│  ", [false] for "   ". *)
Fixpoint strip_units (s : str) : list bool * str :=
  match s with
  | a :: b :: c :: r =>
    if N.eqb b sp && N.eqb c sp then
      if N.eqb a c_bar then let (u, t) := strip_units r in (true :: u, t)
      else if N.eqb a sp then let (u, t) := strip_units r in (false :: u, t)
      else ([], s)
    else ([], s)
  | _ => ([], s)
  end.

Inductive token :=
| TNode (units : list bool) (last : bool) (payload : str)
| TTop (payload : str)
| TBlank
| TRow (line : str).

Definition classify (s : str) : token :=
  let (us, rest) := strip_units s in
  let other :=
    match s with
    | [] => TBlank
    | c :: _ => if N.eqb c sp || N.eqb c c_bar then TRow s else TTop s
    end in
  match rest with
  | a :: b :: c :: payload =>
    if N.eqb b c_dash && N.eqb c sp then
      if N.eqb a c_branch then TNode us false payload
      else if N.eqb a c_corner then TNode us true payload
      else other
    else other
  | _ => other
  end.

(** ** Payload of a node line: the name ends at the first double space. *)
Fixpoint take_name (s : str) : str * str :=
  match s with
  | a :: r =>
    match r with
    | b :: _ =>
      if N.eqb a sp && N.eqb b sp then ([], s)
      else let (n, t) := take_name r in (a :: n, t)
    | [] => ([a], [])
    end
  | [] => ([], [])
  end.

Definition parse_cells (s : str) : list str :=
  match trim s with
  | [] => []
  | _ => map trim (split_on c_bar s)
  end.

Definition split_payload (s : str) : str * list str :=
  let (n, t) := take_name s in (n, parse_cells t).

(** ** Continuation rows: a row belongs to the node line above it and must
    repeat that line's ancestor bars, with a bar in the node's own column iff
    the node is not the last child, and no glyph. *)
Fixpoint units_str (flags : list bool) : str :=
  match flags with
  | [] => []
  | f :: r => (if f then u_bar else u_blank) ++ units_str r
  end.

Definition row_prefix (flags : list bool) (last : bool) : str :=
  units_str flags ++ (if last then [sp; sp] else u_bar).

Fixpoint strip_prefix (p s : str) : option str :=
  match p, s with
  | [], _ => Some s
  | a :: p', b :: s' => if N.eqb a b then strip_prefix p' s' else None
  | _ :: _, [] => None
  end.

Fixpoint p_rows (pre : str) (toks : list token) : option (list (list str) * list token) :=
  match toks with
  | TRow line :: rest =>
    match strip_prefix pre line with
    | Some t =>
      match p_rows pre rest with
      | Some (rows, rest') => Some (map trim (split_on c_bar t) :: rows, rest')
      | None => None
      end
    | None => None
    end
  | _ => Some ([], toks)
  end.

Fixpoint bools_eqb (a b : list bool) : bool :=
  match a, b with
  | [], [] => true
  | x :: a', y :: b' => Bool.eqb x y && bools_eqb a' b'
  | _, _ => false
  end.

Definition next_is_child (d : nat) (toks : list token) : bool :=
  match toks with
  | TNode us _ _ :: _ => Nat.eqb (length us) d
  | _ => false
  end.

(** The siblings whose ancestors' flags are [flags] (so their lines carry
    exactly these units), up to and including the one drawn with a corner. *)
Fixpoint p_nodes (fuel : nat) (flags : list bool) (toks : list token)
  : option (list sk * list token) :=
  match fuel with
  | O => None
  | S f =>
    match toks with
    | TNode us last payload :: rest =>
      if bools_eqb us flags then
        let (name, cells) := split_payload payload in
        match p_rows (row_prefix flags last) rest with
        | Some (rows, rest1) =>
          match (if next_is_child (S (length flags)) rest1
                 then p_nodes f (flags ++ [negb last]) rest1
                 else Some ([], rest1)) with
          | Some (kids, rest2) =>
            let me := Sk name cells rows kids in
            if last then Some ([me], rest2)
            else match p_nodes f flags rest2 with
                 | Some (sibs, rest3) => Some (me :: sibs, rest3)
                 | None => None
                 end
          | None => None
          end
        | None => None
        end
      else None
    | _ => None
    end
  end.

(** Top level: a heading line without glyph, its children, a blank line. *)
Fixpoint p_top (fuel : nat) (toks : list token) : option (list sk) :=
  match fuel with
  | O => None
  | S f =>
    match toks with
    | [] => Some []
    | TTop payload :: rest =>
      let (name, cells) := split_payload payload in
      match (if next_is_child 0 rest then p_nodes f [] rest else Some ([], rest)) with
      | Some (kids, TBlank :: rest2) =>
        match p_top f rest2 with
        | Some more => Some (Sk name cells [] kids :: more)
        | None => None
        end
      | _ => None
      end
    | _ => None
    end
  end.

Definition parse_lines (ls : list str) : option (list sk) :=
  let toks := map classify ls in
  p_top (S (length toks)) toks.

Definition parse (out : str) : option (list sk) :=
  match lines out with
  | Some ls => parse_lines ls
  | None => None
  end.

(** ** The picture a tree is expected to produce

    [pic]: what must be visible, computed from the tree alone (independent of
    the painter): for every node its name, the cells on its own line ([None]
    when the line has no table part), its continuation rows and its children.
    [skeleton] is the picture with every cell trimmed — what the parser can
    recover. *)

Inductive pic := Pic (name : str) (cells : option (list str)) (rows : list (list str)) (children : list pic).

Definition parent_cells (a : action) (top : bool) : option (list str) :=
  if is_bench a then Some (if top then headings else six_empty) else None.

Definition pic_run (a : action) (name : str) (r : run) : pic :=
  if did_run r && is_bench a
  then Pic name (Some (time_row (cells r))) (cont_rows (cells r)) []
  else Pic name None [] [].

Definition pic_bench (a : action) (tcs : list N) (outf : nat -> run) (name : str) : pic :=
  if Nat.ltb 1 (length tcs)
  then Pic name (parent_cells a false) []
           (map (fun jt => pic_run a (thread_name (snd jt)) (outf (fst jt))) (enum_from 0 tcs))
  else pic_run a name (outf 0%nat).

Definition pic_entry (a : action) (name : str) (ignored : bool) (args : option (list str))
           (threads : list N) (out : nat -> nat -> run) : pic :=
  if ignored then Pic name (Some (if is_bench a then from_first s_ignored else [s_ignored])) [] []
  else if is_list a then Pic name None [] []
  else
    let tcs := match threads with [] => [1%N] | _ => threads end in
    match args with
    | None => pic_bench a tcs (out 0%nat) name
    | Some names =>
      Pic name (parent_cells a false) []
          (map (fun ia => pic_bench a tcs (out (fst ia)) (snd ia)) (enum_from 0 names))
    end.

Fixpoint pic_node (a : action) (top : bool) (n : node) : pic :=
  match n with
  | Group name _ children => Pic name (parent_cells a top) [] (map (pic_node a false) children)
  | Bench _ name _ ignored args threads out => pic_entry a name ignored args threads out
  end.

Definition picture (a : action) (t : list node) : list pic := map (pic_node a true) t.

Fixpoint sk_of_pic (p : pic) : sk :=
  match p with
  | Pic n c r k =>
    Sk n (match c with None => [] | Some row => map trim row end) (map (map trim) r) (map sk_of_pic k)
  end.

Definition skeleton (a : action) (t : list node) : list sk := map sk_of_pic (picture a t).

(** The position of every line of the picture: for a node line the flags of
    its non-top-level ancestors ([true] = that ancestor has later siblings),
    whether the node is the last of its siblings, its name and cells; rows
    carry the position of the node they belong to. *)
Inductive lspec :=
| LTop (name : str) (cells : option (list str))
| LNode (flags : list bool) (last : bool) (name : str) (cells : option (list str))
| LRow (flags : list bool) (last : bool) (row : list str)
| LBlank.

Fixpoint lay_node (fl : list bool) (last : bool) (p : pic) : list lspec :=
  match p with
  | Pic n c rows kids =>
    LNode fl last n c :: map (LRow fl last) rows
    ++ (fix go (l : list pic) : list lspec :=
          match l with
          | [] => []
          | k :: r => lay_node (fl ++ [negb last]) (match r with [] => true | _ => false end) k ++ go r
          end) kids
  end.

Fixpoint lay_kids (fl : list bool) (l : list pic) : list lspec :=
  match l with
  | [] => []
  | k :: r => lay_node fl (match r with [] => true | _ => false end) k ++ lay_kids fl r
  end.

Definition lay_top (p : pic) : list lspec :=
  match p with Pic n c _ kids => LTop n c :: lay_kids [] kids ++ [LBlank] end.

Definition layout (ps : list pic) : list lspec := flat_map lay_top ps.

(** Names in depth-first order. *)
Fixpoint preorder (p : pic) : list str :=
  match p with Pic n _ _ kids => n :: flat_map preorder kids end.

(** ** The benchmark calls a tree is expected to make: none for ignored
    entries and none when listing; otherwise one per argument case and thread
    count, in order. *)
Definition calls_bench (id : N) (arg : option nat) (tcs : list N) : list (N * option nat * N) :=
  map (fun tc => (id, arg, tc)) tcs.

Definition calls_entry (a : action) (id : N) (ignored : bool) (args : option (list str))
           (threads : list N) : list (N * option nat * N) :=
  if ignored then []
  else if is_list a then []
  else
    let tcs := match threads with [] => [1%N] | _ => threads end in
    match args with
    | None => calls_bench id None tcs
    | Some names => flat_map (fun ia => calls_bench id (Some (fst ia)) tcs) (enum_from 0 names)
    end.

Fixpoint calls (a : action) (n : node) : list (N * option nat * N) :=
  match n with
  | Group _ _ children => flat_map (calls a) children
  | Bench id _ _ ignored args threads _ => calls_entry a id ignored args threads
  end.

Definition all_calls (a : action) (t : list node) : list (N * option nat * N) := flat_map (calls a) t.

(** ** Boolean specification on an observed output *)

Fixpoint str_eqb (a b : str) : bool :=
  match a, b with
  | [], [] => true
  | x :: a', y :: b' => N.eqb x y && str_eqb a' b'
  | _, _ => false
  end.

Fixpoint list_eqb {A} (eqb : A -> A -> bool) (a b : list A) : bool :=
  match a, b with
  | [], [] => true
  | x :: a', y :: b' => eqb x y && list_eqb eqb a' b'
  | _, _ => false
  end.

Fixpoint sk_eqb (a b : sk) : bool :=
  match a, b with
  | Sk n1 c1 r1 k1, Sk n2 c2 r2 k2 =>
    str_eqb n1 n2 && list_eqb str_eqb c1 c2 && list_eqb (list_eqb str_eqb) r1 r2
    && (fix go (x y : list sk) : bool :=
          match x, y with
          | [], [] => true
          | s :: x', t :: y' => sk_eqb s t && go x' y'
          | _, _ => false
          end) k1 k2
  end.

(** [paint_sb a t out]: the observed stdout parses, unambiguously, to exactly
    the skeleton of the tree that was run (every node once, in order, with its
    glyph and bars validated by the parser, its cells under the six headings
    and its continuation rows attached to it). *)
Definition paint_sb (a : action) (t : list node) (out : str) : bool :=
  match t with
  | [] => match out with [] => true | _ => false end
  | _ =>
    match parse out with
    | Some s => list_eqb sk_eqb s (skeleton a t)
    | None => false
    end
  end.
