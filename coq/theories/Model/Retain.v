(** Model of [EntryTree::retain] ([src/entry/tree.rs]) over the tree as the
    runner sees it: every node carries its *display* name
    ([EntryTree::display_name]); a leaf carries [args: Option<Vec<..>>].
    Executable definitions only; proofs are in Proofs/Retain.v. *)

From DivanV Require Import Base.Res Model.SplitVec Model.Filter.

Inductive tree : Type :=
| Parent (display_name : str) (children : list tree)
| Leaf (display_name : str) (args : option (list str)).

Definition tree_name (t : tree) : str :=
  match t with Parent n _ => n | Leaf n _ => n end.

(** "::" *)
Definition sep : str := [58%N; 58%N].

(** [if parent_path.is_empty() { name } else { format!("{parent_path}::{name}") }] *)
Definition child_path (parent_path name : str) : str :=
  match parent_path with
  | [] => name
  | _ => parent_path ++ sep ++ name
  end.

(** [format!("{subtree_path}::{arg}")] (no emptiness test here in the code). *)
Definition arg_path (subtree_path arg : str) : str := subtree_path ++ sep ++ arg.

(** [Vec::retain_mut] with a closure that may edit the element: keep the
    edited elements for which the closure answers true, in order. *)
Definition filter_map {A B : Type} (f : A -> option B) : list A -> list B :=
  fix go (l : list A) : list B :=
    match l with
    | [] => []
    | x :: r => match f x with Some y => y :: go r | None => go r end
    end.

(** The closure of the inner [retain]: [None] = the subtree is removed,
    [Some t'] = it is kept, edited to [t']. *)
Fixpoint retain_tree (f : str -> bool) (parent_path : str) (t : tree) : option tree :=
  let subtree_path := child_path parent_path (tree_name t) in
  match t with
  | Parent n children =>
      let children' := filter_map (retain_tree f subtree_path) children in
      (* If no children exist, filter out this parent. *)
      match children' with
      | [] => None
      | _ => Some (Parent n children')
      end
  | Leaf n None => if f subtree_path then Some t else None
  | Leaf n (Some args) =>
      let args' := filter (fun arg => f (arg_path subtree_path arg)) args in
      (* If no arguments exist, filter out this leaf. *)
      match args' with
      | [] => None
      | _ => Some (Leaf n (Some args'))
      end
  end.

Definition retain_forest (f : str -> bool) (parent_path : str) (ts : list tree) : list tree :=
  filter_map (retain_tree f parent_path) ts.

(** [EntryTree::retain(tree, filter)] *)
Definition retain (f : str -> bool) (ts : list tree) : list tree := retain_forest f [] ts.

(** The same with a filter that can panic (the real closure calls
    [FilterSet::is_match], whose [split_index] asserts in debug builds): the
    first panic aborts everything. *)
Definition filter_map_res {A B : Type} (f : A -> res (option B)) : list A -> res (list B) :=
  fix go (l : list A) : res (list B) :=
    match l with
    | [] => Ok []
    | x :: r =>
        do y <- f x;
        do r' <- go r;
        Ok (match y with Some y => y :: r' | None => r' end)
    end.

Fixpoint filter_res {A : Type} (f : A -> res bool) (l : list A) : res (list A) :=
  match l with
  | [] => Ok []
  | x :: r =>
      do b <- f x;
      do r' <- filter_res f r;
      Ok (if b then x :: r' else r')
  end.

Fixpoint retain_tree_res (f : str -> res bool) (parent_path : str) (t : tree) : res (option tree) :=
  let subtree_path := child_path parent_path (tree_name t) in
  match t with
  | Parent n children =>
      do children' <- filter_map_res (retain_tree_res f subtree_path) children;
      match children' with
      | [] => Ok None
      | _ => Ok (Some (Parent n children'))
      end
  | Leaf n None => do b <- f subtree_path; Ok (if b then Some t else None)
  | Leaf n (Some args) =>
      do args' <- filter_res (fun arg => f (arg_path subtree_path arg)) args;
      match args' with
      | [] => Ok None
      | _ => Ok (Some (Leaf n (Some args')))
      end
  end.

Definition retain_res (f : str -> res bool) (ts : list tree) : res (list tree) :=
  filter_map_res (retain_tree_res f []) ts.

(** What [Divan::run_action] does before anything else: filter the tree with
    the filter set built from the CLI / builder calls. *)
Definition select (matches : str -> str -> bool) (ops : list (pfilter * bool)) (ts : list tree)
  : res (list tree) :=
  do fs <- fs_build ops;
  retain_res (fs_is_match matches fs) ts.

(** * Observables

    A benchmark case: a leaf without argument list, or one argument of a leaf
    with an argument list; identified by its full display path, in tree order. *)
Fixpoint cases_tree (parent_path : str) (t : tree) : list str :=
  let subtree_path := child_path parent_path (tree_name t) in
  match t with
  | Parent _ children => flat_map (cases_tree subtree_path) children
  | Leaf _ None => [subtree_path]
  | Leaf _ (Some args) => map (arg_path subtree_path) args
  end.

Definition cases_forest (parent_path : str) (ts : list tree) : list str :=
  flat_map (cases_tree parent_path) ts.

Definition cases (ts : list tree) : list str := cases_forest [] ts.

(** The benchmark entries (leaves) with the cases each of them stands for; this
    is the granularity of [--list], which does not print arguments. *)
Fixpoint leaf_cases_tree (parent_path : str) (t : tree) : list (str * list str) :=
  let subtree_path := child_path parent_path (tree_name t) in
  match t with
  | Parent _ children => flat_map (leaf_cases_tree subtree_path) children
  | Leaf _ None => [(subtree_path, [subtree_path])]
  | Leaf _ (Some args) => [(subtree_path, map (arg_path subtree_path) args)]
  end.

Definition leaf_cases (ts : list tree) : list (str * list str) := flat_map (leaf_cases_tree []) ts.

(** No empty group and no leaf with an emptied argument list anywhere. *)
Fixpoint no_empty_tree (t : tree) : bool :=
  match t with
  | Parent _ children =>
      match children with [] => false | _ => forallb no_empty_tree children end
  | Leaf _ None => true
  | Leaf _ (Some args) => match args with [] => false | _ => true end
  end.

(** Paths of the inner nodes (groups/modules) still present. *)
Fixpoint parents_tree (parent_path : str) (t : tree) : list str :=
  let subtree_path := child_path parent_path (tree_name t) in
  match t with
  | Parent _ children => subtree_path :: flat_map (parents_tree subtree_path) children
  | Leaf _ _ => []
  end.

Definition parents (ts : list tree) : list str := flat_map (parents_tree []) ts.

(** Skeleton equality of trees (names and argument lists). *)
Fixpoint tree_eqb (a b : tree) : bool :=
  match a, b with
  | Parent n1 c1, Parent n2 c2 =>
      str_eqb n1 n2 &&
      (fix go (l1 l2 : list tree) : bool :=
         match l1, l2 with
         | [], [] => true
         | x :: r1, y :: r2 => tree_eqb x y && go r1 r2
         | _, _ => false
         end) c1 c2
  | Leaf n1 None, Leaf n2 None => str_eqb n1 n2
  | Leaf n1 (Some a1), Leaf n2 (Some a2) => str_eqb n1 n2 && list_eqb str_eqb a1 a2
  | _, _ => false
  end.

(** * Boolean specification on what the implementation kept ([out]) of [ts]
    under the selection predicate [sel] (a function of the full display path):

    - the kept cases are exactly the selected cases, in the original order;
    - no empty group / emptied leaf remains;
    - the inner nodes kept are exactly the inner nodes with a selected case
      below them, in the original order. *)
Definition has_selected_below (sel : str -> bool) (parent_path : str) (t : tree) : bool :=
  existsb sel (cases_tree parent_path t).

Fixpoint parents_with_selected (sel : str -> bool) (parent_path : str) (t : tree) : list str :=
  let subtree_path := child_path parent_path (tree_name t) in
  match t with
  | Parent _ children =>
      if has_selected_below sel parent_path t
      then subtree_path :: flat_map (parents_with_selected sel subtree_path) children
      else []
  | Leaf _ _ => []
  end.

Definition retain_sb (sel : str -> bool) (ts : list tree) (out : list tree) : bool :=
  list_eqb str_eqb (cases out) (filter sel (cases ts))
  && forallb no_empty_tree out
  && list_eqb str_eqb (parents out) (flat_map (parents_with_selected sel []) ts).
