(** Model of the thread-count normalisation in [run_bench_entry]
    ([src/divan.rs], "let mut thread_counts ... sort_unstable(); dedup()"):
    every [0] is first replaced by [known_parallelism()], THEN the list is
    sorted and consecutive duplicates are removed.  The result is the
    [threads] field of [DriverPaint.node] (the empty list is replaced by [1]
    there).  Executable definitions only. *)
From DivanV Require Import Base.Res.
Local Open Scope N_scope.

Fixpoint insert_n (x : N) (l : list N) : list N :=
  match l with
  | [] => [x]
  | y :: r => if x <=? y then x :: l else y :: insert_n x r
  end.

(** [sort_unstable] on integers: any sort gives the same list. *)
Definition sort_n (l : list N) : list N := fold_right insert_n [] l.

(** [Vec::dedup]: consecutive equal elements collapse to the first. *)
Fixpoint dedup_n (l : list N) : list N :=
  match l with
  | a :: r =>
    match r with
    | b :: _ => if a =? b then dedup_n r else a :: dedup_n r
    | [] => [a]
    end
  | [] => []
  end.

Definition resolve_threads (par : N) (raw : list N) : list N :=
  map (fun n => if n =? 0 then par else n) raw.

Definition norm_threads (par : N) (raw : list N) : list N :=
  dedup_n (sort_n (resolve_threads par raw)).
