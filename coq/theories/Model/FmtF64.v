(** Model of [src/util/fmt.rs:5-40] ([format_f64]) working on the decimal
    string, exactly as the code does (find '.', slice to the significant
    figures, strip trailing zeros / the dot), plus the decimal rendering and
    parsing primitives shared by the duration and scale models and their
    boolean specifications.  Executable definitions only; proofs are in
    Proofs/FmtF64.v.

    Strings are lists of UTF-8 bytes ([list N]), as in Generated/Consts.v. *)

From DivanV Require Import Base.Res.
Local Open Scope N_scope.

Definition str := list N.

Definition ch_dot : N := 46.
Definition ch_0 : N := 48.
Definition ch_space : N := 32.

Definition len (s : str) : N := N.of_nat (length s).
(** [String::truncate(n)] for [n <= len] (a no-op above) / [&s[..n]]. *)
Definition take (n : N) (s : str) : str := firstn (N.to_nat n) s.
Definition drop (n : N) (s : str) : str := skipn (N.to_nat n) s.

(** [str.find(c)] for a one-byte character: byte index of the first match. *)
Fixpoint find_byte (c : N) (s : str) : option N :=
  match s with
  | [] => None
  | b :: r =>
      if b =? c then Some 0
      else match find_byte c r with Some i => Some (i + 1) | None => None end
  end.

(** [bytes().rev().enumerate().find_map(|(i, b)| (b != b'0').then_some(i))]
    on the already reversed list. *)
Fixpoint first_non0 (l : str) (i : N) : option N :=
  match l with
  | [] => None
  | b :: r => if b =? ch_0 then first_non0 r (i + 1) else Some i
  end.

Definition pre_zero (fract : str) : option N := first_non0 (rev fract) 0.

(** [format_f64] after [val.to_string()]: [s] is what [f64]'s [Display]
    printed.  [usize] is 64 bits: [fract_start + fract_digits] is a checked
    addition (debug build).  [str.get(range)] is [Some] iff the range ends
    inside the (ASCII) string. *)
Definition format_f64_str (s : str) (sig : N) : res str :=
  match find_byte ch_dot s with
  | None => Ok s
  | Some di =>
      let fd := sig - di in                      (* saturating_sub *)
      if fd =? 0 then Ok (take di s)
      else
        let fs := di + 1 in
        do fe <- checked_add 64 fs fd;
        if fe <=? len s then
          match pre_zero (take fd (drop fs s)) with
          | Some pz => Ok (take (fe - pz) s)
          | None => Ok (take di s)
          end
        else Ok s
  end.

(** * Decimal numerals *)

(** Decimal digits of [n] ([u128::to_string]); [fuel] counts binary digits,
    which is more than enough (Proofs/FmtF64.v: [digits_of_val],
    [digits_of_unique] characterise the result for every [n], so the fuel
    never runs out on a value it matters for). *)
Fixpoint digits_fuel (fuel : nat) (n : N) : str :=
  match fuel with
  | O => []
  | S f => if n <? 10 then [ch_0 + n]
           else digits_fuel f (n / 10) ++ [ch_0 + n mod 10]
  end.

Definition digits_of (n : N) : str := digits_fuel (S (N.to_nat (N.size n))) n.

(** Exactly [k] digits of [r] (leading zeros; the low [k] digits). *)
Fixpoint pad_digits (k : nat) (r : N) : str :=
  match k with
  | O => []
  | S k' => pad_digits k' (r / 10) ++ [ch_0 + r mod 10]
  end.

Fixpoint drop_while0 (l : str) : str :=
  match l with
  | [] => []
  | b :: r => if b =? ch_0 then drop_while0 r else l
  end.

(** Remove trailing '0' bytes. *)
Definition strip0 (l : str) : str := rev (drop_while0 (rev l)).

Definition frac_part (k : nat) (r : N) : str :=
  match strip0 (pad_digits k r) with
  | [] => []
  | z => ch_dot :: z
  end.

(** Canonical numeral of [t / 10^k]: integer digits in full, at most [k]
    fraction digits, no trailing zeros, no dot without a fraction. *)
Definition render_fix (t : N) (k : N) : str :=
  digits_of (t / 10 ^ k) ++ frac_part (N.to_nat k) (t mod 10 ^ k).

(** * Parsing (for the boolean specifications) *)

Definition is_digit (b : N) : bool := (ch_0 <=? b) && (b <=? 57).

Definition val (l : str) : N := fold_left (fun acc b => acc * 10 + (b - ch_0)) l 0.

(** Split at the first occurrence of byte [c]: (before, Some after). *)
Fixpoint split_at (c : N) (s : str) : str * option str :=
  match s with
  | [] => ([], None)
  | b :: r =>
      if b =? c then ([], Some r)
      else let '(x, y) := split_at c r in (b :: x, y)
  end.

(** All digits, non-empty, no leading zero unless it is the lone "0". *)
Definition canonical_int (l : str) : bool :=
  forallb is_digit l &&
  match l with
  | [] => false
  | [b] => true
  | b :: _ => negb (b =? ch_0)
  end.

Definition last_byte (l : str) : N := last l 0.

(** [s] is the canonical numeral of the exact non-negative rational [a/b]
    truncated toward zero to [max 0 (sig - d)] decimal places, [d] the number
    of integer digits of [a/b]:
    - an integer part (canonical, equal to [floor (a/b)]: kept in full),
    - optionally '.' and [1 <= m <= sig - d] fraction digits, the last one not '0',
    - whose value is [floor (a * 10^k / b) / 10^k] exactly (the digits [m+1..k] being zeros),
    - and nothing else (no sign, no exponent). *)
Definition numeral_sb (s : str) (a b sig : N) : bool :=
  let '(ip, ofp) := split_at ch_dot s in
  let d := len (digits_of (a / b)) in
  let k := sig - d in
  canonical_int ip && (val ip =? a / b) &&
  match ofp with
  | None => val ip * 10 ^ k =? a * 10 ^ k / b
  | Some fp =>
      forallb is_digit fp && negb (len fp =? 0) && negb (last_byte fp =? ch_0) &&
      (len fp <=? k) &&
      ((val ip * 10 ^ len fp + val fp) * 10 ^ (k - len fp) =? a * 10 ^ k / b)
  end.

(** The function the theorems compare against. *)
Definition trunc_numeral (a b sig : N) : str :=
  let k := sig - len (digits_of (a / b)) in
  render_fix (a * 10 ^ k / b) k.

Fixpoint str_eqb (x y : str) : bool :=
  match x, y with
  | [], [] => true
  | a :: x', b :: y' => (a =? b) && str_eqb x' y'
  | _, _ => false
  end.

Definition repeat_byte (c : N) (n : nat) : str := repeat c n.
