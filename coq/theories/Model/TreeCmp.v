(** Model of the entry tree's ordering: [EntryTree::cmp_by_attr],
    [cmp_display_name], [location], [sort_by_attr] ([src/entry/tree.rs:213-284,
    399-437]) and [EntryConst::cmp_name] ([src/entry/generic.rs:159-182]).
    The construction of the tree from the registered entries ([from_benches],
    [insert_group]) is included so that model and implementation can be run
    on the same list of entries; C16 makes no claim about it.
    Executable definitions only; proofs are in Proofs/TreeCmp.v. *)

From DivanV Require Import Base.Res Generated.Consts Model.Natural Model.SortBy Model.ArgCmp.
Local Open Scope N_scope.

(** [EntryLocation { file, line, col }], ordered as derived: file (as [str]),
    line, column. *)
Definition loc : Type := bytes * (N * N).

Definition loc_cmp (a b : loc) : comparison :=
  match bytes_cmp (fst a) (fst b) with
  | Eq => match fst (snd a) ?= fst (snd b) with
          | Eq => snd (snd a) ?= snd (snd b)
          | o => o
          end
  | o => o
  end.

(** [Option<T>::cmp]: [None] is smallest. *)
Definition opt_cmp {A} (c : A -> A -> comparison) (a b : option A) : comparison :=
  match a, b with
  | None, None => Eq
  | None, Some _ => Lt
  | Some _, None => Gt
  | Some x, Some y => c x y
  end.

(** A constant of a generic benchmark: which [partial_cmp] instance it carries
    (its type) and its value under that type's order.  Its name is the leaf's
    display name. *)
Definition const_info : Type := N * Z.

(** What the comparison looks at in a node.  Addresses are abstracted to
    numbers: only equality and order of addresses are used. *)
Inductive tree :=
| Leaf (addr : N) (name : bytes) (cst : option const_info) (lc : loc) (args : option (list bytes))
| Parent (raw : bytes) (group : option (N * bytes * loc)) (children : list tree).
(* group: (address, display name, location) of the attached GroupEntry *)

(** [kind()]: leaves before parents. *)
Definition kind (t : tree) : Z := match t with Leaf _ _ _ _ _ => 0%Z | Parent _ _ _ => 1%Z end.

Definition entry_addr (t : tree) : option N :=
  match t with
  | Leaf a _ _ _ _ => Some a
  | Parent _ (Some (a, _, _)) _ => Some a
  | Parent _ None _ => None
  end.

(** [raw_name.strip_prefix("r#").unwrap_or(raw_name)]. *)
Definition strip_raw (s : bytes) : bytes :=
  match s with
  | 114 :: 35 :: r => r
  | _ => s
  end.

Definition display_name (t : tree) : bytes :=
  match t with
  | Leaf _ n _ _ _ => n
  | Parent _ (Some (_, n, _)) _ => n
  | Parent raw None _ => strip_raw raw
  end.

Definition min_opt_loc (a b : option loc) : option loc :=
  match a, b with
  | None, x => x
  | x, None => x
  | Some x, Some y => match loc_cmp y x with Lt => Some y | _ => Some x end
  end.

(** [location()]: the entry's or group's location, or the earliest location
    among the children ([flat_map(Self::location).min()]: the first of equal
    minima). *)
Fixpoint location (t : tree) : option loc :=
  match t with
  | Leaf _ _ _ l _ => Some l
  | Parent _ (Some (_, _, l)) _ => Some l
  | Parent _ None ch =>
      (fix go (l : list tree) : option loc :=
         match l with
         | [] => None
         | c :: r => min_opt_loc (location c) (go r)
         end) ch
  end.

(** [EntryConst::cmp_name]: the type's [partial_cmp] when both constants carry
    the same instance and it answers [Less]/[Greater]; the names otherwise. *)
Definition const_cmp (a b : const_info) (na nb : bytes) : comparison :=
  if fst a =? fst b then
    match (snd a ?= snd b)%Z with
    | Eq => natural_cmp na nb
    | o => o
    end
  else natural_cmp na nb.

Definition leaf_const (t : tree) : option const_info :=
  match t with Leaf _ _ c _ _ => c | Parent _ _ _ => None end.

(** [cmp_display_name]. *)
Definition name_cmp_tree (a b : tree) : comparison :=
  match leaf_const a, leaf_const b with
  | Some ca, Some cb => const_cmp ca cb (display_name a) (display_name b)
  | _, _ => natural_cmp (display_name a) (display_name b)
  end.

Definition addr_ordering (a b : tree) : option comparison :=
  match entry_addr a, entry_addr b with
  | Some x, Some y => Some (x ?= y)
  | _, _ => None
  end.

Definition attr_cmp_tree (attr : sort_attr) (a b : tree) : comparison :=
  match attr with
  | SKind => (kind a ?= kind b)%Z
  | SName => name_cmp_tree a b
  | SLocation =>
      match opt_cmp loc_cmp (location a) (location b) with
      | Eq => match addr_ordering a b with Some o => o | None => Eq end
      | o => o
      end
  end.

(** [cmp_by_attr]. *)
Definition cmp_by_attr (attr : sort_attr) (a b : tree) : comparison :=
  match addr_ordering a b with
  | Some Eq => Eq
  | _ => cascade (map attr_cmp_tree (with_tie_breakers attr)) a b
  end.

(** [sort_by_attr]: sort the siblings, then each leaf's arguments and each
    parent's children.  A panic of a standard sort anywhere is a panic of the
    whole. *)
Section SortTree.
Variable V : Type.
Variable vcmp : V -> V -> comparison.
Variable fparse : bytes -> option V.

Fixpoint sort_node (fuel : nat) (attr : sort_attr) (reverse : bool) (t : tree) : res tree :=
  match fuel with
  | O => Panic OutOfFuel
  | S f =>
    match t with
    | Leaf a n c l None => Ok t
    | Leaf a n c l (Some args) =>
        do perm <- sort_by (revc reverse (arg_cmp V vcmp fparse attr)) (indexed args);
        Ok (Leaf a n c l (Some (map snd perm)))
    | Parent raw g ch =>
        do sorted <- sort_by (revc reverse (cmp_by_attr attr)) ch;
        do ch' <- (fix go (l : list tree) : res (list tree) :=
                     match l with
                     | [] => Ok []
                     | c :: r => do c' <- sort_node f attr reverse c; do r' <- go r; Ok (c' :: r')
                     end) sorted;
        Ok (Parent raw g ch')
    end
  end.

Fixpoint depth (t : tree) : nat :=
  match t with
  | Leaf _ _ _ _ _ => 1
  | Parent _ _ ch => S (fold_right (fun c m => Nat.max (depth c) m) 0%nat ch)
  end.

(** The forest is sorted as the children of a root. *)
Definition sort_forest (attr : sort_attr) (reverse : bool) (ts : list tree) : res (list tree) :=
  let root := Parent [] None ts in
  match sort_node (S (depth root)) attr reverse root with
  | Ok (Parent _ _ ch) => Ok ch
  | Ok t => Ok [t]
  | Panic p => Panic p
  end.

End SortTree.

(** * Building the tree from the entries (not part of C16's claim) *)

Fixpoint from_path (path : list bytes) (leaf : tree) : tree :=
  match path with
  | [] => leaf
  | m :: rest => Parent m None [from_path rest leaf]
  end.

Fixpoint insert_entry (path : list bytes) (leaf : tree) (ts : list tree) : list tree :=
  match path with
  | [] => ts ++ [leaf]
  | m :: rest =>
      let go := fix go (l : list tree) : option (list tree) :=
        match l with
        | [] => None
        | Parent raw g ch :: r =>
            if bytes_eqb raw m then Some (Parent raw g (insert_entry rest leaf ch) :: r)
            else option_map (cons (Parent raw g ch)) (go r)
        | t :: r => option_map (cons t) (go r)
        end in
      match go ts with
      | Some ts' => ts'
      | None => ts ++ [from_path path leaf]
      end
  end.

(** [insert_group]: walk the module path through matching parents, then set
    the group of the first parent whose raw name is the group's raw name. *)
Fixpoint insert_group (path : list bytes) (raw : bytes) (g : N * bytes * loc) (ts : list tree) : list tree :=
  match path with
  | [] =>
      (fix go (l : list tree) : list tree :=
         match l with
         | [] => []
         | Parent r0 g0 ch :: r =>
             if bytes_eqb r0 raw then Parent r0 (Some g) ch :: r else Parent r0 g0 ch :: go r
         | t :: r => t :: go r
         end) ts
  | m :: rest =>
      (fix go (l : list tree) : list tree :=
         match l with
         | [] => []
         | Parent r0 g0 ch :: r =>
             if bytes_eqb r0 m then Parent r0 g0 (insert_group rest raw g ch) :: r
             else Parent r0 g0 ch :: go r
         | t :: r => t :: go r
         end) ts
  end.

(** Pre-order dump: (depth, kind letter as 0 = leaf, 1 = parent, 2 = parent
    with group, display name, arguments). *)
Fixpoint dump_node (fuel : nat) (d : N) (t : tree) : list (N * N * bytes * option (list bytes)) :=
  match fuel with
  | O => []
  | S f =>
    match t with
    | Leaf _ n _ _ args => [(d, 0, n, args)]
    | Parent _ g ch =>
        (d, match g with Some _ => 2 | None => 1 end, display_name t, None)
        :: flat_map (dump_node f (d + 1)) ch
    end
  end.

Definition dump_forest (ts : list tree) : list (N * N * bytes * option (list bytes)) :=
  flat_map (fun t => dump_node (depth t) 0 t) ts.

(** * Specification of the sibling order (declarative)

    The key of a node for each attribute; siblings are in ascending order of
    the chosen attribute's key, the other two breaking ties, in the documented
    sequence; where two siblings have the same source location their entry
    addresses (declaration order of generic instantiations) decide. *)
Definition name_key_cmp (a b : tree) : comparison :=
  match leaf_const a, leaf_const b with
  | Some ca, Some cb =>
      if fst ca =? fst cb then
        match (snd ca ?= snd cb)%Z with
        | Eq => natural_spec (display_name a) (display_name b)
        | o => o
        end
      else natural_spec (display_name a) (display_name b)
  | _, _ => natural_spec (display_name a) (display_name b)
  end.

Definition loc_key_cmp (a b : tree) : comparison :=
  match opt_cmp loc_cmp (location a) (location b) with
  | Eq => match entry_addr a, entry_addr b with
          | Some x, Some y => x ?= y
          | _, _ => Eq
          end
  | o => o
  end.

Definition kind_key_cmp (a b : tree) : comparison := (kind a ?= kind b)%Z.

Definition spec_tree_cmp (attr : sort_attr) (a b : tree) : comparison :=
  match attr with
  | SKind => thenc kind_key_cmp (thenc name_key_cmp loc_key_cmp) a b
  | SName => thenc name_key_cmp (thenc loc_key_cmp kind_key_cmp) a b
  | SLocation => thenc loc_key_cmp (thenc kind_key_cmp name_key_cmp) a b
  end.

(** Siblings (given in output order) are ascending: never [Greater] against a
    later sibling, in the chosen direction. *)
Fixpoint siblings_sorted_gen {A} (c : A -> A -> comparison) (l : list A) : bool :=
  match l with
  | [] => true
  | x :: r => forallb (fun y => leb_c c x y) r && siblings_sorted_gen c r
  end.

Definition siblings_sorted (c : tree -> tree -> comparison) (l : list tree) : bool :=
  siblings_sorted_gen c l.

(** * Specification of a whole sorted tree against the unsorted one

    [out] has the same nodes as [orig] (identified by entry address, parents
    without an address by their raw name, which is unique among siblings), under
    the same parents — nothing lost, duplicated or moved to another parent — the
    same arguments on every leaf, and every sibling set and argument list is in
    the specified order for the chosen direction. *)
Definition node_id (t : tree) : N + bytes :=
  match t with Leaf a _ _ _ _ => inl a | Parent raw _ _ => inr raw end.

Definition id_eqb (x y : N + bytes) : bool :=
  match x, y with
  | inl a, inl b => a =? b
  | inr a, inr b => bytes_eqb a b
  | _, _ => false
  end.

Fixpoint list_eqb {A} (e : A -> A -> bool) (a b : list A) : bool :=
  match a, b with
  | [], [] => true
  | x :: a', y :: b' => e x y && list_eqb e a' b'
  | _, _ => false
  end.

Definition loc_eqb (a b : loc) : bool :=
  bytes_eqb (fst a) (fst b) && (fst (snd a) =? fst (snd b)) && (snd (snd a) =? snd (snd b)).

Definition opt_eqb {A} (e : A -> A -> bool) (a b : option A) : bool :=
  match a, b with
  | None, None => true
  | Some x, Some y => e x y
  | _, _ => false
  end.

Definition const_eqb (a b : const_info) : bool := (fst a =? fst b) && (snd a =? snd b)%Z.

Definition group_eqb (a b : N * bytes * loc) : bool :=
  (fst (fst a) =? fst (fst b)) && bytes_eqb (snd (fst a)) (snd (fst b)) && loc_eqb (snd a) (snd b).

Definition same_multiset (a b : list bytes) : bool :=
  list_eqb bytes_eqb (isort bytes_cmp a) (isort bytes_cmp b).

Fixpoint ids_nodup (l : list (N + bytes)) : bool :=
  match l with
  | [] => true
  | x :: r => negb (existsb (id_eqb x) r) && ids_nodup r
  end.

Section TreeSb.
Variable V : Type.
Variable vcmp : V -> V -> comparison.
Variable fparse : bytes -> option V.

Definition args_sb (attr : sort_attr) (reverse : bool) (orig out : list bytes) : bool :=
  same_multiset orig out &&
  match attr with
  | SLocation => list_eqb bytes_eqb out (if reverse then rev orig else orig)
  | _ => siblings_sorted_gen (revc reverse (spec_name_cmp V vcmp fparse)) out
  end.

Fixpoint tree_sb (fuel : nat) (attr : sort_attr) (reverse : bool) (orig out : tree) : bool :=
  match fuel with
  | O => false
  | S f =>
    match orig, out with
    | Leaf a1 n1 c1 l1 g1, Leaf a2 n2 c2 l2 g2 =>
        (a1 =? a2) && bytes_eqb n1 n2 && opt_eqb const_eqb c1 c2 && loc_eqb l1 l2 &&
        match g1, g2 with
        | None, None => true
        | Some x, Some y => args_sb attr reverse x y
        | _, _ => false
        end
    | Parent r1 g1 ch1, Parent r2 g2 ch2 =>
        bytes_eqb r1 r2 && opt_eqb group_eqb g1 g2 &&
        (N.of_nat (length ch1) =? N.of_nat (length ch2)) &&
        ids_nodup (map node_id ch2) &&
        forallb (fun c2 => existsb (fun c1 => id_eqb (node_id c1) (node_id c2) && tree_sb f attr reverse c1 c2) ch1) ch2 &&
        siblings_sorted (revc reverse (spec_tree_cmp attr)) ch2
    | _, _ => false
    end
  end.

Definition forest_sb (attr : sort_attr) (reverse : bool) (orig out : list tree) : bool :=
  let a := Parent [] None orig in
  let b := Parent [] None out in
  tree_sb (S (depth a)) attr reverse a b.

End TreeSb.

Definition sort_forest_dec := sort_forest fval fval_cmp dec_parse.
Definition forest_sb_dec := forest_sb fval fval_cmp dec_parse.
