(** Model of the part of [src/divan.rs] that paints the tree: [run_action]
    (initial painter), [run_tree], [run_bench_entry] with its [run_bench]
    closure, and of [EntryTree::max_name_span] / [common_column_width]
    ([src/entry/tree.rs]).  The input is the tree after filtering and sorting
    (C13, C16) with options already resolved per leaf (C15).
    Executable definitions only. *)

From DivanV Require Import Base.Res Model.Painter.

(** What one call of the benchmark function left behind: whether the
    [Bencher] was used ([did_run]) and the serialised statistics. *)
Record run := mkRun { did_run : bool; cells : stats_cells }.

(** [EntryTree] after [retain] / [sort_by_attr].
    - [sc]: [bench_options()] of the node for [common_column_width]:
      [None] = no options, [Some None] = options without [sample_count];
    - [ignored]: the result of [should_ignore(options.ignore)];
    - [args]: [Some names] for [BenchEntryRunner::Args] (the retained, sorted
      argument names), [None] for [Plain];
    - [threads]: the resolved, sorted and deduplicated thread counts (may be
      empty: then the code uses [1]);
    - [out i j]: the outcome of the run for argument [i] (0 for [Plain]) and
      the [j]-th thread count. *)
Inductive node :=
| Group (name : str) (sc : option (option N)) (children : list node)
| Bench (id : N) (name : str) (sc : option (option N)) (ignored : bool)
        (args : option (list str)) (threads : list N) (out : nat -> nat -> run).

Inductive action := ABench | ATest | AList.

Definition is_bench (a : action) : bool := match a with ABench => true | _ => false end.
Definition is_list (a : action) : bool := match a with AList => true | _ => false end.

Definition node_name (n : node) : str :=
  match n with Group nm _ _ => nm | Bench _ nm _ _ _ _ _ => nm end.

(** Decimal rendering of a number ([Display] of [usize]/[u32]). *)
Fixpoint dec_go (fuel : nat) (n : N) (acc : str) : str :=
  match fuel with
  | O => acc
  | S f =>
    let acc' := (48 + n mod 10)%N :: acc in
    if (n / 10 =? 0)%N then acc' else dec_go f (n / 10)%N acc'
  end.
Definition dec (n : N) : str := dec_go (S (N.size_nat n)) n [].

(** ["t={thread_count}"] *)
Definition thread_name (tc : N) : str := [116; 61]%N ++ dec tc.

(** [for (i, x) in xs.iter().enumerate() { let is_last = i == xs.len() - 1; .. }] *)
Fixpoint enum_from {A} (i : nat) (l : list A) : list (nat * A) :=
  match l with [] => [] | x :: r => (i, x) :: enum_from (S i) r end.

Definition for_enum {A B} (l : list A) (f : nat -> bool -> A -> list B) : list B :=
  let len := length l in
  flat_map (fun ix => f (fst ix) (Nat.eqb (fst ix) (len - 1)) (snd ix)) (enum_from 0 l).

(** The [run_bench] closure of [run_bench_entry]. *)
Definition run_bench (a : action) (id : N) (arg : option nat) (tcs : list N) (out : nat -> run)
           (name : str) (is_last_bench : bool) : list op :=
  let has_tb := Nat.ltb 1 (length tcs) in
  (if has_tb then [StartParent name is_last_bench] else [StartLeaf name is_last_bench])
  ++ for_enum tcs (fun i i_is_last tc =>
       let is_last_tc := if has_tb then i_is_last else is_last_bench in
       (if has_tb then [StartLeaf (thread_name tc) is_last_tc] else [])
       ++ [Invoke id arg tc]
       ++ (if did_run (out i) && is_bench a
           then [FinishLeaf is_last_tc (cells (out i))]
           else [FinishEmptyLeaf]))
  ++ (if has_tb then [FinishParent] else []).

(** [run_bench_entry] *)
Definition run_bench_entry (a : action) (id : N) (name : str) (ignored : bool)
           (args : option (list str)) (threads : list N) (out : nat -> nat -> run)
           (is_last_entry : bool) : list op :=
  if ignored then [IgnoreLeaf name is_last_entry]
  else if is_list a then [StartLeaf name is_last_entry; FinishEmptyLeaf]
  else
    let tcs := match threads with [] => [1%N] | _ => threads end in
    match args with
    | None => run_bench a id None tcs (out 0%nat) name is_last_entry
    | Some names =>
      [StartParent name is_last_entry]
      ++ for_enum names (fun i is_last_arg arg_name =>
           run_bench a id (Some i) tcs (out i) arg_name is_last_arg)
      ++ [FinishParent]
    end.

(** [run_tree] *)
Fixpoint run_node (a : action) (is_last : bool) (n : node) : list op :=
  match n with
  | Bench id name _ ignored args threads out =>
    run_bench_entry a id name ignored args threads out is_last
  | Group name _ children =>
    [StartParent name is_last]
    ++ (let len := length children in
        (fix go (i : nat) (l : list node) : list op :=
           match l with
           | [] => []
           | c :: r => run_node a (Nat.eqb i (len - 1)) c ++ go (S i) r
           end) 0%nat children)
    ++ [FinishParent]
  end.

Fixpoint run_list_from (a : action) (len i : nat) (l : list node) : list op :=
  match l with
  | [] => []
  | c :: r => run_node a (Nat.eqb i (len - 1)) c ++ run_list_from a len (S i) r
  end.

Definition run_tree (a : action) (t : list node) : list op :=
  run_list_from a (length t) 0 t.

(** [EntryTree::max_name_span(tree, depth)] *)
Definition list_max (l : list nat) : nat := fold_right Nat.max 0 l.

Fixpoint span_node (d : nat) (n : node) : nat :=
  match n with
  | Group name _ children =>
    Nat.max (d * 3 + length name)
            ((fix go (l : list node) : nat :=
                match l with [] => 0 | c :: r => Nat.max (span_node (S d) c) (go r) end) children)
  | Bench _ name _ _ args _ _ =>
    Nat.max (Nat.max (d * 3 + length name) 0)
            (match args with
             | None => 0
             | Some names => list_max (map (fun a => S d * 3 + length a) names)
             end)
  end.

Definition max_span (d : nat) (t : list node) : nat := list_max (map (span_node d) t).

(** [EntryTree::common_column_width(tree, TreeColumn::Samples)]:
    [1 + ilog10(sample_count)] = number of decimal digits (1 for 0). *)
Definition default_sample_count : N := 100.

Definition sc_width (o : option N) : nat :=
  length (dec (match o with Some k => k | None => default_sample_count end)).

(** A node without options contributes 0 and its children are not visited
    ([let Some(options) = tree.bench_options() else { return 0 }]). *)
Fixpoint samples_width (n : node) : nat :=
  match n with
  | Group _ None _ => 0
  | Group _ (Some o) children =>
    Nat.max (sc_width o)
            ((fix go (l : list node) : nat :=
                match l with [] => 0 | c :: r => Nat.max (samples_width c) (go r) end) children)
  | Bench _ _ None _ _ _ _ => 0
  | Bench _ _ (Some o) _ _ _ _ => Nat.max (sc_width o) 0
  end.

(** [KnownCounterKind::MAX_COMMON_COLUMN_WIDTH = "1.111 Kitem/s".len()] *)
Definition max_common_column_width : nat := 13.

Definition initial_widths (a : action) (t : list node) : list nat :=
  if is_bench a then
    let w := max_common_column_width in
    [w; w; w; w; list_max (map samples_width t); 0]
  else [0; 0; 0; 0; 0; 0].

(** [run_action] from the point where the tree is filtered and sorted:
    nothing is printed for an empty tree. *)
Definition paint_ops (a : action) (t : list node) : list op :=
  match t with [] => [] | _ => run_tree a t end.

Definition paint (a : action) (t : list node) : res (painter * str) :=
  exec (painter_new (max_span 0 t) (initial_widths a t)) (paint_ops a t).

(** The calls of benchmark functions, in order. *)
Definition invokes (ops : list op) : list (N * option nat * N) :=
  flat_map (fun o => match o with Invoke id a tc => [(id, a, tc)] | _ => [] end) ops.
