(** Model of [src/time/timestamp/tsc/mod.rs] (TscTimestamp::duration_since),
    [src/time/fine_duration.rs:12-22] (From<Duration>) and
    [src/time/timer.rs:64-137] (Timer::measure_precision).
    Executable definitions only; proofs are in Proofs/Timestamp.v. *)

From DivanV Require Import Base.Res Generated.Consts.
Local Open Scope N_scope.

(** [TscTimestamp::duration_since(self = later, earlier, frequency)].
    [checked_sub] on u64, widening to u128, multiply by PICOS (a debug build
    panics on u128 overflow, so the multiplication is checked), divide. *)
Definition tsc_duration (later earlier freq : N) : res N :=
  if later <? earlier then Ok 0
  else
    do prod <- checked_mul 128 (later - earlier) tsc_picos_const;
    checked_div prod freq.

(** [FineDuration::from(Duration { secs, nanos })]:
    [as_nanos() = secs * 10^9 + nanos] (u128), then [checked_mul(1000)],
    panicking when the product does not fit. *)
Definition duration_as_nanos (secs nanos : N) : N := secs * 1000000000 + nanos.

Definition fine_from_duration (secs nanos : N) : res N :=
  checked_mul 128 (duration_as_nanos secs nanos) 1000.

(** [Timestamp::duration_since] / [RawSample::duration], OS arm
    ([src/time/timestamp/mod.rs]: [(Os(this), Os(earlier), Timer::Os) =>
    this.duration_since(earlier).into()]).  An [Instant] is modelled as the
    number of nanoseconds since an arbitrary origin;
    [Instant::duration_since] saturates at zero (as N subtraction does), the
    resulting [Duration] is split into seconds and sub-second nanoseconds and
    converted by [FineDuration::from]. *)
Definition os_duration_since (later earlier : N) : res N :=
  let e := later - earlier in
  fine_from_duration (e / 1000000000) (e mod 1000000000).

Definition osd_sb (earlier later : N) (out : res N) : bool :=
  match out with
  | Ok v => v =? (later - earlier) * 1000
  | Panic _ => false
  end.

(** [Timer::measure_precision] as a consumer of the stream of samples
    (differences of successive start/end readings, already in picoseconds).
    State: minimum seen, how often it was seen again, the artificial delay
    length and the position in the inner [for _ in 0..100] loop. *)
Record prec_state := {
  ps_min : N;
  ps_seen : N;
  ps_delay : N;
  ps_i : N
}.

Definition prec_init : prec_state :=
  {| ps_min := u128_max; ps_seen := 0; ps_delay := 0; ps_i := 0 |}.

Inductive prec_out := PrecContinue (s : prec_state) | PrecReturn (v : N).

(** Advance the inner-loop counter; after 100 samples the delay grows
    ([saturating_add] on usize). *)
Definition prec_tick (s : prec_state) : prec_state :=
  if ps_i s + 1 <? prec_inner_loop then
    {| ps_min := ps_min s; ps_seen := ps_seen s; ps_delay := ps_delay s; ps_i := ps_i s + 1 |}
  else
    {| ps_min := ps_min s; ps_seen := ps_seen s;
       ps_delay := sat_add 64 (ps_delay s) 1; ps_i := 0 |}.

Definition prec_step (s : prec_state) (sample : N) : prec_out :=
  if sample =? 0 then PrecContinue (prec_tick s)
  else match sample ?= ps_min s with
       | Gt => if prec_delay_giveup <? ps_delay s then PrecReturn (ps_min s)
               else PrecContinue (prec_tick s)
       | Eq => let seen := ps_seen s + 1 in
               if prec_seen_threshold <=? seen then PrecReturn (ps_min s)
               else PrecContinue (prec_tick
                      {| ps_min := ps_min s; ps_seen := seen;
                         ps_delay := ps_delay s; ps_i := ps_i s |})
       | Lt => PrecContinue (prec_tick
                      {| ps_min := sample; ps_seen := 0;
                         ps_delay := ps_delay s; ps_i := ps_i s |})
       end.

(** Run over a finite prefix of the sample stream; [None] = prefix exhausted
    before the function returned. *)
Fixpoint prec_run (s : prec_state) (samples : list N) : option N :=
  match samples with
  | [] => None
  | x :: rest =>
      match prec_step s x with
      | PrecReturn v => Some v
      | PrecContinue s' => prec_run s' rest
      end
  end.

Definition measure_precision (samples : list N) : option N :=
  prec_run prec_init samples.

(** Number of samples consumed before returning (for the correspondence
    check: the harness counts clock reads). *)
Fixpoint prec_consumed (s : prec_state) (samples : list N) (acc : N) : option N :=
  match samples with
  | [] => None
  | x :: rest =>
      match prec_step s x with
      | PrecReturn _ => Some (acc + 1)
      | PrecContinue s' => prec_consumed s' rest (acc + 1)
      end
  end.

(** * Boolean specifications (evaluated on the implementation's outputs by the
    violation search; stated without reference to how the model computes). *)

(** [v] is the floor of [(b - a) * 10^12 / f], or 0 when [b < a]: said with
    multiplications only. *)
Definition tsc_sb (a b f : N) (out : res N) : bool :=
  match out with
  | Ok v =>
      if b <? a then v =? 0
      else (v * f <=? (b - a) * 1000000000000) && ((b - a) * 1000000000000 <? (v + 1) * f)
  | Panic _ => false
  end.

Definition dur_sb (secs nanos : N) (out : res N) : bool :=
  match out with
  | Ok v => v =? (secs * 1000000000 + nanos) * 1000
  | Panic _ => false
  end.

(** Uniform clock of [step] ticks at frequency [f]: the reported precision is
    the duration of one step. *)
Definition prec_sb (f step : N) (out : option N) : bool :=
  match out with
  | Some v => tsc_sb 0 step f (Ok v)
  | None => false
  end.

(** * The per-kind cache of [Timer::precision] (timer.rs: one [OnceLock] per
    [TimerKind]; the value measured by the first query of a kind is what every
    later query of that kind reports — the value printed as "Timer precision"
    and used by the sampling loop). *)

Inductive tkind := KOs | KTsc.

Definition tkind_eqb (a b : tkind) : bool :=
  match a, b with KOs, KOs => true | KTsc, KTsc => true | _, _ => false end.

(** Cache state: the two [OnceLock]s. *)
Record pcache := { pc_os : option N; pc_tsc : option N }.
Definition pcache_empty : pcache := {| pc_os := None; pc_tsc := None |}.

Definition pc_get (c : pcache) (k : tkind) : option N :=
  match k with KOs => pc_os c | KTsc => pc_tsc c end.

Definition pc_set (c : pcache) (k : tkind) (v : N) : pcache :=
  match k with
  | KOs => {| pc_os := Some v; pc_tsc := pc_tsc c |}
  | KTsc => {| pc_os := pc_os c; pc_tsc := Some v |}
  end.

(** One call of [precision()] on a timer of kind [k] whose
    [measure_precision()] would return [m] if it ran now ([get_or_init]). *)
Definition prec_query (c : pcache) (q : tkind * N) : N * pcache :=
  let '(k, m) := q in
  match pc_get c k with
  | Some v => (v, c)
  | None => (m, pc_set c k m)
  end.

Fixpoint prec_queries (c : pcache) (qs : list (tkind * N)) : list N :=
  match qs with
  | [] => []
  | q :: qs' => let '(v, c') := prec_query c q in v :: prec_queries c' qs'
  end.

(** Declarative reading: the first measurement of kind [k] in [qs]. *)
Fixpoint first_of_kind (k : tkind) (qs : list (tkind * N)) : option N :=
  match qs with
  | [] => None
  | (k', m) :: qs' => if tkind_eqb k k' then Some m else first_of_kind k qs'
  end.

Fixpoint all_eqb (l : list N) : bool :=
  match l with
  | x :: ((y :: _) as t) => (x =? y) && all_eqb t
  | _ => true
  end.

(** Boolean specification evaluated on the implementation's answers to a query
    sequence in ONE process.  [kinds] = the queried kinds, [tscv] = the value a
    TSC measurement gives under the virtual clock (the first TSC query's step,
    C11's precision clause), the OS clock has nanosecond resolution: every TSC
    answer is [tscv]; all OS answers are equal, non-zero and whole nanoseconds
    (so in particular no answer of one kind is the other kind's value when
    [tscv] is not a whole number of nanoseconds). *)
Definition precq_sb (kinds : list tkind) (tscv : N) (answers : list N) : bool :=
  (length kinds =? length answers)%nat &&
  forallb (fun ka => match fst ka with KTsc => snd ka =? tscv | KOs => true end) (combine kinds answers) &&
  (let os := map snd (filter (fun ka => tkind_eqb (fst ka) KOs) (combine kinds answers)) in
   all_eqb os && forallb (fun v => (0 <? v) && (v mod 1000 =? 0)) os).
