(** C20: the decidable condition under which the painted tree can be read
    back ([names_ok]), stated on the expected picture.
    - names: no newline, no box-drawing character (U+2500 ─, U+2502 │, U+251C ├,
      U+2570 ╰), no two consecutive spaces, no trailing space; top-level names
      non-empty and not starting with a space;
    - cells: no newline, no ├ or ╰, no │ (the column separator); a cell line
      shows something (at least two cells, or one non-blank cell).
    Executable definitions only. *)
From DivanV Require Import Base.Res Model.Painter Model.DriverPaint Model.Parse.

Definition plain_charb (c : N) : bool :=
  negb (N.eqb c nl) && negb (N.eqb c c_bar) && negb (N.eqb c c_branch)
  && negb (N.eqb c c_corner) && negb (N.eqb c c_dash).

Definition tame_charb (c : N) : bool :=
  negb (N.eqb c nl) && negb (N.eqb c c_branch) && negb (N.eqb c c_corner).

(** No two consecutive spaces and no trailing space. *)
Fixpoint name_tail_okb (s : str) : bool :=
  match s with
  | [] => true
  | a :: r =>
    match r with
    | [] => negb (N.eqb a sp)
    | b :: _ => negb (N.eqb a sp && N.eqb b sp) && name_tail_okb r
    end
  end.

Definition name_okb (n : str) : bool := forallb plain_charb n && name_tail_okb n.

Definition nobarb (c : str) : bool := forallb (fun x => negb (N.eqb x c_bar)) c.

Definition row_visibleb (row : list str) : bool :=
  Nat.leb 2 (length row)
  || match row with
     | [c] => match trim c with [] => false | _ => true end
     | _ => false
     end.

Definition cells_okb (c : option (list str)) : bool :=
  match c with
  | None => true
  | Some row => forallb nobarb row && forallb (forallb tame_charb) row && row_visibleb row
  end.

Definition spec_okb (l : lspec) : bool :=
  match l with
  | LTop n c =>
    name_okb n && cells_okb c && match n with a :: _ => negb (N.eqb a sp) | [] => false end
  | LNode _ _ n c => name_okb n && cells_okb c
  | LRow _ _ row => forallb nobarb row && forallb (forallb tame_charb) row
  | LBlank => true
  end.

Definition picture_okb (a : action) (t : list node) : bool :=
  forallb spec_okb (layout (picture a t)).
