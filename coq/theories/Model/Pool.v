(** Model of [src/util/thread/pool.rs]: a labelled transition system whose steps
    are the shared-memory operations of [broadcast_task] (caller) and of the
    worker loop in [spawn], with ghost state for the property statements.

    Executable: [step s l] returns the successor when label [l] is enabled, so
    the same definition serves the proofs (all interleavings = all label
    sequences accepted by [step]) and the trace replay of the correspondence
    check (the real pool, compiled against a deterministic scheduler, emits the
    label sequence of each explored schedule).

    Shape constants that an edit of the code can change without any execution
    on x86 noticing (memory orderings) or that are single tokens (the [while]
    around [park], the [== 1] test) come from Generated/Consts.v. *)

From DivanV Require Import Base.Res Generated.Consts.
From Coq Require Import Arith.

Module PoolM.

(** A call of the task: (broadcast number, index). *)
Definition call := (nat * nat)%type.
Definition view := list call.

(** Worker thread states (program counter of the loop in [spawn]). *)
Inductive wstate :=
| WIdle                 (* blocked in [receiver.recv()] *)
| WRun (b : nat)        (* received the task of broadcast b; next: task.run(k) *)
| WClone (b : nat)      (* next: clone main_thread handle out of the task block *)
| WDec (b : nat)        (* next: ref_count.fetch_sub(1) *)
| WUnpark (b : nat)     (* fetch_sub returned the "last" value; next: unpark via the clone *)
| WExit.                (* recv returned Err: thread finished *)

(** Caller states (program counter of [broadcast_task]). *)
Inductive cstate :=
| CIdle                 (* outside broadcast *)
| CSend (k n : nat)     (* next: threads[k-1].send(task), 1 <= k <= n *)
| CRun (n : nat)        (* next: task.run(0) *)
| CLoad (n : nat)       (* next: ref_count.load() *)
| CPark (n : nat)       (* load saw > 0; next: thread::park() *)
| CDone.                (* pool dropped *)

Record state := {
  script : list nat;          (* aux thread counts of the broadcasts still to come *)
  cst : cstate;
  ws : list wstate;           (* worker k is [nth (k-1) ws] *)
  rc : nat;                   (* ref_count of the current task block *)
  alive : bool;               (* the task block exists (caller has not returned) *)
  cur : nat;                  (* number of the current/latest broadcast *)
  token : bool;               (* park token of the caller *)
  (* ghost *)
  calls : list call;          (* task calls, in execution order *)
  panics : list call;         (* which of them panicked *)
  slots : list (option nat);  (* par_extend result slots of the current broadcast *)
  bad : bool;                 (* a worker touched the task block when it was not alive, or rc underflowed *)
  cview : view;               (* calls the caller happens-after *)
  lview : view;               (* view attached to the ref_count location (release sequence) *)
  wviews : list view;         (* per-worker views *)
  returned : list (nat * view) (* ghost: (broadcast, caller view at return) *)
}.

Definition init (scr : list nat) : state :=
  {| script := scr; cst := CIdle; ws := []; rc := 0; alive := false; cur := 0; token := false;
     calls := []; panics := []; slots := []; bad := false;
     cview := []; lview := []; wviews := []; returned := [] |}.

Inductive label :=
| EBegin (n : nat)          (* TaskShared::new + lock + spawn missing workers *)
| ESend (k : nat)           (* rendezvous send to worker k / its recv *)
| ERun0 (p : bool)          (* caller runs index 0; p = panicked *)
| ELoad                     (* caller loads ref_count *)
| EPark                     (* caller's park returns by consuming the token *)
| ESpurious                 (* caller's park returns spuriously *)
| EWRun (k : nat) (p : bool)
| EWClone (k : nat)
| EWDec (k : nat)
| EWUnpark (k : nat)
| EDrop                     (* ThreadPool dropped: all senders dropped *)
| EWExit (k : nat).

Definition is_release (o : mem_order) : bool :=
  match o with ORelease | OAcqRel | OSeqCst => true | _ => false end.
Definition is_acquire (o : mem_order) : bool :=
  match o with OAcquire | OAcqRel | OSeqCst => true | _ => false end.

Fixpoint set_nth {A} (i : nat) (x : A) (l : list A) : list A :=
  match l, i with
  | [], _ => []
  | _ :: t, O => x :: t
  | h :: t, S j => h :: set_nth j x t
  end.

Definition getw (s : state) (k : nat) : option wstate :=
  match k with O => None | S j => nth_error (ws s) j end.

Definition setw (s : state) (k : nat) (w : wstate) : list wstate :=
  match k with O => ws s | S j => set_nth j w (ws s) end.

Definition getview (s : state) (k : nat) : view :=
  match k with O => [] | S j => nth j (wviews s) [] end.

Definition setview (s : state) (k : nat) (v : view) : list view :=
  match k with O => wviews s | S j => set_nth j v (wviews s) end.

(** Does a worker touching the task block of broadcast [b] do so legitimately? *)
Definition touch_ok (s : state) (b : nat) : bool := alive s && Nat.eqb b (cur s).

Definition upd_bad (s : state) (ok : bool) : bool := bad s || negb ok.

Definition step (s : state) (l : label) : option state :=
  match l, cst s with
  | EBegin n, CIdle =>
      match script s with
      | m :: rest =>
          if Nat.eqb n m then
            let extra := n - length (ws s) in
            Some {| script := rest;
                    cst := (if Nat.eqb n 0 then CRun 0 else CSend 1 n);
                    ws := ws s ++ repeat WIdle extra;
                    rc := n; alive := true; cur := S (cur s); token := token s;
                    calls := calls s; panics := panics s;
                    slots := repeat None (S n);
                    bad := bad s;
                    cview := cview s; lview := []; wviews := wviews s ++ repeat [] extra;
                    returned := returned s |}
          else None
      | [] => None
      end
  | ESend k', CSend k n =>
      if Nat.eqb k' k then
        match getw s k with
        | Some WIdle =>
            Some {| script := script s;
                    cst := (if Nat.eqb k n then CRun n else CSend (S k) n);
                    ws := setw s k (WRun (cur s));
                    rc := rc s; alive := alive s; cur := cur s; token := token s;
                    calls := calls s; panics := panics s; slots := slots s; bad := bad s;
                    cview := cview s; lview := lview s;
                    (* the channel hands the caller's view to the worker *)
                    wviews := setview s k (cview s ++ getview s k);
                    returned := returned s |}
        | _ => None
        end
      else None
  | ERun0 p, CRun n =>
      Some {| script := script s; cst := CLoad n; ws := ws s;
              rc := rc s; alive := alive s; cur := cur s; token := token s;
              calls := calls s ++ [(cur s, 0)];
              panics := (if p then panics s ++ [(cur s, 0)] else panics s);
              slots := (if p then slots s else set_nth 0 (Some 0) (slots s));
              bad := bad s;
              cview := (cur s, 0) :: cview s; lview := lview s; wviews := wviews s;
              returned := returned s |}
  | ELoad, CLoad n =>
      let cv := if is_acquire pool_load_ordering then lview s ++ cview s else cview s in
      if Nat.eqb (rc s) 0 then
        (* [while rc > 0] exits: broadcast returns, the task block dies *)
        Some {| script := script s; cst := CIdle; ws := ws s;
                rc := rc s; alive := false; cur := cur s; token := token s;
                calls := calls s; panics := panics s; slots := slots s; bad := bad s;
                cview := cv; lview := lview s; wviews := wviews s;
                returned := returned s ++ [(cur s, cv)] |}
      else
        Some {| script := script s; cst := CPark n; ws := ws s;
                rc := rc s; alive := alive s; cur := cur s; token := token s;
                calls := calls s; panics := panics s; slots := slots s; bad := bad s;
                cview := cv; lview := lview s; wviews := wviews s;
                returned := returned s |}
  | EPark, CPark n =>
      if token s then
        Some {| script := script s;
                (* [while]: re-check the counter; [if]: fall through and return *)
                cst := (if pool_wait_is_loop then CLoad n else CIdle);
                ws := ws s;
                rc := rc s; alive := (if pool_wait_is_loop then alive s else false);
                cur := cur s; token := false;
                calls := calls s; panics := panics s; slots := slots s; bad := bad s;
                cview := cview s; lview := lview s; wviews := wviews s;
                returned := (if pool_wait_is_loop then returned s else returned s ++ [(cur s, cview s)]) |}
      else None
  | ESpurious, CPark n =>
      Some {| script := script s;
              cst := (if pool_wait_is_loop then CLoad n else CIdle);
              ws := ws s;
              rc := rc s; alive := (if pool_wait_is_loop then alive s else false);
              cur := cur s; token := token s;
              calls := calls s; panics := panics s; slots := slots s; bad := bad s;
              cview := cview s; lview := lview s; wviews := wviews s;
              returned := (if pool_wait_is_loop then returned s else returned s ++ [(cur s, cview s)]) |}
  | EWRun k p, _ =>
      match getw s k with
      | Some (WRun b) =>
          Some {| script := script s; cst := cst s;
                  ws := setw s k (WClone b);
                  rc := rc s; alive := alive s; cur := cur s; token := token s;
                  calls := calls s ++ [(b, k)];
                  panics := (if p then panics s ++ [(b, k)] else panics s);
                  slots := (if p then slots s else set_nth k (Some k) (slots s));
                  bad := upd_bad s (touch_ok s b);
                  cview := cview s; lview := lview s;
                  wviews := setview s k ((b, k) :: getview s k);
                  returned := returned s |}
      | _ => None
      end
  | EWClone k, _ =>
      match getw s k with
      | Some (WClone b) =>
          Some {| script := script s; cst := cst s;
                  ws := setw s k (WDec b);
                  rc := rc s; alive := alive s; cur := cur s; token := token s;
                  calls := calls s; panics := panics s; slots := slots s;
                  bad := upd_bad s (touch_ok s b);
                  cview := cview s; lview := lview s; wviews := wviews s;
                  returned := returned s |}
      | _ => None
      end
  | EWDec k, _ =>
      match getw s k with
      | Some (WDec b) =>
          Some {| script := script s; cst := cst s;
                  ws := setw s k (if Nat.eqb (rc s) (N.to_nat pool_unpark_when_old) then WUnpark b else WIdle);
                  rc := rc s - 1; alive := alive s; cur := cur s; token := token s;
                  calls := calls s; panics := panics s; slots := slots s;
                  bad := upd_bad s (touch_ok s b && negb (Nat.eqb (rc s) 0));
                  cview := cview s;
                  lview := (if is_release pool_dec_ordering then getview s k ++ lview s else lview s);
                  wviews := wviews s;
                  returned := returned s |}
      | _ => None
      end
  | EWUnpark k, _ =>
      match getw s k with
      | Some (WUnpark b) =>
          Some {| script := script s; cst := cst s;
                  ws := setw s k WIdle;
                  rc := rc s; alive := alive s; cur := cur s; token := true;
                  calls := calls s; panics := panics s; slots := slots s; bad := bad s;
                  cview := cview s; lview := lview s; wviews := wviews s;
                  returned := returned s |}
      | _ => None
      end
  | EDrop, CIdle =>
      match script s with
      | [] =>
          Some {| script := []; cst := CDone; ws := ws s;
                  rc := rc s; alive := alive s; cur := cur s; token := token s;
                  calls := calls s; panics := panics s; slots := slots s; bad := bad s;
                  cview := cview s; lview := lview s; wviews := wviews s;
                  returned := returned s |}
      | _ => None
      end
  | EWExit k, CDone =>
      match getw s k with
      | Some WIdle =>
          Some {| script := script s; cst := CDone;
                  ws := setw s k WExit;
                  rc := rc s; alive := alive s; cur := cur s; token := token s;
                  calls := calls s; panics := panics s; slots := slots s; bad := bad s;
                  cview := cview s; lview := lview s; wviews := wviews s;
                  returned := returned s |}
      | _ => None
      end
  | _, _ => None
  end.

(** Run a whole label sequence; [None] = some label was not enabled. *)
Fixpoint run (s : state) (ls : list label) : option state :=
  match ls with
  | [] => Some s
  | l :: rest => match step s l with Some s' => run s' rest | None => None end
  end.

Definition all_exited (s : state) : bool :=
  forallb (fun w => match w with WExit => true | _ => false end) (ws s).

Definition final (s : state) : bool :=
  match cst s with CDone => all_exited s | _ => false end.

(** All labels that could possibly be enabled in [s] (for deadlock freedom and
    for the executable explorer used in tests). *)
Definition candidate_labels (s : state) : list label :=
  let ks := seq 1 (length (ws s)) in
  (match script s with n :: _ => [EBegin n] | [] => [EDrop] end)
  ++ map ESend ks ++ [ERun0 false; ELoad; EPark]
  ++ map (fun k => EWRun k false) ks ++ map EWClone ks ++ map EWDec ks ++ map EWUnpark ks ++ map EWExit ks.

Definition enabled (s : state) (l : label) : bool :=
  match step s l with Some _ => true | None => false end.

(** Non-spurious labels enabled in [s]. *)
Definition enabled_labels (s : state) : list label :=
  filter (enabled s) (candidate_labels s).

(** Termination measure (lexicographic pair). *)
Definition wrank (w : wstate) : nat :=
  match w with
  | WExit => 0 | WIdle => 1 | WUnpark _ => 4 | WDec _ => 5 | WClone _ => 6 | WRun _ => 7
  end.

Definition crank (c : cstate) : nat :=
  match c with
  | CIdle => 0 | CDone => 0
  | CSend k n => 7 * (S n - k) + 2
  | CRun _ => 2 | CLoad _ => 1 | CPark _ => 0
  end.

Definition outer_measure (s : state) : nat :=
  length (script s) + match cst s with CDone => 0 | _ => 1 end.

Definition inner_measure (s : state) : nat :=
  crank (cst s) + list_sum (map wrank (ws s)) + (if token s then 2 else 0).

(** Number of workers that still hold the task block of broadcast [b]
    (before their decrement). *)
Definition pre_dec (b : nat) (w : wstate) : bool :=
  match w with
  | WRun b' | WClone b' | WDec b' => Nat.eqb b b'
  | _ => false
  end.

Definition count_pre (s : state) : nat := length (filter (pre_dec (cur s)) (ws s)).

(** * Boolean observations for the violation search (evaluated on replayed
    implementation traces). *)

Definition count_call (c : call) (l : list call) : nat :=
  length (filter (fun d => Nat.eqb (fst c) (fst d) && Nat.eqb (snd c) (snd d)) l).

(** Every index 0..n of broadcast [b] was called exactly once. *)
Definition once_per_index (s : state) (b n : nat) : bool :=
  forallb (fun i => Nat.eqb (count_call (b, i) (calls s)) 1) (seq 0 (S n))
  && Nat.eqb (length (filter (fun d => Nat.eqb (fst d) b) (calls s))) (S n).

Definition mem_call (c : call) (v : view) : bool := negb (Nat.eqb (count_call c v) 0).

(** The caller's view at the return of broadcast [b] contains all its calls. *)
Definition published (s : state) (b n : nat) : bool :=
  match find (fun r => Nat.eqb (fst r) b) (returned s) with
  | Some (_, v) => forallb (fun i => mem_call (b, i) v) (seq 0 (S n))
  | None => false
  end.

(** * Executable invariants (proved inductive in Proofs/Pool.v; also evaluated
    by the explorer in the OCaml driver as a test of the statements). *)

Definition in_broadcast (c : cstate) : bool :=
  match c with CIdle | CDone => false | _ => true end.

Definition inv_rc (s : state) : bool :=
  match cst s with
  | CRun n | CLoad n | CPark n => Nat.eqb (rc s) (count_pre s)
  | CSend k n => Nat.eqb (rc s) (count_pre s + (S n - k)) && Nat.leb 1 k && Nat.leb k n
                 && Nat.leb n (length (ws s))
  | CIdle | CDone => Nat.eqb (count_pre s) 0
  end.

Definition inv_pre_current (s : state) : bool :=
  forallb (fun w => match w with
                    | WRun b | WClone b | WDec b => Nat.eqb b (cur s) && alive s
                    | WUnpark b => Nat.leb b (cur s)
                    | _ => true
                    end) (ws s).

Definition inv_alive (s : state) : bool := Bool.eqb (alive s) (in_broadcast (cst s)).

Definition is_unpark (w : wstate) : bool := match w with WUnpark _ => true | _ => false end.

Definition inv_wakeup (s : state) : bool :=
  match cst s with
  | CPark _ => if Nat.eqb (rc s) 0 && negb (token s) then existsb is_unpark (ws s) else true
  | _ => true
  end.

Definition inv_exit (s : state) : bool :=
  match cst s with
  | CDone => true
  | _ => forallb (fun w => match w with WExit => false | _ => true end) (ws s)
  end.

Definition inv_all (s : state) : bool :=
  inv_rc s && inv_pre_current s && inv_alive s && inv_wakeup s && inv_exit s && negb (bad s)
  && Nat.eqb (length (wviews s)) (length (ws s)).

End PoolM.
