(** Model of [src/util/thread/pool.rs]: a labelled transition system whose steps
    are the shared-memory operations of [broadcast_task] (caller) and of the
    worker loop in [spawn], with ghost state for the property statements.

    Executable: [step c s l] returns the successor when label [l] is enabled, so
    the same definition serves the proofs (all interleavings = all label
    sequences accepted by [step]) and the trace replay of the correspondence
    check (the real pool, compiled against a deterministic scheduler, emits the
    label sequence of each explored schedule).

    Shape constants that an edit of the code can change without any execution
    on x86 noticing (memory orderings) or that are single tokens (the [while]
    around [park], the [> 0] and [== 1] tests) are the fields of [cfg];
    [code_cfg] is the instance read from the source by tools/extract_consts.py
    (Generated/Consts.v).  The theorems are proved for every [cfg] satisfying
    the side conditions named in Properties/C06.v / C07.v, which are discharged
    there against [code_cfg] by [reflexivity].

    Code map (pool.rs):
      EBegin n   [TaskShared::new] (88, 212-217: handle of the caller, ref_count := n)
                 + lock + spawn of the missing threads (98-109, 225-289)
      ESend k    [threads[k-1].send(task)] (111-113) meeting worker k's [recv] (243)
      ERun0 p    [catch_unwind(task.run(0))] (117-118)
      ELoad      [ref_count.load(Acquire) > 0] (125); leaving the loop returns from
                 [broadcast] and the stack-pinned task block dies (92).  The caller's
                 caught payload is dropped only here, after the loop (131): if its
                 destructor panics, the panic escapes from a broadcast whose calls are
                 all done — for the model that is the same step as a return
      EPark / ESpurious   [thread::park()] (126) returning by token / spuriously
      EWRun k p  [catch_unwind(task.run(thread_id))] (247-250)
      EWClone k  [task.shared.as_ref().main_thread.clone()] (260-261)
      EWDec k    [ref_count.fetch_sub(1, Release)] and the [== 1] test (263-268)
      EWUnpark k [main_thread.unpark()] through the clone (270)
      EDrop      the pool (its [Vec<SyncSender>]) is dropped
      EWExit k   worker k's [recv] returns [Err], the loop ends (243, 279) *)

From DivanV Require Import Base.Res Generated.Consts.
From Coq Require Import Arith.

Module PoolM.

(** * Configuration read from the source *)

Record cfg := {
  c_load : mem_order;       (* ordering of [ref_count.load] in the wait loop *)
  c_dec : mem_order;        (* ordering of [ref_count.fetch_sub] *)
  c_unpark_old : nat;       (* the worker unparks iff fetch_sub returned this *)
  c_loop : bool;            (* [while] (true) or [if] (false) around [park] *)
  c_nonzero : bool          (* the loop condition is "ref_count is non-zero" *)
}.

Definition code_cfg : cfg :=
  {| c_load := pool_load_ordering; c_dec := pool_dec_ordering;
     c_unpark_old := N.to_nat pool_unpark_when_old;
     c_loop := pool_wait_is_loop; c_nonzero := pool_wait_while_nonzero |}.

Definition is_release (o : mem_order) : bool :=
  match o with ORelease | OAcqRel | OSeqCst => true | _ => false end.
Definition is_acquire (o : mem_order) : bool :=
  match o with OAcquire | OAcqRel | OSeqCst => true | _ => false end.

(** * State *)

(** A call of the task: (broadcast number, index). *)
Definition call := (nat * nat)%type.
Definition view := list call.

Definition call_eqb (a b : call) : bool := Nat.eqb (fst a) (fst b) && Nat.eqb (snd a) (snd b).
Definition vmem (c : call) (v : view) : bool := existsb (call_eqb c) v.
Definition vadd (c : call) (v : view) : view := if vmem c v then v else c :: v.
Definition vunion (a b : view) : view := fold_right vadd b a.

(** Worker thread states (program counter of the loop in [spawn]). *)
Inductive wstate :=
| WIdle                 (* in (or on its way to) [receiver.recv()] *)
| WRun (b : nat)        (* received the task of broadcast b; next: task.run(k) *)
| WClone (b : nat)      (* next: clone main_thread handle out of the task block *)
| WDec (b : nat)        (* next: ref_count.fetch_sub(1) *)
| WUnpark (b : nat)     (* fetch_sub returned the "last" value; next: unpark via the clone *)
| WExit.                (* recv returned Err: thread finished *)

(** Caller states (program counter of [broadcast_task]). *)
Inductive cstate :=
| CIdle                 (* outside broadcast *)
| CSend (k n : nat)     (* next: threads[k-1].send(task), 1 <= k <= n *)
| CRun (n : nat)        (* next: task.run(0) *)
| CLoad (n : nat)       (* next: ref_count.load() *)
| CPark (n : nat)       (* the loop condition held; next: thread::park() *)
| CDone.                (* pool dropped *)

(** What is recorded when a broadcast returns. *)
Record ret := {
  r_b : nat;                     (* broadcast number *)
  r_n : nat;                     (* its aux thread count *)
  r_view : view;                 (* the caller's view at return *)
  r_slots : list (option nat)    (* par_extend's result slots at return *)
}.

Record state := {
  script : list nat;          (* aux thread counts of the broadcasts still to come *)
  cst : cstate;
  ws : list wstate;           (* worker k is [nth (k-1) ws] *)
  rc : nat;                   (* ref_count of the current task block *)
  alive : bool;               (* the task block exists (caller has not returned) *)
  cur : nat;                  (* number of the current/latest broadcast *)
  token : bool;               (* park token of the caller *)
  (* ghost *)
  calls : list call;          (* task calls, in execution order *)
  panics : list call;         (* which of them panicked *)
  slots : list (option nat);  (* par_extend result slots of the current broadcast *)
  bad : bool;                 (* a worker touched the task block when it was not alive, or rc underflowed *)
  cview : view;               (* calls the caller happens-after *)
  lview : view;               (* view attached to the ref_count location (release sequence) *)
  wviews : list view;         (* per-worker views *)
  returned : list ret         (* one record per returned broadcast, oldest first *)
}.

Definition init (scr : list nat) : state :=
  {| script := scr; cst := CIdle; ws := []; rc := 0; alive := false; cur := 0; token := false;
     calls := []; panics := []; slots := []; bad := false;
     cview := []; lview := []; wviews := []; returned := [] |}.

Inductive label :=
| EBegin (n : nat)          (* TaskShared::new + lock + spawn missing workers *)
| ESend (k : nat)           (* rendezvous send to worker k / its recv *)
| ERun0 (p : bool)          (* caller runs index 0; p = panicked *)
| ELoad                     (* caller loads ref_count *)
| EPark                     (* caller's park returns by consuming the token *)
| ESpurious                 (* caller's park returns spuriously *)
| EWRun (k : nat) (p : bool)
| EWClone (k : nat)
| EWDec (k : nat)
| EWUnpark (k : nat)
| EDrop                     (* ThreadPool dropped: all senders dropped *)
| EWExit (k : nat).

Fixpoint set_nth {A} (i : nat) (x : A) (l : list A) : list A :=
  match l, i with
  | [], _ => []
  | _ :: t, O => x :: t
  | h :: t, S j => h :: set_nth j x t
  end.

Definition getw (s : state) (k : nat) : option wstate :=
  match k with O => None | S j => nth_error (ws s) j end.

Definition setw (s : state) (k : nat) (w : wstate) : list wstate :=
  match k with O => ws s | S j => set_nth j w (ws s) end.

Definition getview (s : state) (k : nat) : view :=
  match k with O => [] | S j => nth j (wviews s) [] end.

Definition setview (s : state) (k : nat) (v : view) : list view :=
  match k with O => wviews s | S j => set_nth j v (wviews s) end.

(** Does a worker touching the task block of broadcast [b] do so legitimately? *)
Definition touch_ok (s : state) (b : nat) : bool := alive s && Nat.eqb b (cur s).

Definition upd_bad (s : state) (ok : bool) : bool := bad s || negb ok.

(** The caller leaves [broadcast_task]: the task block dies, the return is recorded. *)
Definition do_return (s : state) (n : nat) (cv : view) (tok : bool) : state :=
  {| script := script s; cst := CIdle; ws := ws s;
     rc := rc s; alive := false; cur := cur s; token := tok;
     calls := calls s; panics := panics s; slots := slots s; bad := bad s;
     cview := cv; lview := lview s; wviews := wviews s;
     returned := returned s ++ [{| r_b := cur s; r_n := n; r_view := cv; r_slots := slots s |}] |}.

(** The caller goes (back) to the head of the wait loop. *)
Definition to_load (s : state) (n : nat) (tok : bool) : state :=
  {| script := script s; cst := CLoad n; ws := ws s;
     rc := rc s; alive := alive s; cur := cur s; token := tok;
     calls := calls s; panics := panics s; slots := slots s; bad := bad s;
     cview := cview s; lview := lview s; wviews := wviews s;
     returned := returned s |}.

(** Successor states, one function per transition. *)

Definition st_begin (s : state) (n : nat) (rest : list nat) : state :=
  let extra := n - length (ws s) in
  {| script := rest;
     cst := (if Nat.eqb n 0 then CRun 0 else CSend 1 n);
     ws := ws s ++ repeat WIdle extra;
     rc := n; alive := true; cur := S (cur s); token := token s;
     calls := calls s; panics := panics s;
     slots := repeat None (S n);
     bad := bad s;
     cview := cview s; lview := []; wviews := wviews s ++ repeat [] extra;
     returned := returned s |}.

Definition st_send (s : state) (k n : nat) : state :=
  {| script := script s;
     cst := (if Nat.eqb k n then CRun n else CSend (S k) n);
     ws := setw s k (WRun (cur s));
     rc := rc s; alive := alive s; cur := cur s; token := token s;
     calls := calls s; panics := panics s; slots := slots s; bad := bad s;
     cview := cview s; lview := lview s;
     (* the channel hands the caller's view to the worker *)
     wviews := setview s k (vunion (cview s) (getview s k));
     returned := returned s |}.

Definition st_run0 (s : state) (n : nat) (p : bool) : state :=
  {| script := script s; cst := CLoad n; ws := ws s;
     rc := rc s; alive := alive s; cur := cur s; token := token s;
     calls := calls s ++ [(cur s, 0)];
     panics := (if p then panics s ++ [(cur s, 0)] else panics s);
     slots := (if p then slots s else set_nth 0 (Some 0) (slots s));
     bad := bad s;
     cview := vadd (cur s, 0) (cview s); lview := lview s; wviews := wviews s;
     returned := returned s |}.

(** The loop condition held: on to [park]. *)
Definition st_topark (s : state) (n : nat) (cv : view) : state :=
  {| script := script s; cst := CPark n; ws := ws s;
     rc := rc s; alive := alive s; cur := cur s; token := token s;
     calls := calls s; panics := panics s; slots := slots s; bad := bad s;
     cview := cv; lview := lview s; wviews := wviews s;
     returned := returned s |}.

Definition st_wrun (s : state) (k b : nat) (p : bool) : state :=
  {| script := script s; cst := cst s;
     ws := setw s k (WClone b);
     rc := rc s; alive := alive s; cur := cur s; token := token s;
     calls := calls s ++ [(b, k)];
     panics := (if p then panics s ++ [(b, k)] else panics s);
     slots := (if p then slots s else set_nth k (Some k) (slots s));
     bad := upd_bad s (touch_ok s b);
     cview := cview s; lview := lview s;
     wviews := setview s k (vadd (b, k) (getview s k));
     returned := returned s |}.

Definition st_wclone (s : state) (k b : nat) : state :=
  {| script := script s; cst := cst s;
     ws := setw s k (WDec b);
     rc := rc s; alive := alive s; cur := cur s; token := token s;
     calls := calls s; panics := panics s; slots := slots s;
     bad := upd_bad s (touch_ok s b);
     cview := cview s; lview := lview s; wviews := wviews s;
     returned := returned s |}.

Definition st_wdec (c : cfg) (s : state) (k b : nat) : state :=
  {| script := script s; cst := cst s;
     ws := setw s k (if Nat.eqb (rc s) (c_unpark_old c) then WUnpark b else WIdle);
     rc := rc s - 1; alive := alive s; cur := cur s; token := token s;
     calls := calls s; panics := panics s; slots := slots s;
     bad := upd_bad s (touch_ok s b && negb (Nat.eqb (rc s) 0));
     cview := cview s;
     lview := (if is_release (c_dec c) then vunion (getview s k) (lview s) else lview s);
     wviews := wviews s;
     returned := returned s |}.

Definition st_wunpark (s : state) (k : nat) : state :=
  {| script := script s; cst := cst s;
     ws := setw s k WIdle;
     rc := rc s; alive := alive s; cur := cur s; token := true;
     calls := calls s; panics := panics s; slots := slots s; bad := bad s;
     cview := cview s; lview := lview s; wviews := wviews s;
     returned := returned s |}.

Definition st_drop (s : state) : state :=
  {| script := []; cst := CDone; ws := ws s;
     rc := rc s; alive := alive s; cur := cur s; token := token s;
     calls := calls s; panics := panics s; slots := slots s; bad := bad s;
     cview := cview s; lview := lview s; wviews := wviews s;
     returned := returned s |}.

Definition st_wexit (s : state) (k : nat) : state :=
  {| script := script s; cst := CDone;
     ws := setw s k WExit;
     rc := rc s; alive := alive s; cur := cur s; token := token s;
     calls := calls s; panics := panics s; slots := slots s; bad := bad s;
     cview := cview s; lview := lview s; wviews := wviews s;
     returned := returned s |}.

(** What the acquire load adds to the caller's view. *)
Definition load_view (c : cfg) (s : state) : view :=
  if is_acquire (c_load c) then vunion (lview s) (cview s) else cview s.

(** Does the wait loop's condition say "leave"? *)
Definition leave (c : cfg) (s : state) : bool :=
  if c_nonzero c then Nat.eqb (rc s) 0 else negb (Nat.eqb (rc s) 0).

Definition step (c : cfg) (s : state) (l : label) : option state :=
  match l, cst s with
  | EBegin n, CIdle =>
      match script s with
      | m :: rest => if Nat.eqb n m then Some (st_begin s n rest) else None
      | [] => None
      end
  | ESend k', CSend k n =>
      if Nat.eqb k' k then
        match getw s k with
        | Some WIdle => Some (st_send s k n)
        | _ => None
        end
      else None
  | ERun0 p, CRun n => Some (st_run0 s n p)
  | ELoad, CLoad n =>
      (* leaving the loop: broadcast returns, the task block dies *)
      if leave c s then Some (do_return s n (load_view c s) (token s))
      else Some (st_topark s n (load_view c s))
  | EPark, CPark n =>
      if token s then
        (* [while]: re-check the counter; [if]: fall through and return *)
        Some (if c_loop c then to_load s n false else do_return s n (cview s) false)
      else None
  | ESpurious, CPark n =>
      Some (if c_loop c then to_load s n (token s) else do_return s n (cview s) (token s))
  | EWRun k p, _ =>
      match getw s k with Some (WRun b) => Some (st_wrun s k b p) | _ => None end
  | EWClone k, _ =>
      match getw s k with Some (WClone b) => Some (st_wclone s k b) | _ => None end
  | EWDec k, _ =>
      match getw s k with Some (WDec b) => Some (st_wdec c s k b) | _ => None end
  | EWUnpark k, _ =>
      match getw s k with Some (WUnpark b) => Some (st_wunpark s k) | _ => None end
  | EDrop, CIdle =>
      match script s with [] => Some (st_drop s) | _ => None end
  | EWExit k, CDone =>
      match getw s k with Some WIdle => Some (st_wexit s k) | _ => None end
  | _, _ => None
  end.

(** Run a whole label sequence; [None] = some label was not enabled. *)
Fixpoint run (c : cfg) (s : state) (ls : list label) : option state :=
  match ls with
  | [] => Some s
  | l :: rest => match step c s l with Some s' => run c s' rest | None => None end
  end.

Definition is_wexit (w : wstate) : bool := match w with WExit => true | _ => false end.

Definition all_exited (s : state) : bool := forallb is_wexit (ws s).

Definition final (s : state) : bool :=
  match cst s with CDone => all_exited s | _ => false end.

(** All non-spurious labels that could possibly be enabled in [s] (for deadlock
    freedom and for the executable explorer used in tests); [false] stands for
    both values of the panic flag, which never affects enabledness. *)
Definition candidate_labels (s : state) : list label :=
  let ks := seq 1 (length (ws s)) in
  (match script s with n :: _ => [EBegin n] | [] => [EDrop] end)
  ++ map ESend ks ++ [ERun0 false; ELoad; EPark]
  ++ map (fun k => EWRun k false) ks ++ map EWClone ks ++ map EWDec ks ++ map EWUnpark ks ++ map EWExit ks.

Definition enabled (c : cfg) (s : state) (l : label) : bool :=
  match step c s l with Some _ => true | None => false end.

(** Non-spurious labels enabled in [s]. *)
Definition enabled_labels (c : cfg) (s : state) : list label :=
  filter (enabled c s) (candidate_labels s).

(** * Termination measure (lexicographic pair) *)

Definition wrank (w : wstate) : nat :=
  match w with
  | WExit => 0 | WIdle => 1 | WUnpark _ => 4 | WDec _ => 5 | WClone _ => 6 | WRun _ => 7
  end.

Definition crank (c : cstate) : nat :=
  match c with
  | CIdle => 0 | CDone => 0
  | CSend k n => 7 * (S n - k) + 2
  | CRun _ => 2 | CLoad _ => 1 | CPark _ => 0
  end.

Definition outer_measure (s : state) : nat :=
  length (script s) + match cst s with CDone => 0 | _ => 1 end.

Definition inner_measure (s : state) : nat :=
  crank (cst s) + list_sum (map wrank (ws s)) + (if token s then 2 else 0).

(** * Counting workers that still hold the task block *)

(** Worker states before the decrement of broadcast [b]'s counter. *)
Definition pre_dec (b : nat) (w : wstate) : bool :=
  match w with
  | WRun b' | WClone b' | WDec b' => Nat.eqb b b'
  | _ => false
  end.

Definition any_pre (w : wstate) : bool :=
  match w with WRun _ | WClone _ | WDec _ => true | _ => false end.

Definition count_pre (s : state) : nat := length (filter (pre_dec (cur s)) (ws s)).

(** * Boolean observations (also evaluated on replayed implementation traces) *)

Definition count_call (c : call) (l : list call) : nat := length (filter (call_eqb c) l).

(** Every index 0..n of broadcast [b] was called exactly once, and nothing else
    was called on behalf of [b]. *)
Definition once_per_index (s : state) (b n : nat) : bool :=
  forallb (fun i => Nat.eqb (count_call (b, i) (calls s)) 1) (seq 0 (S n))
  && Nat.eqb (length (filter (fun d => Nat.eqb (fst d) b) (calls s))) (S n).

(** The caller's view at the return of broadcast [b] contains all its calls. *)
Definition view_has_all (b n : nat) (v : view) : bool :=
  forallb (fun i => vmem (b, i) v) (seq 0 (S n)).

(** Slot [i] holds [Some i] iff call [i] was made and did not panic. *)
Definition expected_slot (s : state) (b i : nat) : option nat :=
  if vmem (b, i) (calls s) && negb (vmem (b, i) (panics s)) then Some i else None.

Definition expected_slots (s : state) (b n : nat) : list (option nat) :=
  map (expected_slot s b) (seq 0 (S n)).

Definition opt_eqb (a b : option nat) : bool :=
  match a, b with Some x, Some y => Nat.eqb x y | None, None => true | _, _ => false end.

Fixpoint slots_eqb (a b : list (option nat)) : bool :=
  match a, b with
  | [], [] => true
  | x :: a', y :: b' => opt_eqb x y && slots_eqb a' b'
  | _, _ => false
  end.

Definition find_ret (s : state) (b : nat) : option ret :=
  find (fun r => Nat.eqb (r_b r) b) (returned s).

Definition published (s : state) (b n : nat) : bool :=
  match find_ret s b with
  | Some r => Nat.eqb (r_n r) n && view_has_all b n (r_view r)
  | None => false
  end.

Definition results_indexed (s : state) (b n : nat) : bool :=
  match find_ret s b with
  | Some r => slots_eqb (r_slots r) (expected_slots s b n)
  | None => false
  end.

(** * [par_extend]'s handling of the result vector (pool.rs 58-67)

    The vector has [length v_elems] elements and capacity [v_cap].
    [reserve_exact(additional)] guarantees room for [additional] MORE elements
    (it does nothing when the spare capacity suffices); all spare slots are
    pre-cleared, [set_len(old_len + additional)] has the precondition
    "new length <= capacity" (an explicit [Panic]: std checks it in debug
    builds, it is undefined behaviour otherwise); the broadcast then writes
    slot [old_len + i] for call [i]. *)

Record vecst := { v_elems : list (option nat); v_cap : nat }.

Definition reserve_exact (len cap additional : nat) : nat :=
  if Nat.leb additional (cap - len) then cap else len + additional.

Definition par_extend_prepare (v : vecst) (n : nat) : res vecst :=
  let old_len := length (v_elems v) in
  let additional := n + 1 in
  let cap' := reserve_exact old_len (v_cap v) additional in
  if Nat.leb (old_len + additional) cap'
  then Ok {| v_elems := v_elems v ++ repeat None additional; v_cap := cap' |}
  else Panic Other.

(** Writing the result slots of the broadcast at [old_len ..]. *)
Fixpoint write_from {A} (i : nat) (sl : list A) (l : list A) : list A :=
  match sl with
  | [] => l
  | x :: rest => write_from (S i) rest (set_nth i x l)
  end.

Definition par_extend_vec (v : vecst) (n : nat) (sl : list (option nat)) : res vecst :=
  match par_extend_prepare v n with
  | Ok v' => Ok {| v_elems := write_from (length (v_elems v)) sl (v_elems v'); v_cap := v_cap v' |}
  | Panic p => Panic p
  end.

(** * Executable invariants (their Prop-level forms are proved inductive in
    Proofs/Pool.v; these boolean forms are evaluated on every reachable state of
    small scripts by the explorer in ocaml/pool.ml, as a test of the statements
    before proving them). *)

Definition in_broadcast (c : cstate) : bool :=
  match c with CIdle | CDone => false | _ => true end.

(** Workers 1 .. [sent c - 1] have been handed the current task. *)
Definition sent (c : cstate) : nat :=
  match c with CSend k _ => k | CRun n | CLoad n | CPark n => S n | CIdle | CDone => 0 end.

Definition caller_ran (c : cstate) : bool :=
  match c with CLoad _ | CPark _ => true | _ => false end.

Definition bcast_n (c : cstate) : nat :=
  match c with CSend _ n | CRun n | CLoad n | CPark n => n | CIdle | CDone => 0 end.

Definition is_wrun (b : nat) (w : wstate) : bool :=
  match w with WRun b' => Nat.eqb b b' | _ => false end.

(** Has index [i] of the current broadcast been called? (decided from the
    control state alone) *)
Definition called (s : state) (i : nat) : bool :=
  match i with
  | O => caller_ran (cst s)
  | S j => Nat.ltb i (sent (cst s))
           && match nth_error (ws s) j with Some w => negb (is_wrun (cur s) w) | None => false end
  end.

Definition inv_rc (s : state) : bool :=
  match cst s with
  | CRun n | CLoad n | CPark n => Nat.eqb (rc s) (count_pre s) && Nat.leb n (length (ws s))
  | CSend k n => Nat.eqb (rc s) (count_pre s + (S n - k)) && Nat.leb 1 k && Nat.leb k n
                 && Nat.leb n (length (ws s))
  | CIdle | CDone => Nat.eqb (count_pre s) 0
  end.

Definition inv_pre_current (s : state) : bool :=
  forallb (fun w => match w with
                    | WRun b | WClone b | WDec b => Nat.eqb b (cur s) && alive s
                    | WUnpark b => Nat.leb b (cur s)
                    | _ => true
                    end) (ws s).

Definition inv_alive (s : state) : bool := Bool.eqb (alive s) (in_broadcast (cst s)).

Definition is_unpark (b : nat) (w : wstate) : bool :=
  match w with WUnpark b' => Nat.eqb b b' | _ => false end.

Definition inv_wakeup (s : state) : bool :=
  match cst s with
  | CPark _ => if Nat.eqb (rc s) 0 && negb (token s) then existsb (is_unpark (cur s)) (ws s) else true
  | _ => true
  end.

Definition inv_exit (s : state) : bool :=
  match cst s with
  | CDone => true
  | _ => forallb (fun w => negb (is_wexit w)) (ws s)
  end.

(** Pre-decrement workers are among those already sent to. *)
Definition inv_sent (s : state) : bool :=
  forallb (fun k => match getw s k with
                    | Some w => if any_pre w then Nat.ltb k (sent (cst s)) else true
                    | None => true
                    end) (seq 1 (length (ws s))).

Fixpoint nodupb (l : list call) : bool :=
  match l with [] => true | x :: t => negb (vmem x t) && nodupb t end.

Definition inv_calls (s : state) : bool :=
  nodupb (calls s)
  && forallb (fun d => Nat.leb (fst d) (cur s)) (calls s)
  && forallb (fun d => vmem d (calls s)) (panics s)
  && (if in_broadcast (cst s)
      then forallb (fun i => Bool.eqb (vmem (cur s, i) (calls s)) (called s i))
                   (seq 0 (S (S (length (ws s)))))
      else true).

Definition inv_slots (s : state) : bool :=
  if in_broadcast (cst s) then slots_eqb (slots s) (expected_slots s (cur s) (bcast_n (cst s))) else true.

(** Views (meaningful when the decrement releases and the load acquires):
    the caller knows its own call; a worker between call and decrement knows its
    call; the counter's view knows the calls of the workers past the decrement. *)
Definition inv_views (c : cfg) (s : state) : bool :=
  if in_broadcast (cst s) then
    (if caller_ran (cst s) then vmem (cur s, 0) (cview s) else true)
    && forallb (fun k => if called s k then
                           match getw s k with
                           | Some (WClone _) | Some (WDec _) => vmem (cur s, k) (getview s k)
                           | _ => if is_release (c_dec c) then vmem (cur s, k) (lview s) else true
                           end
                         else true) (seq 1 (length (ws s)))
  else true.

Definition inv_returned (c : cfg) (s : state) : bool :=
  forallb (fun r => once_per_index s (r_b r) (r_n r)
                    && (if is_release (c_dec c) && is_acquire (c_load c) then view_has_all (r_b r) (r_n r) (r_view r) else true)
                    && slots_eqb (r_slots r) (expected_slots s (r_b r) (r_n r))
                    && (if in_broadcast (cst s) then Nat.ltb (r_b r) (cur s) else Nat.leb (r_b r) (cur s)))
          (returned s)
  && Nat.eqb (length (returned s)) (if in_broadcast (cst s) then cur s - 1 else cur s).

Definition inv_all (c : cfg) (s : state) : bool :=
  inv_rc s && inv_pre_current s && inv_alive s && inv_wakeup s && inv_exit s && negb (bad s)
  && Nat.eqb (length (wviews s)) (length (ws s))
  && inv_sent s && inv_calls s && inv_slots s && inv_views c s && inv_returned c s.

(** Names of the failing conjuncts (for the explorer's report). *)
Definition inv_failures (c : cfg) (s : state) : list nat :=
  filter (fun i => negb (nth i [inv_rc s; inv_pre_current s; inv_alive s; inv_wakeup s; inv_exit s; negb (bad s);
                                Nat.eqb (length (wviews s)) (length (ws s));
                                inv_sent s; inv_calls s; inv_slots s; inv_views c s; inv_returned c s] true))
         (seq 0 12).

End PoolM.

(** * The boolean specification evaluated on implementation traces

    The trace of one explored schedule of the real pool (harness/hx-sched: the
    verbatim pool.rs on a deterministic scheduler) is a list of [ev]; [check]
    folds a monitor over it that accepts ANY event sequence and returns the
    list of violated clauses of C06 / C07 (empty = the properties hold on this
    schedule).  Unlike [PoolM.step] it does not know the protocol: it only
    knows what the properties say. *)

Module PoolMon.

Inductive ev :=
| VBcast (n : nat)                  (* harness: par_extend(n) is about to be called *)
| VNew (v : nat)                    (* TaskShared::new: AtomicUsize::new(v) *)
| VSpawn (k : nat)                  (* thread k spawned *)
| VSent (c : nat)                   (* send on channel c returned *)
| VRecv (t c : nat) (ok : bool)     (* thread t's recv on channel c returned Ok / Err *)
| VCall (t i : nat) (p : bool)      (* thread t calls the task with index i; p = it panics *)
| VClone (t : nat) (orig : bool)    (* t clones a thread handle; orig = the one stored in the task block *)
| VDec (t old : nat)                (* t's fetch_sub returned old *)
| VUnpark (t : nat) (orig : bool)   (* t unparks through the block's handle / through a clone *)
| VLoad (v : nat)                   (* the caller's load returned v *)
| VPark                             (* park returned by token *)
| VSpur                             (* park returned without token *)
| VRet (sl : list (option nat))     (* the caller left par_extend — by returning or by a panic escaping from
                                       the drop of its caught payload; the result slots *)
| VDrop                             (* the pool is dropped *)
| VExit (t : nat)                   (* thread t finished *)
| VDead (t : nat)                   (* t accessed a dead task block (harness liveness marker) *)
| VSpawnFail                        (* a thread creation was refused: the `expect` in [spawn] panics under the
                                       lock and the caller leaves broadcast before anything was handed out *)
| VAbortEnd (sl : list (option nat)) (* the harness caught that panic; the slots of the aborted broadcast *)
| VWrongTask (t : nat)              (* a call on thread t ran with a state that is not the captured one *)
| VBadVec                           (* the result vector is not "old elements ++ n+1 new slots within capacity" *)
| VOther.                           (* an event the pool never produces *)

(** Clauses. *)
Definition F_once := 1.        (* an index executed 0 or 2 times, or on the wrong thread, or a foreign index,
                                  or what was executed was not THE task (captured state not the one seen) *)
Definition F_results := 2.     (* result slots differ from "Some i unless call i panicked" *)
Definition F_touch := 3.       (* a worker touched the task block after the caller may have resumed *)
Definition F_exit := 4.        (* a worker did not exit after the pool was dropped *)
Definition F_spawn := 5.       (* workers after <> max (workers before) n *)
Definition F_dead := 6.        (* access to a dead task block observed by the harness *)
Definition F_foreign := 7.     (* event outside the protocol *)
Definition F_incomplete := 8.  (* not every broadcast returned / pool not dropped (deadlock) *)
Definition F_wake := 9.        (* the caller left broadcast (escaping panic included) while the counter was non-zero *)

Record mon := {
  m_b : nat;                 (* number of the current / latest broadcast *)
  m_n : nat;                 (* its aux thread count *)
  m_open : bool;             (* between VBcast and VRet *)
  m_rc : nat;                (* counter of the current block, as the monitor counts it *)
  m_zero : bool;             (* a decrement brought it to zero: the caller may resume *)
  m_serv : list (nat * nat); (* (worker, broadcast whose task it received last) *)
  m_calls : list (nat * nat * nat);  (* (broadcast, index, thread) *)
  m_spawned : nat;
  m_spawned0 : nat;          (* workers when the current broadcast began *)
  m_exited : list nat;
  m_dropped : bool;
  m_rets : nat;              (* broadcasts returned *)
  m_fail : list nat
}.

Definition mon0 : mon :=
  {| m_b := 0; m_n := 0; m_open := false; m_rc := 0; m_zero := false; m_serv := []; m_calls := [];
     m_spawned := 0; m_spawned0 := 0; m_exited := []; m_dropped := false; m_rets := 0; m_fail := [] |}.

Definition failm (m : mon) (f : nat) : mon :=
  {| m_b := m_b m; m_n := m_n m; m_open := m_open m; m_rc := m_rc m; m_zero := m_zero m; m_serv := m_serv m;
     m_calls := m_calls m; m_spawned := m_spawned m; m_spawned0 := m_spawned0 m; m_exited := m_exited m;
     m_dropped := m_dropped m; m_rets := m_rets m; m_fail := f :: m_fail m |}.

Fixpoint serving (l : list (nat * nat)) (t : nat) : nat :=
  match l with
  | [] => 0
  | (t', b) :: r => if Nat.eqb t t' then b else serving r t
  end.

(** A worker [t] touches the task block it was handed: legitimate only while
    that block is the current one, the broadcast has not returned, and the
    counter has not yet reached zero. *)
Definition touch (m : mon) (t : nat) : mon :=
  if m_open m && Nat.eqb (serving (m_serv m) t) (m_b m) && negb (m_zero m) then m else failm m F_touch.

Definition count3 (b i : nat) (l : list (nat * nat * nat)) : nat :=
  length (filter (fun c => Nat.eqb (fst (fst c)) b && Nat.eqb (snd (fst c)) i) l).

Definition on_thread (b i : nat) (l : list (nat * nat * nat)) : bool :=
  forallb (fun c => if Nat.eqb (fst (fst c)) b && Nat.eqb (snd (fst c)) i then Nat.eqb (snd c) i else true) l.

Definition once_ok (m : mon) : bool :=
  forallb (fun i => Nat.eqb (count3 (m_b m) i (m_calls m)) 1 && on_thread (m_b m) i (m_calls m)) (seq 0 (S (m_n m)))
  && Nat.eqb (length (filter (fun c => Nat.eqb (fst (fst c)) (m_b m)) (m_calls m))) (S (m_n m)).

Definition pan_mem (b i : nat) (pan : list (nat * nat)) : bool :=
  existsb (fun d => Nat.eqb (fst d) b && Nat.eqb (snd d) i) pan.

Definition expected_results (pan : list (nat * nat)) (b n : nat) : list (option nat) :=
  map (fun i => if pan_mem b i pan then None else Some i) (seq 0 (S n)).

Definition mstep (pan : list (nat * nat)) (m : mon) (e : ev) : mon :=
  match e with
  | VBcast n =>
      {| m_b := S (m_b m); m_n := n; m_open := true; m_rc := 0; m_zero := false; m_serv := m_serv m;
         m_calls := m_calls m; m_spawned := m_spawned m; m_spawned0 := m_spawned m; m_exited := m_exited m;
         m_dropped := m_dropped m; m_rets := m_rets m;
         m_fail := (if m_open m || m_dropped m then F_foreign :: m_fail m else m_fail m) |}
  | VNew v =>
      {| m_b := m_b m; m_n := m_n m; m_open := m_open m; m_rc := v; m_zero := false; m_serv := m_serv m;
         m_calls := m_calls m; m_spawned := m_spawned m; m_spawned0 := m_spawned0 m; m_exited := m_exited m;
         m_dropped := m_dropped m; m_rets := m_rets m;
         m_fail := (if m_open m then m_fail m else F_foreign :: m_fail m) |}
  | VSpawn k =>
      {| m_b := m_b m; m_n := m_n m; m_open := m_open m; m_rc := m_rc m; m_zero := m_zero m; m_serv := m_serv m;
         m_calls := m_calls m; m_spawned := S (m_spawned m); m_spawned0 := m_spawned0 m; m_exited := m_exited m;
         m_dropped := m_dropped m; m_rets := m_rets m;
         m_fail := (if Nat.eqb k (S (m_spawned m)) then m_fail m else F_spawn :: m_fail m) |}
  | VSent _ => m
  | VRecv t c true =>
      {| m_b := m_b m; m_n := m_n m; m_open := m_open m; m_rc := m_rc m; m_zero := m_zero m;
         m_serv := (t, m_b m) :: m_serv m;
         m_calls := m_calls m; m_spawned := m_spawned m; m_spawned0 := m_spawned0 m; m_exited := m_exited m;
         m_dropped := m_dropped m; m_rets := m_rets m; m_fail := m_fail m |}
  | VRecv t c false => if m_dropped m then m else failm m F_foreign
  | VCall t i p =>
      let b := if Nat.eqb t 0 then m_b m else serving (m_serv m) t in
      let m1 := if Nat.eqb t 0 then m else touch m t in
      {| m_b := m_b m1; m_n := m_n m1; m_open := m_open m1; m_rc := m_rc m1; m_zero := m_zero m1; m_serv := m_serv m1;
         m_calls := (b, i, t) :: m_calls m1; m_spawned := m_spawned m1; m_spawned0 := m_spawned0 m1;
         m_exited := m_exited m1; m_dropped := m_dropped m1; m_rets := m_rets m1; m_fail := m_fail m1 |}
  | VClone t orig => if orig then touch m t else m
  | VDec t old =>
      let m1 := touch m t in
      let r := m_rc m1 - 1 in
      {| m_b := m_b m1; m_n := m_n m1; m_open := m_open m1; m_rc := r;
         m_zero := m_zero m1 || Nat.eqb r 0; m_serv := m_serv m1;
         m_calls := m_calls m1; m_spawned := m_spawned m1; m_spawned0 := m_spawned0 m1;
         m_exited := m_exited m1; m_dropped := m_dropped m1; m_rets := m_rets m1;
         m_fail := (if Nat.eqb (m_rc m1) 0 then F_touch :: m_fail m1 else m_fail m1) |}
  | VUnpark t orig => if orig then touch m t else m
  | VLoad _ | VPark | VSpur => m
  | VRet sl =>
      let f1 := if once_ok m then m_fail m else F_once :: m_fail m in
      let f2 := if PoolM.slots_eqb sl (expected_results pan (m_b m) (m_n m)) then f1 else F_results :: f1 in
      let f3 := if Nat.eqb (m_spawned m) (Nat.max (m_spawned0 m) (m_n m)) then f2 else F_spawn :: f2 in
      let f4 := if Nat.eqb (m_rc m) 0 then f3 else F_wake :: f3 in
      let f5 := if m_open m then f4 else F_foreign :: f4 in
      {| m_b := m_b m; m_n := m_n m; m_open := false; m_rc := m_rc m; m_zero := m_zero m; m_serv := m_serv m;
         m_calls := m_calls m; m_spawned := m_spawned m; m_spawned0 := m_spawned0 m; m_exited := m_exited m;
         m_dropped := m_dropped m; m_rets := S (m_rets m); m_fail := f5 |}
  | VDrop =>
      {| m_b := m_b m; m_n := m_n m; m_open := m_open m; m_rc := m_rc m; m_zero := m_zero m; m_serv := m_serv m;
         m_calls := m_calls m; m_spawned := m_spawned m; m_spawned0 := m_spawned0 m; m_exited := m_exited m;
         m_dropped := true; m_rets := m_rets m;
         m_fail := (if m_open m then F_foreign :: m_fail m else m_fail m) |}
  | VExit t =>
      {| m_b := m_b m; m_n := m_n m; m_open := m_open m; m_rc := m_rc m; m_zero := m_zero m; m_serv := m_serv m;
         m_calls := m_calls m; m_spawned := m_spawned m; m_spawned0 := m_spawned0 m; m_exited := t :: m_exited m;
         m_dropped := m_dropped m; m_rets := m_rets m;
         m_fail := (if m_dropped m then m_fail m else F_exit :: m_fail m) |}
  | VDead _ => failm m F_dead
  | VSpawnFail =>
      (* Sequence-level treatment of a refused thread creation (the transition system does not have it): the
         broadcast ends here, it is accounted as finished, and it is judged only by "nothing was handed out and
         nothing was called".  The later broadcasts are judged as usual, on the threads that exist by then. *)
      let held := existsb (fun p => Nat.eqb (snd p) (m_b m)) (m_serv m) in
      let called := negb (Nat.eqb (length (filter (fun c => Nat.eqb (fst (fst c)) (m_b m)) (m_calls m))) 0) in
      let f1 := if m_open m then m_fail m else F_foreign :: m_fail m in
      let f2 := if held then F_touch :: f1 else f1 in
      let f3 := if called then F_once :: f2 else f2 in
      {| m_b := m_b m; m_n := m_n m; m_open := false; m_rc := 0; m_zero := true; m_serv := m_serv m;
         m_calls := m_calls m; m_spawned := m_spawned m; m_spawned0 := m_spawned0 m; m_exited := m_exited m;
         m_dropped := m_dropped m; m_rets := S (m_rets m); m_fail := f3 |}
  | VAbortEnd sl =>
      if m_open m then failm m F_foreign
      else if PoolM.slots_eqb sl (repeat None (S (m_n m))) then m else failm m F_results
  | VWrongTask _ => failm m F_once
  | VBadVec => failm m F_results
  | VOther => failm m F_foreign
  end.

Definition mem_nat (x : nat) (l : list nat) : bool := existsb (Nat.eqb x) l.

(** All clauses violated by a trace (empty = none). *)
Definition check (scr : list nat) (pan : list (nat * nat)) (evs : list ev) : list nat :=
  let m := fold_left (mstep pan) evs mon0 in
  let f1 := if Nat.eqb (m_rets m) (length scr) && m_dropped m && negb (m_open m) then m_fail m
            else F_incomplete :: m_fail m in
  if m_dropped m && negb (forallb (fun k => mem_nat k (m_exited m)) (seq 1 (m_spawned m)))
  then F_exit :: f1 else f1.

(** ** The event trace induced by a model execution

    The same translation, read from right to left, is what ocaml/pool.ml applies
    to the implementation's tokens (B N S* = EBegin; Q/R = ESend; C = ERun0/EWRun;
    H = EWClone; D = EWDec; U = EWUnpark; L = ELoad; P/W = EPark/ESpurious; T or Z
    after the last load = the return; X = EDrop; R(err) E = EWExit). *)

Definition events_of (c : PoolM.cfg) (s : PoolM.state) (l : PoolM.label) : list ev :=
  match l with
  | PoolM.EBegin n =>
      VBcast n :: VNew n
      :: map VSpawn (seq (S (length (PoolM.ws s))) (n - length (PoolM.ws s)))
  | PoolM.ESend k => [VSent k; VRecv k k true]
  | PoolM.ERun0 p => [VCall 0 0 p]
  | PoolM.ELoad => VLoad (PoolM.rc s) :: (if PoolM.leave c s then [VRet (PoolM.slots s)] else [])
  | PoolM.EPark => VPark :: (if PoolM.c_loop c then [] else [VRet (PoolM.slots s)])
  | PoolM.ESpurious => VSpur :: (if PoolM.c_loop c then [] else [VRet (PoolM.slots s)])
  | PoolM.EWRun k p => [VCall k k p]
  | PoolM.EWClone k => [VClone k true]
  | PoolM.EWDec k => [VDec k (PoolM.rc s)]
  | PoolM.EWUnpark k => [VUnpark k false]
  | PoolM.EDrop => [VDrop]
  | PoolM.EWExit k => [VRecv k k false; VExit k]
  end.

Fixpoint trace (c : PoolM.cfg) (s : PoolM.state) (ls : list PoolM.label) : list ev :=
  match ls with
  | [] => []
  | l :: rest =>
      events_of c s l ++ match PoolM.step c s l with Some s' => trace c s' rest | None => [] end
  end.

(** The inline clauses violated so far (every prefix of a trace). *)
Definition violations (pan : list (nat * nat)) (evs : list ev) : list nat :=
  m_fail (fold_left (mstep pan) evs mon0).

End PoolMon.
