(** Model of [src/util/split_vec.rs] ([SplitVec<T>]: a [Vec] partitioned in
    two halves by [split_index]).  Executable definitions only; proofs are in
    Proofs/SplitVec.v. *)

From DivanV Require Import Base.Res.

Record split_vec (A : Type) : Type := {
  sv_items : list A;     (* [items: Vec<T>] *)
  sv_split : nat         (* [split_index: usize] *)
}.
Arguments sv_items {A} _.
Arguments sv_split {A} _.

(** [SplitVec::default()] *)
Definition sv_empty {A : Type} : split_vec A := {| sv_items := []; sv_split := 0 |}.

(** [SplitVec::split_index]: in a debug build [assert_unchecked!(index <= len,
    "index {index} out of bounds (len = {len})")] is a real [assert!]
    ([util/macros.rs]); it is the only panic site of the file. *)
Definition sv_split_index {A : Type} (sv : split_vec A) : res nat :=
  if Nat.leb (sv_split sv) (length (sv_items sv)) then Ok (sv_split sv)
  else Panic OutOfBounds.

(** [SplitVec::insert(value, after_split)].

    [after_split]: the value is written to the slot at [old_len].
    [!after_split]: the element at [old_split] (if the second half is not
    empty; otherwise the slot is the spare one at [old_len] and the copy is a
    no-op) is copied to the slot at [old_len], the split index is incremented
    and the value is written to the slot at [old_split]. *)
Definition sv_insert {A : Type} (sv : split_vec A) (value : A) (after_split : bool)
  : res (split_vec A) :=
  do old_split <- sv_split_index sv;
  if after_split then
    Ok {| sv_items := sv_items sv ++ [value]; sv_split := old_split |}
  else
    match skipn old_split (sv_items sv) with
    | [] =>
        Ok {| sv_items := sv_items sv ++ [value]; sv_split := S old_split |}
    | moved :: rest =>
        Ok {| sv_items := firstn old_split (sv_items sv) ++ value :: rest ++ [moved];
              sv_split := S old_split |}
    end.

(** [SplitVec::split] (test-only accessor in the crate; used here to state the
    partition). *)
Definition sv_before {A : Type} (sv : split_vec A) : list A := firstn (sv_split sv) (sv_items sv).
Definition sv_after {A : Type} (sv : split_vec A) : list A := skipn (sv_split sv) (sv_items sv).

(** A history of insertions applied to the empty vector. *)
Fixpoint sv_insert_all {A : Type} (sv : split_vec A) (ops : list (A * bool)) : res (split_vec A) :=
  match ops with
  | [] => Ok sv
  | (v, after) :: rest => do sv' <- sv_insert sv v after; sv_insert_all sv' rest
  end.

Fixpoint list_eqb {A : Type} (eqb : A -> A -> bool) (l1 l2 : list A) : bool :=
  match l1, l2 with
  | [], [] => true
  | x :: r1, y :: r2 => eqb x y && list_eqb eqb r1 r2
  | _, _ => false
  end.
