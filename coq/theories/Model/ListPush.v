(** Model of [src/entry/list.rs] [EntryList::push] (lock-free push onto the front of
    a singly linked list), shaped like the code:

      let mut old_next = self.next.load(Relaxed);                    (PLoad)
      loop {
          other.next.store(old_next, Release);                       (PStore old)   <- inside the loop
          match self.next.compare_exchange_weak(old_next, other, ..) (PCas old)
          { Ok(_) => return, Err(new) => old_next = new }
      }

    One push operation per node; [step] performs one shared-memory access of one
    operation; [compare_exchange_weak] may fail spuriously.  Executable
    definitions only; the invariant is in Proofs/ListPush.v. *)
From DivanV Require Import Base.Res.
Local Open Scope N_scope.

Inductive push_pc := PLoad | PStore (old : option N) | PCas (old : option N) | PDone.

Record lstate := {
  l_head : option N;            (* the list's [next] field: first node *)
  l_next : N -> option N;       (* [next] field of every node *)
  l_pc : N -> push_pc           (* where the push of node i stands *)
}.

Definition upd {A} (f : N -> A) (k : N) (v : A) : N -> A := fun x => if x =? k then v else f x.

Definition opt_eqb (a b : option N) : bool :=
  match a, b with
  | None, None => true
  | Some x, Some y => x =? y
  | _, _ => false
  end.

Definition push_step (s : lstate) (i : N) (spurious : bool) : lstate :=
  match l_pc s i with
  | PLoad => {| l_head := l_head s; l_next := l_next s; l_pc := upd (l_pc s) i (PStore (l_head s)) |}
  | PStore old => {| l_head := l_head s; l_next := upd (l_next s) i old; l_pc := upd (l_pc s) i (PCas old) |}
  | PCas old =>
      if negb spurious && opt_eqb (l_head s) old
      then {| l_head := Some i; l_next := l_next s; l_pc := upd (l_pc s) i PDone |}
      else {| l_head := l_head s; l_next := l_next s; l_pc := upd (l_pc s) i (PStore (l_head s)) |}
  | PDone => s
  end.

Definition push_run (s : lstate) (sched : list (N * bool)) : lstate :=
  fold_left (fun s x => push_step s (fst x) (snd x)) sched s.

(** The list read from the head, at most [fuel] nodes ([EntryList::iter]). *)
Fixpoint walk (fuel : nat) (next : N -> option N) (h : option N) : list N :=
  match fuel, h with
  | S f, Some x => x :: walk f next (next x)
  | _, _ => []
  end.

Definition push_init (head : option N) (next : N -> option N) : lstate :=
  {| l_head := head; l_next := next; l_pc := fun _ => PLoad |}.
