(** Model of [src/config/filter.rs] ([Filter], [FilterSet]) and of how
    [Divan::config_with_args] / [skip_regex] / [skip_exact] fill the set
    ([src/divan.rs]).  Strings are byte lists.  Regex matching is a Section
    variable ([regex::Regex::is_match] is an oracle, evaluated by the crate's
    own engine in the correspondence check); exact matching is string
    equality.  Executable definitions only; proofs are in Proofs/Filter.v. *)

From DivanV Require Import Base.Res Model.SplitVec.

Definition str := list N.
Definition str_eqb (a b : str) : bool := list_eqb N.eqb a b.

(** [enum Filter { Regex(Regex), Exact(String) }]; a regex is represented by
    its pattern text. *)
Inductive pfilter : Type :=
| FRegex (pattern : str)
| FExact (exact : str).

(** [FilterSet { filters: SplitVec<Filter> }]: exclusive filters before the
    split, inclusive filters after it. *)
Definition filter_set := split_vec pfilter.
Definition fs_empty : filter_set := sv_empty.

(** [FilterSet::include] / [FilterSet::exclude] = [insert_filter(filter, inclusive)]. *)
Definition fs_insert (fs : filter_set) (f : pfilter) (inclusive : bool) : res filter_set :=
  sv_insert fs f inclusive.

(** A history of [include]/[exclude] calls in any interleaving, applied to
    [FilterSet::default()]; [(filter, true)] = include. *)
Definition fs_build (ops : list (pfilter * bool)) : res filter_set := sv_insert_all fs_empty ops.

(** [Iterator::position] *)
Fixpoint position {A : Type} (p : A -> bool) (l : list A) : option nat :=
  match l with
  | [] => None
  | x :: r => if p x then Some 0%nat
              else match position p r with Some i => Some (S i) | None => None end
  end.

Section WithRegexOracle.
  (** [matches pattern s] = [Regex::new(pattern).is_match(s)]. *)
  Variable matches : str -> str -> bool.

  (** [Filter::is_match] *)
  Definition filter_is_match (f : pfilter) (s : str) : bool :=
    match f with
    | FRegex pattern => matches pattern s
    | FExact exact => str_eqb exact s
    end.

  (** [FilterSet::is_match]: position of the first matching filter decides
      (exclusive ones come first); without a match the path passes iff there
      are no inclusive filters. *)
  Definition fs_is_match (fs : filter_set) (entry_path : str) : res bool :=
    let filters := sv_items fs in
    do inclusive_start <- sv_split_index fs;
    match position (fun f => filter_is_match f entry_path) filters with
    | Some index => Ok (Nat.leb inclusive_start index)
    | None => Ok (Nat.eqb (length filters) inclusive_start)
    end.

  (** Build the set from the history, then ask. *)
  Definition fs_query (ops : list (pfilter * bool)) (entry_path : str) : res bool :=
    do fs <- fs_build ops; fs_is_match fs entry_path.

  (** * Specification, stated on the history of insertions only.

      A path passes iff no skip filter matches it and, when there is at least
      one positive filter, some positive filter matches it. *)
  Definition any_skip (ops : list (pfilter * bool)) (p : str) : bool :=
    existsb (fun o => negb (snd o) && filter_is_match (fst o) p) ops.
  Definition any_positive (ops : list (pfilter * bool)) (p : str) : bool :=
    existsb (fun o => snd o && filter_is_match (fst o) p) ops.
  Definition no_positives (ops : list (pfilter * bool)) : bool :=
    negb (existsb (fun o => snd o) ops).

  Definition is_match_spec (ops : list (pfilter * bool)) (p : str) : bool :=
    negb (any_skip ops p) && (no_positives ops || any_positive ops p).

  (** Boolean specification evaluated on the implementation's answer. *)
  Definition is_match_sb (ops : list (pfilter * bool)) (p : str) (out : res bool) : bool :=
    match out with
    | Ok b => Bool.eqb b (is_match_spec ops p)
    | Panic _ => false
    end.
End WithRegexOracle.

(** [Divan::config_with_args]: positional filters are included first (in
    order), then [--skip] filters are excluded; [--exact] turns all of them
    into exact filters, otherwise all are regexes. Builder calls
    ([skip_regex], [skip_exact]) made before [config_with_args] come first. *)
Definition mk_filter (is_exact : bool) (text : str) : pfilter :=
  if is_exact then FExact text else FRegex text.

Definition cli_ops (is_exact : bool) (positional skip : list str) : list (pfilter * bool) :=
  map (fun s => (mk_filter is_exact s, true)) positional ++
  map (fun s => (mk_filter is_exact s, false)) skip.
