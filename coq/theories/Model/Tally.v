(** Model of the allocation tallies of [src/alloc.rs]:
    [ThreadAllocInfo] (lines 200-217), [tally_alloc] / [tally_dealloc] /
    [tally_realloc] / [tally_op] (lines 340-382), [clear] (336-338) and the
    per-thread slot [CURRENT_THREAD_INFO] (219-227).
    Executable definitions only; proofs are in Proofs/Tally.v.

    Widths.  [ThreadAllocCount = Usize64] is u64 and [ThreadAllocCountSigned =
    Isize64] is i64 on the 64-bit targets this development covers; [usize] is
    64 bits.  The code uses plain [+=] / [-=], which panic in a build with
    overflow checks (debug) and wrap otherwise (release): the flag [chk] selects
    the build.  Casts ([as]) always wrap. *)

From DivanV Require Import Base.Res.

(** * Machine arithmetic *)

Definition two63 : Z := 9223372036854775808.
Definition two64 : Z := 18446744073709551616.
Definition two64N : N := 18446744073709551616.

(** u64 [+=]. *)
Definition add_u64 (chk : bool) (a b : N) : res N :=
  if (a + b <? two64N)%N then Ok (a + b)%N
  else if chk then Panic Overflow else Ok ((a + b) mod two64N)%N.

Definition in_i64 (z : Z) : bool := ((- two63 <=? z) && (z <? two63))%Z.

(** Two's-complement reduction into the i64 range. *)
Definition wrap_i64 (z : Z) : Z := ((z + two63) mod two64 - two63)%Z.

(** i64 [+=] and [-=]. *)
Definition add_i64 (chk : bool) (a b : Z) : res Z :=
  if in_i64 (a + b) then Ok (a + b)%Z
  else if chk then Panic Overflow else Ok (wrap_i64 (a + b)).

Definition sub_i64 (chk : bool) (a b : Z) : res Z :=
  if in_i64 (a - b) then Ok (a - b)%Z
  else if chk then Panic Overflow else Ok (wrap_i64 (a - b)).

(** [x as isize] for a usize [x]; [z as usize] for an isize [z]. *)
Definition usize_as_i64 (n : N) : Z := wrap_i64 (Z.of_N n).
Definition i64_as_usize (z : Z) : N := Z.to_N (z mod two64).

(** [a.overflowing_sub(b)] on usize: wrapped difference and the borrow flag. *)
Definition overflowing_sub_u64 (a b : N) : N * bool :=
  ((if b <=? a then a - b else a + two64N - b)%N, (a <? b)%N).

(** [isize::wrapping_abs]: [MIN] stays [MIN]. *)
Definition wrapping_abs_i64 (z : Z) : Z :=
  if (z =? - two63)%Z then z else Z.abs z.

(** * State *)

Record tally := mkT { t_count : N; t_size : N }.

(** [AllocOp], in declaration order (the index into [AllocOpMap::values]). *)
Inductive opk := KGrow | KShrink | KAlloc | KDealloc.

Record info := mkI {
  i_grow : tally; i_shrink : tally; i_alloc : tally; i_dealloc : tally;
  i_cur_count : Z; i_max_count : Z; i_cur_size : Z; i_max_size : Z
}.

Definition tally_zero : tally := mkT 0 0.

(** [ThreadAllocInfo::new()]. *)
Definition info_init : info :=
  mkI tally_zero tally_zero tally_zero tally_zero 0 0 0 0.

Definition get_tally (i : info) (k : opk) : tally :=
  match k with
  | KGrow => i_grow i | KShrink => i_shrink i | KAlloc => i_alloc i | KDealloc => i_dealloc i
  end.

Definition set_tally (i : info) (k : opk) (t : tally) : info :=
  match k with
  | KGrow => mkI t (i_shrink i) (i_alloc i) (i_dealloc i) (i_cur_count i) (i_max_count i) (i_cur_size i) (i_max_size i)
  | KShrink => mkI (i_grow i) t (i_alloc i) (i_dealloc i) (i_cur_count i) (i_max_count i) (i_cur_size i) (i_max_size i)
  | KAlloc => mkI (i_grow i) (i_shrink i) t (i_dealloc i) (i_cur_count i) (i_max_count i) (i_cur_size i) (i_max_size i)
  | KDealloc => mkI (i_grow i) (i_shrink i) (i_alloc i) t (i_cur_count i) (i_max_count i) (i_cur_size i) (i_max_size i)
  end.

Definition set_counts (i : info) (cc mc : Z) : info :=
  mkI (i_grow i) (i_shrink i) (i_alloc i) (i_dealloc i) cc mc (i_cur_size i) (i_max_size i).

Definition set_sizes (i : info) (cs ms : Z) : info :=
  mkI (i_grow i) (i_shrink i) (i_alloc i) (i_dealloc i) (i_cur_count i) (i_max_count i) cs ms.

(** * The four tally functions, shaped like the code *)

(** [tally_op]: [tally.count += 1; tally.size += size as u64]. *)
Definition tally_op (chk : bool) (i : info) (k : opk) (size : N) : res info :=
  let t := get_tally i k in
  do c <- add_u64 chk (t_count t) 1;
  do s <- add_u64 chk (t_size t) size;
  Ok (set_tally i k (mkT c s)).

(** [tally_alloc(size)]. *)
Definition tally_alloc (chk : bool) (i : info) (size : N) : res info :=
  do i1 <- tally_op chk i KAlloc size;
  do cc <- add_i64 chk (i_cur_count i1) 1;
  let i2 := set_counts i1 cc (Z.max (i_max_count i1) cc) in
  do cs <- add_i64 chk (i_cur_size i2) (usize_as_i64 size);
  Ok (set_sizes i2 cs (Z.max (i_max_size i2) cs)).

(** [tally_dealloc(size)]: no update of the maxima. *)
Definition tally_dealloc (chk : bool) (i : info) (size : N) : res info :=
  do i1 <- tally_op chk i KDealloc size;
  do cc <- sub_i64 chk (i_cur_count i1) 1;
  let i2 := set_counts i1 cc (i_max_count i1) in
  do cs <- sub_i64 chk (i_cur_size i2) (usize_as_i64 size);
  Ok (set_sizes i2 cs (i_max_size i2)).

(** [tally_realloc(old_size, new_size)]: [new.overflowing_sub(old)], the
    difference reinterpreted as isize, [wrapping_abs] of it reinterpreted as
    usize; [AllocOp::realloc(is_shrink)]; the count of live allocations is
    untouched; the maximum is updated whatever the direction. *)
Definition tally_realloc (chk : bool) (i : info) (old_size new_size : N) : res info :=
  let '(diff_u, is_shrink) := overflowing_sub_u64 new_size old_size in
  let diff := usize_as_i64 diff_u in
  let abs_diff := i64_as_usize (wrapping_abs_i64 diff) in
  do i1 <- tally_op chk i (if is_shrink then KShrink else KGrow) abs_diff;
  do cs <- add_i64 chk (i_cur_size i1) diff;
  Ok (set_sizes i1 cs (Z.max (i_max_size i1) cs)).

(** * Operation sequences on one thread *)

Inductive aop :=
| OAlloc (size : N)
| ODealloc (size : N)
| ORealloc (old_size new_size : N).

Definition step (chk : bool) (i : info) (o : aop) : res info :=
  match o with
  | OAlloc s => tally_alloc chk i s
  | ODealloc s => tally_dealloc chk i s
  | ORealloc a b => tally_realloc chk i a b
  end.

Fixpoint run_from (chk : bool) (i : info) (ops : list aop) : res info :=
  match ops with
  | [] => Ok i
  | o :: rest => do i' <- step chk i o; run_from chk i' rest
  end.

(** What [__verif::tally_run] computes. *)
Definition run (chk : bool) (ops : list aop) : res info := run_from chk info_init ops.

(** Events of one thread: allocator operations and [clear()] (what
    [benchmark/mod.rs] does at the start of a sample). *)
Inductive tev := EOp (o : aop) | EClear.

Definition ev_step (chk : bool) (r : res info) (e : tev) : res info :=
  do i <- r;
  match e with
  | EOp o => step chk i o
  | EClear => Ok info_init
  end.

Definition run_ev (chk : bool) (evs : list tev) : res info :=
  fold_left (ev_step chk) evs (Ok info_init).

(** * Several threads: one slot per thread ([thread_local!]) *)

Definition tmap := N -> res info.

Definition tmap_init : tmap := fun _ => Ok info_init.

Definition tmap_step (chk : bool) (m : tmap) (te : N * tev) : tmap :=
  fun t' => if (t' =? fst te)%N then ev_step chk (m (fst te)) (snd te) else m t'.

Definition tmap_run (chk : bool) (g : list (N * tev)) : tmap :=
  fold_left (tmap_step chk) g tmap_init.

(** The events of thread [t] in a global sequence, in order. *)
Definition proj (t : N) (g : list (N * tev)) : list tev :=
  map snd (filter (fun te => (fst te =? t)%N) g).

(** * Specification (independent of how the model computes) *)

(** Which of the four rows an operation belongs to: an equal-size
    reallocation is a grow ([overflowing_sub] reports no borrow). *)
Definition kind_of (o : aop) : opk :=
  match o with
  | OAlloc _ => KAlloc
  | ODealloc _ => KDealloc
  | ORealloc a b => if (b <? a)%N then KShrink else KGrow
  end.

(** Bytes the operation contributes to its row: the size, or the absolute
    size change. *)
Definition op_bytes (o : aop) : N :=
  match o with
  | OAlloc s => s
  | ODealloc s => s
  | ORealloc a b => if (b <? a)%N then (a - b)%N else (b - a)%N
  end.

Definition opk_eqb (a b : opk) : bool :=
  match a, b with
  | KGrow, KGrow | KShrink, KShrink | KAlloc, KAlloc | KDealloc, KDealloc => true
  | _, _ => false
  end.

Definition sumN (l : list N) : N := fold_right N.add 0%N l.
Definition sumZ (l : list Z) : Z := fold_right Z.add 0%Z l.

Definition ops_of_kind (k : opk) (ops : list aop) : list aop :=
  filter (fun o => opk_eqb (kind_of o) k) ops.

Definition spec_count (k : opk) (ops : list aop) : N := N.of_nat (length (ops_of_kind k ops)).
Definition spec_bytes (k : opk) (ops : list aop) : N := sumN (map op_bytes (ops_of_kind k ops)).

(** Change of the number of live allocations / of live bytes. *)
Definition delta_count (o : aop) : Z :=
  match o with OAlloc _ => 1 | ODealloc _ => -1 | ORealloc _ _ => 0 end%Z.

Definition delta_size (o : aop) : Z :=
  match o with
  | OAlloc s => Z.of_N s
  | ODealloc s => - Z.of_N s
  | ORealloc a b => Z.of_N b - Z.of_N a
  end%Z.

(** Live allocations / live bytes, relative to the clearing point, after [p]. *)
Definition live_count (p : list aop) : Z := sumZ (map delta_count p).
Definition live_size (p : list aop) : Z := sumZ (map delta_size p).

(** Largest value of the running sum of [d] over all prefixes, the empty one
    (sum 0) included; computed from the right. *)
Fixpoint peak (d : aop -> Z) (ops : list aop) : Z :=
  match ops with
  | [] => 0
  | o :: rest => Z.max 0 (d o + peak d rest)
  end%Z.

(** The guard of the property's quantifier: every operand is a usize and the
    number of operations plus the bytes they move stays below 2^63. *)
Definition op_weight (o : aop) : N := (1 + op_bytes o)%N.
Definition total_weight (ops : list aop) : N := sumN (map op_weight ops).

Definition op_wf (o : aop) : bool :=
  match o with
  | OAlloc s => (s <? two64N)%N
  | ODealloc s => (s <? two64N)%N
  | ORealloc a b => ((a <? two64N) && (b <? two64N))%N
  end.

Definition no_overflow (ops : list aop) : bool :=
  forallb op_wf ops && (total_weight ops <? 9223372036854775808)%N.

Definition tally_eqb (t : tally) (c s : N) : bool := ((t_count t =? c) && (t_size t =? s))%N.

(** Clause-by-clause boolean specification; the list names the failing clauses. *)
Definition tally_sb_clauses (ops : list aop) (i : info) : list (bool * N) :=
  [ (tally_eqb (i_grow i) (spec_count KGrow ops) (spec_bytes KGrow ops), 1%N);
    (tally_eqb (i_shrink i) (spec_count KShrink ops) (spec_bytes KShrink ops), 2%N);
    (tally_eqb (i_alloc i) (spec_count KAlloc ops) (spec_bytes KAlloc ops), 3%N);
    (tally_eqb (i_dealloc i) (spec_count KDealloc ops) (spec_bytes KDealloc ops), 4%N);
    ((i_cur_count i =? live_count ops)%Z, 5%N);
    ((i_max_count i =? peak delta_count ops)%Z, 6%N);
    ((i_cur_size i =? live_size ops)%Z, 7%N);
    ((i_max_size i =? peak delta_size ops)%Z, 8%N) ].

Definition failing_clauses (cl : list (bool * N)) : list N :=
  map snd (filter (fun c => negb (fst c)) cl).

(** [Sb]: outside the guard nothing is claimed; inside it the outcome must be
    a tally (no panic) satisfying every clause. *)
Definition tally_sb (ops : list aop) (out : res info) : bool :=
  if no_overflow ops then
    match out with
    | Ok i => forallb fst (tally_sb_clauses ops i)
    | Panic _ => false
    end
  else true.

Definition tally_sb_why (ops : list aop) (out : res info) : list N :=
  if no_overflow ops then
    match out with
    | Ok i => failing_clauses (tally_sb_clauses ops i)
    | Panic _ => [0%N]
    end
  else [].

(** Events since the last [clear()]. *)
Fixpoint since_clear (evs : list tev) (acc : list aop) : list aop :=
  match evs with
  | [] => rev acc
  | EOp o :: rest => since_clear rest (o :: acc)
  | EClear :: rest => since_clear rest []
  end.

Definition ops_since_clear (evs : list tev) : list aop := since_clear evs [].

Definition all_ops (evs : list tev) : list aop :=
  flat_map (fun e => match e with EOp o => [o] | EClear => [] end) evs.

(** [Sb] for a thread's event sequence: the tally read at the end describes
    the operations since the last clear. *)
Definition ev_sb (evs : list tev) (out : res info) : bool :=
  if no_overflow (all_ops evs) then tally_sb (ops_since_clear evs) out else true.

Definition ev_sb_why (evs : list tev) (out : res info) : list N :=
  if no_overflow (all_ops evs) then tally_sb_why (ops_since_clear evs) out else [].

(** * Outside the guard (release build): what the machine arithmetic yields *)

(** Bytes a reallocation contributes once the size change no longer fits an
    isize: [wrapping_abs] of the wrapped difference, i.e. [|new - old|] up to
    2^63 and [2^64 - |new - old|] beyond. *)
Definition op_bytes_m (o : aop) : N :=
  match o with
  | OAlloc s => s
  | ODealloc s => s
  | ORealloc a b =>
      let d := (if b <? a then a - b else b - a)%N in
      if (d <=? 9223372036854775808)%N then d else (two64N - d)%N
  end.

Definition spec_bytes_m (k : opk) (ops : list aop) : N := sumN (map op_bytes_m (ops_of_kind k ops)).

(** Every reallocation changes the size by at most 2^63 (true of all requests
    that respect [Layout]'s [size <= isize::MAX]). *)
Definition realloc_small (o : aop) : bool :=
  match o with
  | ORealloc a b => ((if b <? a then a - b else b - a) <=? 9223372036854775808)%N
  | _ => true
  end.

(** [Sb] for a release build without any guard on the sequence (operands are
    usize): no panic, rows modulo 2^64, current figures wrapped. *)
Definition release_sb_clauses (ops : list aop) (i : info) : list (bool * N) :=
  [ (tally_eqb (i_grow i) (spec_count KGrow ops mod two64N) (spec_bytes_m KGrow ops mod two64N), 1%N);
    (tally_eqb (i_shrink i) (spec_count KShrink ops mod two64N) (spec_bytes_m KShrink ops mod two64N), 2%N);
    (tally_eqb (i_alloc i) (spec_count KAlloc ops mod two64N) (spec_bytes_m KAlloc ops mod two64N), 3%N);
    (tally_eqb (i_dealloc i) (spec_count KDealloc ops mod two64N) (spec_bytes_m KDealloc ops mod two64N), 4%N);
    ((i_cur_count i =? wrap_i64 (live_count ops))%Z, 5%N);
    ((i_cur_size i =? wrap_i64 (live_size ops))%Z, 7%N) ].

Definition release_sb (ops : list aop) (out : res info) : bool :=
  if forallb op_wf ops then
    match out with
    | Ok i => forallb fst (release_sb_clauses ops i)
    | Panic _ => false
    end
  else true.

Definition release_sb_why (ops : list aop) (out : res info) : list N :=
  if forallb op_wf ops then
    match out with
    | Ok i => failing_clauses (release_sb_clauses ops i)
    | Panic _ => [0%N]
    end
  else [].
