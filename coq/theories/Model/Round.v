(** Model of the cross-thread barrier protocol of one benchmarking round
    (group [round], property C08).

    Mirrors /repo/src/benchmark/mod.rs after fix commit 80a110a:

    - [bench_loop_threaded] (649-908): every round creates a fresh
      [Barrier::new(thread_count)] (738-742), runs [record_sample] on the caller
      (thread 0) and on [thread_count - 1] pool threads ([par_extend], 776-780:
      fork/join, one result slot per thread, a panicking thread leaves its slot
      [None]) and afterwards panics with "Divan benchmarking thread k panicked"
      for the first empty slot (783-788).
    - [sample_recorder] (912-1216), all three type-shape paths have the same
      skeleton:  gen_input * n ; sync_threads(true) = wait, clear tally, wait ;
      start timestamp ; benched * n ; end timestamp ; sync_threads(false) = wait ;
      save_alloc_info ; drops.
    - [SampleBarrier] (490-520): [remaining] starts at WAIT_COUNT = 3, [wait]
      decrements it (saturating) and waits; on drop while the thread is
      panicking it waits [remaining] more times.
    - std::sync::Barrier (documented semantics): an arrival increments the
      count; the arrival that makes the count reach the number of threads
      resets it, starts a new generation and does not block; every other
      arrival blocks until the generation it arrived in is over.
    - /repo/src/alloc.rs: the tally is thread-local state; user code appends
      operations to the tally of the thread it runs on.

    Everything here is executable (extracted to OCaml for the explorer, the
    trace replay and the boolean specifications); proofs are in Proofs/Round*.v. *)

From Coq Require Import List Arith Bool NArith.
Import ListNotations.

(** * The per-sample program of one thread *)

Inductive act : Type :=
| AGen (k : nat)              (* gen_input() for slot k                      *)
| AWait (w : nat)             (* w-th barrier wait of the sample (1, 2, 3)   *)
| AClear                      (* alloc_info.clear()                          *)
| ATsStart                    (* sample_start = Timestamp::start             *)
| ACall (k : nat)             (* benched(slot k)                             *)
| ATsEnd                      (* sample_end = Timestamp::end                 *)
| ASnapshot                   (* save_alloc_info()                           *)
| ADrop (k : nat) (out : bool)(* drop of output k / of input k               *).

(** Which drops happen after the sample: outputs (deferred outputs that need
    drop, or zero-sized outputs in the ZST path) and/or inputs ([bench_refs]
    with [needs_drop::<I>()]); per slot the output goes first (1146-1155, 1082-1098). *)
Record shape : Type := { drop_out : bool; drop_in : bool }.

Definition drops_of (sh : shape) (k : nat) : list act :=
  (if drop_out sh then [ADrop k true] else []) ++ (if drop_in sh then [ADrop k false] else []).

Definition drops (n : nat) (sh : shape) : list act := flat_map (drops_of sh) (seq 0 n).

Definition prog (n : nat) (sh : shape) : list act :=
  map AGen (seq 0 n)
  ++ [AWait 1; AClear; AWait 2; ATsStart]
  ++ map ACall (seq 0 n)
  ++ [ATsEnd; AWait 3; ASnapshot]
  ++ drops n sh.

(** [sync_impl] (972-1034) clears the tally and waits a second time only
    inside [if let Some(alloc_info) = ThreadAllocInfo::current()]: a thread on
    which [current()] is None (thread-local already destroyed; on macOS also a
    failed allocation of the pthread-specific slot) skips both. *)
Definition prog_noinfo (n : nat) (sh : shape) : list act :=
  map AGen (seq 0 n)
  ++ [AWait 1; ATsStart]
  ++ map ACall (seq 0 n)
  ++ [ATsEnd; AWait 3; ASnapshot]
  ++ drops n sh.

(** User code (may panic, may allocate). *)
Definition faultable (a : act) : bool :=
  match a with AGen _ | ACall _ | ADrop _ _ => true | _ => false end.

(** * Configuration *)

(** Allocator operations as tallied by alloc.rs: alloc, dealloc, and realloc by its size difference. *)
Inductive aop : Type := Alloc (size : N) | Dealloc (size : N) | Grow (size : N) | Shrink (size : N).

Record config : Type := {
  nthreads : nat;                         (* T *)
  nrounds : nat;                          (* number of rounds the sampling loop makes *)
  ssize : nat -> nat;                     (* sample size of round r *)
  shp : shape;
  guard : bool;                           (* true: the code after 80a110a (SampleBarrier) *)
  has_info : nat -> bool;                 (* thread: ThreadAllocInfo::current() is Some on that thread *)
  fault : nat -> nat -> nat -> bool;      (* thread, round, program position: user code panics there *)
  allocs : nat -> nat -> nat -> list aop  (* thread, round, program position: what user code allocates there *)
}.

(** The program of thread i in round r. *)
Definition tprog (c : config) (r i : nat) : list act :=
  if has_info c i then prog (ssize c r) (shp c) else prog_noinfo (ssize c r) (shp c).

(** * Thread and barrier state *)

Inductive mode : Type :=
| Run       (* executing record_sample *)
| Unwind    (* panicked; dropping the SampleBarrier guard *)
| Returned  (* record_sample returned: result slot = Some *)
| Unwound   (* unwound out of the task: result slot = None *).

Record thread : Type := {
  pc : nat;              (* next action of [prog]; stays at the panicking action once panicked *)
  md : mode;
  blk : option nat;      (* Some g: inside Barrier::wait, arrived during generation g *)
  remaining : nat;       (* SampleBarrier.remaining *)
  tally : list aop;      (* this thread's ThreadAllocInfo since its last clear *)
  saved : list aop       (* saved_alloc_info *)
}.

Record barrier : Type := { bcount : nat; bgen : nat }.

(** Barrier::wait, first half: returns the new barrier and whether the caller
    was the releasing arrival. *)
Definition arrive (T : nat) (b : barrier) : barrier * bool :=
  if S (bcount b) <? T
  then ({| bcount := S (bcount b); bgen := bgen b |}, false)
  else ({| bcount := 0; bgen := S (bgen b) |}, true).

Definition set_blk (th : thread) (x : option nat) : thread :=
  {| pc := pc th; md := md th; blk := x; remaining := remaining th; tally := tally th; saved := saved th |}.
Definition set_md (th : thread) (m : mode) : thread :=
  {| pc := pc th; md := m; blk := blk th; remaining := remaining th; tally := tally th; saved := saved th |}.
Definition set_rem (th : thread) (x : nat) : thread :=
  {| pc := pc th; md := md th; blk := blk th; remaining := x; tally := tally th; saved := saved th |}.
Definition next_pc (th : thread) : thread :=
  {| pc := S (pc th); md := md th; blk := blk th; remaining := remaining th; tally := tally th; saved := saved th |}.

(** Effect of a non-wait action on the thread-local data. *)
Definition exec (a : act) (ops : list aop) (th : thread) : thread :=
  match a with
  | AClear =>
    {| pc := S (pc th); md := md th; blk := blk th; remaining := remaining th; tally := []; saved := saved th |}
  | ASnapshot =>
    {| pc := S (pc th); md := md th; blk := blk th; remaining := remaining th; tally := tally th; saved := tally th |}
  | AGen _ | ACall _ | ADrop _ _ =>
    {| pc := S (pc th); md := md th; blk := blk th; remaining := remaining th; tally := tally th ++ ops; saved := saved th |}
  | _ => next_pc th
  end.

(** One step of thread [i] in round [r].  [None]: not enabled. *)
Definition tstep (c : config) (r i : nat) (th : thread) (b : barrier) : option (thread * barrier) :=
  match md th, blk th with
  | Run, Some g =>
    if g =? bgen b then None else Some (next_pc (set_blk th None), b)
  | Unwind, Some g =>
    if g =? bgen b then None else Some (set_blk th None, b)
  | Run, None =>
    match nth_error (tprog c r i) (pc th) with
    | None => Some (set_md th Returned, b)
    | Some (AWait _) =>
      (* SampleBarrier::wait: remaining.saturating_sub(1), then barrier.wait() *)
      let th1 := set_rem th (pred (remaining th)) in
      let (b', released) := arrive (nthreads c) b in
      Some (if released then next_pc th1 else set_blk th1 (Some (bgen b)), b')
    | Some a =>
      if faultable a && fault c i r (pc th)
      then Some (set_md th (if guard c then Unwind else Unwound), b)
      else Some (exec a (allocs c i r (pc th)) th, b)
    end
  | Unwind, None =>
    (* Drop for SampleBarrier while panicking: for _ in 0..remaining { barrier.wait() } *)
    match remaining th with
    | 0 => Some (set_md th Unwound, b)
    | S k =>
      let th1 := set_rem th k in
      let (b', released) := arrive (nthreads c) b in
      Some (if released then th1 else set_blk th1 (Some (bgen b)), b')
    end
  | _, _ => None
  end.

(** * Global state: the caller's loop around the rounds *)

Inductive gphase : Type :=
| GIdle                 (* caller between rounds *)
| GRun                  (* round in progress (par_extend running) *)
| GEnd (o : option nat) (* loop over: None = returned normally, Some k = "Divan benchmarking thread k panicked" *).

Record state : Type := { gp : gphase; round : nat; bar : barrier; ths : list thread }.

Inductive label : Type := LStart | LJoin | LThread (i : nat).

Definition thread0 : thread :=
  {| pc := 0; md := Returned; blk := None; remaining := 0; tally := []; saved := [] |}.

(** A thread entering record_sample: a new guard and saved_alloc_info; the
    thread-local tally is whatever earlier rounds left in it. *)
Definition fresh (th : thread) : thread :=
  {| pc := 0; md := Run; blk := None; remaining := 3; tally := tally th; saved := [] |}.

Definition init (c : config) : state :=
  {| gp := GIdle; round := 0; bar := {| bcount := 0; bgen := 0 |}; ths := repeat thread0 (nthreads c) |}.

Fixpoint upd {A} (i : nat) (x : A) (l : list A) : list A :=
  match l, i with
  | [], _ => []
  | _ :: t, 0 => x :: t
  | h :: t, S j => h :: upd j x t
  end.

Definition finished (th : thread) : bool :=
  match md th with Returned | Unwound => true | _ => false end.
Definition returned (th : thread) : bool :=
  match md th with Returned => true | _ => false end.

Fixpoint find_idx {A} (p : A -> bool) (l : list A) : option nat :=
  match l with
  | [] => None
  | h :: t => if p h then Some 0 else option_map S (find_idx p t)
  end.

Definition step (c : config) (st : state) (l : label) : option state :=
  match l, gp st with
  | LStart, GIdle =>
    if round st <? nrounds c
    then Some {| gp := GRun; round := round st; bar := {| bcount := 0; bgen := 0 |}; ths := map fresh (ths st) |}
    else Some {| gp := GEnd None; round := round st; bar := bar st; ths := ths st |}
  | LJoin, GRun =>
    if forallb finished (ths st)
    then match find_idx (fun th => negb (returned th)) (ths st) with
         | Some k => Some {| gp := GEnd (Some k); round := round st; bar := bar st; ths := ths st |}
         | None => Some {| gp := GIdle; round := S (round st); bar := bar st; ths := ths st |}
         end
    else None
  | LThread i, GRun =>
    match nth_error (ths st) i with
    | Some th =>
      match tstep c (round st) i th (bar st) with
      | Some (th', b') => Some {| gp := GRun; round := round st; bar := b'; ths := upd i th' (ths st) |}
      | None => None
      end
    | None => None
    end
  | _, _ => None
  end.

Definition labels (c : config) : list label := LStart :: LJoin :: map LThread (seq 0 (nthreads c)).

Definition final (st : state) : bool := match gp st with GEnd _ => true | _ => false end.

(** * Quantities used by the invariants (also evaluated by the explorer) *)

Definition b2n (b : bool) : nat := if b then 1 else 0.

(** Number of barrier waits of the program strictly before position [p]
    (waits sit at positions n, n+2 and 2n+5). *)
Definition wb (n p : nat) : nat := b2n (n <? p) + b2n (n + 2 <? p) + b2n (2 * n + 5 <? p).
Definition iswait (n p : nat) : bool := (p =? n) || (p =? n + 2) || (p =? 2 * n + 5).
Definition ndrops (n : nat) (sh : shape) : nat := n * (b2n (drop_out sh) + b2n (drop_in sh)).
Definition plen (n : nat) (sh : shape) : nat := 2 * n + 7 + ndrops n sh.
(** Positions holding user code. *)
Definition userpos (n : nat) (sh : shape) (p : nat) : bool :=
  (p <? n) || ((n + 4 <=? p) && (p <? 2 * n + 4)) || ((2 * n + 7 <=? p) && (p <? plen n sh)).

Definition blocked_on (g : nat) (th : thread) : bool :=
  match blk th with Some g' => g' =? g | None => false end.
Definition countb {A} (p : A -> bool) (l : list A) : nat := length (filter p l).

Definition panicked (th : thread) : bool :=
  match md th with Unwind | Unwound => true | _ => false end.

(** The inductive invariant relating a thread's position and guard counter to
    the barrier generation (DESIGN.md Appendix A). *)
Definition thread_ok_b (n : nat) (sh : shape) (g : nat) (th : thread) : bool :=
  match md th, blk th with
  | Run, None => (remaining th + wb n (pc th) =? 3) && (g =? wb n (pc th))
  | Run, Some a => iswait n (pc th) && (a =? wb n (pc th)) && (remaining th + a + 1 =? 3) && ((a =? g) || (S a =? g))
  | Unwind, None => (remaining th + g =? 3) && (wb n (pc th) <=? g) && userpos n sh (pc th)
  | Unwind, Some a => (remaining th + a + 1 =? 3) && ((a =? g) || (S a =? g)) && (wb n (pc th) <=? a) && userpos n sh (pc th)
  | Returned, None => (remaining th =? 0) && (g =? 3) && (plen n sh <=? pc th)
  | Unwound, None => (remaining th =? 0) && (g =? 3) && userpos n sh (pc th)
  | _, Some _ => false
  end.

Definition inv_b (c : config) (st : state) : bool :=
  (length (ths st) =? nthreads c) &&
  match gp st with
  | GRun =>
    (bcount (bar st) <? nthreads c) &&
    (bcount (bar st) =? countb (blocked_on (bgen (bar st))) (ths st)) &&
    forallb (thread_ok_b (ssize c (round st)) (shp c) (bgen (bar st))) (ths st)
  | _ => true
  end.

(** * C08 phase order as a boolean specification on a state

    [executed p th]: the thread has completed the action at position p. *)
Definition executed (p : nat) (th : thread) : bool := p <? pc th.

Definition phase_sb (c : config) (st : state) : bool :=
  match gp st with
  | GRun =>
    let n := ssize c (round st) in
    forallb (fun ti => forallb (fun tj =>
      (* ti took its start timestamp -> tj finished generating and clearing, or has panicked *)
      implb (executed (n + 3) ti) (executed (n + 1) tj || panicked tj) &&
      (* ti returned from the last wait (so: before its snapshot and its first drop) -> tj took its end timestamp, or has panicked *)
      implb (executed (2 * n + 5) ti) (executed (2 * n + 4) tj || panicked tj))
      (ths st)) (ths st)
  | _ => true
  end.

(** * Termination measure *)

Definition mu (n : nat) (sh : shape) (th : thread) : nat :=
  match md th with
  | Run => match blk th with
           | None => 2 * (plen n sh - pc th) + 2 * remaining th + 3
           | Some _ => 2 * (plen n sh - S (pc th)) + 2 * remaining th + 4
           end
  | Unwind => 2 * remaining th + (match blk th with Some _ => 2 | None => 1 end)
  | _ => 0
  end.

Definition sum (l : list nat) : nat := fold_right Nat.add 0 l.

Definition round_cost (c : config) (r : nat) : nat := 2 + nthreads c * (2 * plen (ssize c r) (shp c) + 9).

(** cost of rounds r, r+1, ..., r+k-1 *)
Fixpoint rounds_cost (c : config) (r k : nat) : nat :=
  match k with 0 => 0 | S k' => round_cost c r + rounds_cost c (S r) k' end.

Definition measure (c : config) (st : state) : nat :=
  match gp st with
  | GEnd _ => 0
  | GIdle => 1 + rounds_cost c (round st) (nrounds c - round st)
  | GRun => 2 + sum (map (mu (ssize c (round st)) (shp c)) (ths st))
            + rounds_cost c (S (round st)) (nrounds c - S (round st))
  end.

(** * Expected outcome as a function of the fault set *)

Definition thread_faults (c : config) (r i : nat) : bool :=
  existsb (fun p => userpos (ssize c r) (shp c) p && fault c i r p) (seq 0 (plen (ssize c r) (shp c))).

Definition round_faulty (c : config) (r : nat) : option nat :=
  find_idx (fun i => thread_faults c r i) (seq 0 (nthreads c)).

(** First faulty round among r, ..., r+k-1 and the least faulting thread in it. *)
Fixpoint first_fault (c : config) (r k : nat) : option (nat * nat) :=
  match k with
  | 0 => None
  | S k' => match round_faulty c r with
            | Some i => Some (r, i)
            | None => first_fault c (S r) k'
            end
  end.

Definition expected (c : config) : option (nat * nat) := first_fault c 0 (nrounds c).

(** * Own allocations: what a returned sample must report *)

Definition allocs_at (c : config) (i r p : nat) : list aop :=
  if userpos (ssize c r) (shp c) p then allocs c i r p else [].

(** Operations of thread i at positions a, ..., a+k-1 of round r. *)
Definition window (c : config) (i r a k : nat) : list aop := flat_map (allocs_at c i r) (seq a k).

(** The timed section: positions n+2 (second wait) ... 2n+5 (last wait). *)
Definition own_allocs (c : config) (i r : nat) : list aop := window c i r (ssize c r + 2) (ssize c r + 4).

(** The thread's slot in [raw_samples] after the round. *)
Definition result (th : thread) : option (list aop) :=
  match md th with Returned => Some (saved th) | _ => None end.

(** * The caller's bookkeeping of a round's samples (bench_loop_threaded 855-867)

    [for raw_sample in raw_samples]: sample_index = time_samples.len(); push the
    time sample; insert the allocation info under sample_index unless its
    tallies are all zero ([tallies.is_empty()]).  raw_samples[t] is thread t's
    slot ([par_extend] writes slot [index]), so round r (T samples pushed per
    earlier round) stores thread t's tally under r*T + t. *)
Definition tally_empty (s : list aop) : bool := match s with [] => true | _ => false end.

Fixpoint record_samples (idx : nat) (samples : list (list aop)) (m : list (nat * list aop)) : list (nat * list aop) :=
  match samples with
  | [] => m
  | s :: rest => record_samples (S idx) rest (if tally_empty s then m else m ++ [(idx, s)])
  end.

(** Rounds r, ..., r+k-1 of a run without faults, [idx] = time_samples.len(). *)
Fixpoint run_records (c : config) (r k idx : nat) (m : list (nat * list aop)) : list (nat * list aop) :=
  match k with
  | 0 => m
  | S k' =>
    run_records c (S r) k' (idx + nthreads c)
      (record_samples idx (map (fun t => own_allocs c t r) (seq 0 (nthreads c))) m)
  end.

(** alloc_info_by_sample at the end of a run in which nothing panics. *)
Definition records (c : config) : list (nat * list aop) := run_records c 0 (nrounds c) 0 [].

(** (count, bytes) of allocations and of deallocations *)
Fixpoint summarise (l : list aop) : (N * N) * (N * N) :=
  match l with
  | [] => ((0, 0), (0, 0))%N
  | Alloc s :: t => let '((ac, ab), d) := summarise t in ((ac + 1, ab + s), d)%N
  | Dealloc s :: t => let '(a, (dc, db)) := summarise t in (a, (dc + 1, db + s))%N
  | _ :: t => summarise t
  end.

(** (count, bytes) of growing and of shrinking reallocations *)
Fixpoint summarise_re (l : list aop) : (N * N) * (N * N) :=
  match l with
  | [] => ((0, 0), (0, 0))%N
  | Grow s :: t => let '((gc, gb), d) := summarise_re t in ((gc + 1, gb + s), d)%N
  | Shrink s :: t => let '(a, (sc, sb)) := summarise_re t in (a, (sc + 1, sb + s))%N
  | _ :: t => summarise_re t
  end.

(** * Observable events and trace replay (correspondence check) *)

Inductive evk : Type :=
| EGen | ECall | EDropOut | EDropIn       (* user events *)
| EArrive (w : nat) | ELeave (w : nat)    (* ev::BARRIER_ARRIVE / BARRIER_LEAVE around the w-th wait *)
| EClear | ESnap | EStart | EEnd          (* TALLY_CLEAR, TALLY_SNAPSHOT, CLOCK_START, CLOCK_END *)
| EPanic                                  (* injected panic (logged by the harness in place of the user event) *)
| EGArrive | EGLeave                      (* BARRIER_ARRIVE / BARRIER_LEAVE with a = 3: a wait of the guard while unwinding (hook H5) *).

Definition act_ev (a : act) (e : evk) : bool :=
  match a, e with
  | AGen _, EGen | ACall _, ECall | ADrop _ true, EDropOut | ADrop _ false, EDropIn
  | AClear, EClear | ASnapshot, ESnap | ATsStart, EStart | ATsEnd, EEnd => true
  | AWait w, EArrive w' => w =? w'
  | _, _ => false
  end.

(** Steps without an event in the log: the end of the guard's drop (no wait
    left) of a panicked thread, the return from record_sample, join and start
    of the next round.  Every barrier wait, the guard's included, is logged. *)
Definition tau_thread (c : config) (st : state) (th : thread) : bool :=
  match md th, blk th with
  | Unwind, None => remaining th =? 0
  | Run, None => plen (ssize c (round st)) (shp c) <=? pc th
  | _, _ => false
  end.

Definition find_tau (c : config) (st : state) : option label :=
  match gp st with
  | GIdle => Some LStart
  | GEnd _ => None
  | GRun =>
    if forallb finished (ths st) then Some LJoin
    else option_map LThread (find_idx (tau_thread c st) (ths st))
  end.

Fixpoint taus (fuel : nat) (c : config) (st : state) : state :=
  match fuel with
  | 0 => st
  | S f => match find_tau c st with
           | Some l => match step c st l with Some st' => taus f c st' | None => st end
           | None => st
           end
  end.

(** One logged event of thread t that is a step of the model. *)
Definition obs_step (c : config) (st : state) (t : nat) (e : evk) : option state :=
  match gp st, nth_error (ths st) t with
  | GRun, Some th =>
    let p := tprog c (round st) t in
    match md th, blk th, e with
    | Run, Some _, ELeave w =>
      match nth_error p (pc th) with
      | Some (AWait w') => if w =? w' then step c st (LThread t) else None
      | _ => None
      end
    | Run, None, EPanic =>
      match nth_error p (pc th) with
      | Some a => if faultable a && fault c t (round st) (pc th) then step c st (LThread t) else None
      | None => None
      end
    | Run, None, (ELeave _ | EGArrive | EGLeave) => None
    | Run, None, _ =>
      match nth_error p (pc th) with
      | Some a => if act_ev a e && negb (faultable a && fault c t (round st) (pc th)) then step c st (LThread t) else None
      | None => None
      end
    | Unwind, None, EGArrive => if remaining th =? 0 then None else step c st (LThread t)
    | Unwind, Some _, EGLeave => step c st (LThread t)
    | _, _, _ => None
    end
  | _, _ => None
  end.

Definition is_arrive (e : evk) : bool := match e with EArrive _ | EGArrive => true | _ => false end.
Definition is_leave (e : evk) : bool := match e with ELeave _ | EGLeave => true | _ => false end.
Definition blocked_now (st : state) (t : nat) : bool :=
  match nth_error (ths st) t with Some th => match blk th with Some _ => true | None => false end | None => false end.

(** The releasing arrival does not block in the model: its wait is over with
    the arrival, and the leave event the thread logs next has no step of its
    own.  [pend] lists the threads that owe exactly that event; [pend_ok]
    checks that it is the leave of the wait just passed. *)
Definition pend_ok (c : config) (st : state) (t : nat) (e : evk) : bool :=
  match nth_error (ths st) t with
  | Some th =>
    match e, md th with
    | ELeave w, Run =>
      match pc th with
      | S q => match nth_error (tprog c (round st) t) q with Some (AWait w') => w =? w' | _ => false end
      | 0 => false
      end
    | EGLeave, (Unwind | Unwound) => true
    | _, _ => false
    end
  | None => false
  end.

Fixpoint remove_nat (t : nat) (l : list nat) : list nat :=
  match l with [] => [] | h :: r => if h =? t then r else h :: remove_nat t r end.

(** Replays a global log, every event matched one to one; returns the number
    of accepted events, the state reached (after the silent steps that are
    enabled) and the threads still owing a leave event. *)
Fixpoint replay (fuel : nat) (c : config) (st : state) (pend : list nat) (log : list (nat * evk)) (acc : nat)
  : nat * state * list nat :=
  match log with
  | [] => (acc, st, pend)
  | (t, e) :: rest =>
    if existsb (Nat.eqb t) pend then
      if is_leave e && pend_ok c st t e then replay fuel c st (remove_nat t pend) rest (S acc)
      else (acc, st, pend)
    else
      match obs_step c st t e with
      | Some st' =>
        let pend' := if is_arrive e && negb (blocked_now st' t) then t :: pend else pend in
        replay fuel c (taus fuel c st') pend' rest (S acc)
      | None => (acc, st, pend)
      end
  end.

(** * C08 phase order as a boolean specification on an observed global log

    Independent of [step]: a monitor reads the global log in order, counting
    per thread the generator calls, clears, start and end timestamps seen so
    far (and whether the thread has panicked), and checks at every event what
    the property says (sample size [sz r] in round r):

    - a thread takes its (r+1)-th start timestamp only when every thread has
      cleared its tally r+1 times and made all the generator calls of rounds
      0..r, or has panicked;
    - a thread takes a snapshot or drops a value only when every thread has
      taken at least as many end timestamps as itself, or has panicked;
    - a generator call, clear, snapshot or drop (untimed work) is logged only
      while no thread - the logging one included - is between a start and an
      end timestamp, panicked threads excepted. *)
Record mcnt : Type := { m_gen : nat; m_clear : nat; m_start : nat; m_end : nat; m_pan : bool }.
Definition mcnt0 : mcnt := {| m_gen := 0; m_clear := 0; m_start := 0; m_end := 0; m_pan := false |}.

Definition mon_upd (m : mcnt) (e : evk) : mcnt :=
  match e with
  | EGen => {| m_gen := S (m_gen m); m_clear := m_clear m; m_start := m_start m; m_end := m_end m; m_pan := m_pan m |}
  | EClear => {| m_gen := m_gen m; m_clear := S (m_clear m); m_start := m_start m; m_end := m_end m; m_pan := m_pan m |}
  | EStart => {| m_gen := m_gen m; m_clear := m_clear m; m_start := S (m_start m); m_end := m_end m; m_pan := m_pan m |}
  | EEnd => {| m_gen := m_gen m; m_clear := m_clear m; m_start := m_start m; m_end := S (m_end m); m_pan := m_pan m |}
  | EPanic => {| m_gen := m_gen m; m_clear := m_clear m; m_start := m_start m; m_end := m_end m; m_pan := true |}
  | _ => m
  end.

(** Generator calls made in rounds 0 .. k-1, for per-round sample sizes [sz]. *)
Fixpoint cum (sz : nat -> nat) (k : nat) : nat :=
  match k with 0 => 0 | S k' => cum sz k' + sz k' end.

(** No live thread is inside its timed section (it has taken as many end as
    start timestamps): what must hold whenever untimed work is logged. *)
Definition untimed_ok (ms : list mcnt) : bool :=
  forallb (fun mj => m_pan mj || (m_start mj <=? m_end mj)) ms.

(** What must hold when thread (with counters) [m] logs [e]. *)
Definition mon_ok (sz : nat -> nat) (ms : list mcnt) (m : mcnt) (e : evk) : bool :=
  match e with
  | EStart =>
    forallb (fun mj => m_pan mj || ((S (m_start m) <=? m_clear mj) && (cum sz (S (m_start m)) <=? m_gen mj))) ms
  | ESnap | EDropOut | EDropIn =>
    forallb (fun mj => m_pan mj || (m_end m <=? m_end mj)) ms && untimed_ok ms
  | EGen | EClear => untimed_ok ms
  | _ => true
  end.

Fixpoint monitor (sz : nat -> nat) (ms : list mcnt) (log : list (nat * evk)) : bool :=
  match log with
  | [] => true
  | (t, e) :: rest =>
    match nth_error ms t with
    | Some m => mon_ok sz ms m e && monitor sz (upd t (mon_upd m e) ms) rest
    | None => false
    end
  end.

(** [sz r]: the sample size of round r (constant when sample_size is given, 1, 2, 4, ... while tuning). *)
Definition log_sb (T : nat) (sz : nat -> nat) (log : list (nat * evk)) : bool := monitor sz (repeat mcnt0 T) log.

(** * The global log of a model execution (what the hooks would record) *)

Definition ev_of_act (a : act) : evk :=
  match a with
  | AGen _ => EGen | AWait w => EArrive w | AClear => EClear | ATsStart => EStart
  | ACall _ => ECall | ATsEnd => EEnd | ASnapshot => ESnap
  | ADrop _ true => EDropOut | ADrop _ false => EDropIn
  end.

(** [gev]: whether the guard's waits while unwinding are part of the log (they
    are since hook H5; the monitor ignores them either way). *)
Definition step_event_g (gev : bool) (c : config) (st : state) (l : label) : option (nat * evk) :=
  match l, gp st with
  | LThread i, GRun =>
    match nth_error (ths st) i with
    | Some th =>
      match md th, blk th with
      | Run, Some _ =>
        match nth_error (tprog c (round st) i) (pc th) with
        | Some (AWait w) => Some (i, ELeave w)
        | _ => None
        end
      | Run, None =>
        match nth_error (tprog c (round st) i) (pc th) with
        | Some a => if faultable a && fault c i (round st) (pc th) then Some (i, EPanic) else Some (i, ev_of_act a)
        | None => None
        end
      | Unwind, Some _ => if gev then Some (i, EGLeave) else None
      | Unwind, None => if gev && negb (remaining th =? 0) then Some (i, EGArrive) else None
      | _, _ => None
      end
    | None => None
    end
  | _, _ => None
  end.

Fixpoint events_g (gev : bool) (c : config) (st : state) (tr : list label) : list (nat * evk) :=
  match tr with
  | [] => []
  | l :: t =>
    match step c st l with
    | Some st' => match step_event_g gev c st l with
                  | Some e => e :: events_g gev c st' t
                  | None => events_g gev c st' t
                  end
    | None => []
    end
  end.

(** The log of the steps of record_sample proper, and the full log. *)
Definition events := events_g false.
Definition events_full := events_g true.
