(** Generic sorting model used by C16: comparator cascades, a stable insertion
    sort as the executable instance of "[slice::sort_by] returns a sorted
    permutation", and std's order-violation detection as an explicit panic.
    Executable definitions only; proofs are in Proofs/SortCmp.v. *)

From DivanV Require Import Base.Res.
Local Open Scope N_scope.

(** [for attr in tie_breakers { if ordering != Equal { return ordering } }]. *)
Definition thenc {A} (c1 c2 : A -> A -> comparison) (x y : A) : comparison :=
  match c1 x y with
  | Eq => c2 x y
  | o => o
  end.

(** [Ordering::reverse] applied when [reverse] is set ([apply_reverse]). *)
Definition apply_reverse (reverse : bool) (o : comparison) : comparison :=
  if reverse then CompOpp o else o.

Definition revc {A} (reverse : bool) (c : A -> A -> comparison) (x y : A) : comparison :=
  apply_reverse reverse (c x y).

Definition leb_c {A} (c : A -> A -> comparison) (x y : A) : bool :=
  match c x y with Gt => false | _ => true end.

(** Stable insertion: [x] goes in front of the first element that is not
    smaller, so an element inserted later from the left stays before its equals. *)
Fixpoint insert {A} (c : A -> A -> comparison) (x : A) (l : list A) : list A :=
  match l with
  | [] => [x]
  | y :: r => if leb_c c x y then x :: y :: r else y :: insert c x r
  end.

Fixpoint isort {A} (c : A -> A -> comparison) (l : list A) : list A :=
  match l with
  | [] => []
  | x :: r => insert c x (isort c r)
  end.

(** Every element is [<=] every later element, and the comparator answers the
    mirrored question with the mirrored answer. *)
Fixpoint all_pairs_ok {A} (c : A -> A -> comparison) (l : list A) : bool :=
  match l with
  | [] => true
  | x :: r =>
      forallb (fun y => leb_c c x y && match c y x, c x y with
                                       | Eq, Eq | Gt, Lt | Lt, Gt => true
                                       | _, _ => false
                                       end) r
      && all_pairs_ok c r
  end.

(** [slice::sort_by] / [sort_unstable_by].  Since Rust 1.81 the standard sorts
    may panic ("user-provided comparison function does not correctly implement
    a total order") when they notice an inconsistency; otherwise they return a
    sorted permutation.  The model returns the stable sorted permutation when
    the comparator is consistent on the sorted result and the panic otherwise. *)
Definition sort_by {A} (c : A -> A -> comparison) (l : list A) : res (list A) :=
  let s := isort c l in
  if all_pairs_ok c s then Ok s else Panic NotTotalOrder.

(** [0, 1, ..., n-1] paired with the elements: an element of a slice together
    with its address (only the order of addresses matters). *)
Fixpoint index_from {A} (i : N) (l : list A) : list (N * A) :=
  match l with
  | [] => []
  | x :: r => (i, x) :: index_from (i + 1) r
  end.

Definition indexed {A} (l : list A) : list (N * A) := index_from 0 l.

(** Boolean helpers for the specifications. *)
Fixpoint mem_N (x : N) (l : list N) : bool :=
  match l with [] => false | y :: r => (x =? y) || mem_N x r end.

Fixpoint nodup_N (l : list N) : bool :=
  match l with [] => true | x :: r => negb (mem_N x r) && nodup_N r end.

(** [out] is a permutation of [0 .. n-1]. *)
Definition is_perm_of_range (n : N) (out : list N) : bool :=
  (N.of_nat (length out) =? n) && forallb (fun i => i <? n) out && nodup_N out.

Fixpoint nth_opt {A} (l : list A) (i : N) : option A :=
  match l with
  | [] => None
  | x :: r => if i =? 0 then Some x else nth_opt r (i - 1)
  end.

(** Strictly ascending w.r.t. a strict order given as a boolean "comes before",
    checked on all pairs. *)
Fixpoint all_before {A} (lt : A -> A -> bool) (l : list A) : bool :=
  match l with
  | [] => true
  | x :: r => forallb (lt x) r && all_before lt r
  end.
