(** Model of [src/time/fine_duration.rs:23-76,142-229]: [Display] of
    [FineDuration] — scale selection, the ps-shown-as-ns rule, the saturating
    power of ten, the integer path for >= 10^sig days, the 128-bit integer
    pre-scaling before the float division, [format_f64], suffix and fill.
    The unit table, suffix table, default significant figures and the ps->ns
    threshold are the generated constants.  Executable definitions only. *)

From DivanV Require Import Base.Res Generated.Consts Model.FmtF64.
Local Open Scope N_scope.

(** Outcome of formatting.  [FInexact]: the value handed to [f64] is outside
    the range in which the model's single assumption about float printing
    applies (see [f64_exact_guard]); the model does not say what is printed. *)
Inductive fout :=
| FOk (s : str)
| FPanic (p : panic)
| FInexact.

Definition fbind {A} (r : res A) (f : A -> fout) : fout :=
  match r with Ok a => f a | Panic p => FPanic p end.

Definition nth_res {A} (l : list A) (i : N) : res A :=
  match nth_error l (N.to_nat i) with Some x => Ok x | None => Panic OutOfBounds end.

(** [TimeScale::from_picos]: the chain of [picos < NANOS], [picos < MICROS], …
    over the generated table; index 0 = PicoSec … 7 = Day. *)
Fixpoint scale_walk (tbl : list N) (p : N) (i : N) : N :=
  match tbl with
  | [] => i
  | t :: r => if p <? t then i else scale_walk r p (i + 1)
  end.

Definition scale_index (p : N) : N := scale_walk unit_picos_table p 0.

(** [TimeScale::picos]. *)
Definition scale_picos (i : N) : res N :=
  if i =? 0 then Ok 1 else nth_res unit_picos_table (i - 1).

Definition scale_suffix (i : N) : res str := nth_res unit_suffix_table i.

(** [picos::DAY] = the last entry of the table. *)
Definition day_picos : res N := nth_res unit_picos_table 6.

(** [10_u128.saturating_pow(u32::try_from(sig).unwrap_or(u32::MAX))]:
    10^38 < 2^128 <= 10^39. *)
Definition pow10_sat128 (sig : N) : N :=
  if 39 <=? sig then u128_max else 10 ^ sig.

(** The one assumption about Rust's float printing: for an integer
    [n < 10^15] (so exactly representable, < 2^53) and [sig <= 22] (so
    [10^sig] is exactly representable) the correctly rounded quotient
    [n as f64 / 10^sig as f64] is printed by [Display] (shortest round-trip
    digits, never an exponent) as the exact decimal numeral of [n / 10^sig],
    because a decimal with at most 15 significant digits survives the round
    trip through binary64 and is the shortest such string. *)
Definition f64_exact_guard (n sig : N) : bool := (n <? 10 ^ 15) && (sig <=? 22).

Definition f64_display_exact (n sig : N) : str := render_fix n sig.

(** [str.extend(repeat(fill).take(fill_len))] when
    [width.checked_sub(str.len())] is [Some]; [len] is the byte length. *)
Definition fill_to (width : option N) (s : str) : str :=
  match width with
  | None => s
  | Some w => if len s <=? w then s ++ repeat_byte ch_space (N.to_nat (w - len s)) else s
  end.

(** The body of [fmt] once the scale [i] is chosen. *)
Definition fmt_duration_at (sig : N) (width : option N) (p i : N) : fout :=
  let multiple := pow10_sat128 sig in
  fbind day_picos (fun day =>
  fbind (scale_picos i) (fun unit =>
  fbind (scale_suffix i) (fun suffix =>
  let finish (num : str) := FOk (fill_to width (num ++ [ch_space] ++ suffix)) in
  if (day * multiple <? 2 ^ 128) && (day * multiple <=? p) then
    (* integer representation: (picos / DAY).to_string() *)
    fbind (checked_div p day) (fun q => finish (digits_of q))
  else
    fbind (checked_mul 128 p multiple) (fun prod =>
    fbind (checked_div prod unit) (fun n =>
    if f64_exact_guard n sig then
      fbind (format_f64_str (f64_display_exact n sig) sig) finish
    else FInexact))))).

Definition sig_of (prec : option N) : N :=
  match prec with Some s => s | None => fmt_default_sig_figs end.

Definition fmt_duration_with (prec width : option N) (p : N) : fout :=
  let sig := sig_of prec in
  let i0 := scale_index p in
  let i := if (i0 =? 0) && (fmt_pico_as_nano_above <? sig) then 1 else i0 in
  fmt_duration_at sig width p i.

(** [FineDuration { picos }.to_string()]. *)
Definition fmt_duration (p : N) : fout := fmt_duration_with None None p.

(** * Specification (independent of the generated tables and of the string
    algorithm): the units named by the property. *)

Definition spec_units : list (N * str) :=
  [ (1, [112; 115]);                         (* ps *)
    (1000, [110; 115]);                      (* ns *)
    (1000000, [194; 181; 115]);              (* µs *)
    (1000000000, [109; 115]);                (* ms *)
    (1000000000000, [115]);                  (* s *)
    (60000000000000, [109]);                 (* m *)
    (3600000000000000, [104]);               (* h *)
    (86400000000000000, [100]) ].            (* d *)

Definition spec_ps : N * str := (1, [112; 115]).
Definition spec_ns : N * str := (1000, [110; 115]).

(** The largest unit not exceeding [p]; values below 1 ns are shown in ns
    (when more than 3 significant figures are asked for, as by default). *)
Definition spec_unit (sig p : N) : N * str :=
  let pick := fold_left (fun acc u => if fst u <=? p then u else acc) spec_units spec_ps in
  if (fst pick =? 1) && (3 <? sig) then spec_ns else pick.

Definition spec_duration_string (sig : N) (width : option N) (p : N) : str :=
  let '(u, suffix) := spec_unit sig p in
  fill_to width (trunc_numeral p u sig ++ [ch_space] ++ suffix).

(** Boolean specification evaluated on implementation outputs: the output is
    [<numeral> ' ' <suffix> <padding>] with the numeral as in [numeral_sb],
    the suffix that of [spec_unit], and spaces up to the width. *)
Definition duration_sb (sig : N) (width : option N) (p : N) (out : fout) : bool :=
  match out with
  | FOk s =>
      let '(u, suffix) := spec_unit sig p in
      let '(num, orest) := split_at ch_space s in
      match orest with
      | None => false
      | Some rest =>
          let body := len num + 1 + len suffix in
          let padlen := match width with
                        | None => 0
                        | Some w => w - body
                        end in
          numeral_sb num p u sig &&
          str_eqb rest (suffix ++ repeat_byte ch_space (N.to_nat padlen))
      end
  | _ => false
  end.
