(** Model of how [Divan::run_action] builds the tree whose groups lend their
    options to the benchmarks below them ([src/entry/tree.rs]:
    [EntryTree::from_benches], [insert_entry], [from_path], [get_children],
    [insert_group]) for plain benchmarks and groups, and of the options a
    benchmark ends up with when [run_tree] walks that tree.  Entries are named
    by an index into the registration order.  Executable definitions only;
    proofs are in Proofs/TreeBuild.v. *)

From DivanV Require Import Base.Res Model.SplitVec Model.Filter Model.Options.

(** [EntryTree]: a parent carries the raw name of the module-path component it
    was made for and the group attached to it (index into the groups), a leaf
    the index of its benchmark. *)
Inductive btree : Type :=
| BParent (raw_name : str) (group : option nat) (children : list btree)
| BLeaf (bench : nat).

(** [get_children]: the first [Parent] whose [raw_name] is [module]; the
    update function is applied to its children.  [None]: no such parent. *)
Fixpoint update_first_parent (module : str) (f : list btree -> list btree) (tree : list btree) : option (list btree) :=
  match tree with
  | [] => None
  | BParent raw g children :: rest =>
      if str_eqb raw module then Some (BParent raw g (f children) :: rest)
      else match update_first_parent module f rest with
           | Some rest' => Some (BParent raw g children :: rest')
           | None => None
           end
  | leaf :: rest =>
      match update_first_parent module f rest with
      | Some rest' => Some (leaf :: rest')
      | None => None
      end
  end.

(** [from_path]: a chain of fresh parents ending in the leaf. *)
Fixpoint from_path (bench : nat) (modules : list str) : btree :=
  match modules with
  | [] => BLeaf bench
  | m :: rest => BParent m None [from_path bench rest]
  end.

(** [insert_entry] *)
Fixpoint insert_entry (bench : nat) (rem_modules : list str) (tree : list btree) : list btree :=
  match rem_modules with
  | [] => tree ++ [BLeaf bench]
  | current :: rest =>
      match update_first_parent current (insert_entry bench rest) tree with
      | Some tree' => tree'
      | None => tree ++ [from_path bench rem_modules]
      end
  end.

(** [from_benches]: benchmark [i] has module path [nth i paths]. *)
Fixpoint from_benches_from (i : nat) (paths : list (list str)) (tree : list btree) : list btree :=
  match paths with
  | [] => tree
  | p :: rest => from_benches_from (S i) rest (insert_entry i p tree)
  end.

Definition from_benches (paths : list (list str)) : list btree := from_benches_from 0 paths [].

(** The slot update at the end of [insert_group]: the first [Parent] named
    [raw] gets the group (overwriting what was there). *)
(** [name.strip_prefix("r#").unwrap_or(name)] ('r' = 114, '#' = 35): [module_path!()]
    may spell a raw identifier without the prefix the group's [raw_name] has. *)
Definition strip_raw (name : str) : str :=
  match name with
  | 114%N :: 35%N :: rest => rest
  | _ => name
  end.

Fixpoint set_group_first (raw : str) (g : nat) (tree : list btree) : list btree :=
  match tree with
  | [] => []
  | BParent r slot children :: rest =>
      if str_eqb (strip_raw raw) (strip_raw r) then BParent r (Some g) children :: rest
      else BParent r slot children :: set_group_first raw g rest
  | leaf :: rest => leaf :: set_group_first raw g rest
  end.

(** [insert_group]: walk down the group's module path through first-matching
    parents; a component without parent leaves the tree unchanged. *)
Fixpoint insert_group (g : nat) (module_path : list str) (raw : str) (tree : list btree) : list btree :=
  match module_path with
  | [] => set_group_first raw g tree
  | component :: rest =>
      match update_first_parent component (insert_group g rest raw) tree with
      | Some tree' => tree'
      | None => tree
      end
  end.

(** Groups in registration order: [(module path, raw name)]. *)
Fixpoint insert_groups_from (g : nat) (groups : list (list str * str)) (tree : list btree) : list btree :=
  match groups with
  | [] => tree
  | (p, raw) :: rest => insert_groups_from (S g) rest (insert_group g p raw tree)
  end.

Definition build_tree (bench_paths : list (list str)) (groups : list (list str * str)) : list btree :=
  insert_groups_from 0 groups (from_benches bench_paths).

(** The chain of nodes above each leaf, outermost first: raw name and group. *)
Fixpoint leaf_chains_tree (above : list (str * option nat)) (t : btree) : list (nat * list (str * option nat)) :=
  match t with
  | BLeaf b => [(b, above)]
  | BParent raw g children => flat_map (leaf_chains_tree (above ++ [(raw, g)])) children
  end.

Definition leaf_chains (tree : list btree) : list (nat * list (str * option nat)) :=
  flat_map (leaf_chains_tree []) tree.

(** Options of a benchmark as [run_tree] + [run_bench_entry] compute them on
    this tree. *)
Definition options_on_tree (runner : options) (group_options : nat -> option options) (bench_options : nat -> option options)
  (tree : list btree) : list (nat * options) :=
  map (fun bc =>
         (fst bc,
          resolve runner (map (fun rg => match snd rg with Some g => group_options g | None => None end) (snd bc))
                  (bench_options (fst bc))))
      (leaf_chains tree).

(** * Specification, without any tree: the group that encloses level [k] of a
    benchmark's module path [p] is the LAST registered group whose module path
    is the first [k] components of [p] and whose raw name is component [k]
    (up to a [r#] prefix). *)
Fixpoint str_list_eqb (a b : list str) : bool :=
  match a, b with
  | [], [] => true
  | x :: r, y :: s => str_eqb x y && str_list_eqb r s
  | _, _ => false
  end.

Fixpoint last_group_from (g : nat) (groups : list (list str * str)) (prefix : list str) (raw : str) (found : option nat) : option nat :=
  match groups with
  | [] => found
  | (p, r) :: rest =>
      last_group_from (S g) rest prefix raw
        (if str_list_eqb p prefix && str_eqb (strip_raw r) (strip_raw raw) then Some g else found)
  end.

Definition enclosing_group (groups : list (list str * str)) (prefix : list str) (raw : str) : option nat :=
  last_group_from 0 groups prefix raw None.

(** Chain demanded for a benchmark with module path [p]. *)
Fixpoint spec_chain_from (groups : list (list str * str)) (prefix : list str) (p : list str) : list (str * option nat) :=
  match p with
  | [] => []
  | m :: rest => (m, enclosing_group groups prefix m) :: spec_chain_from groups (prefix ++ [m]) rest
  end.

Definition spec_chain (groups : list (list str * str)) (p : list str) : list (str * option nat) :=
  spec_chain_from groups [] p.

Definition spec_options_of_bench (runner : options) (groups : list (list str * str))
  (group_options : nat -> option options) (bench_options : option options) (p : list str) : options :=
  spec_effective runner
    (map (fun rg => match snd rg with Some g => group_options g | None => None end) (spec_chain groups p))
    bench_options.

(** No two sibling parents with the same raw name, anywhere. *)
Fixpoint parent_names (tree : list btree) : list str :=
  match tree with
  | [] => []
  | BParent raw _ _ :: rest => raw :: parent_names rest
  | BLeaf _ :: rest => parent_names rest
  end.

Fixpoint mem_str (x : str) (l : list str) : bool :=
  match l with [] => false | y :: r => str_eqb x y || mem_str x r end.

Fixpoint nodup_str (l : list str) : bool :=
  match l with [] => true | x :: r => negb (mem_str x r) && nodup_str r end.

Fixpoint unique_parents_tree (t : btree) : bool :=
  match t with
  | BLeaf _ => true
  | BParent _ _ children =>
      nodup_str (parent_names children)
      && (fix all (l : list btree) : bool := match l with [] => true | c :: r => unique_parents_tree c && all r end) children
  end.

Definition unique_parents (tree : list btree) : bool :=
  nodup_str (parent_names tree) && forallb unique_parents_tree tree.
