(** Model of [src/util/fmt.rs:42-219] ([format_bytes], [DisplayThroughput],
    [scale_value], the prefix tables) and of [AnyCounter::display_throughput]
    ([src/counter/any_counter.rs:64-75]) over EXACT non-negative rationals:
    the floating-point operations ([count as f64], [1e12 / picos], the
    product, the division by the scale start) are idealised as exact, and
    [f64]'s [Display] as the exact decimal expansion (cut after [sig]
    fraction digits — [format_f64] reads no further).  The correspondence
    check compares the implementation with this model "modulo double-precision
    rounding" ([scaled_sb_approx]).  Executable definitions only. *)

From DivanV Require Import Base.Res Generated.Consts Model.FmtF64 Model.FmtDuration.
Local Open Scope N_scope.

(** The float handed to the formatter: a non-negative rational [a/b]
    ([b <> 0]), +infinity or NaN. *)
Inductive fval :=
| VQ (a b : N)
| VInf
| VNaN.

(** [ScaleFormat]. *)
Inductive sfmt :=
| SBytes (binary : bool)
| SBytesThr (binary : bool)
| SChars
| SCycles
| SItems.

(** [ScaleFormat::bytes_format]. *)
Definition sfmt_binary (f : sfmt) : bool :=
  match f with SBytes b | SBytesThr b => b | _ => false end.

(** [scale_starts]. *)
Definition starts_of (binary : bool) : list N :=
  if binary then scale_starts_binary else scale_starts_decimal.

(** [Scale::suffix]: the literal tables of the code, written as
    prefix ++ base. *)
Definition prefix_letter (i : N) : res str :=
  nth_res [[]; [75]; [77]; [71]; [84]; [80]] i.       (* "" K M G T P *)

Definition sfmt_suffix (f : sfmt) (i : N) : res str :=
  do pre <- prefix_letter i;
  let bin_i (b : bool) : str := if b && negb (i =? 0) then [105] else [] in   (* "i" *)
  Ok match f with
     | SBytes b => pre ++ bin_i b ++ [66]                                      (* B *)
     | SBytesThr b => pre ++ bin_i b ++ [66; 47; 115]                          (* B/s *)
     | SChars => pre ++ [99; 104; 97; 114; 47; 115]                            (* char/s *)
     | SCycles => pre ++ [72; 122]                                             (* Hz *)
     | SItems => pre ++ [105; 116; 101; 109; 47; 115]                          (* item/s *)
     end.

(** The chain [value < starts[1]], [value < starts[2]], … of [scale_value]
    for a finite value [a/b]. *)
Fixpoint starts_walk (tbl : list N) (a b : N) (i : N) : N :=
  match tbl with
  | [] => i
  | t :: r => if a <? t * b then i else starts_walk r a b (i + 1)
  end.

Definition scale_idx (starts : list N) (v : fval) : N :=
  match v with
  | VInf => 0                                   (* value.is_infinite() *)
  | VNaN => 5                                   (* every comparison is false *)
  | VQ a b => starts_walk (tl starts) a b 0
  end.

(** [format_f64(value / starts[scale], sig)] followed by the suffix. *)
Definition fmt_scaled (f : sfmt) (sig : N) (v : fval) : res str :=
  let starts := starts_of (sfmt_binary f) in
  let i := scale_idx starts v in
  do st <- nth_res starts i;
  do suffix <- sfmt_suffix f i;
  do num <-
    match v with
    | VInf => format_f64_str [105; 110; 102] sig            (* "inf" *)
    | VNaN => format_f64_str [78; 97; 78] sig               (* "NaN" *)
    | VQ a b =>
        (* a float division by zero is inf/NaN, not a panic; it cannot happen
           for [b <> 0] and non-zero table entries and is not modelled *)
        if b * st =? 0 then Panic Other
        else format_f64_str (render_fix (a * 10 ^ sig / (b * st)) sig) sig
    end;
  Ok (num ++ [ch_space] ++ suffix).

(** [format_bytes(val, sig, bytes_format)]. *)
Definition format_bytes (binary : bool) (sig : N) (v : fval) : res str :=
  fmt_scaled (SBytes binary) sig v.

(** [format_f64(val, sig)] of a float. *)
Definition format_f64 (sig : N) (v : fval) : res str :=
  match v with
  | VInf => format_f64_str [105; 110; 102] sig
  | VNaN => format_f64_str [78; 97; 78] sig
  | VQ a b => if b =? 0 then Panic Other
              else format_f64_str (render_fix (a * 10 ^ sig / b) sig) sig
  end.

(** [KnownCounterKind::ALL[kind]] then the [match] in [DisplayThroughput::fmt]. *)
Definition thr_format (kind : N) (binary : bool) : res sfmt :=
  nth_res [SBytesThr binary; SChars; SCycles; SItems] kind.

(** [count_per_sec = if count == 0 { 0. } else { count as f64 * (1e12 / picos) }]. *)
Definition thr_value (count picos : N) : fval :=
  if count =? 0 then VQ 0 1
  else if picos =? 0 then VInf
  else VQ (count * 1000000000000) picos.

(** [AnyCounter::known(kind, count).display_throughput(duration, format).to_string()]
    (no precision: 4 significant figures; no width). *)
Definition display_throughput (kind count picos : N) (binary : bool) : res str :=
  do f <- thr_format kind binary;
  fmt_scaled f 4 (thr_value count picos).

(** * Specification: prefixes 1000^k / 1024^k named by the property. *)

Definition spec_starts (binary : bool) : list N :=
  let base := if binary then 1024 else 1000 in
  map (fun k => base ^ k) [0; 1; 2; 3; 4; 5].

(** Largest prefix start not exceeding [a/b] (the smallest one below 1). *)
Definition spec_scale (binary : bool) (a b : N) : N * N :=   (* (index, start) *)
  fold_left (fun acc (ks : N * N) => if snd ks * b <=? a then ks else acc)
            (combine [0; 1; 2; 3; 4; 5] (spec_starts binary)) (0, 1).

Definition spec_suffix (f : sfmt) (i : N) : str :=
  let pre := nth (N.to_nat i) [[]; [75]; [77]; [71]; [84]; [80]] [] in
  let bi (b : bool) : str := if b && negb (i =? 0) then [105] else [] in
  match f with
  | SBytes b => pre ++ bi b ++ [66]
  | SBytesThr b => pre ++ bi b ++ [66; 47; 115]
  | SChars => pre ++ [99; 104; 97; 114; 47; 115]
  | SCycles => pre ++ [72; 122]
  | SItems => pre ++ [105; 116; 101; 109; 47; 115]
  end.

Definition spec_scaled_string (f : sfmt) (sig a b : N) : str :=
  let '(i, st) := spec_scale (sfmt_binary f) a b in
  trunc_numeral a (b * st) sig ++ [ch_space] ++ spec_suffix f i.

(** Exact boolean specification for the rational [a/b]. *)
Definition scaled_sb (f : sfmt) (sig a b : N) (out : str) : bool :=
  let '(i, st) := spec_scale (sfmt_binary f) a b in
  let '(num, orest) := split_at ch_space out in
  match orest with
  | None => false
  | Some rest => numeral_sb num a (b * st) sig && str_eqb rest (spec_suffix f i)
  end.

(** Index of the scale whose suffix is [rest] (to recover the value printed). *)
Definition suffix_index (f : sfmt) (rest : str) : option N :=
  find (fun i => str_eqb rest (spec_suffix f i)) [0; 1; 2; 3; 4; 5].

(** The value printed, as a rational (numerator, denominator). *)
Definition printed_value (f : sfmt) (out : str) : option (N * N) :=
  let '(num, orest) := split_at ch_space out in
  match orest with
  | None => None
  | Some rest =>
      match suffix_index f rest with
      | None => None
      | Some i =>
          let st := nth (N.to_nat i) (spec_starts (sfmt_binary f)) 1 in
          let '(ip, ofp) := split_at ch_dot num in
          let fp := match ofp with Some fp => fp | None => [] end in
          if forallb is_digit ip && forallb is_digit fp
          then Some ((val ip * 10 ^ len fp + val fp) * st, 10 ^ len fp)
          else None
      end
  end.

(** "Up to double-precision rounding": [out] is the exact specification's
    string for SOME rational within relative 2^-50 of [a/b].  The candidates
    are the two ends of the interval and the printed value itself (the least
    rational that prints as [out]); since the specification is a monotone step
    function of the value, one of them is a witness whenever one exists. *)
Definition tol : N := 2 ^ 50.

Definition scaled_sb_approx (f : sfmt) (sig a b : N) (out : str) : bool :=
  scaled_sb f sig a b out ||
  scaled_sb f sig (a * (tol - 1)) (b * tol) out ||
  scaled_sb f sig (a * (tol + 1)) (b * tol) out ||
  match printed_value f out with
  | Some (x, y) =>
      (* a(tol-1)/(b tol) <= x/y <= a(tol+1)/(b tol) *)
      (a * (tol - 1) * y <=? x * (b * tol)) && (x * (b * tol) <=? a * (tol + 1) * y) &&
      scaled_sb f sig x y out
  | None => false
  end.

(** Zero count prints 0, zero duration with a non-zero count prints inf,
    otherwise the scaled rule for [count * 10^12 / picos]. *)
Definition throughput_sb (kind count picos : N) (binary : bool) (out : res str) : bool :=
  match out, thr_format kind binary with
  | Ok s, Ok f =>
      if count =? 0 then str_eqb s ([ch_0; ch_space] ++ spec_suffix f 0)
      else if picos =? 0 then str_eqb s ([105; 110; 102; ch_space] ++ spec_suffix f 0)
      else scaled_sb_approx f 4 (count * 1000000000000) picos s
  | _, _ => false
  end.

Definition bytes_sb (binary : bool) (sig a b : N) (out : res str) : bool :=
  match out with
  | Ok s => scaled_sb_approx (SBytes binary) sig a b s
  | Panic _ => false
  end.

(** [format_f64] alone: the numeral rule without unit. *)
Definition f64_sb_approx (sig a b : N) (out : res str) : bool :=
  match out with
  | Ok s =>
      numeral_sb s a b sig ||
      numeral_sb s (a * (tol - 1)) (b * tol) sig ||
      numeral_sb s (a * (tol + 1)) (b * tol) sig ||
      (let '(ip, ofp) := split_at ch_dot s in
       let fp := match ofp with Some fp => fp | None => [] end in
       forallb is_digit ip && forallb is_digit fp &&
       let x := val ip * 10 ^ len fp + val fp in
       let y := 10 ^ len fp in
       (a * (tol - 1) * y <=? x * (b * tol)) && (x * (b * tol) <=? a * (tol + 1) * y) &&
       numeral_sb s x y sig)
  | Panic _ => false
  end.

(** * Explicit precision / width ([format!("{t:<w$.p$}")] of a
    [DisplayThroughput]): the precision is read once, as the number of
    significant figures; the width pads with the fill character on the right
    ([str.len()] is the byte length); nothing is ever cut. *)
Definition thr_sig (prec : option N) : N := match prec with Some s => s | None => 4 end.

Definition display_throughput_with (kind count picos : N) (binary : bool)
    (prec width : option N) : res str :=
  do f <- thr_format kind binary;
  do s <- fmt_scaled f (thr_sig prec) (thr_value count picos);
  Ok (fill_to width s).

(** [<number> ' ' <suffix>] without the padding: up to the second space. *)
Definition body_of (out : str) : str :=
  let '(num, orest) := split_at ch_space out in
  match orest with
  | None => num
  | Some rest => let '(suf, _) := split_at ch_space rest in num ++ [ch_space] ++ suf
  end.

Definition throughput_sig_sb (sig kind count picos : N) (binary : bool) (s : str) : bool :=
  match thr_format kind binary with
  | Ok f =>
      if count =? 0 then str_eqb s ([ch_0; ch_space] ++ spec_suffix f 0)
      else if picos =? 0 then str_eqb s ([105; 110; 102; ch_space] ++ spec_suffix f 0)
      else scaled_sb_approx f sig (count * 1000000000000) picos s
  | Panic _ => false
  end.

(** The output is the rule's string for [thr_sig prec] significant figures
    (up to double-precision rounding), followed by exactly the spaces needed
    to reach the width — in particular it is never shortened. *)
Definition throughput_with_sb (kind count picos : N) (binary : bool) (prec width : option N)
    (out : res str) : bool :=
  match out with
  | Ok s =>
      let body := body_of s in
      str_eqb s (fill_to width body) &&
      throughput_sig_sb (thr_sig prec) kind count picos binary body
  | Panic _ => false
  end.
