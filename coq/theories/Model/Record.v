(** Model of the recording step that follows a round of samples:
    [src/benchmark/mod.rs] [bench_loop_threaded], the loop
    [for raw_sample in raw_samples] (one raw sample per thread, in thread
    order: index 0 is the caller, k is pool thread divan-k), and
    [src/stats/sample.rs] [SampleCollection] ([time_samples],
    [alloc_info_by_sample : HashMap<u32, ThreadAllocInfo>], [clear]).
    A tuning round first calls [self.samples.clear()] and then records its own
    samples; a collecting round only records.
    Executable definitions only; proofs are in Proofs/Record.v. *)

From DivanV Require Import Base.Res Model.Tally.
Local Open Scope N_scope.

(** [ThreadAllocTallyMap::is_empty]: all four rows have count 0 and size 0. *)
Definition tally_is_zero (t : tally) : bool := (t_count t =? 0) && (t_size t =? 0).

Definition tallies_empty (i : info) : bool :=
  tally_is_zero (i_grow i) && tally_is_zero (i_shrink i) &&
  tally_is_zero (i_alloc i) && tally_is_zero (i_dealloc i).

(** [SampleCollection]: only the length of [time_samples] matters here; the
    hash map is an association list without duplicate keys. *)
Record samples := mkS { s_len : N; s_map : list (N * info) }.

Definition samples_empty : samples := mkS 0 [].

Fixpoint map_get (k : N) (m : list (N * info)) : option info :=
  match m with
  | [] => None
  | (k', v) :: rest => if k' =? k then Some v else map_get k rest
  end.

(** [HashMap::insert]: replaces the binding of an existing key. *)
Definition map_insert (k : N) (v : info) (m : list (N * info)) : list (N * info) :=
  (k, v) :: filter (fun kv => negb (fst kv =? k)) m.

(** [x as u32] for a usize [x]. *)
Definition as_u32 (x : N) : N := x mod 4294967296.

(** One iteration of [for raw_sample in raw_samples]:
    [let sample_index = self.samples.time_samples.len();] push the time sample;
    [if !raw_sample.alloc_info.tallies.is_empty() { insert(sample_index as u32, ..) }]. *)
Definition record_sample (s : samples) (snap : info) : samples :=
  let sample_index := s_len s in
  let len' := s_len s + 1 in
  if negb (tallies_empty snap)
  then mkS len' (map_insert (as_u32 sample_index) snap (s_map s))
  else mkS len' (s_map s).

(** A round: the per-thread snapshots in thread order. *)
Definition record_round (s : samples) (snaps : list info) : samples :=
  fold_left record_sample snaps s.

(** [SampleCollection::clear]: both containers are emptied. *)
Definition samples_clear (s : samples) : samples := samples_empty.

Inductive rop :=
| RRound (snaps : list info)     (* collecting round, or the recording half of a tuning round *)
| RClear.                        (* [self.samples.clear()] of a tuning round *)

Definition rec_step (s : samples) (o : rop) : samples :=
  match o with
  | RRound snaps => record_round s snaps
  | RClear => samples_clear s
  end.

Definition rec_run (ops : list rop) : samples := fold_left rec_step ops samples_empty.

(** * Specification *)

(** The rounds recorded since the last clear. *)
Fixpoint kept_from (ops : list rop) (acc : list (list info)) : list (list info) :=
  match ops with
  | [] => acc
  | RRound snaps :: rest => kept_from rest (acc ++ [snaps])
  | RClear :: rest => kept_from rest []
  end.

Definition kept_rounds (ops : list rop) : list (list info) := kept_from ops [].

(** Sample index of thread [t]'s sample of kept round [i]. *)
Definition flat_index (rounds : list (list info)) (i t : nat) : nat :=
  (length (concat (firstn i rounds)) + t)%nat.

(** Snapshots ever handed to the recording step (the guard: fewer than 2^32,
    so that [as u32] does not wrap). *)
Fixpoint total_snaps (ops : list rop) : N :=
  match ops with
  | [] => 0
  | RRound snaps :: rest => N.of_nat (length snaps) + total_snaps rest
  | RClear :: rest => total_snaps rest
  end.

Definition record_guard (ops : list rop) : bool := total_snaps ops <=? 4294967296.

Definition info_eqb (a b : info) : bool :=
  tally_eqb (i_grow a) (t_count (i_grow b)) (t_size (i_grow b)) &&
  tally_eqb (i_shrink a) (t_count (i_shrink b)) (t_size (i_shrink b)) &&
  tally_eqb (i_alloc a) (t_count (i_alloc b)) (t_size (i_alloc b)) &&
  tally_eqb (i_dealloc a) (t_count (i_dealloc b)) (t_size (i_dealloc b)) &&
  (i_cur_count a =? i_cur_count b)%Z && (i_max_count a =? i_max_count b)%Z &&
  (i_cur_size a =? i_cur_size b)%Z && (i_max_size a =? i_max_size b)%Z.

Definition opt_info_eqb (a b : option info) : bool :=
  match a, b with
  | Some x, Some y => info_eqb x y
  | None, None => true
  | _, _ => false
  end.

(** What sample [j] must be associated with. *)
Definition expected_record (kept : list info) (j : nat) : option info :=
  match nth_error kept j with
  | Some snap => if tallies_empty snap then None else Some snap
  | None => None
  end.

Fixpoint keys_distinct (m : list (N * info)) : bool :=
  match m with
  | [] => true
  | (k, _) :: rest => negb (existsb (fun kv => fst kv =? k) rest) && keys_distinct rest
  end.

(** [Sb] on a dump ([len] = number of time samples, [recs] = the map's
    entries): clause 1 the number of samples, 2 every sample has exactly its
    own thread's snapshot iff that is non-empty, 3 no entry beyond the samples,
    4 keys are distinct. *)
Definition record_sb_clauses (ops : list rop) (len : N) (recs : list (N * info)) : list (bool * N) :=
  let kept := concat (kept_rounds ops) in
  [ (len =? N.of_nat (length kept), 1);
    (forallb (fun j => opt_info_eqb (map_get (N.of_nat j) recs) (expected_record kept j)) (seq 0 (length kept)), 2);
    (forallb (fun kv => fst kv <? N.of_nat (length kept)) recs, 3);
    (keys_distinct recs, 4) ].

Definition record_sb (ops : list rop) (len : N) (recs : list (N * info)) : bool :=
  if record_guard ops then forallb fst (record_sb_clauses ops len recs) else true.

Definition record_sb_why (ops : list rop) (len : N) (recs : list (N * info)) : list N :=
  if record_guard ops then failing_clauses (record_sb_clauses ops len recs) else [].
