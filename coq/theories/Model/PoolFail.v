(** Extension of the pool model (Model/Pool.v) by the FAILED THREAD CREATION
    path of [broadcast_task] / [spawn] (pool.rs 98-114, 225-289), kept apart so
    that the existing development is not disturbed.

    Shape of the code.  Under the [threads] lock, [spawn] creates the missing
    threads one by one; each closure iteration creates the channel, builds the
    worker, calls [Builder::spawn(work).expect("failed to spawn thread")] and
    only then yields the sender, which [Vec::extend] pushes.  If the creation of
    some thread is refused, the [expect] panics: the senders of the threads
    created so far are already in the list, the sender and receiver of the
    refused one are dropped, the mutex guard is dropped during unwinding (the
    mutex is poisoned), the stack-pinned task block dies without ever having
    been sent, and the panic leaves [broadcast] before index 0 runs.  The next
    [lock()] recovers the data with [unwrap_or_else(PoisonError::into_inner)].

    Model.  The state is the state of Model/Pool.v plus the list [chans] of
    channel ends held in [threads] (true = its worker exists) and the poison
    flag.  [XAbort n j] is the aborted broadcast: [j] threads were created
    before the refused one.  Like [EBegin], it is one atomic step (everything
    happens under the lock, before anything is published).  It consumes the
    script entry but is NOT counted as a broadcast ([cur] is unchanged): no task
    block was ever visible to anyone.

    [fcfg] carries the two shapes that the seeded changes C06-m / C06-n alter;
    [code_fcfg] is the shape of the code.  It is written by hand (the tie to
    the code for this path is the harness's fault injection [failspawn=k] with
    the sequence-level replay/monitor of ocaml/pool.ml), not generated. *)

From DivanV Require Import Base.Res Generated.Consts Model.Pool.
From Coq Require Import Arith.

Module PoolF.
Import PoolM.

Record fcfg := {
  f_recover : bool;     (* [lock().unwrap_or_else(PoisonError::into_inner)] (true) / [lock().unwrap()] (false) *)
  f_push_after : bool   (* the sender enters [threads] after the successful spawn (true) / before it (false) *)
}.

Definition code_fcfg : fcfg := {| f_recover := true; f_push_after := true |}.

Record xstate := {
  base : state;
  chans : list bool;    (* [threads]: one entry per channel end; true = the thread owning the receiver exists *)
  poisoned : bool
}.

Definition xinit (scr : list nat) : xstate := {| base := init scr; chans := []; poisoned := false |}.

Inductive xlabel :=
| XStep (l : label)            (* a step of Model/Pool.v *)
| XAbort (n j : nat).          (* broadcast with n aux threads aborted: j threads created, the next creation refused *)

(** The caller gets the [threads] list. *)
Definition lock_ok (fc : fcfg) (x : xstate) : bool := negb (poisoned x) || f_recover fc.

(** Every entry of [threads] has a live worker, one per worker: sends to
    [threads[..n]] reach workers [1..n] and [threads.len()] is the worker count. *)
Definition all_live (x : xstate) : bool :=
  forallb (fun b => b) (chans x) && Nat.eqb (length (chans x)) (length (ws (base x))).

(** The aborted broadcast: [j] new idle workers (with empty views), the script
    entry consumed, nothing else touched. *)
Definition st_abort (s : state) (j : nat) (rest : list nat) : state :=
  {| script := rest; cst := CIdle;
     ws := ws s ++ repeat WIdle j;
     rc := rc s; alive := alive s; cur := cur s; token := token s;
     calls := calls s; panics := panics s; slots := slots s; bad := bad s;
     cview := cview s; lview := lview s; wviews := wviews s ++ repeat [] j;
     returned := returned s |}.

Definition xstep (c : cfg) (fc : fcfg) (x : xstate) (xl : xlabel) : option xstate :=
  match xl with
  | XStep (EBegin n) =>
      if Nat.eqb n 0 then
        (* [if aux_threads > 0]: the lock is not taken *)
        match step c (base x) (EBegin n) with
        | Some s' => Some {| base := s'; chans := chans x; poisoned := poisoned x |}
        | None => None
        end
      else if lock_ok fc x && all_live x then
        match step c (base x) (EBegin n) with
        | Some s' => Some {| base := s'; chans := chans x ++ repeat true (n - length (chans x)); poisoned := poisoned x |}
        | None => None
        end
      else None   (* the caller panics at the lock, or a send hits a dead channel: not a step of this model *)
  | XStep l =>
      match step c (base x) l with
      | Some s' => Some {| base := s'; chans := chans x; poisoned := poisoned x |}
      | None => None
      end
  | XAbort n j =>
      match cst (base x), script (base x) with
      | CIdle, m :: rest =>
          if Nat.eqb n m && Nat.ltb (length (ws (base x)) + j) n && lock_ok fc x && all_live x then
            Some {| base := st_abort (base x) j rest;
                    chans := chans x ++ repeat true j ++ (if f_push_after fc then [] else [false]);
                    poisoned := true |}
          else None
      | _, _ => None
      end
  end.

Fixpoint xrun (c : cfg) (fc : fcfg) (x : xstate) (ls : list xlabel) : option xstate :=
  match ls with
  | [] => Some x
  | l :: rest => match xstep c fc x l with Some x' => xrun c fc x' rest | None => None end
  end.

Definition xfinal (x : xstate) : bool := final (base x).

(** Lexicographic termination measure: unchanged (the abort consumes a script entry). *)
Definition xouter (x : xstate) : nat := outer_measure (base x).
Definition xinner (x : xstate) : nat := inner_measure (base x).

End PoolF.
