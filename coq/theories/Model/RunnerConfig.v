(** Model of the glue between the command line / environment / builder calls
    and the non-option fields of [Divan] ([src/divan.rs]: [config_with_args],
    [color], [run_ignored], [run_only_ignored], [bytes_format], [skip_regex],
    [skip_exact]; [src/cli.rs]: the clap definitions): [action], [timer],
    [sorting_attr] + [reverse_sort], [color], [bytes_format], [run_ignored] and
    the filter set.  clap's own behaviour (conflicts, overrides, requires, flag
    over environment) is written down as observed on the real binary and is
    exercised by the fresh-process stream; the part that is divan's code is the
    body of [config_with_args].  Executable definitions only; proofs are in
    Proofs/RunnerConfig.v. *)

From DivanV Require Import Base.Res Model.SplitVec Model.Filter Model.Options.

Inductive action : Type := ABench | ATest | AList | AListTerse.
Inductive timer_kind : Type := TOs | TTsc.
Inductive sorting : Type := SKind | SName | SLocation.
Inductive color_choice : Type := CAuto | CAlways | CNever.

(** The scalar settings of a [Divan]. [cfg_bytes_binary]: [BytesFormat::Binary]. *)
Record config : Type := {
  cfg_action : action;
  cfg_timer : timer_kind;
  cfg_sort : sorting;
  cfg_reverse : bool;
  cfg_color : color_choice;
  cfg_bytes_binary : bool;
  cfg_ignored : run_ignored
}.

(** [Divan::default()] *)
Definition config_default : config :=
  {| cfg_action := ABench; cfg_timer := TOs; cfg_sort := SKind; cfg_reverse := false;
     cfg_color := CAuto; cfg_bytes_binary := false; cfg_ignored := RunNo |}.

(** Builder methods that touch these fields. *)
Inductive builder_call : Type :=
| BColor (c : color_choice)        (* [color(None | Some(true) | Some(false))] *)
| BBytesFormat (binary : bool)     (* [bytes_format(..)] *)
| BRunIgnored                      (* [run_ignored()] *)
| BRunOnlyIgnored.                 (* [run_only_ignored()] *)

Definition apply_call (c : config) (b : builder_call) : config :=
  match b with
  | BColor x =>
      {| cfg_action := cfg_action c; cfg_timer := cfg_timer c; cfg_sort := cfg_sort c; cfg_reverse := cfg_reverse c;
         cfg_color := x; cfg_bytes_binary := cfg_bytes_binary c; cfg_ignored := cfg_ignored c |}
  | BBytesFormat x =>
      {| cfg_action := cfg_action c; cfg_timer := cfg_timer c; cfg_sort := cfg_sort c; cfg_reverse := cfg_reverse c;
         cfg_color := cfg_color c; cfg_bytes_binary := x; cfg_ignored := cfg_ignored c |}
  | BRunIgnored =>
      {| cfg_action := cfg_action c; cfg_timer := cfg_timer c; cfg_sort := cfg_sort c; cfg_reverse := cfg_reverse c;
         cfg_color := cfg_color c; cfg_bytes_binary := cfg_bytes_binary c; cfg_ignored := RunYes |}
  | BRunOnlyIgnored =>
      {| cfg_action := cfg_action c; cfg_timer := cfg_timer c; cfg_sort := cfg_sort c; cfg_reverse := cfg_reverse c;
         cfg_color := cfg_color c; cfg_bytes_binary := cfg_bytes_binary c; cfg_ignored := RunOnly |}
  end.

Definition apply_calls (c : config) (calls : list builder_call) : config := fold_left apply_call calls c.

(** The command line and the environment, as far as these fields go.  Flags
    appear at most once each (clap refuses a repeated one); [a_sortr_last]
    says which of [--sort] / [--sortr] came later when both are given. *)
Record cli : Type := {
  a_bench : bool; a_test : bool; a_list : bool;
  a_format_terse : option bool;     (* [--format V]: [Some true] iff V = "terse" *)
  a_nextest : bool;                 (* NEXTEST=1: only then does [--format] exist *)
  a_sort : option sorting; a_sortr : option sorting; a_sortr_last : bool;
  e_sort : option sorting; e_sortr : option sorting;      (* DIVAN_SORT, DIVAN_SORTR *)
  a_timer : option timer_kind; e_timer : option timer_kind;       (* --timer, DIVAN_TIMER *)
  a_color : option color_choice;                                  (* --color (no variable) *)
  a_bytes_binary : option bool; e_bytes_binary : option bool;     (* --bytes-format, DIVAN_BYTES_FORMAT *)
  a_ignored : bool; a_include_ignored : bool
}.

(** [--sortr] is declared [overrides_with("sort")]: on the command line the
    later of the two removes the earlier; a DIVAN_* value fills an option that
    is (then) absent. *)
Definition cli_sort (a : cli) : option sorting :=
  match a_sort a, a_sortr a with
  | Some s, Some _ => if a_sortr_last a then None else Some s
  | s, _ => s
  end.
Definition cli_sortr (a : cli) : option sorting :=
  match a_sort a, a_sortr a with
  | Some _, Some r => if a_sortr_last a then Some r else None
  | _, r => r
  end.
Definition val_sort (a : cli) : option sorting := opt_or (cli_sort a) (e_sort a).
Definition val_sortr (a : cli) : option sorting := opt_or (cli_sortr a) (e_sortr a).

(** What clap refuses (the process exits with status 2). *)
Definition clap_accepts (a : cli) : bool :=
  (* --test conflicts with --list *)
  negb (a_test a && a_list a)
  (* --format exists only under NEXTEST=1, takes only "terse", requires --list (not enforced beside --test) *)
  && match a_format_terse a with
     | None => true
     | Some terse => a_nextest a && terse && (a_list a || a_test a)
     end
  (* --ignored conflicts with --include-ignored *)
  && negb (a_ignored a && a_include_ignored a)
  (* sort and sortr both holding a value (from whatever source) conflict *)
  && negb (match val_sort a, val_sortr a with Some _, Some _ => true | _, _ => false end).

(** The body of [config_with_args] for these fields, given the matches. *)
Definition config_from_matches (c : config) (a : cli) : config :=
  {| cfg_action :=
       if a_list a then
         (if match a_format_terse a with Some true => true | _ => false end then AListTerse else AList)
       else if a_test a || negb (a_bench a) then ATest
       else ABench;
     cfg_timer := match opt_or (a_timer a) (e_timer a) with Some t => t | None => cfg_timer c end;
     cfg_sort := match val_sortr a with
                 | Some s => s
                 | None => match val_sort a with Some s => s | None => cfg_sort c end
                 end;
     cfg_reverse := match val_sortr a with
                    | Some _ => true
                    | None => match val_sort a with Some _ => false | None => cfg_reverse c end
                    end;
     cfg_color := match a_color a with Some x => x | None => cfg_color c end;
     cfg_bytes_binary := match opt_or (a_bytes_binary a) (e_bytes_binary a) with Some b => b | None => cfg_bytes_binary c end;
     cfg_ignored := if a_ignored a then RunOnly
                    else if a_include_ignored a then RunYes
                    else cfg_ignored c |}.

Definition config_with_args (c : config) (a : cli) : option config :=
  if clap_accepts a then Some (config_from_matches c a) else None.

(** Builder calls, then [config_with_args], then builder calls. [None]: the
    process exits while parsing. *)
Definition runner_config_resolve (before : list builder_call) (a : cli) (after : list builder_call) : option config :=
  match config_with_args (apply_calls config_default before) a with
  | Some c => Some (apply_calls c after)
  | None => None
  end.

(** * Specification: the last call that sets a field, per field. *)
Definition call_color (b : builder_call) : option color_choice := match b with BColor c => Some c | _ => None end.
Definition call_bytes (b : builder_call) : option bool := match b with BBytesFormat x => Some x | _ => None end.
Definition call_ignored (b : builder_call) : option run_ignored :=
  match b with BRunIgnored => Some RunYes | BRunOnlyIgnored => Some RunOnly | _ => None end.

(** Last [Some] of a list of settings (later calls win). *)
Definition last_set {A : Type} (f : builder_call -> option A) (calls : list builder_call) : option A :=
  first_some (rev (map f calls)).

Definition args_ignored (a : cli) : option run_ignored :=
  if a_ignored a then Some RunOnly else if a_include_ignored a then Some RunYes else None.

Definition spec_action (a : cli) : action :=
  if a_list a then (match a_format_terse a with Some true => AListTerse | _ => AList end)
  else if a_test a || negb (a_bench a) then ATest else ABench.

Definition pick {A : Type} (l : list (option A)) (default : A) : A :=
  match first_some l with Some x => x | None => default end.

(** The whole resolution, said with precedence lists only. *)
Definition config_spec (before : list builder_call) (a : cli) (after : list builder_call) : option config :=
  if clap_accepts a then
    Some {| cfg_action := spec_action a;
            cfg_timer := pick [a_timer a; e_timer a] TOs;
            cfg_sort := pick [val_sortr a; val_sort a] SKind;
            cfg_reverse := match val_sortr a, val_sort a with Some _, _ => true | None, _ => false end;
            cfg_color := pick [last_set call_color after; a_color a; last_set call_color before] CAuto;
            cfg_bytes_binary :=
              pick [last_set call_bytes after; a_bytes_binary a; e_bytes_binary a; last_set call_bytes before] false;
            cfg_ignored := pick [last_set call_ignored after; args_ignored a; last_set call_ignored before] RunNo |}
  else None.

(** * The filter set: builder skips made before parsing, then the positional
    filters (inclusive), then [--skip] (exclusive), then builder skips made
    afterwards; [--exact] governs the command-line ones only. *)
Definition runner_filter_ops (skips_before : list pfilter) (is_exact : bool) (positional skip : list str)
  (skips_after : list pfilter) : list (pfilter * bool) :=
  map (fun f => (f, false)) skips_before ++ cli_ops is_exact positional skip ++ map (fun f => (f, false)) skips_after.

Definition runner_filter_is_match (matches : str -> str -> bool)
  (skips_before : list pfilter) (is_exact : bool) (positional skip : list str) (skips_after : list pfilter)
  (path : str) : res bool :=
  fs_query matches (runner_filter_ops skips_before is_exact positional skip skips_after) path.

(** Selected iff no builder skip matches, no [--skip] matches, and there is no
    positional filter or one of them matches. *)
Definition runner_filter_spec (matches : str -> str -> bool)
  (skips_before : list pfilter) (is_exact : bool) (positional skip : list str) (skips_after : list pfilter) (p : str) : bool :=
  negb (existsb (fun f => filter_is_match matches f p) skips_before
        || existsb (fun s => filter_is_match matches (mk_filter is_exact s) p) skip
        || existsb (fun f => filter_is_match matches f p) skips_after)
  && (match positional with [] => true | _ => false end
      || existsb (fun s => filter_is_match matches (mk_filter is_exact s) p) positional).
