(** Model of [src/tree_painter.rs] (TreePainter and the row writer
    [TreeColumnData::write]).  Executable definitions only; proofs are in
    Proofs/Painter*.v.

    Strings are lists of Unicode scalar values ([str := list N]); the code
    measures every width with [chars().count()], i.e. the length of that list.
    Text written to stdout is returned as one [str] with explicit newlines.
    Statistics cells are opaque strings supplied by the caller (their values are
    the subject of C05/C18; C20 is about where they are put). *)

From DivanV Require Import Base.Res.

Definition str := list N.

Local Open Scope N_scope.
Definition sp : N := 32.        (* ' ' *)
Definition nl : N := 10.        (* '\n' *)
Definition c_bar : N := 9474.     (* U+2502 │ *)
Definition c_branch : N := 9500.  (* U+251C ├ *)
Definition c_corner : N := 9584.  (* U+2570 ╰ *)
Definition c_dash : N := 9472.    (* U+2500 ─ *)

Definition g_branch : str := [c_branch; c_dash; sp].   (* "├─ " *)
Definition g_corner : str := [c_corner; c_dash; sp].   (* "╰─ " *)
Definition u_bar : str := [c_bar; sp; sp].             (* "│  " *)
Definition u_blank : str := [sp; sp; sp].              (* "   " *)

Definition spaces (n : nat) : str := repeat sp n.

(** [const TREE_COL_BUF: usize = 2]. *)
Definition tree_col_buf : nat := 2%nat.

(** Column headings, [TreeColumn::name] in [TreeColumn::ALL] order. *)
Definition s_fastest : str := [102; 97; 115; 116; 101; 115; 116].
Definition s_slowest : str := [115; 108; 111; 119; 101; 115; 116].
Definition s_median : str := [109; 101; 100; 105; 97; 110].
Definition s_mean : str := [109; 101; 97; 110].
Definition s_samples : str := [115; 97; 109; 112; 108; 101; 115].
Definition s_iters : str := [105; 116; 101; 114; 115].
Definition headings : list str := [s_fastest; s_slowest; s_median; s_mean; s_samples; s_iters].
Definition s_ignored : str := [40; 105; 103; 110; 111; 114; 101; 100; 41].   (* "(ignored)" *)
Definition s_max_alloc : str := [109; 97; 120; 32; 97; 108; 108; 111; 99; 58]. (* "max alloc:" *)

Local Close Scope N_scope.

(** [TreeColumnData::from_first(v)]: [v] in the first column, [""] elsewhere. *)
Definition from_first (v : str) : list str := [v; []; []; []; []; []].
Definition six_empty : list str := [[]; []; []; []; []; []].

Record painter := mkPainter {
  max_name_span : nat;
  widths : list nat;        (* [usize; TreeColumn::COUNT] *)
  depth : nat;
  prefix : str              (* current_prefix *)
}.

Definition painter_new (span : nat) (ws : list nat) : painter :=
  mkPainter span ws 0 [].

(** [has_columns]: not all widths zero. *)
Definition has_columns (p : painter) : bool :=
  negb (forallb (Nat.eqb 0) (widths p)).

(** [TreeColumnData<&str>::write]: the cells and the widths are arrays of the
    same length; the last column neither pads nor touches its width.  The
    branch for a too-short width list is the (statically impossible) index
    failure. *)
Fixpoint write_go (first : bool) (cells : list str) (ws : list nat) : res (str * list nat) :=
  match cells with
  | [] => Ok ([], ws)
  | v :: rest =>
    let is_last := match rest with [] => true | _ :: _ => false end in
    let vw := length v in
    let sep : str :=
      if first then []
      else if is_last && Nat.eqb vw 0 then [sp; c_bar]   (* " │" : no trailing space *)
      else [sp; c_bar; sp] in
    if is_last then Ok (sep ++ v, ws)
    else
      match ws with
      | [] => Panic OutOfBounds
      | w :: ws' =>
        (* checked_sub: pad the remaining width, or widen the column *)
        let pad := if Nat.leb vw w then spaces (w - vw) else [] in
        let w' := if Nat.leb vw w then w else vw in
        do r <- write_go false rest ws';
        Ok (sep ++ v ++ pad ++ fst r, w' :: snd r)
      end
  end.

Definition write_cols (cells : list str) (ws : list nat) : res (str * list nat) :=
  write_go true cells ws.

(** [right_pad_buffer] (also inlined in [start_parent]/[start_leaf]):
    returns the padding and the new maximum span. *)
Definition right_pad (buf_len : nat) (max_span : nat) : str * nat :=
  (spaces (tree_col_buf + (max_span - buf_len)),
   if Nat.ltb max_span buf_len then buf_len else max_span).

Definition branch_glyph (is_last : bool) : str :=
  if negb is_last then g_branch else g_corner.

(** [start_parent(name, is_last)] *)
Definition start_parent (p : painter) (name : str) (is_last : bool) : res (painter * str) :=
  let is_top := Nat.eqb (depth p) 0 in
  let hc := has_columns p in
  let branch := if is_top then [] else branch_glyph is_last in
  let buf := prefix p ++ branch ++ name in
  let '(pad, span) := if hc then right_pad (length buf) (max_name_span p)
                      else ([], max_name_span p) in
  let buf := buf ++ pad in
  do r <- (if hc then write_cols (if is_top then headings else six_empty) (widths p)
           else Ok ([], widths p));
  let out := buf ++ fst r ++ [nl] in
  let pre := if is_top then prefix p
             else prefix p ++ (if negb is_last then u_bar else u_blank) in
  Ok (mkPainter span (snd r) (S (depth p)) pre, out).

(** [finish_parent()]: [self.depth -= 1] is a checked subtraction. *)
Definition finish_parent (p : painter) : res (painter * str) :=
  match depth p with
  | O => Panic Overflow
  | S d =>
    let out := if Nat.eqb d 0 then [nl] else [] in
    (* drop the last three chars (all of them if there are fewer) *)
    let pre := firstn (length (prefix p) - 3) (prefix p) in
    Ok (mkPainter (max_name_span p) (widths p) d pre, out)
  end.

(** [ignore_leaf(name, is_last)] *)
Definition ignore_leaf (p : painter) (name : str) (is_last : bool) : res (painter * str) :=
  let hc := has_columns p in
  let buf := prefix p ++ branch_glyph is_last ++ name in
  let '(pad, span) := right_pad (length buf) (max_name_span p) in
  do r <- (if hc then write_cols (from_first s_ignored) (widths p)
           else Ok (s_ignored, widths p));
  Ok (mkPainter span (snd r) (depth p) (prefix p), buf ++ pad ++ fst r ++ [nl]).

(** [start_leaf(name, is_last)]: printed without a newline. *)
Definition start_leaf (p : painter) (name : str) (is_last : bool) : res (painter * str) :=
  let hc := has_columns p in
  let buf := prefix p ++ branch_glyph is_last ++ name in
  let '(pad, span) := if hc then right_pad (length buf) (max_name_span p)
                      else ([], max_name_span p) in
  Ok (mkPainter span (widths p) (depth p) (prefix p), buf ++ pad).

(** [finish_empty_leaf()] *)
Definition finish_empty_leaf (p : painter) : res (painter * str) := Ok (p, [nl]).

(** What [finish_leaf] serialises from a [Stats] before writing, cell texts
    opaque.  All rows have [TreeColumn::COUNT] cells.
    - [time_row]: fastest, slowest, median, mean, samples, iters;
    - [counter_rows]: one per [KnownCounterKind::ALL] (bytes, chars, cycles,
      items), all cells empty when the counter is absent;
    - [max_alloc]: the count row and the size row (both present iff
      [max_alloc.size] is non-zero);
    - [tallies]: for each non-zero [AllocOp] in the order alloc, dealloc, grow,
      shrink: [op.prefix()], the count row, the size row. *)
Record stats_cells := mkCells {
  time_row : list str;
  counter_rows : list (list str);
  max_alloc : option (list str * list str);
  tallies : list (str * list str * list str)
}.

Definition all_empty (row : list str) : bool :=
  forallb (fun s => match s with [] => true | _ => false end) row.

(** The rows that take part in "set column widths based on serialized strings". *)
Definition width_rows (c : stats_cells) : list (list str) :=
  counter_rows c
  ++ match max_alloc c with Some (a, b) => [a; b] | None => [] end
  ++ flat_map (fun t => [snd (fst t); snd t]) (tallies c).

(** For each of the first [k] columns (the time statistics) the width becomes
    the maximum of itself and that column's cell in every row. *)
Fixpoint widen (k : nat) (rows : list (list str)) (ws : list nat) : list nat :=
  match k, ws with
  | S k', w :: ws' =>
    fold_left Nat.max (map (fun r => length (hd [] r)) rows) w
    :: widen k' (map (@tl str) rows) ws'
  | _, _ => ws
  end.

(** The continuation rows after the time row, in printing order, as cell rows. *)
Definition cont_rows (c : stats_cells) : list (list str) :=
  filter (fun r => negb (all_empty r)) (counter_rows c)
  ++ match max_alloc c with
     | Some (a, b) => [from_first s_max_alloc; a; b]
     | None => []
     end
  ++ flat_map (fun t => [from_first (fst (fst t)); snd (fst t); snd t]) (tallies c).

(** [prep_buffer] followed by [write] and [println!] for each row. *)
Fixpoint write_rows (pre : str) (is_last : bool) (rows : list (list str))
         (span : nat) (ws : list nat) : res (str * nat * list nat) :=
  match rows with
  | [] => Ok ([], span, ws)
  | row :: rest =>
    let buf := pre ++ (if negb is_last then [c_bar] else []) in
    let '(pad, span') := right_pad (length buf) span in
    do r <- write_cols row ws;
    do r2 <- write_rows pre is_last rest span' (snd r);
    Ok (buf ++ pad ++ fst r ++ [nl] ++ fst (fst r2), snd (fst r2), snd r2)
  end.

(** [finish_leaf(is_last, stats, bytes_format)] *)
Definition finish_leaf (p : painter) (is_last : bool) (c : stats_cells) : res (painter * str) :=
  let ws := widen 4 (width_rows c) (widths p) in
  do r <- write_cols (time_row c) ws;
  do r2 <- write_rows (prefix p) is_last (cont_rows c) (max_name_span p) (snd r);
  Ok (mkPainter (snd (fst r2)) (snd r2) (depth p) (prefix p),
      fst r ++ [nl] ++ fst (fst r2)).

(** Painter operations as data, so that the driver model can emit them.
    [Invoke] marks a call of the benchmark function (no painting). *)
Inductive op :=
| StartParent (name : str) (is_last : bool)
| FinishParent
| StartLeaf (name : str) (is_last : bool)
| FinishEmptyLeaf
| FinishLeaf (is_last : bool) (c : stats_cells)
| IgnoreLeaf (name : str) (is_last : bool)
| Invoke (id : N) (arg : option nat) (threads : N).

Definition step (p : painter) (o : op) : res (painter * str) :=
  match o with
  | StartParent n l => start_parent p n l
  | FinishParent => finish_parent p
  | StartLeaf n l => start_leaf p n l
  | FinishEmptyLeaf => finish_empty_leaf p
  | FinishLeaf l c => finish_leaf p l c
  | IgnoreLeaf n l => ignore_leaf p n l
  | Invoke _ _ _ => Ok (p, [])
  end.

Fixpoint exec (p : painter) (ops : list op) : res (painter * str) :=
  match ops with
  | [] => Ok (p, [])
  | o :: rest =>
    do r <- step p o;
    do r2 <- exec (fst r) rest;
    Ok (fst r2, snd r ++ snd r2)
  end.
