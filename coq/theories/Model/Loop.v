(** Model of [BenchContext::bench_loop_threaded] (src/benchmark/mod.rs), with
    [BenchOptions::{has_samples,min_time,max_time}] (src/benchmark/options.rs),
    [BenchMode] and [initial_mode] (src/benchmark/mod.rs),
    [FineDuration::clamp_to], [TimedOverhead::total_overhead] (src/time/timer.rs),
    [RawSample::duration], [SampleCollection::{clear,iter_count}] (src/stats/sample.rs).

    One *round* of the loop takes one raw sample on each of the T threads
    through the pool.  What the threads did is the model's input: a round is
    the list (index 0 = the caller, index k = pool thread k) of the raw samples
    [(start, end, alloc_info, counter_total)] the threads returned, and a
    history is the initial timestamp plus the list of rounds.  The model is
    driven by such a history (on the implementation side it is recorded from
    the virtual clock's event log), decides after each round whether the loop
    goes on, and keeps the loop's state exactly as the code does.

    Executable definitions only (model, then the boolean specifications of
    C03 / C04 / C19); proofs are in Proofs/Loop*.v. *)

From DivanV Require Import Base.Res Generated.Consts Model.Timestamp.
Local Open Scope N_scope.

(** * Data *)

Inductive bmode := MTest | MTune (k : N) | MCollect (k : N).

(** [ThreadAllocInfo.tallies]: (count, size) for grow, shrink, alloc, dealloc. *)
Record alloc_info := {
  ai_grow_c : N; ai_grow_s : N;
  ai_shrink_c : N; ai_shrink_s : N;
  ai_alloc_c : N; ai_alloc_s : N;
  ai_dealloc_c : N; ai_dealloc_s : N
}.

Definition ai_zero : alloc_info :=
  {| ai_grow_c := 0; ai_grow_s := 0; ai_shrink_c := 0; ai_shrink_s := 0;
     ai_alloc_c := 0; ai_alloc_s := 0; ai_dealloc_c := 0; ai_dealloc_s := 0 |}.

(** [ThreadAllocTallyMap::is_empty]. *)
Definition ai_is_empty (a : alloc_info) : bool :=
  (ai_grow_c a =? 0) && (ai_grow_s a =? 0) && (ai_shrink_c a =? 0) && (ai_shrink_s a =? 0) &&
  (ai_alloc_c a =? 0) && (ai_alloc_s a =? 0) && (ai_dealloc_c a =? 0) && (ai_dealloc_s a =? 0).

(** The four [KnownCounterKind]s, in [KnownCounterKind::ALL] order, and a value
    per kind. *)
Inductive ckind := KBytes | KChars | KCycles | KItems.
Definition all_kinds : list ckind := [KBytes; KChars; KCycles; KItems].

Record quad (A : Type) := { q_bytes : A; q_chars : A; q_cycles : A; q_items : A }.
Arguments q_bytes {A} _.
Arguments q_chars {A} _.
Arguments q_cycles {A} _.
Arguments q_items {A} _.

Definition qget {A} (k : ckind) (q : quad A) : A :=
  match k with KBytes => q_bytes q | KChars => q_chars q | KCycles => q_cycles q | KItems => q_items q end.

Definition qconst {A} (a : A) : quad A := {| q_bytes := a; q_chars := a; q_cycles := a; q_items := a |}.

Definition qmap3 {A B C D} (f : A -> B -> C -> D) (a : quad A) (b : quad B) (c : quad C) : quad D :=
  {| q_bytes := f (q_bytes a) (q_bytes b) (q_bytes c); q_chars := f (q_chars a) (q_chars b) (q_chars c);
     q_cycles := f (q_cycles a) (q_cycles b) (q_cycles c); q_items := f (q_items a) (q_items b) (q_items c) |}.

Definition qany (q : quad bool) : bool := q_bytes q || q_chars q || q_cycles q || q_items q.

(** [RawSample] of one thread: the two timestamps (counter ticks), the
    allocation tallies of the timed section and, per counter kind, the total
    of the per-input counter over the sample's inputs ([counter_totals]). *)
Record raw := { r_start : N; r_end : N; r_alloc : alloc_info; r_ctotal : quad N }.

Definition round_obs := list raw.

(** [TimedOverhead]. *)
Record overheads := { oh_loop : N; oh_alloc : N; oh_dealloc : N; oh_realloc : N }.

Record cfg := {
  c_test : bool;            (* shared_context.action.is_test() *)
  c_count : option N;       (* options.sample_count *)
  c_size : option N;        (* options.sample_size *)
  c_min : N;                (* options.min_time().picos *)
  c_max : N;                (* options.max_time().picos *)
  c_skip : bool;            (* options.skip_ext_time.unwrap_or_default() *)
  c_freq : N;               (* Timer::Tsc { frequency } *)
  c_prec : N;               (* timer.precision().picos *)
  c_oh : overheads;         (* timer.bench_overheads() *)
  c_input_counts : quad bool  (* counters.uses_input_counts(kind), per kind *)
}.

(** [SampleCollection] + the input-based counts of the [CounterCollection], per kind. *)
Record store := {
  st_samples : list N;                 (* time_samples[i].duration.picos *)
  st_allocs : list (N * alloc_info);   (* alloc_info_by_sample, in insertion order *)
  st_counts : quad (list N)            (* counters.counts(kind) of the input-based kinds *)
}.

Definition store_empty : store := {| st_samples := []; st_allocs := []; st_counts := qconst [] |}.

Record state := {
  s_mode : bmode;            (* current_mode *)
  s_rem : option N;          (* rem_samples *)
  s_elapsed : N;             (* elapsed_picos *)
  s_size : N;                (* self.samples.sample_size *)
  s_store : store;
  s_sizes : list N           (* ghost: the sample size of every round run so far *)
}.

(** * Small functions of the code *)

Definition opt_is (o : option N) (v : N) : bool :=
  match o with Some x => x =? v | None => false end.

(** [BenchOptions::has_samples]. *)
Definition has_samples (c : cfg) : bool :=
  negb (opt_is (c_count c) 0) && negb (opt_is (c_size c) 0).

(** [initial_mode]. *)
Definition initial_mode (c : cfg) : bmode :=
  if c_test c then MTest
  else match c_size c with Some s => MCollect s | None => MTune 1 end.

(** [BenchMode::sample_size]. *)
Definition mode_size (m : bmode) : N :=
  match m with MTest => 1 | MTune k => k | MCollect k => k end.

Definition is_tune (m : bmode) : bool := match m with MTune _ => true | _ => false end.
Definition is_collect (m : bmode) : bool := match m with MCollect _ => true | _ => false end.

(** [options.sample_count.unwrap_or(DEFAULT_SAMPLE_COUNT)]. *)
Definition count_or_default (c : cfg) : N :=
  match c_count c with Some n => n | None => default_sample_count end.

(** [timer_precision]: measured only when the sample size is tuned. *)
Definition prec_used (c : cfg) : N :=
  if is_tune (initial_mode c) then c_prec c else 0.

(** [FineDuration::clamp_to]. *)
Definition clamp_to (x p : N) : N := if x =? 0 then p else x.

(** [TimedOverhead::total_overhead] (u128, saturating). *)
Definition total_overhead (o : overheads) (size : N) (a : alloc_info) : N :=
  sat_add 128 (sat_add 128 (sat_add 128
    (sat_mul 128 (oh_loop o) size)
    (sat_mul 128 (oh_alloc o) (ai_alloc_c a)))
    (sat_mul 128 (oh_dealloc o) (ai_dealloc_c a)))
    (sat_mul 128 (oh_realloc o) (ai_grow_c a + ai_shrink_c a)).

(** [res]-valued map. *)
Fixpoint map_res {A B} (f : A -> res B) (l : list A) : res (list B) :=
  match l with
  | [] => Ok []
  | x :: r => do y <- f x; do ys <- map_res f r; Ok (y :: ys)
  end.

Definition nmax_list (l : list N) : N := fold_right N.max 0 l.

(** [RawSample::duration]: [TscTimestamp::duration_since] of Model/Timestamp.v. *)
Definition raw_duration (c : cfg) (r : raw) : res N :=
  tsc_duration (r_end r) (r_start r) (c_freq c).

(** [sample_duration_sub_overhead], given the raw duration. *)
Definition sample_duration (c : cfg) (size : N) (r : raw) (d : N) : N :=
  clamp_to (sat_sub (clamp_to d (prec_used c)) (total_overhead (c_oh c) size (r_alloc r))) (prec_used c).

(** [HashMap::insert]. *)
Definition map_insert (k : N) (v : alloc_info) (m : list (N * alloc_info)) : list (N * alloc_info) :=
  filter (fun p => negb (fst p =? k)) m ++ [(k, v)].

(** Body of [for raw_sample in raw_samples] without the counter on
    [rem_samples]: pushes the time sample, the allocation info (if any) and the
    per-input count of every kind that has an input-based counter.
    [sample_index as u32] truncates; [(total / size) as MaxCountUInt] is a u64 cast. *)
Definition record_one (c : cfg) (size : N) (s : store) (rd : raw * N) : store :=
  let (r, d) := rd in
  let idx := N.of_nat (length (st_samples s)) in
  {| st_samples := st_samples s ++ [sample_duration c size r d];
     st_allocs := if ai_is_empty (r_alloc r) then st_allocs s
                  else map_insert (idx mod 2 ^ 32) (r_alloc r) (st_allocs s);
     st_counts := qmap3 (fun (ic : bool) ct cs => if ic then cs ++ [(ct / size) mod 2 ^ 64] else cs)
                        (c_input_counts c) (r_ctotal r) (st_counts s) |}.

(** The whole [for] loop: also [rem_samples.saturating_sub(1)] per sample. *)
Definition record_step (c : cfg) (size : N) (acc : store * option N) (rd : raw * N) : store * option N :=
  (record_one c size (fst acc) rd, option_map (fun x => sat_sub x 1) (snd acc)).

(** * The loop *)

(** The [while] condition.  The two comparison operators come from the code
    through Generated/Consts.v. *)
Definition max_reached (c : cfg) (el : N) : bool :=
  if max_time_cmp_is_ge then c_max c <=? el else c_max c <? el.

Definition below_min (c : cfg) (el : N) : bool :=
  if min_time_cmp_is_lt then el <? c_min c else el <=? c_min c.

Definition loop_cond (c : cfg) (st : state) : bool :=
  if max_reached c (s_elapsed st) then false
  else if 0 <? (match s_rem st with Some r => r | None => 1 end) then true
  else below_min c (s_elapsed st).

Definition with_round (st : state) (size : N) : state :=
  {| s_mode := s_mode st; s_rem := s_rem st; s_elapsed := s_elapsed st;
     s_size := size; s_store := s_store st; s_sizes := s_sizes st ++ [size] |}.

(** The tuning branch: clear the collections, then double or settle. *)
Definition tune_branch (c : cfg) (st : state) (slow : N) : res state :=
  match s_mode st with
  | MTune k =>
      do mult <- checked_div slow (prec_used c);
      if mult <=? tune_threshold then
        do k2 <- checked_mul 32 k tune_factor;
        Ok {| s_mode := MTune k2; s_rem := s_rem st; s_elapsed := s_elapsed st;
              s_size := s_size st; s_store := store_empty; s_sizes := s_sizes st |}
      else
        Ok {| s_mode := MCollect k; s_rem := Some (count_or_default c); s_elapsed := s_elapsed st;
              s_size := s_size st; s_store := store_empty; s_sizes := s_sizes st |}
  | _ => Ok st
  end.

(** The loop body after the raw samples have come back ([init]: the
    [initial_start] reading).  Panic sites: [max_by_key(..).unwrap()] /
    [max().unwrap()] on no samples, the division by the precision, the u32
    doubling, the division of the per-input total by the sample size, and the
    conversions of Model/Timestamp.v. *)
Definition round_body (c : cfg) (init : N) (st : state) (size : N) (obs : round_obs) : res state :=
  do durs <- map_res (raw_duration c) obs;
  let slow := nmax_list durs in
  do st1 <- tune_branch c st slow;
  if qany (c_input_counts c) && (size =? 0) then Panic DivByZero
  else
    let '(sto, rem) := fold_left (record_step c size) (combine obs durs) (s_store st1, s_rem st1) in
    do el <- (if c_skip c then Ok (sat_add 128 (s_elapsed st1) (N.max slow min_progress_picos))
              else tsc_duration (nmax_list (map r_end obs)) init (c_freq c));
    Ok {| s_mode := s_mode st1; s_rem := rem; s_elapsed := el;
          s_size := s_size st1; s_store := sto; s_sizes := s_sizes st1 |}.

Definition round_step (c : cfg) (init : N) (st : state) (obs : round_obs) : res state :=
  let size := mode_size (s_mode st) in
  match obs with
  | [] => Panic UnwrapNone
  | _ :: _ => round_body c init (with_round st size) size obs
  end.

(** How a run over a finite history ends: the loop returned, or the history
    was used up while the loop asked for another round (never a result). *)
Inductive outcome := Done (st : state) | Starved (st : state).

Definition out_state (o : outcome) : state := match o with Done s => s | Starved s => s end.
Definition out_done (o : outcome) : bool := match o with Done _ => true | Starved _ => false end.

(** The [while] loop over the remaining history.  In test mode the body
    [break]s right after the samples came back. *)
Fixpoint run (c : cfg) (init : N) (st : state) (hist : list round_obs) : res outcome :=
  if loop_cond c st then
    match hist with
    | [] => Ok (Starved st)
    | obs :: rest =>
        if c_test c then
          match obs with
          | [] => Panic UnwrapNone
          | _ :: _ => Ok (Done (with_round st (mode_size (s_mode st))))
          end
        else
          do st' <- round_step c init st obs;
          run c init st' rest
    end
  else Ok (Done st).

Definition init_state (c : cfg) : state :=
  {| s_mode := initial_mode c;
     s_rem := if is_collect (initial_mode c) then Some (count_or_default c) else None;
     s_elapsed := 0; s_size := 0; s_store := store_empty; s_sizes := [] |}.

(** [bench_loop_threaded]: the early return, then the loop. *)
Definition bench_loop (c : cfg) (init : N) (hist : list round_obs) : res outcome :=
  if (c_max c =? 0) || negb (has_samples c) then Ok (Done (init_state c))
  else run c init (init_state c) hist.

(** * Observables *)

Definition rounds_of (st : state) : nat := length (s_sizes st).

(** Calls of the benchmarked function on any one thread. *)
Definition calls_per_thread (st : state) : N := fold_right N.add 0 (s_sizes st).

(** [Stats.sample_count] ([len as u32]) and [Stats.iter_count]
    ([sample_size as u64 * len as u64], overflow-checked). *)
Definition stat_sample_count (st : state) : N :=
  N.of_nat (length (st_samples (s_store st))) mod 2 ^ 32.

Definition stat_iter_count (st : state) : res N :=
  checked_mul 64 (s_size st) (N.of_nat (length (st_samples (s_store st))) mod 2 ^ 64).

(** * Declarative reading of a history (what the properties speak about)

    Literal constants here: these are the properties' statements, not the
    code's. *)

(** Picoseconds between two counter readings (0 when the counter went back). *)
Definition dur_ps (freq later earlier : N) : N :=
  if later <? earlier then 0 else ((later - earlier) * 1000000000000) / freq.

(** The slowest thread's timed section of a round, the latest end of a round. *)
Definition slowest_of (c : cfg) (obs : round_obs) : N :=
  nmax_list (map (fun r => dur_ps (c_freq c) (r_end r) (r_start r)) obs).

Definition latest_end (obs : round_obs) : N := nmax_list (map r_end obs).

Definition total_len (l : list round_obs) : N :=
  fold_right (fun o acc => N.of_nat (length o) + acc) 0 l.

(** The sample size is tuned (bench mode, no explicit size). *)
Definition tuned (c : cfg) : bool :=
  negb (c_test c) && match c_size c with None => true | Some _ => false end.

(** A round passes the tuning threshold: its slowest sample, in whole
    multiples of the precision, exceeds 100. *)
Definition passes (c : cfg) (obs : round_obs) : bool :=
  100 <? slowest_of c obs / c_prec c.

(** Index of the first round that passes. *)
Fixpoint first_pass (c : cfg) (l : list round_obs) : option nat :=
  match l with
  | [] => None
  | o :: r => if passes c o then Some O
              else match first_pass c r with Some j => Some (S j) | None => None end
  end.

Definition sum_n (l : list N) : N := fold_right N.add 0 l.

(** Elapsed benchmarking time after exactly the rounds [pre]. *)
Definition elapsed_of (c : cfg) (init : N) (pre : list round_obs) : N :=
  if c_skip c then
    N.min (sum_n (map (fun o => N.max (slowest_of c o) 1000) pre)) u128_max
  else
    match rev pre with
    | [] => 0
    | o :: _ => dur_ps (c_freq c) (latest_end o) init
    end.

(** Samples counted against [sample_count] after exactly the rounds [pre]:
    every recorded sample; while the size is being tuned nothing counts, and
    the round that first passes the threshold is the first that does. *)
Definition counted_of (c : cfg) (pre : list round_obs) : N :=
  if tuned c then
    match first_pass c pre with
    | Some j0 => total_len (skipn j0 pre)
    | None => 0
    end
  else total_len pre.

Definition sample_count_of (c : cfg) : N :=
  match c_count c with Some n => n | None => 100 end.

(** The documented rule: go on while the time ceiling is not reached and
    samples are missing or the time floor is not reached. *)
Definition continue_of (c : cfg) (init : N) (pre : list round_obs) : bool :=
  (elapsed_of c init pre <? c_max c) &&
  ((counted_of c pre <? sample_count_of c) || (elapsed_of c init pre <? c_min c)).

Definition elapsed_after (c : cfg) (init : N) (hist : list round_obs) (k : nat) : N :=
  elapsed_of c init (firstn k hist).

Definition continue_after (c : cfg) (init : N) (hist : list round_obs) (k : nat) : bool :=
  continue_of c init (firstn k hist).

(** The rounds whose samples are kept after exactly the rounds [pre]: all of
    them for an explicit size; from the first passing round on when tuned, or
    only the newest round while still tuning. *)
Definition kept_of (c : cfg) (pre : list round_obs) : list round_obs :=
  if tuned c then
    match first_pass c pre with
    | Some j0 => skipn j0 pre
    | None => match rev pre with [] => [] | o :: _ => [o] end
    end
  else pre.

Definition pow2 (n : nat) : N := 2 ^ N.of_nat n.

(** Size of round [i] (0-based) of a history. *)
Definition size_of_round (c : cfg) (hist : list round_obs) (i : nat) : N :=
  if c_test c then 1
  else match c_size c with
       | Some s => s
       | None => match first_pass c (firstn i hist) with
                 | Some j0 => pow2 j0
                 | None => pow2 i
                 end
       end.

Definition sizes_of (c : cfg) (hist : list round_obs) (k : nat) : list N :=
  map (size_of_round c hist) (seq 0 k).

Definition ceil_div (n t : N) : N := (n + t - 1) / t.

(** * What was seen of one run (of the implementation, or of the model) *)

Record seen := {
  o_done : bool;             (* the loop returned (the implementation always has) *)
  o_sizes : list N;          (* sample size of each round, from the call counters *)
  o_calls : list N;          (* calls of the benchmarked function per thread *)
  o_final_size : N;          (* SampleCollection.sample_size *)
  o_samples : list N;        (* recorded durations *)
  o_alloc_keys : list N;     (* keys of alloc_info_by_sample, in insertion order *)
  o_counts : quad (list N);  (* per-input counts, per kind *)
  o_stat_samples : N;        (* Stats.sample_count *)
  o_stat_iters : N           (* Stats.iter_count *)
}.

Definition seen_of_outcome (threads : nat) (o : outcome) : res seen :=
  let st := out_state o in
  do it <- stat_iter_count st;
  Ok {| o_done := out_done o;
        o_sizes := s_sizes st;
        o_calls := repeat (calls_per_thread st) threads;
        o_final_size := s_size st;
        o_samples := st_samples (s_store st);
        o_alloc_keys := map fst (st_allocs (s_store st));
        o_counts := st_counts (s_store st);
        o_stat_samples := stat_sample_count st;
        o_stat_iters := it |}.

(** * Boolean specifications (evaluated on what the implementation did)

    [hist] is the history as recorded: exactly the rounds that were run. *)

Definition list_eqb (a b : list N) : bool :=
  (length a =? length b)%nat && forallb (fun p => fst p =? snd p) (combine a b).

Definition all_eq (v : N) (l : list N) : bool := forallb (fun x => x =? v) l.

Definition zero_case (c : cfg) : bool := (c_max c =? 0) || negb (has_samples c).

Definition uniform (t : nat) (hist : list round_obs) : bool :=
  forallb (fun o => (length o =? t)%nat) hist.

(** C03.  [t] threads.  Zero case: nothing runs.  Test mode: one call per
    thread, nothing stored.  Bench mode with an explicit size [s]: every round
    has size [s], every thread makes [s] calls per round, every round records
    one sample per thread; the reported iters are the recorded samples times
    the number of calls each of them actually took (the last round's size, also
    when the size was tuned and max_time cut the run); and when no time limit is reached in the first
    [R = ceil(n/t)] rounds and the time floor is reached by then, exactly [R]
    rounds are run.  The reported figures are the number of recorded samples
    and that number times the sample size. *)
Definition c03_sb (c : cfg) (t : nat) (init : N) (hist : list round_obs) (o : seen) : bool :=
  let k := length hist in
  let kN := N.of_nat k in
  let tN := N.of_nat t in
  (length (o_calls o) =? t)%nat && (length (o_sizes o) =? k)%nat && uniform t hist &&
  if zero_case c then
    (k =? 0)%nat && all_eq 0 (o_calls o) && (length (o_samples o) =? 0)%nat &&
    (o_stat_samples o =? 0) && (o_stat_iters o =? 0)
  else if c_test c then
    (k =? 1)%nat && all_eq 1 (o_calls o) && (length (o_samples o) =? 0)%nat &&
    (o_stat_samples o =? 0) && (o_stat_iters o =? 0)
  else
    let recorded := N.of_nat (length (o_samples o)) in
    (* the size of the recorded samples as the call counters saw it: the last round's *)
    let last_sz := last (o_sizes o) 0 in
    (o_stat_samples o =? recorded) && (o_stat_iters o =? recorded * o_final_size o) &&
    (o_final_size o =? last_sz) && (o_stat_iters o =? recorded * last_sz) &&
    match c_size c with
    | None => true   (* the rest of the tuned case is C19's *)
    | Some s =>
        let n := sample_count_of c in
        let r := ceil_div n tN in
        all_eq s (o_sizes o) && all_eq (s * kN) (o_calls o) && (recorded =? tN * kN) &&
        (o_final_size o =? (if (k =? 0)%nat then 0 else s)) &&
        (* no time limit reached before round R and the floor reached at R => exactly R rounds *)
        let free := forallb (fun j => elapsed_after c init hist j <? c_max c) (seq 0 (N.to_nat (N.min r kN))) in
        if free then
          if kN <? r then c_max c <=? elapsed_after c init hist k   (* stopped early: only by the ceiling *)
          else if (c_min c <=? elapsed_after c init hist (N.to_nat r)) || (c_max c <=? elapsed_after c init hist (N.to_nat r))
               then kN =? r else true
        else true
    end.

(** C04.  The number of rounds run is the least [k] at which the rule says stop. *)
Definition c04_sb (c : cfg) (init : N) (hist : list round_obs) (o : seen) : bool :=
  let k := length hist in
  (length (o_sizes o) =? k)%nat &&
  if zero_case c then (k =? 0)%nat
  else if c_test c then true
  else
    forallb (fun j => continue_after c init hist j) (seq 0 k) &&
    (if o_done o then negb (continue_after c init hist k) else continue_after c init hist k).

(** C19.  Sizes 1, 2, 4, ... up to the first passing round, constant from
    there; only the rounds from the first passing one on (or the newest one,
    if none passed) left samples, as many as their threads; the final size is
    the last round's; every input-based counter kind holds exactly the
    per-iteration values of the kept samples; allocation info is held for exactly the kept samples that
    allocated; the rounds follow the rule with the first passing round
    counting as the first recorded one and the time ceiling covering the
    tuning rounds. *)
Definition expected_samples (c : cfg) (size : N) (kept : list round_obs) : list N :=
  flat_map (fun o => map (fun r => sample_duration c size r (dur_ps (c_freq c) (r_end r) (r_start r))) o) kept.

(** Per-iteration value of counter kind [k] for every kept sample. *)
Definition expected_counts (k : ckind) (size : N) (kept : list round_obs) : list N :=
  map (fun r => (qget k (r_ctotal r) / size) mod 2 ^ 64) (concat kept).

(** Indices (from [i] on) of the samples that come with allocation info. *)
Fixpoint alloc_keys_from (i : N) (l : list raw) : list N :=
  match l with
  | [] => []
  | r :: rest => (if ai_is_empty (r_alloc r) then [] else [i]) ++ alloc_keys_from (i + 1) rest
  end.

Definition c19_sb (c : cfg) (init : N) (hist : list round_obs) (o : seen) : bool :=
  let k := length hist in
  if zero_case c || negb (tuned c) then true
  else
    list_eqb (o_sizes o) (sizes_of c hist k) &&
    (N.of_nat (length (o_samples o)) =? total_len (kept_of c hist)) &&
    list_eqb (o_samples o) (expected_samples c (o_final_size o) (kept_of c hist)) &&
    (o_final_size o =? match k with O => 0 | S k' => size_of_round c hist k' end) &&
    forallb (fun k => list_eqb (qget k (o_counts o))
                        (if qget k (c_input_counts c) then expected_counts k (o_final_size o) (kept_of c hist) else []))
            all_kinds &&
    list_eqb (o_alloc_keys o) (alloc_keys_from 0 (concat (kept_of c hist))) &&
    forallb (fun j => continue_after c init hist j) (seq 0 k) &&
    (if o_done o then negb (continue_after c init hist k) else continue_after c init hist k) &&
    (o_stat_samples o =? N.of_nat (length (o_samples o))) &&
    (o_stat_iters o =? N.of_nat (length (o_samples o)) * o_final_size o).

(** C03 end to end (the real runner, one row of the table per thread count):
    what a run with count [n] (default 100), explicit size [s] on [t] threads
    must report and how often each thread must have called the function. *)
Definition c03_e2e_sb (n : option N) (s t : N) (test : bool) (samples iters : N) (calls : list N) : bool :=
  let nn := match n with Some x => x | None => 100 end in
  (N.of_nat (length calls) =? t) &&
  if (nn =? 0) || (s =? 0) then all_eq 0 calls && (samples =? 0) && (iters =? 0)
  else if test then all_eq 1 calls
  else
    let r := ceil_div nn t in
    (samples =? t * r) && (iters =? t * r * s) && all_eq (s * r) calls.

(** [ParsedSeconds] (`--min-time` / `--max-time` / DIVAN_MIN_TIME / DIVAN_MAX_TIME):
    decimal seconds [ip.frac] with at most 9 fractional digits are that many
    nanoseconds, exactly. *)
Definition decimal_nanos (ip : N) (frac : list N) : N :=
  ip * 1000000000 + fold_left (fun acc d => acc * 10 + d) (firstn 9 (frac ++ repeat 0 9)) 0.

(** When every round lasts at least [d], the time ceiling [max] allows at most
    ceil(max/d) rounds: the last round started before the ceiling was reached. *)
Definition c04_os_sb (max d rounds : N) : bool :=
  (rounds =? 0) || ((rounds - 1) * d <? max).

(** C19 end to end (the real runner, the benchmark on the virtual clock, the
    history read from the event log): the sizes of the rounds follow the tuning
    sequence, the rounds follow the rule (max_time covers the tuning rounds, the
    first passing round counts), the reported samples are those of the kept
    rounds and the reported iters that number times the last round's size. *)
Definition c19_e2e_sb (c : cfg) (init : N) (hist : list round_obs) (sizes : list N) (samples iters : N) : bool :=
  let k := length hist in
  if zero_case c || negb (tuned c) then true
  else
    list_eqb sizes (sizes_of c hist k) &&
    forallb (fun j => continue_after c init hist j) (seq 0 k) &&
    negb (continue_after c init hist k) &&
    (samples =? total_len (kept_of c hist)) &&
    (iters =? samples * last sizes 0).

(** C03, the reported figures of a collection of [m] samples of size [s]
    ([SampleCollection::iter_count] is a u64 product): samples = m, iters = s*m. *)
Definition c03_fig_sb (s m samples iters : N) : bool := (samples =? m) && (iters =? s * m).

(** * The time origin and the overhead calibration

    When [bench_loop_threaded] reaches the lines that read [initial_start] and
    look up [timer.bench_overheads()], the clock reads [t0].  The lookup
    calibrates the overheads on its first use in a process, which takes
    [calib] ticks (0 when the result is cached); "min_time and max_time do not
    consider this as benchmarking time" (doc of [Timer::bench_overheads]).
    [origin_before_calib] (Generated/Consts.v, read from the source) says
    whether the origin is read before the lookup. *)
Definition origin_reading (before : bool) (t0 calib : N) : N := if before then t0 else t0 + calib.

Definition bench_loop_cal (c : cfg) (t0 calib : N) (hist : list round_obs) : res outcome :=
  bench_loop c (origin_reading origin_before_calib t0 calib) hist.

(** The rule with the elapsed time measured "from just before the first
    sample", i.e. from the clock after the calibration. *)
Definition c04_cal_sb (c : cfg) (t0 calib : N) (hist : list round_obs) (o : seen) : bool :=
  c04_sb c (t0 + calib) hist o.

(** Seconds given as plain numbers ([IntoDuration] for u64 / f64, used by the
    attributes' [min_time = ..] / [max_time = ..]): a whole number [u] of seconds
    is exactly [u] s; a decimal with at most 9 fractional digits is that many
    nanoseconds.  [ns]: the exact value; [secs], [nanos]: the resulting [Duration]. *)
Definition c04_dur_sb (ns secs nanos : N) : bool :=
  (nanos <? 1000000000) && (secs * 1000000000 + nanos =? ns).

(** [threads = ..] as the attribute macro converts it ([IntoThreads]): a scalar
    [t] is the single count [t]; a list or range is its sorted set of values. *)
Fixpoint thr_insert (x : N) (l : list N) : list N :=
  match l with
  | [] => [x]
  | y :: r => if x <? y then x :: l else if x =? y then l else y :: thr_insert x r
  end.
Definition thr_norm (l : list N) : list N := fold_right thr_insert [] l.
Definition c03_threads_sb (scalar : bool) (input out : list N) : bool :=
  list_eqb out (if scalar then input else thr_norm input).

(** C03 for a tuned sample size: with [j0] the first round that passes the
    tuning threshold and R = ceil(n/t), when no time limit is reached in the
    first [j0 + R] rounds and the time floor is reached by then, exactly
    [j0 + R] rounds are run and t*R samples are recorded (the passing round is
    the first recorded one); fewer rounds only if the ceiling was reached. *)
Definition c03_tuned_sb (c : cfg) (t : nat) (init : N) (hist : list round_obs) (o : seen) : bool :=
  let k := length hist in
  let kN := N.of_nat k in
  let tN := N.of_nat t in
  if zero_case c || negb (tuned c) || negb (uniform t hist) then true
  else
    match first_pass c hist with
    | None => true
    | Some j0 =>
        let r := ceil_div (sample_count_of c) tN in
        let m := (j0 + N.to_nat r)%nat in
        let free := forallb (fun j => elapsed_after c init hist j <? c_max c) (seq 0 (Nat.min m k)) in
        if free then
          if (k <? m)%nat then c_max c <=? elapsed_after c init hist k
          else if (c_min c <=? elapsed_after c init hist m) || (c_max c <=? elapsed_after c init hist m)
               then (k =? m)%nat && (N.of_nat (length (o_samples o)) =? tN * r)
               else true
        else true
    end.
