(** Model of [AllocProfiler]'s [GlobalAlloc] implementation,
    [src/alloc.rs:129-182]: each of the four methods looks up the thread's
    tally slot with [ThreadAllocInfo::try_current()], tallies if it is there,
    and then forwards the request verbatim to the wrapped allocator, returning
    what that returned.  The tally update happens *before* the inner call and
    never looks at its result.
    Executable definitions only; proofs are in Proofs/Profiler.v. *)

From DivanV Require Import Base.Res Model.Tally.

(** [Layout]: size and alignment. *)
Record layout := mkL { l_size : N; l_align : N }.

(** A request to a [GlobalAlloc]; pointers are numbers (0 is null). *)
Inductive req :=
| RAlloc (l : layout)
| RAllocZeroed (l : layout)
| RRealloc (ptr : N) (l : layout) (new_size : N)
| RDealloc (ptr : N) (l : layout).

(** What a [GlobalAlloc] method returns: a pointer (0 = null) or nothing ([dealloc]). *)
Inductive resp := RespPtr (p : N) | RespUnit.

(** The tally update of each method: [alloc] and [alloc_zeroed] both
    [tally_alloc(layout.size())], [realloc] [tally_realloc(layout.size(),
    new_size)], [dealloc] [tally_dealloc(layout.size())]. *)
Definition op_of_req (r : req) : aop :=
  match r with
  | RAlloc l => OAlloc (l_size l)
  | RAllocZeroed l => OAlloc (l_size l)
  | RRealloc _ l n => ORealloc (l_size l) n
  | RDealloc _ l => ODealloc (l_size l)
  end.

(** The call each method makes on [self.alloc]. *)
Definition forward (r : req) : req :=
  match r with
  | RAlloc l => RAlloc l                       (* self.alloc.alloc(layout) *)
  | RAllocZeroed l => RAllocZeroed l           (* self.alloc.alloc_zeroed(layout) *)
  | RRealloc p l n => RRealloc p l n           (* self.alloc.realloc(ptr, layout, new_size) *)
  | RDealloc p l => RDealloc p l               (* self.alloc.dealloc(ptr, layout) *)
  end.

(** One method call up to the inner call.  [slot = None]: [try_current()]
    returned [None] (the thread-local is gone or, on macOS, not yet created):
    nothing is tallied. *)
Definition profiler_step (chk : bool) (slot : option info) (r : req) : res (req * option info) :=
  match slot with
  | Some i => do i' <- step chk i (op_of_req r); Ok (forward r, Some i')
  | None => Ok (forward r, None)
  end.

Section Run.
  (** The wrapped allocator: any function from the history of requests it has
      received (the current one last) to its response. *)
  Variable inner : list req -> resp.

  (** Returns: everything the inner allocator received, the responses handed
      back to the caller (one per request), the final tally slot. *)
  Fixpoint run_prof (chk : bool) (slot : option info) (hist : list req) (reqs : list req)
    : res (list req * list resp * option info) :=
    match reqs with
    | [] => Ok (hist, [], slot)
    | r :: rest =>
        do fs <- profiler_step chk slot r;
        let hist' := hist ++ [fst fs] in
        let response := inner hist' in          (* returned as is *)
        do out <- run_prof chk (snd fs) hist' rest;
        Ok (fst (fst out), response :: snd (fst out), snd out)
    end.

  (** The same run, keeping what was forwarded and answered before a panic:
      the method panics (debug tally overflow) *before* its inner call, so
      nothing is forwarded for the panicking request or after it. *)
  Fixpoint run_prof_trace (chk : bool) (slot : option info) (hist : list req) (reqs : list req)
    : list req * list resp * res (option info) :=
    match reqs with
    | [] => (hist, [], Ok slot)
    | r :: rest =>
        match profiler_step chk slot r with
        | Panic p => (hist, [], Panic p)
        | Ok fs =>
            let hist' := hist ++ [fst fs] in
            let response := inner hist' in
            let out := run_prof_trace chk (snd fs) hist' rest in
            (fst (fst out), response :: snd (fst out), snd out)
        end
    end.
End Run.

(** * Boolean specification (evaluated on what the mock inner allocator
    recorded and what the profiler returned) *)

Definition layout_eqb (a b : layout) : bool :=
  ((l_size a =? l_size b) && (l_align a =? l_align b))%N.

Definition req_eqb (a b : req) : bool :=
  match a, b with
  | RAlloc l, RAlloc l' => layout_eqb l l'
  | RAllocZeroed l, RAllocZeroed l' => layout_eqb l l'
  | RRealloc p l n, RRealloc p' l' n' => ((p =? p') && layout_eqb l l' && (n =? n'))%N
  | RDealloc p l, RDealloc p' l' => ((p =? p')%N && layout_eqb l l')
  | _, _ => false
  end.

Definition resp_eqb (a b : resp) : bool :=
  match a, b with
  | RespPtr p, RespPtr q => (p =? q)%N
  | RespUnit, RespUnit => true
  | _, _ => false
  end.

Fixpoint list_eqb {A} (eqb : A -> A -> bool) (l1 l2 : list A) : bool :=
  match l1, l2 with
  | [], [] => true
  | x :: r1, y :: r2 => eqb x y && list_eqb eqb r1 r2
  | _, _ => false
  end.

(** [reqs]: what the caller asked; [script]: what the inner allocator answered,
    one per request; [log]: what the inner allocator received; [rets]: what the
    caller got back. *)
Definition prof_sb (reqs : list req) (script : list resp) (log : list req) (rets : list resp) : bool :=
  list_eqb req_eqb log reqs && list_eqb resp_eqb rets script.

Definition prof_sb_why (reqs : list req) (script : list resp) (log : list req) (rets : list resp) : list N :=
  (if list_eqb req_eqb log reqs then [] else [1%N]) ++ (if list_eqb resp_eqb rets script then [] else [2%N]).

(** * Re-entrant requests

    A wrapped allocator may itself issue requests through an [AllocProfiler]
    (the one wrapping it or another instance: the tally slot is per thread, not
    per instance) while it is serving a request.  The behaviour of the wrapped
    allocator during a run is then a forest: each node is a request, the answer
    the wrapped allocator gives to it, and the nested requests it issues (in
    order) before answering.  The profiler methods are stateless with respect
    to forwarding: a nested request is tallied and forwarded like any other. *)
Inductive rtree :=
| RNode (r : req) (answer : resp) (nested : rforest)
with rforest :=
| FNil
| FCons (t : rtree) (f : rforest).

(** State threaded through: the tally slot and the log of what the wrapped
    allocator has received.  Result: also what each requester was handed back,
    in the order the requests were issued (pre-order). *)
Fixpoint prof_tree (chk : bool) (slot : option info) (log : list req) (t : rtree)
  : res (option info * list req * list resp) :=
  match t with
  | RNode r answer nested =>
      do fs <- profiler_step chk slot r;            (* tally, then the inner call *)
      let log' := log ++ [fst fs] in                (* the wrapped allocator receives it ... *)
      do out <- prof_forest chk (snd fs) log' nested;  (* ... issues its nested requests ... *)
      Ok (fst (fst out), snd (fst out), answer :: snd out)   (* ... and answers; returned as is *)
  end
with prof_forest (chk : bool) (slot : option info) (log : list req) (f : rforest)
  : res (option info * list req * list resp) :=
  match f with
  | FNil => Ok (slot, log, [])
  | FCons t rest =>
      do o1 <- prof_tree chk slot log t;
      do o2 <- prof_forest chk (fst (fst o1)) (snd (fst o1)) rest;
      Ok (fst (fst o2), snd (fst o2), snd o1 ++ snd o2)
  end.

(** Requests and answers of a forest in pre-order. *)
Fixpoint pre_reqs_t (t : rtree) : list req :=
  match t with RNode r _ nested => r :: pre_reqs_f nested end
with pre_reqs_f (f : rforest) : list req :=
  match f with FNil => [] | FCons t rest => pre_reqs_t t ++ pre_reqs_f rest end.

Fixpoint pre_ans_t (t : rtree) : list resp :=
  match t with RNode _ a nested => a :: pre_ans_f nested end
with pre_ans_f (f : rforest) : list resp :=
  match f with FNil => [] | FCons t rest => pre_ans_t t ++ pre_ans_f rest end.

(** [Sb] for a forest: the wrapped allocator's log is the pre-order of the
    requests, every requester got the wrapped allocator's answer. *)
Definition nest_sb (f : rforest) (log : list req) (rets : list resp) : bool :=
  prof_sb (pre_reqs_f f) (pre_ans_f f) log rets.

Definition nest_sb_why (f : rforest) (log : list req) (rets : list resp) : list N :=
  prof_sb_why (pre_reqs_f f) (pre_ans_f f) log rets.
