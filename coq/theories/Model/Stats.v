(** Model of [BenchContext::compute_stats] ([src/benchmark/mod.rs:1229-1484]),
    [SampleCollection::{iter_count,total_duration,sorted_samples}]
    ([src/stats/sample.rs:60-84]), [CounterCollection::{counts,mean_count}]
    ([src/counter/collection.rs:34-52]), [util::slice_middle]
    ([src/util/mod.rs:82-95]) and of the per-input counter value stored with a
    sample ([src/benchmark/mod.rs:875-886]).
    Executable definitions and the boolean specification only; proofs are in
    Proofs/Stats.v.

    Sorting is specified, not implemented: [compute_stats] takes the sorted view
    [sv] of the samples (pairs (index in [time_samples], duration)) as an extra
    argument; every theorem quantifies over *all* admissible views
    ([admissibleb]: a permutation of the indexed samples that is sorted by
    duration), which is exactly the freedom [sort_unstable_by_key] has.  The
    lookup "sample -> index by address" ([slice_ptr_index]) is the first
    component of the pair.

    [f64] fields are exact extended non-negative rationals [xq] with IEEE's
    [0/0 = NaN], [x/0 = inf]; the rounding of [as f64] and of the f64 divisions
    is not modelled (the correspondence check compares at relative tolerance
    1e-12 with exact zero/finite/inf/NaN classification).

    [fixed = true] is the code after commit f2a8733 (the current tree);
    [fixed = false] the code before it (kept for the refutation example).
    [dbg = true] is a build with overflow checks, [dbg = false] one without
    (u128/u64 arithmetic wraps). *)

From DivanV Require Import Base.Res.
Local Open Scope N_scope.

(** * Extended non-negative rationals *)

Inductive xq : Type :=
| Fin (num den : N)   (* num/den, den <> 0 *)
| Inf
| NaN.

Definition xq_of_N (n : N) : xq := Fin n 1.

Definition xq_div (x y : xq) : xq :=
  match x, y with
  | NaN, _ => NaN
  | _, NaN => NaN
  | Inf, Inf => NaN
  | Inf, Fin _ _ => Inf
  | Fin _ _, Inf => Fin 0 1
  | Fin a b, Fin c d =>
      if c =? 0 then (if a =? 0 then NaN else Inf) else Fin (a * d) (b * c)
  end.

Definition xq_add (x y : xq) : xq :=
  match x, y with
  | NaN, _ => NaN
  | _, NaN => NaN
  | Inf, _ => Inf
  | _, Inf => Inf
  | Fin a b, Fin c d => Fin (a * d + c * b) (b * d)
  end.

Definition xq_is_nan (x : xq) : bool := match x with NaN => true | _ => false end.
Definition xq_is_fin (x : xq) : bool := match x with Fin _ d => negb (d =? 0) | _ => false end.

(** Same value (cross multiplication); [NaN] equals nothing. *)
Definition xq_eqb (x y : xq) : bool :=
  match x, y with
  | Fin a b, Fin c d => a * d =? c * b
  | Inf, Inf => true
  | _, _ => false
  end.

(** [x] (what the implementation printed, an exact dyadic) is within relative
    1e-12 of the exact value [y]; zero/finite/inf/NaN classes must coincide. *)
Definition xq_close (x y : xq) : bool :=
  match x, y with
  | Fin a b, Fin c d =>
      negb (b =? 0) && negb (d =? 0) &&
      ((if a * d <? c * b then c * b - a * d else a * d - c * b) * 1000000000000 <=? c * b)
  | Inf, Inf => true
  | _, _ => false
  end.

(** * Data *)

Record tally := { t_count : N; t_size : N }.
Definition tally_zero : tally := {| t_count := 0; t_size := 0 |}.

Inductive alloc_op := Grow | Shrink | Alloc | Dealloc.
Definition all_ops : list alloc_op := [Grow; Shrink; Alloc; Dealloc].

(** [ThreadAllocInfo] (the fields [compute_stats] reads). [max_count] and
    [max_size] are signed in the code but never negative. *)
Record alloc_info := {
  ai_grow : tally; ai_shrink : tally; ai_alloc : tally; ai_dealloc : tally;
  ai_max_count : N; ai_max_size : N
}.

Definition ai_tally (op : alloc_op) (i : alloc_info) : tally :=
  match op with Grow => ai_grow i | Shrink => ai_shrink i | Alloc => ai_alloc i | Dealloc => ai_dealloc i end.

(** One [KnownCounterInfo]: the recorded counts and whether they are per-input
    (one entry per sample) or a single constant entry. *)
Record counter_in := { ci_counts : list N; ci_input : bool }.

Record inputs := {
  in_size : N;                          (* samples.sample_size : u32 *)
  in_durs : list N;                     (* samples.time_samples, picoseconds : u128 *)
  in_allocs : list (N * alloc_info);    (* samples.alloc_info_by_sample : HashMap<u32, _> *)
  in_counters : list counter_in         (* counters.info, one per KnownCounterKind *)
}.

Record stats_set (A : Type) := { fastest : A; slowest : A; median : A; mean : A }.
Arguments fastest {A} _. Arguments slowest {A} _. Arguments median {A} _. Arguments mean {A} _.

Record stats := {
  st_sample_count : N;
  st_iter_count : N;
  st_time : stats_set N;
  st_max_count : stats_set xq;
  st_max_size : stats_set xq;
  st_tallies : list (stats_set xq * stats_set xq);   (* per AllocOp: (count, size) *)
  st_counts : list (option (stats_set N))            (* per KnownCounterKind *)
}.

(** * Helpers shaped like the Rust ones *)

Definition add128 (dbg : bool) (a b : N) : res N :=
  if dbg then checked_add 128 a b else Ok ((a + b) mod 2 ^ 128).

(** [iter.sum::<u128>()] *)
Fixpoint sum128 (dbg : bool) (acc : N) (l : list N) : res N :=
  match l with
  | [] => Ok acc
  | x :: r => do a <- add128 dbg acc x; sum128 dbg a r
  end.

Definition mul64 (dbg : bool) (a b : N) : res N :=
  if dbg then checked_mul 64 a b else Ok ((a * b) mod 2 ^ 64).

Fixpoint index_from (k : N) (l : list N) : list (N * N) :=
  match l with
  | [] => []
  | x :: r => (k, x) :: index_from (k + 1) r
  end.

(** The samples with their index in [time_samples]. *)
Definition indexed (durs : list N) : list (N * N) := index_from 0 durs.

Fixpoint last_error {A} (l : list A) : option A :=
  match l with
  | [] => None
  | [x] => Some x
  | _ :: r => last_error r
  end.

(** [&slice[a..]] and [&slice[..k]] with their bounds checks. *)
Definition slice_from {A} (a : nat) (l : list A) : res (list A) :=
  if (a <=? length l)%nat then Ok (skipn a l) else Panic OutOfBounds.
Definition slice_to {A} (k : nat) (l : list A) : res (list A) :=
  if (k <=? length l)%nat then Ok (firstn k l) else Panic OutOfBounds.

(** [util::slice_middle] *)
Definition slice_middle {A} (l : list A) : res (list A) :=
  let len := length l in
  if (len =? 0)%nat then Ok l
  else if Nat.even len then
    do t <- slice_from (len / 2 - 1) l; slice_to 2 t
  else
    do t <- slice_from (len / 2) l; slice_to 1 t.

Fixpoint alist_find {B} (i : N) (l : list (N * B)) : option B :=
  match l with
  | [] => None
  | (k, v) :: r => if k =? i then Some v else alist_find i r
  end.

(** [sample_alloc_info]: index of the sample, [u32::try_from(..).ok()], map lookup. *)
Definition sample_alloc_info (allocs : list (N * alloc_info)) (s : option (N * N)) : option alloc_info :=
  match s with
  | None => None
  | Some (i, _) => if i <? 2 ^ 32 then alist_find i allocs else None
  end.

(** [counter_count_for_sample]: [counts.get(index)] with index 0 for a constant counter. *)
Definition count_for (ci : counter_in) (s : N * N) : option N :=
  nth_error (ci_counts ci) (if ci_input ci then N.to_nat (fst s) else 0%nat).

Fixpoint sum_list (l : list N) : N :=
  match l with [] => 0 | x :: r => x + sum_list r end.

(** [CounterCollection::mean_count]: [sum / counts.len()], an unguarded division. *)
Definition mean_count (ci : counter_in) : res N :=
  do m <- checked_div (sum_list (ci_counts ci)) (N.of_nat (length (ci_counts ci)));
  Ok (m mod 2 ^ 64).

Fixpoint median_counter_sum (ci : counter_in) (mids : list (N * N)) (sum : N) : option N :=
  match mids with
  | [] => Some sum
  | s :: r =>
      match count_for ci s with
      | None => None
      | Some c => median_counter_sum ci r (sat_add 128 sum c)
      end
  end.

Definition opt_bind {A B} (o : option A) (f : A -> option B) : option B :=
  match o with Some a => f a | None => None end.

(** The closure of [KnownCounterKind::ALL.map(..)]: evaluation order as in the
    code (median first, then fastest, slowest, and [mean_count] last). *)
Definition kind_stats (fixed : bool) (ci : counter_in) (sv mids : list (N * N))
  : res (option (stats_set N)) :=
  match median_counter_sum ci mids 0 with
  | None => Ok None
  | Some sum =>
      let len := N.of_nat (length mids) in
      do q <- checked_div sum (if fixed then N.max len 1 else len);
      let med := q mod 2 ^ 64 in
      match opt_bind (hd_error sv) (count_for ci) with
      | None => Ok None
      | Some f =>
          match opt_bind (last_error sv) (count_for ci) with
          | None => Ok None
          | Some l =>
              do m <- mean_count ci;
              Ok (Some {| fastest := f; slowest := l; median := med; mean := m |})
          end
      end
  end.

Fixpoint map_res {A B} (f : A -> res B) (l : list A) : res (list B) :=
  match l with
  | [] => Ok []
  | x :: r => do y <- f x; do ys <- map_res f r; Ok (y :: ys)
  end.

Definition max_count_of (o : option alloc_info) : N :=
  match o with Some i => ai_max_count i | None => 0 end.
Definition max_size_of (o : option alloc_info) : N :=
  match o with Some i => ai_max_size i | None => 0 end.
Definition tally_of (op : alloc_op) (o : option alloc_info) : tally :=
  match o with Some i => ai_tally op i | None => tally_zero end.

(** One [f64] column entry: [x as f64 / sample_size]. *)
Definition per_size (x : N) (ssz : xq) : xq := xq_div (xq_of_N x) ssz.
(** The median entry: [(a as f64 + b as f64) / median_count / sample_size]. *)
Definition med_entry (a b : N) (medn ssz : xq) : xq :=
  xq_div (xq_div (xq_add (xq_of_N a) (xq_of_N b)) medn) ssz.

Definition total_of (f : alloc_info -> N) (allocs : list (N * alloc_info)) : N :=
  sum_list (map (fun p => f (snd p)) allocs).

(** * [compute_stats] *)

(** The [f64] part: one [StatsSet<f64>] per figure [f] of an allocation info,
    [total] being the sum of the figure over all recorded infos. *)
Definition column (fixed : bool) (inp : inputs) (sv mids : list (N * N)) (total_count : N)
           (f : option alloc_info -> N) (total : N) : stats_set xq :=
  let allocs := in_allocs inp in
  let info_f := sample_alloc_info allocs (hd_error sv) in
  let info_l := sample_alloc_info allocs (last_error sv) in
  let info_m0 := sample_alloc_info allocs (nth_error mids 0) in
  let info_m1 := sample_alloc_info allocs (nth_error mids 1) in
  let ssz := xq_of_N (if fixed then N.max (in_size inp) 1 else in_size inp) in
  let tcf := xq_of_N (if fixed then N.max total_count 1 else total_count) in
  let medn := xq_of_N (N.max (N.of_nat (length mids)) 1) in
  {| fastest := per_size (f info_f) ssz;
     slowest := per_size (f info_l) ssz;
     median := med_entry (f info_m0) (f info_m1) medn ssz;
     mean := xq_div (xq_of_N total) tcf |}.

(** The [Stats { .. }] expression at the end of [compute_stats]. *)
Definition assemble (fixed : bool) (inp : inputs) (sv mids : list (N * N))
           (total_count min_duration max_duration median_duration mean_duration : N)
           (counts : list (option (stats_set N))) : stats :=
  let allocs := in_allocs inp in
  let col := column fixed inp sv mids total_count in
  {| st_sample_count := N.of_nat (length (in_durs inp)) mod 2 ^ 32;
     st_iter_count := total_count;
     st_time := {| fastest := min_duration; slowest := max_duration;
                   median := median_duration; mean := mean_duration |};
     st_max_count := col max_count_of (total_of ai_max_count allocs);
     st_max_size := col max_size_of (total_of ai_max_size allocs);
     st_tallies :=
       map (fun op =>
              (col (fun o => t_count (tally_of op o)) (total_of (fun i => t_count (ai_tally op i)) allocs),
               col (fun o => t_size (tally_of op o)) (total_of (fun i => t_size (ai_tally op i)) allocs)))
           all_ops;
     st_counts := counts |}.

(** [sorted_samples.first().map(|s| s.duration / sample_size).unwrap_or_default()] *)
Definition end_duration (o : option (N * N)) (ssize : N) : res N :=
  match o with
  | None => Ok 0
  | Some s => checked_div (snd s) ssize
  end.

Definition median_duration_of (dbg : bool) (mids : list (N * N)) (ssize : N) : res N :=
  match mids with
  | [] => Ok 0
  | _ => do sum <- sum128 dbg 0 (map snd mids);
         do avg <- checked_div sum (N.of_nat (length mids));
         checked_div avg ssize
  end.

Definition compute_stats (fixed dbg : bool) (sv : list (N * N)) (inp : inputs) : res stats :=
  let durs := in_durs inp in
  let ssize := in_size inp in
  (* iter_count(): sample_size as u64 * len as u64 *)
  do total_count <- mul64 dbg ssize (N.of_nat (length durs));
  do total_duration <- sum128 dbg 0 durs;
  (* checked_div(..).unwrap_or_default() *)
  let mean_duration := if total_count =? 0 then 0 else total_duration / total_count in
  do mids <- slice_middle sv;
  do min_duration <- end_duration (hd_error sv) ssize;
  do max_duration <- end_duration (last_error sv) ssize;
  do median_duration <- median_duration_of dbg mids ssize;
  do counts <- map_res (fun ci => kind_stats fixed ci sv mids) (in_counters inp);
  Ok (assemble fixed inp sv mids total_count min_duration max_duration median_duration mean_duration counts).

(** * The value stored for a per-input counter ([benchmark/mod.rs:750-760, 875-886])

    [counter_totals[kind]] is the saturating u128 sum of the counts of the
    sample's inputs; what is pushed is [(total / sample_size as u128) as u64]. *)
Fixpoint counter_total (acc : N) (input_counts : list N) : N :=
  match input_counts with
  | [] => acc
  | c :: r => counter_total (sat_add 128 acc c) r
  end.

Definition per_iter_count (input_counts : list N) (ssize : N) : res N :=
  do q <- checked_div (counter_total 0 input_counts) ssize;
  Ok (q mod 2 ^ 64).

Fixpoint forallb2 {A B} (f : A -> B -> bool) (l1 : list A) (l2 : list B) : bool :=
  match l1, l2 with
  | [], [] => true
  | a :: r1, b :: r2 => f a b && forallb2 f r1 r2
  | _, _ => false
  end.

(** * How the counts of one counter kind get stored
    ([CounterCollection::{set_counter,set_input_counter,clear_input_counts,push_counter}],
    [src/counter/collection.rs:54-75,77-103,121-128]; the recording loop
    [src/benchmark/mod.rs:819-837] (tuning round: samples and input counts are
    cleared) and [:855-892] (one time sample and, for a per-input kind, one
    count pushed per raw sample)). *)

(** [Bencher::counter] ([CounterCollection::set_counter], current code, after
    commit 5377f60): replaces any existing counter of the kind, an input-based
    one included. *)
Definition set_counter (c : N) (ci : counter_in) : counter_in :=
  {| ci_counts := [c]; ci_input := false |}.

(** [set_counter] before 5377f60: overwrite the first entry or push one, the
    input-based counter of the kind stays. *)
Definition set_counter_old (c : N) (ci : counter_in) : counter_in :=
  match ci_counts ci with
  | _ :: r => {| ci_counts := c :: r; ci_input := ci_input ci |}
  | [] => {| ci_counts := [c]; ci_input := ci_input ci |}
  end.

(** [Bencher::input_counter]: "ignore previously-set counts". *)
Definition set_input_counter (ci : counter_in) : counter_in :=
  {| ci_counts := []; ci_input := true |}.

Definition clear_input_counts (ci : counter_in) : counter_in :=
  if ci_input ci then {| ci_counts := []; ci_input := true |} else ci.

(** State of the loop as far as this kind is concerned: how many time samples
    are stored, and the counter info.  One raw sample = the counts of its inputs. *)
Definition push_sample (ssize : N) (st : nat * counter_in) (input_counts : list N) : res (nat * counter_in) :=
  if ci_input (snd st) then
    do v <- per_iter_count input_counts ssize;
    Ok (S (fst st), {| ci_counts := ci_counts (snd st) ++ [v]; ci_input := true |})
  else Ok (S (fst st), snd st).

Fixpoint push_samples (ssize : N) (st : nat * counter_in) (raw : list (list N)) : res (nat * counter_in) :=
  match raw with
  | [] => Ok st
  | x :: r => do st' <- push_sample ssize st x; push_samples ssize st' r
  end.

(** One iteration of the [while] loop: [(tune, sample_size, raw samples of the threads)]. *)
Definition record_round (st : nat * counter_in) (round : bool * N * list (list N)) : res (nat * counter_in) :=
  let '(tune, ssize, raw) := round in
  push_samples ssize (if tune then (0%nat, clear_input_counts (snd st)) else st) raw.

Fixpoint record_rounds (st : nat * counter_in) (rounds : list (bool * N * list (list N))) : res (nat * counter_in) :=
  match rounds with
  | [] => Ok st
  | r :: rest => do st' <- record_round st r; record_rounds st' rest
  end.

(** The samples that are still stored after these rounds (a tuning round
    discards everything recorded before it), each with its sample size. *)
Fixpoint kept_samples (kept : list (N * list N)) (rounds : list (bool * N * list (list N))) : list (N * list N) :=
  match rounds with
  | [] => kept
  | (tune, ssize, raw) :: rest =>
      kept_samples ((if tune then [] else kept) ++ map (fun x => (ssize, x)) raw) rest
  end.

(** Specification of what a run leaves behind for a per-input kind: one count
    per recorded sample, each the sum over that sample's inputs / sample size. *)
Definition stored_counts_sb (ssize : N) (sample_sums : list N) (ci : counter_in) : bool :=
  ci_input ci && forallb2 (fun sum v => v =? (sum / ssize) mod 2 ^ 64) sample_sums (ci_counts ci).

(** Specification for a kind whose last word was a constant counter [c]: one
    stored count, not per-input; and for a kind without any counter. *)
Definition constant_counter_sb (c : N) (ci : counter_in) : bool :=
  negb (ci_input ci) && match ci_counts ci with [x] => x =? c | _ => false end.
Definition no_counter_sb (ci : counter_in) : bool :=
  negb (ci_input ci) && match ci_counts ci with [] => true | _ => false end.

Fixpoint nodup_keys {B} (l : list (N * B)) : bool :=
  match l with
  | [] => true
  | (k, _) :: r => match alist_find k r with Some _ => false | None => nodup_keys r end
  end.

(** * Which samples get an allocation record
    ([ThreadAllocTallyMap::is_empty], [src/alloc.rs:497-501]; the gate
    [if !raw_sample.alloc_info.tallies.is_empty() { alloc_info_by_sample.insert(sample_index, ..) }],
    [src/benchmark/mod.rs:868-874]) *)

(** The eight tally figures: (count, size) of grow, shrink, alloc, dealloc. *)
Definition tallies_of_info (i : alloc_info) : list N :=
  flat_map (fun op => [t_count (ai_tally op i); t_size (ai_tally op i)]) all_ops.

(** [is_empty]: every count and every size is 0. *)
Definition tally_row_empty (row : list N) : bool := forallb (fun x => x =? 0) row.
Definition tallies_is_empty (i : alloc_info) : bool := tally_row_empty (tallies_of_info i).

(** The infos of the raw samples, in recording order, starting at sample index
    [k]; [m] is the map so far (a new key goes in front). *)
Fixpoint record_alloc_infos (k : N) (infos : list alloc_info) (m : list (N * alloc_info)) : list (N * alloc_info) :=
  match infos with
  | [] => m
  | i :: r => record_alloc_infos (k + 1) r (if tallies_is_empty i then m else (k, i) :: m)
  end.

(** One iteration of the [while] loop as far as the allocation records are
    concerned: [(tune, infos of the round's raw samples)].  A tuning round first
    discards everything recorded so far ([SampleCollection::clear]: the time
    samples *and* [alloc_info_by_sample]).  State: number of stored time
    samples, the map. *)
Definition record_alloc_round (st : nat * list (N * alloc_info)) (round : bool * list alloc_info)
  : nat * list (N * alloc_info) :=
  let st0 := if fst round then (0%nat, []) else st in
  ((fst st0 + length (snd round))%nat, record_alloc_infos (N.of_nat (fst st0)) (snd round) (snd st0)).

Definition record_alloc_rounds (rounds : list (bool * list alloc_info)) : nat * list (N * alloc_info) :=
  fold_left record_alloc_round rounds (0%nat, []).

(** The infos of the samples that are still stored after these rounds. *)
Definition kept_infos (rounds : list (bool * list alloc_info)) : list alloc_info :=
  fold_left (fun (kept : list alloc_info) (round : bool * list alloc_info) =>
               (if fst round then [] else kept) ++ snd round) rounds [].

Fixpoint list_eqb (l1 l2 : list N) : bool :=
  match l1, l2 with
  | [], [] => true
  | a :: r1, b :: r2 => (a =? b) && list_eqb r1 r2
  | _, _ => false
  end.

(** Specification for the allocation records of a run: [rows] = the tally
    figures each recorded sample's timed section produced.  A sample has a
    record iff one of its figures is not 0 (deallocation and shrink rows
    included), the record carries exactly its figures, and there is no other
    record. *)
Fixpoint alloc_records_from (k : N) (rows : list (list N)) (allocs : list (N * alloc_info)) : bool :=
  match rows with
  | [] => true
  | row :: r =>
      (match alist_find k allocs with
       | None => tally_row_empty row
       | Some i => negb (tally_row_empty row) && list_eqb (tallies_of_info i) row
       end) && alloc_records_from (k + 1) r allocs
  end.

Definition alloc_records_sb (rows : list (list N)) (allocs : list (N * alloc_info)) : bool :=
  alloc_records_from 0 rows allocs &&
  forallb (fun p => fst p <? N.of_nat (length rows)) allocs &&
  nodup_keys allocs.

(** * Which allocation blocks the table shows
    ([StatsSet<f64>::is_zero], [src/stats/mod.rs:60-67];
    [AllocTally<StatsSet<f64>>::is_zero], [src/alloc.rs:408-412]; the painter
    prints `max alloc:` iff [!max_alloc.size.is_zero()] and the block of an
    operation iff [!tally.is_zero()], [src/tree_painter.rs:199-238]) *)

(** [x == 0.0] *)
Definition xq_is_zero (x : xq) : bool := match x with Fin n _ => n =? 0 | _ => false end.

(** [StatsSet<f64>::is_zero]: all four columns are 0. *)
Definition set_is_zero (s : stats_set xq) : bool :=
  xq_is_zero (fastest s) && xq_is_zero (slowest s) && xq_is_zero (median s) && xq_is_zero (mean s).

(** Printed or not: `max alloc:`, then `grow:`, `shrink:`, `alloc:`, `dealloc:`. *)
Definition printed_blocks (st : stats) : list bool :=
  negb (set_is_zero (st_max_size st)) ::
  map (fun p => negb (set_is_zero (fst p) && set_is_zero (snd p))) (st_tallies st).

(** Specification: a block is shown iff some recorded allocation info has a
    non-zero figure of that kind. *)
Definition blocks_spec (inp : inputs) : list bool :=
  negb (total_of ai_max_size (in_allocs inp) =? 0) ::
  map (fun op => negb ((total_of (fun i => t_count (ai_tally op i)) (in_allocs inp) =? 0) &&
                       (total_of (fun i => t_size (ai_tally op i)) (in_allocs inp) =? 0))) all_ops.

(** * Admissible sorted views *)

Fixpoint sorted_by_snd (l : list (N * N)) : bool :=
  match l with
  | [] => true
  | x :: r => match r with
              | [] => true
              | y :: _ => (snd x <=? snd y) && sorted_by_snd r
              end
  end.

Definition pair_eqb (a b : N * N) : bool := (fst a =? fst b) && (snd a =? snd b).

Fixpoint remove_first (a : N * N) (l : list (N * N)) : option (list (N * N)) :=
  match l with
  | [] => None
  | x :: r => if pair_eqb a x then Some r
              else match remove_first a r with Some r' => Some (x :: r') | None => None end
  end.

Fixpoint is_perm (l1 l2 : list (N * N)) : bool :=
  match l1 with
  | [] => match l2 with [] => true | _ => false end
  | a :: r => match remove_first a l2 with Some l2' => is_perm r l2' | None => false end
  end.

(** [sv] is a possible result of [sorted_samples()] for these durations. *)
Definition admissibleb (durs : list N) (sv : list (N * N)) : bool :=
  is_perm sv (indexed durs) && sorted_by_snd sv.

(** * Declarative specification (independent of how [compute_stats] computes) *)

Fixpoint insert_val (x : N) (l : list N) : list N :=
  match l with
  | [] => [x]
  | y :: r => if x <=? y then x :: l else y :: insert_val x r
  end.
Fixpoint sort_vals (l : list N) : list N :=
  match l with [] => [] | x :: r => insert_val x (sort_vals r) end.

Definition list_min (l : list N) : N :=
  match l with [] => 0 | x :: r => fold_left N.min r x end.
Definition list_max (l : list N) : N := fold_left N.max l 0.

(** The value(s) in the middle of the sorted durations. *)
Definition mid_lo (durs : list N) : N :=
  let n := length durs in nth (if Nat.even n then n / 2 - 1 else n / 2)%nat (sort_vals durs) 0.
Definition mid_hi (durs : list N) : N :=
  let n := length durs in nth (n / 2)%nat (sort_vals durs) 0.

Definition spec_fastest (durs : list N) (s : N) : N := list_min durs / s.
Definition spec_slowest (durs : list N) (s : N) : N := list_max durs / s.
Definition spec_median (durs : list N) (s : N) : N :=
  match durs with
  | [] => 0
  | _ => if Nat.even (length durs) then ((mid_lo durs + mid_hi durs) / 2) / s else mid_hi durs / s
  end.
Definition spec_mean (durs : list N) (s : N) : N :=
  let c := s * N.of_nat (length durs) in
  if c =? 0 then 0 else sum_list durs / c.

(** * The counts a printed throughput cell may be based on
    (the counter figure of a column is that of a sample that supplied the
    column's time; tied samples leave a choice) *)

(** Counts of the samples whose duration is [d]. *)
Definition counts_with_duration (durs counts : list N) (d : N) : list N :=
  map snd (filter (fun p => fst p =? d) (combine durs counts)).

(** Even number of samples: averages over two different samples with the two
    middle durations. *)
Definition counts_of_middle_pair (durs counts : list N) : list N :=
  let ix := combine (indexed durs) counts in
  let lo := mid_lo durs in
  let hi := mid_hi durs in
  flat_map (fun p1 =>
    if snd (fst p1) =? lo then
      flat_map (fun p2 =>
        if negb (fst (fst p1) =? fst (fst p2)) && (snd (fst p2) =? hi)
        then [(snd p1 + snd p2) / 2] else []) ix
    else []) ix.

(** Admissible per-iteration counts under fastest, slowest, median, mean for a
    per-input counter with one stored count per sample. *)
Definition column_counts_spec (durs counts : list N) : list (list N) :=
  [ counts_with_duration durs counts (list_min durs);
    counts_with_duration durs counts (list_max durs);
    (if Nat.even (length durs) then counts_of_middle_pair durs counts
     else counts_with_duration durs counts (mid_hi durs));
    (match counts with [] => [] | _ => [sum_list counts / N.of_nat (length counts)] end) ].

(** The ten allocation figures of a sample index (0 everywhere when no
    allocation info was recorded for it): max_count, max_size, then
    (count, size) of grow, shrink, alloc, dealloc. *)
Definition figures_of_info (o : option alloc_info) : list N :=
  max_count_of o :: max_size_of o ::
  flat_map (fun op => [t_count (tally_of op o); t_size (tally_of op o)]) all_ops.

Definition figures_of_index (inp : inputs) (i : N) : list N :=
  figures_of_info (if i <? 2 ^ 32 then alist_find i (in_allocs inp) else None).

Definition column_of (sel : stats_set xq -> xq) (st : stats) : list xq :=
  sel (st_max_count st) :: sel (st_max_size st) ::
  flat_map (fun p => [sel (fst p); sel (snd p)]) (st_tallies st).

(** The counter figure of column [sel] of every reported kind is the count of
    the sample [s]. *)
Definition counters_from (sel : stats_set N -> N) (inp : inputs) (st : stats) (s : N * N) : bool :=
  forallb2 (fun ci o => match o with
                        | None => true
                        | Some set => match count_for ci s with
                                      | Some c => sel set =? c
                                      | None => false
                                      end
                        end) (in_counters inp) (st_counts st).

(** Column [sel] (fastest or slowest) shows the allocation and counter figures
    of one sample whose duration is [d], divided by the sample size. *)
Definition column_from_one (selq : stats_set xq -> xq) (seln : stats_set N -> N)
           (inp : inputs) (st : stats) (d : N) : bool :=
  existsb (fun s =>
             (snd s =? d) &&
             forallb2 (fun x v => xq_close x (Fin v (in_size inp)))
                      (column_of selq st) (figures_of_index inp (fst s)) &&
             counters_from seln inp st s)
          (indexed (in_durs inp)).

(** Median column for an even number of samples: two *different* samples with
    the two middle durations, figures averaged. *)
Definition median_from_two (inp : inputs) (st : stats) : bool :=
  let ix := indexed (in_durs inp) in
  let lo := mid_lo (in_durs inp) in
  let hi := mid_hi (in_durs inp) in
  existsb (fun s1 =>
    (snd s1 =? lo) &&
    existsb (fun s2 =>
      negb (fst s1 =? fst s2) && (snd s2 =? hi) &&
      forallb2 (fun x v => xq_close x (Fin v (2 * in_size inp)))
               (column_of median st)
               (map (fun p => fst p + snd p)
                    (combine (figures_of_index inp (fst s1)) (figures_of_index inp (fst s2)))) &&
      forallb2 (fun ci o => match o with
                            | None => true
                            | Some set => match count_for ci s1, count_for ci s2 with
                                          | Some c1, Some c2 => median set =? (c1 + c2) / 2
                                          | _, _ => false
                                          end
                            end) (in_counters inp) (st_counts st))
      ix) ix.

(** Whether a counter kind must be reported; [None] = the property does not
    say (per-input counts recorded for fewer samples than exist). *)
Definition expect_counter (n : nat) (ci : counter_in) : option bool :=
  if (n =? 0)%nat then Some false
  else if ci_input ci then
    (if (n <=? length (ci_counts ci))%nat then Some true
     else match ci_counts ci with [] => Some false | _ => None end)
  else Some (negb (length (ci_counts ci) =? 0)%nat).

(** The inputs the property quantifies over: a sample size of zero only with no
    samples, no u128/u64 overflow of the totals, one allocation entry per key,
    counter values that fit [MaxCountUInt = u64]. *)
Definition in_domain (inp : inputs) : bool :=
  (negb (in_size inp =? 0) || (length (in_durs inp) =? 0)%nat) &&
  (sum_list (in_durs inp) <? 2 ^ 128) &&
  (in_size inp * N.of_nat (length (in_durs inp)) <? 2 ^ 64) &&
  (in_size inp <? 2 ^ 32) &&
  nodup_keys (in_allocs inp) &&
  forallb (fun ci => forallb (fun c => c <? 2 ^ 64) (ci_counts ci)) (in_counters inp).

Definition all_xq (st : stats) : list xq :=
  column_of fastest st ++ column_of slowest st ++ column_of median st ++ column_of mean st.

Definition time_ok (inp : inputs) (st : stats) : bool :=
  let durs := in_durs inp in
  let s := in_size inp in
  let t := st_time st in
  (st_sample_count st =? N.of_nat (length durs) mod 2 ^ 32) &&
  (st_iter_count st =? s * N.of_nat (length durs)) &&
  (fastest t =? spec_fastest durs s) && (slowest t =? spec_slowest durs s) &&
  (median t =? spec_median durs s) && (mean t =? spec_mean durs s) &&
  (fastest t <=? median t) && (median t <=? slowest t) &&
  (fastest t <=? mean t) && (mean t <=? slowest t).

Definition means_ok (inp : inputs) (st : stats) : bool :=
  let tc := N.max (in_size inp * N.of_nat (length (in_durs inp))) 1 in
  forallb2 (fun x v => xq_close x (Fin v tc))
           (column_of mean st)
           (total_of ai_max_count (in_allocs inp) :: total_of ai_max_size (in_allocs inp) ::
            flat_map (fun op => [total_of (fun i => t_count (ai_tally op i)) (in_allocs inp);
                                 total_of (fun i => t_size (ai_tally op i)) (in_allocs inp)]) all_ops) &&
  forallb2 (fun ci o => match o with
                        | None => true
                        | Some set => negb (length (ci_counts ci) =? 0)%nat &&
                                      (mean set =? sum_list (ci_counts ci) / N.of_nat (length (ci_counts ci)))
                        end) (in_counters inp) (st_counts st).

Definition presence_ok (inp : inputs) (st : stats) : bool :=
  forallb2 (fun ci o => match expect_counter (length (in_durs inp)) ci with
                        | None => true
                        | Some b => Bool.eqb b (match o with Some _ => true | None => false end)
                        end) (in_counters inp) (st_counts st).

Definition provenance_ok (inp : inputs) (st : stats) : bool :=
  let durs := in_durs inp in
  match durs with
  | [] => forallb (fun x => xq_eqb x (Fin 0 1))
                  (column_of fastest st ++ column_of slowest st ++ column_of median st)
  | _ =>
      column_from_one fastest fastest inp st (list_min durs) &&
      column_from_one slowest slowest inp st (list_max durs) &&
      (if Nat.even (length durs) then median_from_two inp st
       else column_from_one median median inp st (mid_hi durs))
  end.

(** The boolean specification evaluated on what the implementation returned. *)
Definition stats_sb (inp : inputs) (out : res stats) : bool :=
  if negb (in_domain inp) then true
  else match out with
       | Panic _ => false
       | Ok st =>
           time_ok inp st &&
           forallb xq_is_fin (all_xq st) &&
           presence_ok inp st && means_ok inp st && provenance_ok inp st
       end.

(** Which clause fails (for the replay file). *)
Definition stats_sb_why (inp : inputs) (out : res stats) : N :=
  if negb (in_domain inp) then 0
  else match out with
       | Panic _ => 1
       | Ok st =>
           if negb (time_ok inp st) then 2
           else if negb (forallb xq_is_fin (all_xq st)) then 3
           else if negb (presence_ok inp st) then 4
           else if negb (means_ok inp st) then 5
           else if negb (provenance_ok inp st) then 6
           else 0
       end.

(** Specification of the stored per-input counter value. *)
Definition per_iter_sb (input_counts : list N) (ssize : N) (out : res N) : bool :=
  if (ssize =? 0) || negb (sum_list input_counts <? 2 ^ 128) then true
  else match out with
       | Ok v => v =? (sum_list input_counts / ssize) mod 2 ^ 64
       | Panic _ => false
       end.
