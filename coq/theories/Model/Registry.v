(** Registry: what the attribute macros put into the two global entry lists
    ([src/entry/mod.rs], [src/entry/generic.rs], [src/entry/meta.rs],
    [src/benchmark/args.rs]) and, further down, abstract benchmark programs with
    [expand] mirroring [macros/src/lib.rs] + [attr_options.rs] (C12).
    Executable definitions only; proofs are in Proofs/Tree*.v. *)
From DivanV Require Import Base.Res.
Local Open Scope N_scope.

(** Strings are byte lists (as in ocaml/prelude.ml). *)
Definition str := list N.

Fixpoint str_eqb (a b : str) : bool :=
  match a, b with
  | [], [] => true
  | x :: a', y :: b' => (x =? y) && str_eqb a' b'
  | _, _ => false
  end.

Definition ch_colon : N := 58.
Definition ch_lt : N := 60.
Definition s_colons : str := [58; 58].           (* "::" *)
Definition s_benchmark : str :=                   (* ": benchmark" *)
  [58; 32; 98; 101; 110; 99; 104; 109; 97; 114; 107].

(** [str::split("::")]: left to right, non-overlapping; never returns []. *)
Fixpoint split_cc (s : str) (acc : str) : list str :=
  match s with
  | [] => [rev acc]
  | c :: rest =>
      match rest with
      | c2 :: rest2 =>
          if (c =? ch_colon) && (c2 =? ch_colon) then rev acc :: split_cc rest2 []
          else split_cc rest (c :: acc)
      | [] => [rev (c :: acc)]
      end
  end.

(** [strip_prefix("r#").unwrap_or(name)] *)
Definition strip_raw (s : str) : str :=
  match s with
  | 114 :: 35 :: rest => rest
  | _ => s
  end.

(** [EntryType::display_name] (entry/generic.rs): drop leading [ident::]
    components of [std::any::type_name]; stop as soon as the text before the next
    "::" is not a plain identifier (alphanumeric or '_'), so that type syntax other
    than a path ([&T], [(A, B)], [[T; N]], [fn(A) -> B], [dyn Tr], [*const T], and
    anything after a '<') is kept whole (F13).  [cur] is the current candidate (the text
    after the last "::" stripped).  Bytes >= 128 (UTF-8 of non-ASCII identifier
    characters) count as identifier bytes. *)
Definition is_ident_byte (c : N) : bool :=
  ((48 <=? c) && (c <=? 57)) || ((65 <=? c) && (c <=? 90)) || ((97 <=? c) && (c <=? 122)) || (c =? 95) || (128 <=? c).

Fixpoint ty_scan (s cur : str) : str :=
  match s with
  | [] => cur
  | c :: rest =>
      if is_ident_byte c then ty_scan rest cur
      else match rest with
           | c2 :: rest2 =>
               if (c =? ch_colon) && (c2 =? ch_colon) then ty_scan rest2 rest2
               else cur
           | [] => cur
           end
  end.
Definition type_display (raw : str) : str := ty_scan raw raw.

(** The label function before the repair: strip up to the first '<' whatever precedes the "::". *)
Fixpoint ty_scan_old (s cur : str) : str :=
  match s with
  | [] => cur
  | c :: rest =>
      if c =? ch_lt then cur
      else match rest with
           | c2 :: rest2 =>
               if (c =? ch_colon) && (c2 =? ch_colon) then ty_scan_old rest2 rest2
               else ty_scan_old rest cur
           | [] => cur
           end
  end.
Definition type_display_old (raw : str) : str := ty_scan_old raw raw.

(** A type name with every [ident::] path qualifier deleted ("alloc::vec::Vec<alloc::string::String>"
    becomes "Vec<String>"): what a label must agree with.  [run]: the identifier
    characters read since the last non-identifier character, reversed. *)
Fixpoint unq (s run : str) : str :=
  match s with
  | [] => rev run
  | c :: rest =>
      if is_ident_byte c then unq rest (c :: run)
      else match rest with
           | c2 :: rest2 =>
               if (c =? ch_colon) && (c2 =? ch_colon) then unq rest2 []
               else rev run ++ c :: unq rest []
           | [] => rev run ++ [c]
           end
  end.
Definition unqualify (s : str) : str := unq s [].

(** [BenchOptions], as far as this group needs it: the [ignore] field, and
    [sample_count] as a representative of the other per-field options.
    [overwrite]: [self] wins over [other], field by field (benchmark/options.rs:51-72). *)
Record opts := { o_ignore : option bool; o_sample_count : option N }.

Definition opt_or {A} (a b : option A) : option A :=
  match a with Some _ => a | None => b end.

Definition opts_overwrite (self other : opts) : opts :=
  {| o_ignore := opt_or (o_ignore self) (o_ignore other);
     o_sample_count := opt_or (o_sample_count self) (o_sample_count other) |}.

Record meta := {
  m_display : str;
  m_raw : str;
  m_modpath : str;            (* module_path!(), unsplit *)
  m_line : N;
  m_col : N;
  m_opts : option opts        (* Option<LazyLock<BenchOptions>> *)
}.

Definition module_components (m : meta) : list str := split_cc (m_modpath m) [].

(** Runtime argument values and their [ToString] / [Debug] rendering
    (the harness uses integers, strings/chars and a Debug-only wrapper). *)
(** [VBlank]: an item type whose [ToString] rendering is the empty string whatever the value
    (several distinct values under the same, empty, label). *)
Inductive value := VInt (z : Z) | VStr (s : str) | VDbg (z : Z) | VBlank (z : Z).

Fixpoint dec_digits (fuel : nat) (n : N) (acc : str) : str :=
  match fuel with
  | O => acc
  | S f => let acc' := (48 + n mod 10) :: acc in
           if n / 10 =? 0 then acc' else dec_digits f (n / 10) acc'
  end.
Definition dec_of_N (n : N) : str := dec_digits (S (N.to_nat (N.log2 n))) n [].
Definition dec_of_Z (z : Z) : str :=
  match z with
  | Zneg p => 45 :: dec_of_N (Npos p)
  | _ => dec_of_N (Z.to_N z)
  end.

Definition value_to_string (v : value) : str :=
  match v with
  | VInt z => dec_of_Z z
  | VStr s => s
  | VDbg z => [68; 98; 103; 40] ++ dec_of_Z z ++ [41]     (* "Dbg(" .. ")" *)
  | VBlank _ => []
  end.

(** [BenchEntryRunner]: [Plain(fn(Bencher))] or [Args(fn() -> BenchArgsRunner)].
    An [Args] runner refers to one [BenchArgs] static ([owner]: shared by all
    generic instantiations of one function) whose [OnceLock] holds the leaked
    argument slice [vals] and the parallel names slice [map value_to_string vals]. *)
Inductive runner := RPlain | RArgs (owner : N) (vals : list value).

Definition arg_names (vals : list value) : list str := map value_to_string vals.

Record bench_entry := { b_id : N; b_meta : meta; b_runner : runner }.

(** [GenericBenchEntry]: a type, a const, or both; ([None], [None]) is
    [unreachable!()] in [raw_name]/[display_name] and is never emitted by the
    macro ([make_generic_bench_entry] always receives at least one [Some]), so
    it is not representable here. *)
Inductive gkind := GType (ty : str) | GConst (ty : option str) (c : str).

Record gen_entry := { ge_id : N; ge_runner : runner; ge_kind : gkind }.

Record group_entry := {
  g_id : N;
  g_meta : meta;
  g_generic : option (list (list gen_entry))   (* outer: types, inner: consts *)
}.

(** [AnyBenchEntry] *)
Inductive any_entry := ABench (b : bench_entry) | AGeneric (g : group_entry) (e : gen_entry).

Definition entry_id (e : any_entry) : N :=
  match e with ABench b => b_id b | AGeneric _ e => ge_id e end.
Definition entry_runner (e : any_entry) : runner :=
  match e with ABench b => b_runner b | AGeneric _ e => ge_runner e end.
Definition entry_meta (e : any_entry) : meta :=
  match e with ABench b => b_meta b | AGeneric g _ => g_meta g end.
Definition gen_display (e : gen_entry) : str :=
  match ge_kind e with GConst _ c => c | GType t => type_display t end.
Definition gen_raw (e : gen_entry) : str :=
  match ge_kind e with GConst _ c => c | GType t => t end.
Definition entry_display (e : any_entry) : str :=
  match e with ABench b => m_display (b_meta b) | AGeneric _ e => gen_display e end.
Definition entry_raw (e : any_entry) : str :=
  match e with ABench b => m_raw (b_meta b) | AGeneric _ e => gen_raw e end.

(** [GenericBenchEntry::path_components]: module path, then the function's raw
    name, then (only for const entries that also have a type) the type's
    display name. *)
Definition entry_path (e : any_entry) : list str :=
  match e with
  | ABench b => module_components (b_meta b)
  | AGeneric g e =>
      module_components (g_meta g) ++ [m_raw (g_meta g)] ++
      match ge_kind e with
      | GConst (Some t) _ => [type_display t]
      | _ => []
      end
  end.

(** [GroupEntry::generic_benches_iter] *)
Definition generic_benches (g : group_entry) : list any_entry :=
  match g_generic g with
  | None => []
  | Some rows => map (AGeneric g) (concat rows)
  end.

(** The entry sequence [run_action] feeds to [from_benches] (divan.rs:101-115). *)
Definition all_entries (benches : list bench_entry) (groups : list group_entry) : list any_entry :=
  map ABench benches ++ flat_map generic_benches groups.

(** * Abstract benchmark programs and what the attribute macros register for
    them ([macros/src/lib.rs:84-500], [attr_options.rs:365-395]) — C12. *)

Inductive consts_spec :=
| CLit (cs : list str)     (* consts = [a, b, c]  (array literal) *)
| CExt (cs : list str).    (* consts = EXPR       (any other expression; values after evaluation) *)

Record bench_decl := {
  bd_raw : str;                    (* the function identifier as written ("r#loop" stays raw) *)
  bd_name : option str;            (* name = "..." *)
  bd_line : N;
  bd_col : N;
  bd_opts : option opts;           (* Some as soon as any option / counter / #[ignore] is present *)
  bd_args : option (list value);   (* args = ..., evaluated *)
  bd_types : option (list str);    (* types = [..]: raw type names *)
  bd_consts : option consts_spec
}.

Record group_decl := {
  gd_name : option str;
  gd_line : N;
  gd_col : N;
  gd_opts : option opts
}.

(** Items of a module: a benchmark function, a module (with or without
    [#[divan::bench_group]]), or a function body containing further items
    ([module_path!()] inside a function body is the enclosing module's). *)
Inductive pitem :=
| PBench (b : bench_decl)
| PMod (raw : str) (group : option group_decl) (items : list pitem)
| PFn (items : list pitem).

Definition display_of (raw : str) (name : option str) : str :=
  match name with Some n => n | None => strip_raw raw end.

Definition bench_meta (modpath : str) (b : bench_decl) : meta :=
  {| m_display := display_of (bd_raw b) (bd_name b); m_raw := bd_raw b; m_modpath := modpath;
     m_line := bd_line b; m_col := bd_col b; m_opts := bd_opts b |}.

Definition group_meta (modpath raw : str) (g : group_decl) : meta :=
  {| m_display := display_of raw (gd_name g); m_raw := raw; m_modpath := modpath;
     m_line := gd_line g; m_col := gd_col g; m_opts := gd_opts g |}.

(** [GenericOptions::is_empty]: exclusively [types = []] or [consts = []] (literal). *)
Definition generic_is_empty (types : option (list str)) (consts : option consts_spec) : bool :=
  match types, consts with
  | Some [], None => true
  | None, Some (CLit []) => true
  | _, _ => false
  end.

(** [GenericOptions::types_iter]: the types, or a single [None]. *)
Definition types_iter (types : option (list str)) : list (option str) :=
  match types with None => [None] | Some l => map Some l end.

Definition max_extern_count : nat := 20.

(** External consts: 20 candidate entries [CONSTS[if i < COUNT { i } else { 0 }]],
    truncated to COUNT by [shrink_array]; more than 20 values: the macro's
    [panic!] at compile time; no value at all: index 0 out of bounds in the
    constant evaluation. *)
Definition extern_consts (cs : list str) : res (list str) :=
  match cs with
  | [] => Panic OutOfBounds
  | c0 :: _ =>
      if (max_extern_count <? length cs)%nat then Panic Other
      else Ok (firstn (length cs)
                 (map (fun i => match nth_error cs (if (i <? length cs)%nat then i else O) with
                                | Some c => c
                                | None => c0       (* not reachable: the index is in range *)
                                end)
                      (seq 0 max_extern_count)))
  end.

Definition runner_of (owner : N) (args : option (list value)) : runner :=
  match args with None => RPlain | Some vals => RArgs owner vals end.

(** Number the generic entries of one function row by row from [first]. *)
Fixpoint number_row (run : runner) (first : N) (kinds : list gkind) : list gen_entry :=
  match kinds with
  | [] => []
  | k :: tl => {| ge_id := first; ge_runner := run; ge_kind := k |} :: number_row run (first + 1) tl
  end.
Fixpoint number_rows (run : runner) (first : N) (rows : list (list gkind)) : list (list gen_entry) :=
  match rows with
  | [] => []
  | r :: tl => number_row run first r :: number_rows run (first + N.of_nat (length r)) tl
  end.

Definition row_count (rows : list (list gkind)) : N := N.of_nat (length (concat rows)).

(** One [#[divan::bench]]: nothing, one [BenchEntry], or one [GroupEntry] with
    generic entries; [next] is the next free identity. *)
Definition expand_bench (modpath : str) (next : N) (b : bench_decl)
  : res (list bench_entry * list group_entry * N) :=
  if generic_is_empty (bd_types b) (bd_consts b) then Ok ([], [], next)
  else
    let m := bench_meta modpath b in
    let group rows :=
      let run := runner_of next (bd_args b) in
      Ok ([], [{| g_id := next; g_meta := m; g_generic := Some (number_rows run (next + 1) rows) |}],
          next + 1 + row_count rows) in
    match bd_consts b with
    | None =>
        match bd_types b with
        | None => Ok ([{| b_id := next; b_meta := m; b_runner := runner_of next (bd_args b) |}], [], next + 1)
        | Some ts => group [map GType ts]
        end
    | Some (CLit cs) => group (map (fun t => map (GConst t) cs) (types_iter (bd_types b)))
    | Some (CExt cs) =>
        do cs' <- extern_consts cs;
        group (map (fun t => map (GConst t) cs') (types_iter (bd_types b)))
    end.

Definition child_modpath (modpath raw : str) : str := modpath ++ s_colons ++ raw.

(** How [module_path!()] spells a module identifier ([spell]): as written, except
    that a raw identifier loses its "r#" when the name is not a keyword in the
    crate's edition (edition 2015: try, async, await, dyn).  rustc's behaviour,
    taken as is. *)
Definition spell_2015 (raw : str) : str :=
  let n := strip_raw raw in
  if str_eqb n [116; 114; 121] || str_eqb n [97; 115; 121; 110; 99] || str_eqb n [97; 119; 97; 105; 116] || str_eqb n [100; 121; 110]
  then n else raw.

Fixpoint expand_item (spell : str -> str) (modpath : str) (next : N) (it : pitem) {struct it}
  : res (list bench_entry * list group_entry * N) :=
  match it with
  | PBench b => expand_bench modpath next b
  | PMod raw g items =>
      let '(gs0, next0) :=
        match g with
        | None => ([], next)
        | Some gd => ([{| g_id := next; g_meta := group_meta modpath raw gd; g_generic := None |}], next + 1)
        end in
      do r <- (fix go (l : list pitem) (next : N) : res (list bench_entry * list group_entry * N) :=
                 match l with
                 | [] => Ok ([], [], next)
                 | x :: tl =>
                     do r1 <- expand_item spell (child_modpath modpath (spell raw)) next x;
                     do r2 <- go tl (snd r1);
                     Ok (fst (fst r1) ++ fst (fst r2), snd (fst r1) ++ snd (fst r2), snd r2)
                 end) items next0;
      Ok (fst (fst r), gs0 ++ snd (fst r), snd r)
  | PFn items =>
      (fix go (l : list pitem) (next : N) : res (list bench_entry * list group_entry * N) :=
         match l with
         | [] => Ok ([], [], next)
         | x :: tl =>
             do r1 <- expand_item spell modpath next x;
             do r2 <- go tl (snd r1);
             Ok (fst (fst r1) ++ fst (fst r2), snd (fst r1) ++ snd (fst r2), snd r2)
         end) items next
  end.

(** A crate: the items of its root module. *)
Definition expand (spell : str -> str) (crate : str) (items : list pitem) : res (list bench_entry * list group_entry) :=
  do r <- expand_item spell crate 0 (PFn items);
  Ok (fst (fst r), snd (fst r)).
