(** Registry: what the attribute macros put into the two global entry lists
    ([src/entry/mod.rs], [src/entry/generic.rs], [src/entry/meta.rs],
    [src/benchmark/args.rs]) and, further down, abstract benchmark programs with
    [expand] mirroring [macros/src/lib.rs] + [attr_options.rs] (C12).
    Executable definitions only; proofs are in Proofs/Tree*.v. *)
From DivanV Require Import Base.Res.
Local Open Scope N_scope.

(** Strings are byte lists (as in ocaml/prelude.ml). *)
Definition str := list N.

Fixpoint str_eqb (a b : str) : bool :=
  match a, b with
  | [], [] => true
  | x :: a', y :: b' => (x =? y) && str_eqb a' b'
  | _, _ => false
  end.

Definition ch_colon : N := 58.
Definition ch_lt : N := 60.
Definition s_colons : str := [58; 58].           (* "::" *)
Definition s_benchmark : str :=                   (* ": benchmark" *)
  [58; 32; 98; 101; 110; 99; 104; 109; 97; 114; 107].

(** [str::split("::")]: left to right, non-overlapping; never returns []. *)
Fixpoint split_cc (s : str) (acc : str) : list str :=
  match s with
  | [] => [rev acc]
  | c :: rest =>
      match rest with
      | c2 :: rest2 =>
          if (c =? ch_colon) && (c2 =? ch_colon) then rev acc :: split_cc rest2 []
          else split_cc rest (c :: acc)
      | [] => [rev (c :: acc)]
      end
  end.

(** [strip_prefix("r#").unwrap_or(name)] *)
Definition strip_raw (s : str) : str :=
  match s with
  | 114 :: 35 :: rest => rest
  | _ => s
  end.

(** [EntryType::display_name] (entry/generic.rs:101-114): drop leading module
    components, but never look past the first '<'.  [cur] is the current
    candidate (the text after the last "::" seen). *)
Fixpoint ty_scan (s cur : str) : str :=
  match s with
  | [] => cur
  | c :: rest =>
      if c =? ch_lt then cur
      else match rest with
           | c2 :: rest2 =>
               if (c =? ch_colon) && (c2 =? ch_colon) then ty_scan rest2 rest2
               else ty_scan rest cur
           | [] => cur
           end
  end.
Definition type_display (raw : str) : str := ty_scan raw raw.

(** [BenchOptions], as far as this group needs it: the [ignore] field.
    [overwrite]: [self] wins over [other] (benchmark/options.rs:51-72). *)
Record opts := { o_ignore : option bool }.

Definition opt_or {A} (a b : option A) : option A :=
  match a with Some _ => a | None => b end.

Definition opts_overwrite (self other : opts) : opts :=
  {| o_ignore := opt_or (o_ignore self) (o_ignore other) |}.

Record meta := {
  m_display : str;
  m_raw : str;
  m_modpath : str;            (* module_path!(), unsplit *)
  m_line : N;
  m_col : N;
  m_opts : option opts        (* Option<LazyLock<BenchOptions>> *)
}.

Definition module_components (m : meta) : list str := split_cc (m_modpath m) [].

(** Runtime argument values and their [ToString] / [Debug] rendering
    (the harness uses integers, strings/chars and a Debug-only wrapper). *)
Inductive value := VInt (z : Z) | VStr (s : str) | VDbg (z : Z).

Fixpoint dec_digits (fuel : nat) (n : N) (acc : str) : str :=
  match fuel with
  | O => acc
  | S f => let acc' := (48 + n mod 10) :: acc in
           if n / 10 =? 0 then acc' else dec_digits f (n / 10) acc'
  end.
Definition dec_of_N (n : N) : str := dec_digits (S (N.to_nat (N.log2 n))) n [].
Definition dec_of_Z (z : Z) : str :=
  match z with
  | Zneg p => 45 :: dec_of_N (Npos p)
  | _ => dec_of_N (Z.to_N z)
  end.

Definition value_to_string (v : value) : str :=
  match v with
  | VInt z => dec_of_Z z
  | VStr s => s
  | VDbg z => [68; 98; 103; 40] ++ dec_of_Z z ++ [41]     (* "Dbg(" .. ")" *)
  end.

(** [BenchEntryRunner]: [Plain(fn(Bencher))] or [Args(fn() -> BenchArgsRunner)].
    An [Args] runner refers to one [BenchArgs] static ([owner]: shared by all
    generic instantiations of one function) whose [OnceLock] holds the leaked
    argument slice [vals] and the parallel names slice [map value_to_string vals]. *)
Inductive runner := RPlain | RArgs (owner : N) (vals : list value).

Definition arg_names (vals : list value) : list str := map value_to_string vals.

Record bench_entry := { b_id : N; b_meta : meta; b_runner : runner }.

(** [GenericBenchEntry]: a type, a const, or both; ([None], [None]) is
    [unreachable!()] in [raw_name]/[display_name] and is never emitted by the
    macro ([make_generic_bench_entry] always receives at least one [Some]), so
    it is not representable here. *)
Inductive gkind := GType (ty : str) | GConst (ty : option str) (c : str).

Record gen_entry := { ge_id : N; ge_runner : runner; ge_kind : gkind }.

Record group_entry := {
  g_id : N;
  g_meta : meta;
  g_generic : option (list (list gen_entry))   (* outer: types, inner: consts *)
}.

(** [AnyBenchEntry] *)
Inductive any_entry := ABench (b : bench_entry) | AGeneric (g : group_entry) (e : gen_entry).

Definition entry_id (e : any_entry) : N :=
  match e with ABench b => b_id b | AGeneric _ e => ge_id e end.
Definition entry_runner (e : any_entry) : runner :=
  match e with ABench b => b_runner b | AGeneric _ e => ge_runner e end.
Definition entry_meta (e : any_entry) : meta :=
  match e with ABench b => b_meta b | AGeneric g _ => g_meta g end.
Definition gen_display (e : gen_entry) : str :=
  match ge_kind e with GConst _ c => c | GType t => type_display t end.
Definition gen_raw (e : gen_entry) : str :=
  match ge_kind e with GConst _ c => c | GType t => t end.
Definition entry_display (e : any_entry) : str :=
  match e with ABench b => m_display (b_meta b) | AGeneric _ e => gen_display e end.
Definition entry_raw (e : any_entry) : str :=
  match e with ABench b => m_raw (b_meta b) | AGeneric _ e => gen_raw e end.

(** [GenericBenchEntry::path_components]: module path, then the function's raw
    name, then (only for const entries that also have a type) the type's
    display name. *)
Definition entry_path (e : any_entry) : list str :=
  match e with
  | ABench b => module_components (b_meta b)
  | AGeneric g e =>
      module_components (g_meta g) ++ [m_raw (g_meta g)] ++
      match ge_kind e with
      | GConst (Some t) _ => [type_display t]
      | _ => []
      end
  end.

(** [GroupEntry::generic_benches_iter] *)
Definition generic_benches (g : group_entry) : list any_entry :=
  match g_generic g with
  | None => []
  | Some rows => map (AGeneric g) (concat rows)
  end.

(** The entry sequence [run_action] feeds to [from_benches] (divan.rs:101-115). *)
Definition all_entries (benches : list bench_entry) (groups : list group_entry) : list any_entry :=
  map ABench benches ++ flat_map generic_benches groups.
