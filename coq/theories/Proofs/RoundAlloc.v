(** Group [round] (C08): a sample reports exactly the operations its own
    thread performed between its clear and its snapshot. *)
From Coq Require Import List Arith Bool Lia NArith.
From DivanV Require Import Model.Round Proofs.RoundBase Proofs.RoundInv.
Import ListNotations.

Lemma window_snoc : forall c i r a k,
  window c i r a (S k) = window c i r a k ++ allocs_at c i r (a + k).
Proof.
  intros. unfold window. rewrite seq_S, flat_map_app. cbn. rewrite app_nil_r. reflexivity.
Qed.

Definition tally_ok (c : config) (r i : nat) (th : thread) : Prop :=
  let n := ssize c r in
  match md th with
  | Run | Returned =>
    (n + 2 <= pc th -> tally th = window c i r (n + 2) (pc th - (n + 2))) /\
    (2 * n + 6 < pc th -> saved th = own_allocs c i r)
  | _ => True
  end.

Lemma allocs_at_nouser : forall c i r p, userpos (ssize c r) (shp c) p = false -> allocs_at c i r p = [].
Proof. intros. unfold allocs_at. rewrite H. reflexivity. Qed.
Lemma allocs_at_user : forall c i r p, userpos (ssize c r) (shp c) p = true -> allocs_at c i r p = allocs c i r p.
Proof. intros. unfold allocs_at. rewrite H. reflexivity. Qed.

Lemma iswait_nouser : forall n sh p, iswait n p = true -> userpos n sh p = false.
Proof.
  intros n sh p W. destruct (userpos n sh p) eqn:U; auto. apply userpos_nowait in U. congruence.
Qed.

(** Advancing over a position that is not user code and neither clear nor snapshot. *)
Lemma tally_ok_skip : forall c r i th th',
  md th = Run -> md th' = Run -> pc th' = S (pc th) -> tally th' = tally th -> saved th' = saved th ->
  userpos (ssize c r) (shp c) (pc th) = false ->
  pc th <> ssize c r + 1 -> pc th <> 2 * ssize c r + 6 ->
  tally_ok c r i th -> tally_ok c r i th'.
Proof.
  intros c r i th th' M M' P T SV U N1 N2 H. unfold tally_ok in *. rewrite M in H. rewrite M', P, T, SV.
  destruct H as [A B]. split.
  - intros G. replace (S (pc th) - (ssize c r + 2)) with (S (pc th - (ssize c r + 2))) by lia.
    rewrite window_snoc. replace (ssize c r + 2 + (pc th - (ssize c r + 2))) with (pc th) by lia.
    rewrite allocs_at_nouser by auto. rewrite app_nil_r. apply A. lia.
  - intros G. apply B. lia.
Qed.

Lemma tally_ok_tcase : forall c r i th b th' b',
  thread_ok (ssize c r) (shp c) (bgen b) th ->
  tcase c r i th b th' b' -> tally_ok c r i th -> tally_ok c r i th'.
Proof.
  intros c r i th b th' b' OK H T.
  destruct H as [a M BL NE|a M BL NE|M BL PL|M BL W PL NL|M BL W PL LT|M BL U PL FL|a M BL NA W PL FL|M BL R0|k M BL RK NL|k M BL RK LT];
    try (unfold tally_ok in *; cbn [pc md blk tally saved set_md set_blk set_rem next_pc] in *; rewrite ?M in *; exact T);
    try (unfold tally_ok; cbn [md set_md set_blk set_rem]; rewrite ?M; destruct (guard c); exact I).
  - (* leave a wait *)
    unfold thread_ok in OK. rewrite M, BL in OK. destruct OK as (W & _).
    pose proof (iswait_cases _ _ W). eapply tally_ok_skip; eauto; try reflexivity; try lia.
    apply iswait_nouser. exact W.
  - (* releasing wait *)
    pose proof (iswait_cases _ _ W). eapply tally_ok_skip; eauto; try reflexivity; try lia.
    apply iswait_nouser. exact W.
  - (* non-wait action *)
    destruct (prog_kind _ _ _ _ NA) as (_ & _ & F & CL & SN).
    unfold tally_ok in *. rewrite exec_md, exec_pc, M in *. destruct T as [A B].
    set (n := ssize c r) in *.
    destruct (Nat.eq_dec (pc th) (n + 1)) as [E1|E1].
    { (* clear *) apply CL in E1. subst a. cbn [exec tally saved]. split; intros G.
      - replace (S (pc th) - (n + 2)) with 0 by (destruct CL as [CL _]; specialize (CL eq_refl); lia). reflexivity.
      - destruct CL as [CL _]; specialize (CL eq_refl); lia. }
    destruct (Nat.eq_dec (pc th) (2 * n + 6)) as [E2|E2].
    { (* snapshot *) pose proof E2 as E2'. apply SN in E2. subst a. cbn [exec tally saved]. split; intros G.
      - replace (S (pc th) - (n + 2)) with (S (pc th - (n + 2))) by lia.
        rewrite window_snoc. replace (n + 2 + (pc th - (n + 2))) with (pc th) by lia.
        rewrite allocs_at_nouser, app_nil_r; [apply A; lia|].
        exact (eq_sym F).
      - rewrite A by lia. unfold own_allocs. fold n. f_equal. lia. }
    assert (a <> AClear) as NC by (intros X; apply CL in X; lia).
    assert (a <> ASnapshot) as NS by (intros X; apply SN in X; lia).
    destruct (userpos n (shp c) (pc th)) eqn:U.
    + (* user code: appends its operations *)
      assert (tally (exec a (allocs c i r (pc th)) th) = tally th ++ allocs c i r (pc th) /\
              saved (exec a (allocs c i r (pc th)) th) = saved th) as [ET ES].
      { destruct a; cbn in F; try discriminate; cbn; auto. }
      rewrite ET, ES. split; intros G.
      * assert (n + 2 <= pc th) as G' by lia.
        replace (S (pc th) - (n + 2)) with (S (pc th - (n + 2))) by lia.
        rewrite window_snoc. replace (n + 2 + (pc th - (n + 2))) with (pc th) by lia.
        rewrite allocs_at_user by auto. rewrite A by lia. reflexivity.
      * apply B. lia.
    + assert (tally (exec a (allocs c i r (pc th)) th) = tally th /\
              saved (exec a (allocs c i r (pc th)) th) = saved th) as [ET ES].
      { destruct a; cbn in F; try discriminate; try congruence; cbn; auto. }
      rewrite ET, ES. split; intros G.
      * assert (n + 2 <= pc th) as G' by lia.
        replace (S (pc th) - (n + 2)) with (S (pc th - (n + 2))) by lia.
        rewrite window_snoc. replace (n + 2 + (pc th - (n + 2))) with (pc th) by lia.
        rewrite allocs_at_nouser by auto. rewrite app_nil_r. apply A. lia.
      * apply B. lia.
Qed.

Definition TInv (c : config) (st : state) : Prop :=
  gp st = GRun -> forall i th, nth_error (ths st) i = Some th -> tally_ok c (round st) i th.

Lemma tinv_step : forall c st l st',
  fixed_code c -> Inv c st -> TInv c st -> step c st l = Some st' -> TInv c st'.
Proof.
  intros c st l st' GD [L K] T ST. apply (step_cases _ _ _ _ (proj2 GD)) in ST.
  destruct ST as [G R|G R|k G F X|G F X|i th th' b' G N TC]; unfold TInv; cbn [gp round ths]; try discriminate.
  - intros _ i th Hi. apply nth_error_In in Hi. apply in_map_iff in Hi. destruct Hi as (y & <- & _).
    unfold tally_ok, fresh; cbn. split; intros; lia.
  - intros _ j y Hj. destruct (K G) as (_ & _ & C).
    destruct (nth_error_upd_inv _ _ _ _ _ _ Hj) as [[-> ->]|[NE Hj']]; [|apply T; auto].
    eapply tally_ok_tcase; eauto. apply C. eapply nth_error_In; eauto.
Qed.

Lemma tinv_reachable : forall c st,
  1 <= nthreads c -> fixed_code c -> reachable c st -> TInv c st.
Proof.
  intros c st T1 GD [tr E].
  assert (forall s t s', exec_from c s t s' -> Inv c s -> TInv c s -> TInv c s') as G.
  { intros s t s' X. induction X; auto. intros IS TS. apply IHX.
    - eapply inv_step; eauto.
    - eapply tinv_step; eauto. }
  eapply G; eauto; [apply inv_init|]. unfold TInv. cbn. discriminate.
Qed.

(** The sample a thread hands back contains exactly its own operations of the
    timed section of this round. *)
Theorem own_allocs_reachable : forall c st i th,
  1 <= nthreads c -> fixed_code c -> reachable c st ->
  gp st = GRun -> nth_error (ths st) i = Some th -> md th = Returned ->
  result th = Some (own_allocs c i (round st)).
Proof.
  intros c st i th T1 GD R G N M.
  pose proof (tinv_reachable _ _ T1 GD R G i th N) as T.
  pose proof (inv_reachable _ _ T1 GD R) as [_ K]. destruct (K G) as (_ & _ & C).
  pose proof (C th (nth_error_In _ _ N)) as OK.
  unfold tally_ok in T. unfold thread_ok in OK. unfold result. rewrite M in *.
  destruct (blk th); [contradiction|]. destruct OK as (_ & _ & PL). unfold plen in PL.
  destruct T as [_ B]. rewrite B by lia. reflexivity.
Qed.

Lemma flat_map_ext_in : forall A B (f g : A -> list B) l,
  (forall x, In x l -> f x = g x) -> flat_map f l = flat_map g l.
Proof.
  intros A B f g l. induction l as [|h t IH]; intros H; [reflexivity|]. cbn.
  rewrite (H h (or_introl eq_refl)). f_equal. apply IH. intros. apply H. right; auto.
Qed.

(** ... which are the operations of its own calls of the benchmarked function. *)
Lemma own_allocs_calls : forall c i r,
  own_allocs c i r = flat_map (allocs c i r) (seq (ssize c r + 4) (ssize c r)).
Proof.
  intros c i r. unfold own_allocs, window. set (n := ssize c r).
  replace (n + 4) with (2 + (n + 2)) at 1 by lia.
  rewrite seq_app, flat_map_app. replace (n + 2 + 2) with (n + 4) by lia.
  rewrite seq_app, flat_map_app.
  assert (forall p, userpos n (shp c) p = false -> allocs_at c i r p = []) as NU
    by (intros; apply allocs_at_nouser; auto).
  assert (userpos n (shp c) (n + 2) = false /\ userpos n (shp c) (S (n + 2)) = false /\
          userpos n (shp c) (n + 4 + n) = false /\ userpos n (shp c) (S (n + 4 + n)) = false) as (U1 & U2 & U3 & U4).
  { generalize (ndrops n (shp c)) as d. intros d. unfold userpos, plen. repeat split;
      repeat match goal with
             | |- context[?x <=? ?y] => destruct (Nat.leb_spec x y); try lia
             | |- context[?x <? ?y] => destruct (Nat.ltb_spec x y); try lia
             end; reflexivity. }
  cbn [seq flat_map]. rewrite (NU _ U1), (NU _ U2), (NU _ U3), (NU _ U4). cbn [app]. rewrite app_nil_r.
  apply flat_map_ext_in. intros p HI. apply in_seq in HI. apply allocs_at_user.
  generalize (ndrops n (shp c)) as d. intros d. unfold userpos, plen.
  repeat match goal with
         | |- context[?x <=? ?y] => destruct (Nat.leb_spec x y); try lia
         | |- context[?x <? ?y] => destruct (Nat.ltb_spec x y); try lia
         end; reflexivity.
Qed.

(** Nothing another thread does can show up: two configurations that agree on
    thread i's own operations in round r give thread i the same sample. *)
Lemma own_allocs_only_own : forall c c' i r,
  ssize c r = ssize c' r ->
  (forall p, allocs c i r p = allocs c' i r p) ->
  own_allocs c i r = own_allocs c' i r.
Proof.
  intros c c' i r SZ A. rewrite !own_allocs_calls, SZ. apply flat_map_ext_in. intros; apply A.
Qed.
