(** Provenance of the allocation and counter figures of [compute_stats], the
    counter means, and the proof that the model satisfies the boolean
    specification [stats_sb] used by the violation search. *)
From DivanV Require Import Base.Res Model.Stats Proofs.StatsLists Proofs.Stats.
From Coq Require Import ZifyN ZifyBool ZifyNat Permutation Sorted.
Local Open Scope N_scope.
Ltac Zify.zify_post_hook ::= Z.div_mod_to_equations.
Local Arguments N.add : simpl never.
Local Arguments N.sub : simpl never.
Local Arguments N.mul : simpl never.
Local Arguments N.div : simpl never.
Local Arguments N.modulo : simpl never.
Local Arguments N.pow : simpl never.
Local Arguments N.max : simpl never.
Local Arguments N.min : simpl never.

(** * Indices of the samples *)

Lemma index_from_range k l x : In x (index_from k l) -> k <= fst x < k + N.of_nat (length l).
Proof.
  revert k. induction l as [|a r IH]; intros k H; cbn [index_from] in H; [destruct H|].
  cbn [length]. destruct H as [<-|H]; [cbn [fst]; lia|]. specialize (IH _ H). lia.
Qed.

Lemma index_from_nodup k l : NoDup (map fst (index_from k l)).
Proof.
  revert k. induction l as [|a r IH]; intros k; cbn [index_from map]; constructor; [|apply IH].
  cbn [fst]. intros H. apply in_map_iff in H. destruct H as (x & E & H).
  apply index_from_range in H. lia.
Qed.

Lemma admissible_perm durs sv : admissibleb durs sv = true -> Permutation sv (indexed durs).
Proof. intros H. apply admissibleb_iff in H. apply H. Qed.

Lemma admissible_nodup durs sv : admissibleb durs sv = true -> NoDup (map fst sv).
Proof.
  intros H. eapply Permutation_NoDup; [apply Permutation_sym, Permutation_map, admissible_perm; exact H|].
  apply index_from_nodup.
Qed.

Lemma admissible_in durs sv x : admissibleb durs sv = true -> In x sv -> In x (indexed durs).
Proof. intros H Hx. eapply Permutation_in; [apply admissible_perm; exact H|exact Hx]. Qed.

Lemma admissible_index_lt durs sv x :
  admissibleb durs sv = true -> In x sv -> fst x < N.of_nat (length durs).
Proof. intros H Hx. apply (admissible_in _ _ _ H), index_from_range in Hx. lia. Qed.

Lemma distinct_positions durs sv a b x y :
  admissibleb durs sv = true -> a <> b -> nth_error sv a = Some x -> nth_error sv b = Some y -> fst x <> fst y.
Proof.
  intros H Hab Hx Hy E. apply admissible_nodup in H. apply Hab.
  assert (a < length (map fst sv))%nat as La by (rewrite map_length; apply nth_error_Some; congruence).
  rewrite NoDup_nth_error in H. apply H; [exact La|].
  rewrite !nth_error_map, Hx, Hy. cbn. f_equal. exact E.
Qed.

(** * Columns of the assembled statistics *)

Definition ssz_of (inp : inputs) : xq := xq_of_N (N.max (in_size inp) 1).

Lemma sample_alloc_info_some allocs x :
  sample_alloc_info allocs (Some x) = if fst x <? 2 ^ 32 then alist_find (fst x) allocs else None.
Proof. destruct x; reflexivity. Qed.

Lemma column_of_fastest inp sv mids tc mn mx md me counts :
  column_of fastest (assemble true inp sv mids tc mn mx md me counts) =
  map (fun v => per_size v (ssz_of inp))
      (figures_of_info (sample_alloc_info (in_allocs inp) (hd_error sv))).
Proof. reflexivity. Qed.

Lemma column_of_slowest inp sv mids tc mn mx md me counts :
  column_of slowest (assemble true inp sv mids tc mn mx md me counts) =
  map (fun v => per_size v (ssz_of inp))
      (figures_of_info (sample_alloc_info (in_allocs inp) (last_error sv))).
Proof. reflexivity. Qed.

Lemma column_of_median inp sv mids tc mn mx md me counts :
  column_of median (assemble true inp sv mids tc mn mx md me counts) =
  map (fun p => med_entry (fst p) (snd p) (xq_of_N (N.max (N.of_nat (length mids)) 1)) (ssz_of inp))
      (combine (figures_of_info (sample_alloc_info (in_allocs inp) (nth_error mids 0)))
               (figures_of_info (sample_alloc_info (in_allocs inp) (nth_error mids 1)))).
Proof. reflexivity. Qed.

Definition totals_of (inp : inputs) : list N :=
  total_of ai_max_count (in_allocs inp) :: total_of ai_max_size (in_allocs inp) ::
  flat_map (fun op => [total_of (fun i => t_count (ai_tally op i)) (in_allocs inp);
                       total_of (fun i => t_size (ai_tally op i)) (in_allocs inp)]) all_ops.

Lemma column_of_mean inp sv mids tc mn mx md me counts :
  column_of mean (assemble true inp sv mids tc mn mx md me counts) =
  map (fun t => xq_div (xq_of_N t) (xq_of_N (N.max tc 1))) (totals_of inp).
Proof. reflexivity. Qed.

Lemma Forall2_map_l {A B} (P : B -> A -> Prop) (f : A -> B) l :
  (forall v, P (f v) v) -> Forall2 P (map f l) l.
Proof. intros H. induction l; cbn [map]; constructor; auto. Qed.

Lemma Forall2_mono {A B} (P Q : A -> B -> Prop) l1 l2 :
  (forall a b, P a b -> Q a b) -> Forall2 P l1 l2 -> Forall2 Q l1 l2.
Proof. intros H F. induction F; constructor; auto. Qed.

(** Exact values of the f64 entries. *)
Lemma per_size_eq v s : s <> 0 -> xq_eqb (per_size v (xq_of_N (N.max s 1))) (Fin v s) = true.
Proof.
  intros Hs. unfold per_size, xq_of_N, xq_div. replace (N.max s 1) with s by lia.
  destruct (s =? 0) eqn:E; [apply N.eqb_eq in E; contradiction|]. cbn [xq_eqb]. apply N.eqb_eq. lia.
Qed.

Lemma med_entry_one_eq v s : s <> 0 ->
  xq_eqb (med_entry v 0 (xq_of_N (N.max (N.of_nat 1) 1)) (xq_of_N (N.max s 1))) (Fin v s) = true.
Proof.
  intros Hs. unfold med_entry, xq_of_N, xq_add, xq_div. replace (N.max s 1) with s by lia.
  change (N.max (N.of_nat 1) 1) with 1. cbn [N.eqb].
  destruct (s =? 0) eqn:E; [apply N.eqb_eq in E; contradiction|]. cbn [xq_eqb]. apply N.eqb_eq. lia.
Qed.

Lemma med_entry_two_eq a b s : s <> 0 ->
  xq_eqb (med_entry a b (xq_of_N (N.max (N.of_nat 2) 1)) (xq_of_N (N.max s 1))) (Fin (a + b) (2 * s)) = true.
Proof.
  intros Hs. unfold med_entry, xq_of_N, xq_add, xq_div. replace (N.max s 1) with s by lia.
  change (N.max (N.of_nat 2) 1) with 2. cbn [N.eqb].
  destruct (s =? 0) eqn:E; [apply N.eqb_eq in E; contradiction|]. cbn [xq_eqb]. apply N.eqb_eq. lia.
Qed.

Lemma mean_entry_eq t tc : xq_eqb (xq_div (xq_of_N t) (xq_of_N (N.max tc 1))) (Fin t (N.max tc 1)) = true.
Proof.
  unfold xq_of_N, xq_div. destruct (N.max tc 1 =? 0) eqn:E; [apply N.eqb_eq in E; lia|].
  cbn [xq_eqb]. apply N.eqb_eq. lia.
Qed.

(** * Counters *)

Definition counts_u64 (inp : inputs) : Prop :=
  Forall (fun ci => Forall (fun c => c < 2 ^ 64) (ci_counts ci)) (in_counters inp).

Lemma map_res_Forall2 {A B} (f : A -> res B) l : forall ys,
  map_res f l = Ok ys -> Forall2 (fun x y => f x = Ok y) l ys.
Proof.
  induction l as [|x r IH]; intros ys H; cbn [map_res] in H.
  - injection H as <-. constructor.
  - destruct (f x) as [y|] eqn:E; cbn [bind] in H; [|discriminate].
    destruct (map_res f r) as [ys'|]; cbn [bind] in H; [|discriminate].
    injection H as <-. constructor; [exact E|apply IH; reflexivity].
Qed.

Lemma kind_stats_inv ci sv mids set :
  kind_stats true ci sv mids = Ok (Some set) ->
  exists sum, median_counter_sum ci mids 0 = Some sum /\
    median set = (sum / N.max (N.of_nat (length mids)) 1) mod 2 ^ 64 /\
    opt_bind (hd_error sv) (count_for ci) = Some (fastest set) /\
    opt_bind (last_error sv) (count_for ci) = Some (slowest set) /\
    mean_count ci = Ok (mean set).
Proof.
  unfold kind_stats. intros H.
  destruct (median_counter_sum ci mids 0) as [sum|]; [|discriminate].
  destruct (checked_div sum _) as [q|] eqn:Eq; cbn [bind] in H; [|discriminate].
  apply checked_div_inv in Eq. destruct Eq as [_ ->].
  destruct (opt_bind (hd_error sv) (count_for ci)) as [f|]; [|discriminate].
  destruct (opt_bind (last_error sv) (count_for ci)) as [l|]; [|discriminate].
  destruct (mean_count ci) as [m|]; cbn [bind] in H; [|discriminate].
  injection H as <-. exists sum. cbn [fastest slowest median mean]. repeat split; reflexivity.
Qed.

Lemma count_for_in ci s c : count_for ci s = Some c -> In c (ci_counts ci).
Proof. unfold count_for. apply nth_error_In. Qed.

Lemma sat_add_small a b : a + b < 2 ^ 128 -> sat_add 128 a b = a + b.
Proof. intros H. unfold sat_add. lia. Qed.

Lemma sum_div_len_u64 l :
  Forall (fun c => c < 2 ^ 64) l -> sum_list l / N.of_nat (length l) < 2 ^ 64.
Proof.
  intros F. destruct l as [|x r] eqn:E; [reflexivity|]. rewrite <- E in *.
  assert (Forall (fun y => y <= 2 ^ 64 - 1) l) as F' by (eapply Forall_impl; [|exact F]; cbn beta; intros; lia).
  assert (Forall (fun y => 0 <= y) l) as F0 by (eapply Forall_impl; [|exact F]; cbn beta; intros; lia).
  destruct (sum_list_bounds l 0 (2 ^ 64 - 1) F0 F') as [_ B].
  assert (N.of_nat (length l) <> 0) as Hn by (rewrite E; cbn [length]; lia).
  apply N.div_lt_upper_bound; [exact Hn|]. rewrite two64_val in *. nia.
Qed.

Lemma mean_count_val ci m :
  Forall (fun c => c < 2 ^ 64) (ci_counts ci) -> mean_count ci = Ok m ->
  ci_counts ci <> [] /\ m = sum_list (ci_counts ci) / N.of_nat (length (ci_counts ci)).
Proof.
  intros F H. unfold mean_count in H.
  destruct (checked_div _ _) as [q|] eqn:E; cbn [bind] in H; [|discriminate].
  apply checked_div_inv in E. destruct E as [Hn ->]. injection H as <-.
  split; [intros E; rewrite E in Hn; apply Hn; reflexivity|].
  apply N.mod_small. apply sum_div_len_u64. exact F.
Qed.

(** * Provenance *)

(** Column [selq]/[seln] of [st] shows the figures of the single sample [smp]:
    its duration, its allocation figures (0 if no allocation info was recorded
    for its index) and its counter values, each divided by the sample size. *)
Definition column_of_sample (inp : inputs) (st : stats)
           (selq : stats_set xq -> xq) (seln : stats_set N -> N) (smp : N * N) : Prop :=
  In smp (indexed (in_durs inp)) /\
  seln (st_time st) = snd smp / in_size inp /\
  Forall2 (fun x v => xq_eqb x (Fin v (in_size inp)) = true)
          (column_of selq st) (figures_of_index inp (fst smp)) /\
  Forall2 (fun ci o => forall set, o = Some set -> count_for ci smp = Some (seln set))
          (in_counters inp) (st_counts st).

(** The median column for an even number of samples: two different samples,
    figures averaged. *)
Definition median_of_two (inp : inputs) (st : stats) (m0 m1 : N * N) : Prop :=
  In m0 (indexed (in_durs inp)) /\ In m1 (indexed (in_durs inp)) /\ fst m0 <> fst m1 /\
  median (st_time st) = ((snd m0 + snd m1) / 2) / in_size inp /\
  Forall2 (fun x p => xq_eqb x (Fin (fst p + snd p) (2 * in_size inp)) = true)
          (column_of median st)
          (combine (figures_of_index inp (fst m0)) (figures_of_index inp (fst m1))) /\
  Forall2 (fun ci o => forall set, o = Some set ->
             exists c0 c1, count_for ci m0 = Some c0 /\ count_for ci m1 = Some c1 /\
                           median set = (c0 + c1) / 2)
          (in_counters inp) (st_counts st).

Lemma figures_len o : exists a b c d e f g h i j, figures_of_info o = [a; b; c; d; e; f; g; h; i; j].
Proof. do 10 eexists. reflexivity. Qed.

Lemma figures_of_index_eq inp x :
  figures_of_index inp (fst x) = figures_of_info (sample_alloc_info (in_allocs inp) (Some x)).
Proof. rewrite sample_alloc_info_some. reflexivity. Qed.

Lemma counts_Forall2 sv mids inp counts :
  map_res (fun ci => kind_stats true ci sv mids) (in_counters inp) = Ok counts ->
  Forall2 (fun ci o => kind_stats true ci sv mids = Ok o) (in_counters inp) counts.
Proof. apply map_res_Forall2. Qed.

Lemma Forall2_Forall_l {A B} (P : A -> Prop) (R Q : A -> B -> Prop) l1 l2 :
  Forall P l1 -> (forall a b, P a -> R a b -> Q a b) -> Forall2 R l1 l2 -> Forall2 Q l1 l2.
Proof.
  intros F H F2. induction F2; constructor; inversion F; subst; auto.
Qed.

Theorem provenance dbg sv inp st :
  admissibleb (in_durs inp) sv = true -> in_size inp <> 0 -> in_durs inp <> [] ->
  no_overflow inp -> counts_u64 inp ->
  compute_stats true dbg sv inp = Ok st ->
  (exists f, snd f = list_min (in_durs inp) /\ column_of_sample inp st fastest fastest f) /\
  (exists l, snd l = list_max (in_durs inp) /\ column_of_sample inp st slowest slowest l) /\
  (if Nat.even (length (in_durs inp))
   then exists m0 m1, snd m0 = mid_lo (in_durs inp) /\ snd m1 = mid_hi (in_durs inp) /\
                      median_of_two inp st m0 m1
   else exists m, snd m = mid_hi (in_durs inp) /\ column_of_sample inp st median median m).
Proof.
  intros Ha Hs Hd Hov Hu H.
  pose proof (order_stats _ _ _ _ Ha Hov H) as (Tf & Tl & Tm & _).
  apply compute_stats_inv in H.
  destruct H as (tc & td & mids & mn & mx & md & counts & E1 & E2 & E3 & E4 & E5 & E6 & E7 & ->).
  apply slice_middle_inv in E3. apply counts_Forall2 in E7.
  destruct (admissible_vals _ _ Ha) as (P & S & L).
  cbn [assemble st_time fastest slowest median mean] in Tf, Tl, Tm.
  destruct sv as [|x0 r0] eqn:Esv; [apply admissible_nil in Ha; contradiction|]. rewrite <- Esv in *.
  assert (hd_error sv = Some x0) as Hhd by (rewrite Esv; reflexivity).
  destruct (last_error sv) as [xl|] eqn:Hlast; [|apply last_error_none in Hlast; congruence].
  split; [|split].
  - (* fastest *)
    exists x0. split; [eapply admissible_hd; eassumption|].
    split; [apply (admissible_in _ _ _ Ha); rewrite Esv; left; reflexivity|].
    split; [cbn [assemble st_time fastest]; rewrite Tf; unfold spec_fastest;
            rewrite (admissible_hd _ _ _ Ha Hhd); reflexivity|].
    split.
    + rewrite column_of_fastest, Hhd, figures_of_index_eq. apply Forall2_map_l.
      intros v. apply per_size_eq. exact Hs.
    + cbn [assemble st_counts]. eapply Forall2_mono; [|exact E7]. cbn beta. intros ci o Hk set ->.
      apply kind_stats_inv in Hk. destruct Hk as (_ & _ & _ & Hf & _). rewrite Hhd in Hf. exact Hf.
  - (* slowest *)
    exists xl. split; [eapply admissible_last; eassumption|].
    split; [apply (admissible_in _ _ _ Ha); apply last_error_in; exact Hlast|].
    split; [cbn [assemble st_time slowest]; rewrite Tl; unfold spec_slowest;
            rewrite (admissible_last _ _ _ Ha Hlast); reflexivity|].
    split.
    + rewrite column_of_slowest, Hlast, figures_of_index_eq. apply Forall2_map_l.
      intros v. apply per_size_eq. exact Hs.
    + cbn [assemble st_counts]. eapply Forall2_mono; [|exact E7]. cbn beta. intros ci o Hk set ->.
      apply kind_stats_inv in Hk. destruct Hk as (_ & _ & _ & _ & Hl & _). rewrite Hlast in Hl. exact Hl.
  - (* median *)
    rewrite <- L. destruct E3 as [Hnil|x Hev Hx|x y Hne Hev Hx Hy]; [congruence| |].
    + rewrite Hev. exists x. split; [unfold mid_hi; rewrite <- L; symmetry; eapply nth_of_view; eassumption|].
      split; [apply (admissible_in _ _ _ Ha); eapply nth_error_In; exact Hx|].
      split.
      { cbn [assemble st_time median]. rewrite Tm. unfold spec_median.
        destruct (in_durs inp) as [|d0 dr] eqn:Ed; [congruence|]. rewrite <- Ed in *. rewrite <- L, Hev.
        unfold mid_hi. rewrite <- L. rewrite (nth_of_view _ _ _ _ Ha Hx). reflexivity. }
      split.
      { rewrite column_of_median. cbn [nth_error length]. rewrite figures_of_index_eq.
        destruct (figures_len (sample_alloc_info (in_allocs inp) (Some x))) as (f0&f1&f2&f3&f4&f5&f6&f7&f8&f9&->).
        change (figures_of_info (sample_alloc_info (in_allocs inp) None)) with [0;0;0;0;0;0;0;0;0;0].
        cbn [combine map fst snd]. repeat constructor; apply med_entry_one_eq; exact Hs. }
      { cbn [assemble st_counts]. eapply Forall2_Forall_l; [exact Hu| |exact E7]. cbn beta.
        intros ci o Hci Hk set ->. apply kind_stats_inv in Hk. destruct Hk as (sum & Hsum & Hmed & _).
        cbn [median_counter_sum] in Hsum. destruct (count_for ci x) as [c|] eqn:Ec; [|discriminate].
        injection Hsum as <-. f_equal.
        assert (c < 2 ^ 64) as Hc.
        { rewrite Forall_forall in Hci. apply Hci. eapply count_for_in. exact Ec. }
        rewrite Hmed. cbn [length]. change (N.max (N.of_nat 1) 1) with 1.
        rewrite sat_add_small by (rewrite two64_val, two128_val in *; lia).
        rewrite N.div_1_r, N.add_0_l. symmetry. apply N.mod_small. exact Hc. }
    + rewrite Hev. exists x, y.
      assert (length sv <> 0%nat) as Hn by (rewrite Esv; discriminate).
      destruct (even_half _ Hev Hn) as (H1 & H2 & H3).
      split; [unfold mid_lo; rewrite <- L, Hev; symmetry; eapply nth_of_view; eassumption|].
      split; [unfold mid_hi; rewrite <- L; symmetry; eapply nth_of_view; eassumption|].
      split; [apply (admissible_in _ _ _ Ha); eapply nth_error_In; exact Hx|].
      split; [apply (admissible_in _ _ _ Ha); eapply nth_error_In; exact Hy|].
      split; [eapply distinct_positions; [exact Ha| |exact Hx|exact Hy]; lia|].
      split.
      { cbn [assemble st_time median]. rewrite Tm. unfold spec_median.
        destruct (in_durs inp) as [|d0 dr] eqn:Ed; [congruence|]. rewrite <- Ed in *. rewrite <- L, Hev.
        unfold mid_lo, mid_hi. rewrite <- L, Hev.
        rewrite (nth_of_view _ _ _ _ Ha Hx), (nth_of_view _ _ _ _ Ha Hy). reflexivity. }
      split.
      { rewrite column_of_median. cbn [nth_error length]. rewrite !figures_of_index_eq.
        destruct (figures_len (sample_alloc_info (in_allocs inp) (Some x))) as (f0&f1&f2&f3&f4&f5&f6&f7&f8&f9&->).
        destruct (figures_len (sample_alloc_info (in_allocs inp) (Some y))) as (g0&g1&g2&g3&g4&g5&g6&g7&g8&g9&->).
        cbn [combine map fst snd]. repeat constructor; apply med_entry_two_eq; exact Hs. }
      { cbn [assemble st_counts]. eapply Forall2_Forall_l; [exact Hu| |exact E7]. cbn beta.
        intros ci o Hci Hk set ->. apply kind_stats_inv in Hk. destruct Hk as (sum & Hsum & Hmed & _).
        cbn [median_counter_sum] in Hsum.
        destruct (count_for ci x) as [c0|] eqn:Ec0; [|discriminate].
        destruct (count_for ci y) as [c1|] eqn:Ec1; [|discriminate].
        injection Hsum as <-. exists c0, c1. split; [reflexivity|]. split; [reflexivity|].
        rewrite Forall_forall in Hci.
        pose proof (Hci _ (count_for_in _ _ _ Ec0)) as Hc0. pose proof (Hci _ (count_for_in _ _ _ Ec1)) as Hc1.
        rewrite Hmed. cbn [length]. change (N.max (N.of_nat 2) 1) with 2.
        rewrite (sat_add_small 0 c0) by (rewrite two64_val, two128_val in *; lia).
        rewrite sat_add_small by (rewrite two64_val, two128_val in *; lia).
        rewrite N.add_0_l. apply N.mod_small. rewrite two64_val in *. lia. }
Qed.

(** * Means *)

Theorem means dbg sv inp st :
  no_overflow inp -> counts_u64 inp -> compute_stats true dbg sv inp = Ok st ->
  Forall2 (fun x t => xq_eqb x (Fin t (N.max (in_size inp * N.of_nat (length (in_durs inp))) 1)) = true)
          (column_of mean st) (totals_of inp) /\
  Forall2 (fun ci o => forall set, o = Some set ->
             ci_counts ci <> [] /\
             mean set = sum_list (ci_counts ci) / N.of_nat (length (ci_counts ci)))
          (in_counters inp) (st_counts st).
Proof.
  intros [Hov1 Hov2] Hu H. apply compute_stats_inv in H.
  destruct H as (tc & td & mids & mn & mx & md & counts & E1 & E2 & E3 & E4 & E5 & E6 & E7 & ->).
  apply mul64_val in E1; [|exact Hov2]. subst tc. apply counts_Forall2 in E7. split.
  - rewrite column_of_mean. apply Forall2_map_l. intros t. apply mean_entry_eq.
  - cbn [assemble st_counts]. eapply Forall2_Forall_l; [exact Hu| |exact E7]. cbn beta.
    intros ci o Hci Hk set ->. apply kind_stats_inv in Hk. destruct Hk as (_ & _ & _ & _ & _ & Hm).
    apply mean_count_val; assumption.
Qed.

(** * Which counter kinds are reported *)

Lemma median_counter_sum_some ci mids : forall acc,
  (forall x, In x mids -> exists c, count_for ci x = Some c) ->
  exists sum, median_counter_sum ci mids acc = Some sum.
Proof.
  induction mids as [|x r IH]; intros acc H; cbn [median_counter_sum]; [eexists; reflexivity|].
  destruct (H x (or_introl eq_refl)) as [c ->]. apply IH. intros y Hy. apply H. right. exact Hy.
Qed.

Lemma middle_subset {A} (l m : list A) x : middle_of l m -> In x m -> In x l.
Proof.
  intros H Hx. destruct H as [->|y _ Hy|y z _ _ Hy Hz]; [destruct Hx| |].
  - destruct Hx as [<-|[]]. eapply nth_error_In; exact Hy.
  - destruct Hx as [<-|[<-|[]]]; eapply nth_error_In; eassumption.
Qed.

Lemma kind_stats_some ci sv mids :
  sv <> [] -> middle_of sv mids -> (forall x, In x sv -> exists c, count_for ci x = Some c) ->
  exists set, kind_stats true ci sv mids = Ok (Some set).
Proof.
  intros Hne Hm Hall. unfold kind_stats.
  destruct (median_counter_sum_some ci mids 0) as [sum ->].
  { intros x Hx. apply Hall. eapply middle_subset; eassumption. }
  rewrite checked_div_ok by lia. cbn [bind].
  destruct sv as [|x0 r0] eqn:Esv; [congruence|]. rewrite <- Esv in *.
  assert (hd_error sv = Some x0) as -> by (rewrite Esv; reflexivity).
  destruct (Hall x0) as [f Hf]; [rewrite Esv; left; reflexivity|]. cbn [opt_bind]. rewrite Hf.
  destruct (last_error sv) as [xl|] eqn:Hl; [|apply last_error_none in Hl; congruence].
  destruct (Hall xl (last_error_in _ _ Hl)) as [l Hlc]. cbn [opt_bind]. rewrite Hlc.
  unfold mean_count. rewrite checked_div_ok.
  - cbn [bind]. eexists; reflexivity.
  - pose proof (count_for_some_nonempty _ _ _ Hf) as Hc. destruct (ci_counts ci); [congruence|]. cbn [length]. lia.
Qed.

Lemma kind_stats_none ci sv x r : count_for ci x = None -> kind_stats true ci sv (x :: r) = Ok None.
Proof. intros H. unfold kind_stats. cbn [median_counter_sum]. rewrite H. reflexivity. Qed.

Definition is_some {A} (o : option A) : bool := match o with Some _ => true | None => false end.

Lemma kind_stats_presence durs ci sv mids o :
  admissibleb durs sv = true -> middle_of sv mids -> kind_stats true ci sv mids = Ok o ->
  forall b, expect_counter (length durs) ci = Some b -> b = is_some o.
Proof.
  intros Ha Hm Hk b He. destruct (admissible_vals _ _ Ha) as (_ & _ & L).
  unfold expect_counter in He. destruct (length durs =? 0)%nat eqn:E0.
  - injection He as <-. apply Nat.eqb_eq in E0. rewrite E0 in L. destruct sv; [|discriminate].
    unfold kind_stats in Hk. destruct (median_counter_sum ci mids 0); [|injection Hk as <-; reflexivity].
    destruct (checked_div _ _); cbn [bind hd_error opt_bind] in Hk; [|discriminate].
    injection Hk as <-. reflexivity.
  - apply Nat.eqb_neq in E0. assert (sv <> []) as Hne by (intros ->; cbn in L; lia).
    assert (exists x r, mids = x :: r /\ In x sv) as (xm & rm & Em & Hxm).
    { destruct Hm as [->|x _ Hx|x y _ _ Hx _]; [congruence| |]; eexists; eexists; (split; [reflexivity|]);
        eapply nth_error_In; exact Hx. }
    destruct (ci_input ci) eqn:Ei.
    + destruct (length durs <=? length (ci_counts ci))%nat eqn:El.
      * injection He as <-. apply Nat.leb_le in El.
        destruct (kind_stats_some ci sv mids Hne Hm) as [set Hs].
        { intros x Hx. pose proof (admissible_index_lt _ _ _ Ha Hx) as Hlt.
          unfold count_for. rewrite Ei.
          destruct (nth_error (ci_counts ci) (N.to_nat (fst x))) as [c|] eqn:En; [eexists; reflexivity|].
          apply nth_error_None in En. lia. }
        rewrite Hs in Hk. injection Hk as <-. reflexivity.
      * destruct (ci_counts ci) as [|c0 cr] eqn:Ec; [|discriminate]. injection He as <-.
        rewrite Em, kind_stats_none in Hk; [injection Hk as <-; reflexivity|].
        unfold count_for. rewrite Ec. destruct (if ci_input ci then _ else _); reflexivity.
    + injection He as <-. destruct (ci_counts ci) as [|c0 cr] eqn:Ec; cbn [length Nat.eqb negb].
      * rewrite Em, kind_stats_none in Hk; [injection Hk as <-; reflexivity|].
        unfold count_for. rewrite Ec, Ei. reflexivity.
      * destruct (kind_stats_some ci sv mids Hne Hm) as [set Hs].
        { intros x Hx. unfold count_for. rewrite Ei, Ec. eexists; reflexivity. }
        rewrite Hs in Hk. injection Hk as <-. reflexivity.
Qed.

Theorem presence dbg sv inp st :
  admissibleb (in_durs inp) sv = true -> compute_stats true dbg sv inp = Ok st ->
  Forall2 (fun ci o => forall b, expect_counter (length (in_durs inp)) ci = Some b -> b = is_some o)
          (in_counters inp) (st_counts st).
Proof.
  intros Ha H. apply compute_stats_inv in H.
  destruct H as (tc & td & mids & mn & mx & md & counts & E1 & E2 & E3 & E4 & E5 & E6 & E7 & ->).
  apply slice_middle_inv in E3. apply counts_Forall2 in E7. cbn [assemble st_counts].
  eapply Forall2_mono; [|exact E7]. cbn beta. intros ci o Hk. eapply kind_stats_presence; eassumption.
Qed.

(** * The model satisfies the boolean specification *)

Lemma Forall2_forallb2 {A B} (f : A -> B -> bool) l1 l2 :
  Forall2 (fun a b => f a b = true) l1 l2 -> forallb2 f l1 l2 = true.
Proof. induction 1; cbn [forallb2]; [reflexivity|]. apply andb_true_iff. split; assumption. Qed.

Lemma Forall2_and_l {A B} (P : A -> Prop) (R : A -> B -> Prop) l1 l2 :
  Forall P l1 -> Forall2 R l1 l2 -> Forall2 (fun a b => P a /\ R a b) l1 l2.
Proof. intros F F2. induction F2; constructor; inversion F; subst; auto. Qed.

Lemma eqb_close x c d :
  xq_eqb x (Fin c d) = true -> xq_is_fin x = true -> d <> 0 -> xq_close x (Fin c d) = true.
Proof.
  destruct x as [a b| |]; cbn [xq_eqb xq_is_fin xq_close]; try discriminate.
  intros E Hb Hd. apply N.eqb_eq in E. rewrite E.
  apply negb_true_iff in Hb. rewrite Hb. cbn [negb andb].
  destruct (d =? 0) eqn:E0; [apply N.eqb_eq in E0; contradiction|]. cbn [negb andb].
  rewrite N.ltb_irrefl, N.sub_diag. apply N.leb_le. lia.
Qed.

Lemma close_column (col : list xq) (figs : list N) d :
  d <> 0 -> Forall (fun x => xq_is_fin x = true) col ->
  Forall2 (fun x v => xq_eqb x (Fin v d) = true) col figs ->
  forallb2 (fun x v => xq_close x (Fin v d)) col figs = true.
Proof.
  intros Hd Hf F2. apply Forall2_forallb2. eapply Forall2_mono; [|apply (Forall2_and_l _ _ _ _ Hf F2)].
  cbn beta. intros x v [H1 H2]. apply eqb_close; assumption.
Qed.

Lemma all_fin_columns st :
  forallb xq_is_fin (all_xq st) = true ->
  Forall (fun x => xq_is_fin x = true) (column_of fastest st) /\
  Forall (fun x => xq_is_fin x = true) (column_of slowest st) /\
  Forall (fun x => xq_is_fin x = true) (column_of median st) /\
  Forall (fun x => xq_is_fin x = true) (column_of mean st).
Proof.
  intros H. unfold all_xq in H. rewrite !forallb_app in H.
  apply andb_true_iff in H. destruct H as [H1 H]. apply andb_true_iff in H. destruct H as [H2 H].
  apply andb_true_iff in H. destruct H as [H3 H4].
  repeat split; apply Forall_forall; apply forallb_forall; assumption.
Qed.

Lemma counters_from_ok seln inp st s :
  Forall2 (fun ci o => forall set, o = Some set -> count_for ci s = Some (seln set))
          (in_counters inp) (st_counts st) ->
  counters_from seln inp st s = true.
Proof.
  intros F. unfold counters_from. apply Forall2_forallb2. eapply Forall2_mono; [|exact F]. cbn beta.
  intros ci [set|] H; [|reflexivity]. rewrite (H set eq_refl). apply N.eqb_refl.
Qed.

Lemma column_from_one_ok selq seln inp st d smp :
  in_size inp <> 0 -> Forall (fun x => xq_is_fin x = true) (column_of selq st) ->
  snd smp = d -> column_of_sample inp st selq seln smp ->
  column_from_one selq seln inp st d = true.
Proof.
  intros Hs Hf Hd (Hin & _ & Hcol & Hcnt). unfold column_from_one. apply existsb_exists.
  exists smp. split; [exact Hin|]. rewrite Hd, N.eqb_refl. cbn [andb].
  rewrite close_column by assumption. cbn [andb]. apply counters_from_ok. exact Hcnt.
Qed.

Lemma in_domain_props inp :
  in_domain inp = true -> size_ok inp /\ no_overflow inp /\ counts_u64 inp.
Proof.
  unfold in_domain. rewrite !andb_true_iff. intros (((((H1 & H2) & H3) & _) & _) & H6).
  split; [|split; [split|]].
  - apply orb_true_iff in H1. destruct H1 as [H1|H1].
    + left. apply negb_true_iff, N.eqb_neq in H1. exact H1.
    + right. apply Nat.eqb_eq in H1. destruct (in_durs inp); [reflexivity|discriminate].
  - apply N.ltb_lt. exact H2.
  - apply N.ltb_lt. exact H3.
  - unfold counts_u64. rewrite forallb_forall in H6. apply Forall_forall. intros ci Hci.
    specialize (H6 _ Hci). rewrite forallb_forall in H6. apply Forall_forall. intros c Hc.
    apply N.ltb_lt. apply H6. exact Hc.
Qed.

Lemma zero_entries_fastest inp mids tc mn mx md me counts :
  forallb (fun x => xq_eqb x (Fin 0 1))
    (column_of fastest (assemble true inp [] mids tc mn mx md me counts) ++
     column_of slowest (assemble true inp [] mids tc mn mx md me counts) ++
     column_of median (assemble true inp [] [] tc mn mx md me counts)) = true.
Proof.
  rewrite column_of_fastest, column_of_slowest, column_of_median.
  cbn [hd_error last_error nth_error sample_alloc_info figures_of_info max_count_of max_size_of tally_of
       flat_map all_ops app tally_zero t_count t_size map combine fst snd length].
  unfold per_size, med_entry, ssz_of, xq_of_N, xq_div, xq_add.
  change (N.max (N.of_nat 0) 1) with 1. cbn [N.eqb].
  destruct (N.max (in_size inp) 1 =? 0) eqn:E; [apply N.eqb_eq in E; lia|].
  cbn [forallb xq_eqb]. rewrite !N.mul_0_l. reflexivity.
Qed.

Theorem model_sb dbg sv inp :
  admissibleb (in_durs inp) sv = true -> in_domain inp = true ->
  stats_sb inp (compute_stats true dbg sv inp) = true.
Proof.
  intros Ha Hdom. unfold stats_sb. rewrite Hdom. cbn [negb].
  destruct (in_domain_props _ Hdom) as (Hs & Hov & Hu).
  destruct (total_no_nan dbg sv inp Ha Hs (fun _ => Hov)) as (st & H & Hfin & _). rewrite H.
  pose proof (order_stats _ _ _ _ Ha Hov H) as (T1 & T2 & T3 & T4 & T5 & T6).
  pose proof (bounds _ _ _ _ Ha Hs Hov H) as ((B1 & B2) & (B3 & B4)).
  destruct (all_fin_columns _ Hfin) as (Ff & Fs & Fm & Fmean).
  assert (time_ok inp st = true) as ->.
  { unfold time_ok. rewrite T1, T2, T3, T4, T5, T6 in *. rewrite !N.eqb_refl. cbn [andb].
    rewrite !andb_true_iff. repeat split; apply N.leb_le; assumption. }
  rewrite Hfin. cbn [andb].
  assert (presence_ok inp st = true) as ->.
  { unfold presence_ok. apply Forall2_forallb2. eapply Forall2_mono; [|apply (presence _ _ _ _ Ha H)].
    cbn beta. intros ci o Hp. destruct (expect_counter _ ci) as [b|]; [|reflexivity].
    rewrite (Hp b eq_refl). destruct o; reflexivity. }
  destruct (means _ _ _ _ Hov Hu H) as (M1 & M2).
  assert (means_ok inp st = true) as ->.
  { unfold means_ok. apply andb_true_iff. split.
    - apply close_column; [lia|exact Fmean|exact M1].
    - apply Forall2_forallb2. eapply Forall2_mono; [|exact M2]. cbn beta. intros ci [set|] Hm; [|reflexivity].
      destruct (Hm set eq_refl) as [Hne ->]. rewrite N.eqb_refl, andb_true_r.
      destruct (ci_counts ci); [congruence|reflexivity]. }
  cbn [andb]. unfold provenance_ok.
  destruct (in_durs inp) as [|d0 dr] eqn:Ed.
  - (* no samples *)
    try rewrite Ed in Ha. destruct (admissible_vals _ _ Ha) as (_ & _ & L). destruct sv; [|discriminate].
    apply compute_stats_inv in H.
    destruct H as (tc & td & mids & mn & mx & md & counts & _ & _ & E3 & _ & _ & _ & _ & ->).
    cbn in E3. injection E3 as <-. apply zero_entries_fastest.
  - rewrite <- Ed in *. assert (in_durs inp <> []) as Hd by (rewrite Ed; discriminate).
    assert (in_size inp <> 0) as Hsz by (destruct Hs; [assumption|congruence]).
    destruct (provenance dbg sv inp st Ha Hsz Hd Hov Hu H) as ((f & Hf1 & Hf2) & (l & Hl1 & Hl2) & Hmed).
    rewrite (column_from_one_ok fastest fastest inp st _ f Hsz Ff Hf1 Hf2).
    rewrite (column_from_one_ok slowest slowest inp st _ l Hsz Fs Hl1 Hl2). cbn [andb].
    destruct (Nat.even (length (in_durs inp))).
    + destruct Hmed as (m0 & m1 & Hm0 & Hm1 & (I0 & I1 & Hne & _ & Hcol & Hcnt)).
      unfold median_from_two. cbv zeta. apply existsb_exists. exists m0. split; [exact I0|].
      rewrite Hm0, N.eqb_refl. cbn [andb]. apply existsb_exists. exists m1. split; [exact I1|].
      rewrite Hm1, N.eqb_refl. apply N.eqb_neq in Hne. rewrite Hne. cbn [negb andb].
      apply andb_true_iff. split.
      * set (pairs := combine (figures_of_index inp (fst m0)) (figures_of_index inp (fst m1))) in *.
        assert (forall (col : list xq) (ps : list (N * N)),
                   Forall (fun x => xq_is_fin x = true) col ->
                   Forall2 (fun x p => xq_eqb x (Fin (fst p + snd p) (2 * in_size inp)) = true) col ps ->
                   forallb2 (fun x v => xq_close x (Fin v (2 * in_size inp))) col
                            (map (fun p => fst p + snd p) ps) = true) as Hgen.
        { intros col ps Fc F2. revert Fc. induction F2 as [|x p col' ps' Hxp F2 IH]; intros Fc; [reflexivity|].
          inversion Fc; subst. cbn [map forallb2]. apply andb_true_iff. split; [|apply IH; assumption].
          apply eqb_close; [assumption|assumption|lia]. }
        apply Hgen; assumption.
      * apply Forall2_forallb2. eapply Forall2_mono; [|exact Hcnt]. cbn beta. intros ci [set|] Hc; [|reflexivity].
        destruct (Hc set eq_refl) as (c0 & c1 & -> & -> & ->). apply N.eqb_refl.
    + destruct Hmed as (m & Hm1 & Hm2).
      apply (column_from_one_ok median median inp st _ m Hsz Fm Hm1 Hm2).
Qed.

(** * The stored per-input counter value *)

Lemma counter_total_val l : forall acc,
  acc + sum_list l < 2 ^ 128 -> counter_total acc l = acc + sum_list l.
Proof.
  induction l as [|c r IH]; intros acc H; cbn [counter_total sum_list] in *; [lia|].
  rewrite sat_add_small by lia. rewrite IH by lia. lia.
Qed.

(** Per-input counter per iteration = sum over the sample's inputs / sample
    size; with one u64 count per iteration the cast to u64 loses nothing. *)
Theorem counter_per_iter input_counts ssize :
  ssize <> 0 -> sum_list input_counts < 2 ^ 128 ->
  per_iter_count input_counts ssize = Ok ((sum_list input_counts / ssize) mod 2 ^ 64) /\
  (N.of_nat (length input_counts) = ssize -> Forall (fun c => c < 2 ^ 64) input_counts ->
   per_iter_count input_counts ssize = Ok (sum_list input_counts / ssize)).
Proof.
  intros Hs Hsum. unfold per_iter_count. rewrite counter_total_val by lia. rewrite N.add_0_l.
  rewrite checked_div_ok by exact Hs. cbn [bind]. split; [reflexivity|].
  intros Hlen F. f_equal. apply N.mod_small. rewrite <- Hlen. apply sum_div_len_u64. exact F.
Qed.

Lemma per_iter_model_sb input_counts ssize :
  per_iter_sb input_counts ssize (per_iter_count input_counts ssize) = true.
Proof.
  unfold per_iter_sb. destruct (ssize =? 0) eqn:E0; [reflexivity|]. cbn [orb].
  destruct (sum_list input_counts <? 2 ^ 128) eqn:E1; [|reflexivity]. cbn [negb].
  apply N.eqb_neq in E0. apply N.ltb_lt in E1.
  destruct (counter_per_iter input_counts ssize E0 E1) as [-> _]. apply N.eqb_refl.
Qed.

Example counter_per_iter_satisfiable :
  per_iter_count [10; 20; 31] 3 = Ok 20 /\
  per_iter_count [18446744073709551615; 18446744073709551615] 2 = Ok 18446744073709551615.
Proof. split; reflexivity. Qed.
