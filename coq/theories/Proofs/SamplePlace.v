(** Placement of samples on threads (Model/Sample.v, [run_events], [thread_log]). *)

From DivanV Require Import Base.Res Model.Sample Proofs.Sample.
From Coq Require Import Arith.
Local Open Scope nat_scope.

Lemma run_events_in c t rd a :
  In (t, rd, a) (run_events c) <->
  rd < rounds c /\ t <= eff_aux c /\
  In a (sample_prog (r_entry c) (r_shape c) (eff_size c) (r_cs c) (r_udrop c)).
Proof.
  unfold run_events. rewrite in_flat_map. split.
  - intros (rd' & Hrd & H). apply in_flat_map in H. destruct H as (t' & Ht & H).
    apply in_map_iff in H. destruct H as (a' & Heq & Ha). inversion Heq; subst.
    apply in_seq in Hrd. apply in_seq in Ht. repeat split; [lia|lia|exact Ha].
  - intros (Hrd & Ht & Ha). exists rd. split; [apply in_seq; lia|].
    apply in_flat_map. exists t. split; [apply in_seq; lia|].
    apply in_map_iff. exists a. split; [reflexivity|exact Ha].
Qed.

Lemma run_threads_bound c t : In t (run_threads c) -> t <= eff_aux c.
Proof.
  unfold run_threads. intros H. apply in_map_iff in H. destruct H as ([[t' rd] a] & Heq & H).
  cbn in Heq. subst. apply run_events_in in H. tauto.
Qed.

(** The [_local] entry points run everything on the calling thread (thread 0),
    whatever thread count is configured. *)
Lemma local_on_caller c :
  is_local (r_entry c) = true -> forall t, In t (run_threads c) -> t = 0.
Proof.
  intros Hl t Ht. apply run_threads_bound in Ht. unfold eff_aux in Ht. rewrite Hl in Ht. lia.
Qed.

(** Otherwise every configured thread, and no other, records every round. *)
Lemma threads_take_part c t rd :
  rd < rounds c -> t <= eff_aux c ->
  forall a, In a (sample_prog (r_entry c) (r_shape c) (eff_size c) (r_cs c) (r_udrop c)) ->
  In (t, rd, a) (run_events c).
Proof. intros Hrd Ht a Ha. apply run_events_in. tauto. Qed.

Lemma eff_aux_nonlocal c : is_local (r_entry c) = false -> eff_aux c = r_aux c.
Proof. unfold eff_aux. intros ->. reflexivity. Qed.

(** ** Thread affinity of identifiers *)

Definition ev_ids (e : oev nat) : list nat :=
  match e with
  | OGen i | OCount _ i | OUDropIn i | ODropOut i | ODropIn i | OCallPanic i => [i]
  | OCall i o => [i; o]
  | _ => []
  end.

Definition ids_at (i : nat) (l : list (oev nat)) : Prop :=
  Forall (fun e => Forall (eq i) (ev_ids e)) l.

Lemma ids_gen v p cs i : ids_at i (obs v (gen_block p cs i)).
Proof. destruct v as [[] ? ? ?], p, cs as [[] [] [] []]; repeat constructor. Qed.

Lemma ids_call v p r u i : ids_at i (obs v (call_block p r u i)).
Proof. destruct v as [? [] ? ?], p, r, u; repeat constructor. Qed.

Lemma ids_drop v p sh r i : ids_at i (obs v (drop_block p sh r i)).
Proof. destruct v as [? [] [] ?], p, sh as [[] [] [] []], r; repeat constructor. Qed.

Definition ids_below (n : nat) (l : list (oev nat)) : Prop :=
  Forall (fun e => Forall (fun i => i < n) (ev_ids e)) l.

Lemma ids_below_app n l1 l2 : ids_below n l1 -> ids_below n l2 -> ids_below n (l1 ++ l2).
Proof. intros H1 H2. apply Forall_app. split; assumption. Qed.

Lemma ids_below_blocks n (blk : nat -> list (oev nat)) :
  (forall i, ids_at i (blk i)) -> ids_below n (flat_map blk (seq 0 n)).
Proof.
  intros H. unfold ids_below. apply Forall_forall. intros e He.
  apply in_flat_map in He. destruct He as (i & Hi & He). apply in_seq in Hi.
  specialize (H i). unfold ids_at in H. rewrite Forall_forall in H. specialize (H e He).
  eapply Forall_impl; [|exact H]. intros a <-. lia.
Qed.

Lemma ids_below_sample e sh n cs u multi :
  ids_below n (obs (vis_of e sh multi) (sample_prog e sh n cs u)).
Proof.
  unfold sample_prog, sample_core, gen_phase, call_phase.
  set (v := vis_of e sh multi). set (s := eff_shape e sh). set (p := path_of s).
  rewrite !obs_app, !obs_flat_map.
  apply ids_below_app; [|apply ids_below_app; [|apply ids_below_app; [|apply ids_below_app]]].
  - apply ids_below_blocks. intros i. apply ids_gen.
  - destruct v as [? ? ? []]; repeat constructor.
  - apply ids_below_blocks. intros i. apply ids_call.
  - destruct v as [? ? ? []]; repeat constructor.
  - unfold drop_phase. destruct p; try (rewrite obs_flat_map; apply ids_below_blocks; intros i; apply ids_drop).
    destruct (i_drop s); [rewrite obs_flat_map; apply ids_below_blocks; intros i; apply ids_drop|constructor].
Qed.

Lemma gid_thread t base i :
  (N.of_nat (base + i) < 4294967296)%N -> (gid t base i / 4294967296 = N.of_nat t)%N.
Proof.
  intros H. unfold gid. rewrite N.div_add_l by discriminate.
  rewrite N.div_small by exact H. apply N.add_0_r.
Qed.

(** Every identifier in the log of thread [t] was made on thread [t]: a value
    is generated, counted, consumed and dropped on one and the same thread. *)
Lemma thread_affine c t :
  (N.of_nat (rounds c * eff_size c) < 4294967296)%N ->
  Forall (fun e => ev_thread_ok t e = true) (thread_log c t).
Proof.
  intros Hb. unfold thread_log. apply Forall_app. split.
  - destruct (Nat.eqb t 0 && negb (Nat.eqb (rounds c) 0)); repeat constructor.
  - apply Forall_forall. intros e He. apply in_flat_map in He. destruct He as (rd & Hrd & He).
    apply in_seq in Hrd. apply in_map_iff in He. destruct He as (e0 & <- & He0).
    pose proof (ids_below_sample (r_entry c) (r_shape c) (eff_size c) (r_cs c) (r_udrop c)
                  (negb (Nat.eqb (eff_aux c) 0))) as Hids.
    unfold ids_below in Hids. rewrite Forall_forall in Hids. specialize (Hids e0 He0).
    assert (Hg : forall i, i < eff_size c ->
                 (gid t (rd * eff_size c) i / 4294967296 =? N.of_nat t)%N = true).
    { intros i Hi. apply N.eqb_eq. apply gid_thread.
      assert (rd * eff_size c + i < rounds c * eff_size c) by nia. lia. }
    destruct e0; cbn in *; try reflexivity;
      repeat match goal with
      | H : Forall _ (_ :: _) |- _ => inversion H; clear H; subst
      end; rewrite ?Hg by assumption; reflexivity.
Qed.

(** The hypotheses above are satisfiable by non-trivial configurations. *)
Definition example_cfg : rcfg :=
  mkR ELocalRefs (mkShape false true false true) (mkCs true false false true) true 17 7 4 false.

Example local_on_caller_example :
  is_local (r_entry example_cfg) = true /\ run_threads example_cfg <> [] /\ r_aux example_cfg = 4.
Proof. repeat split. discriminate. Qed.

Example thread_affine_example :
  (N.of_nat (rounds example_cfg * eff_size example_cfg) < 4294967296)%N /\ rounds example_cfg = 7.
Proof. split; reflexivity. Qed.
