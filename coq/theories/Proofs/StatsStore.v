(** The counts stored for a per-input counter kind by the recording loop:
    one per recorded sample, each that sample's own per-iteration value. *)
From DivanV Require Import Base.Res Model.Stats Proofs.StatsLists Proofs.Stats Proofs.StatsProv.
From Coq Require Import ZifyN ZifyBool ZifyNat.
Local Open Scope N_scope.

Definition stored_value (p : N * list N) : N := (sum_list (snd p) / fst p) mod 2 ^ 64.

(** Loop invariant: the kind is per-input, and the stored counts are exactly
    the per-iteration values of the samples still stored, in order. *)
Definition store_inv (st : nat * counter_in) (kept : list (N * list N)) : Prop :=
  ci_input (snd st) = true /\ fst st = length kept /\ ci_counts (snd st) = map stored_value kept.

Definition round_wf (round : bool * N * list (list N)) : Prop :=
  snd (fst round) <> 0 /\ Forall (fun x => sum_list x < 2 ^ 128) (snd round).

Lemma push_sample_inv ssize st kept x :
  store_inv st kept -> ssize <> 0 -> sum_list x < 2 ^ 128 ->
  exists st', push_sample ssize st x = Ok st' /\ store_inv st' (kept ++ [(ssize, x)]).
Proof.
  intros (Hi & Hn & Hc) Hs Hx. unfold push_sample. rewrite Hi.
  destruct (counter_per_iter x ssize Hs Hx) as [-> _]. cbn [bind]. eexists. split; [reflexivity|].
  split; [reflexivity|]. cbn [fst snd ci_counts]. split.
  - rewrite app_length, Hn. cbn [length]. lia.
  - rewrite map_app, Hc. reflexivity.
Qed.

Lemma push_samples_inv ssize raw : forall st kept,
  store_inv st kept -> ssize <> 0 -> Forall (fun x => sum_list x < 2 ^ 128) raw ->
  exists st', push_samples ssize st raw = Ok st' /\ store_inv st' (kept ++ map (fun x => (ssize, x)) raw).
Proof.
  induction raw as [|x r IH]; intros st kept Hinv Hs Hf; cbn [push_samples map].
  - exists st. rewrite app_nil_r. split; [reflexivity|exact Hinv].
  - inversion Hf as [|? ? Hx Hr]; subst.
    destruct (push_sample_inv ssize st kept x Hinv Hs Hx) as (st1 & -> & Hinv1). cbn [bind].
    destruct (IH st1 _ Hinv1 Hs Hr) as (st2 & -> & Hinv2). exists st2. split; [reflexivity|].
    rewrite <- app_assoc in Hinv2. exact Hinv2.
Qed.

Lemma record_rounds_inv rounds : forall st kept,
  store_inv st kept -> Forall round_wf rounds ->
  exists st', record_rounds st rounds = Ok st' /\ store_inv st' (kept_samples kept rounds).
Proof.
  induction rounds as [|[[tune ssize] raw] rest IH]; intros st kept Hinv Hwf; cbn [record_rounds kept_samples].
  - exists st. split; [reflexivity|exact Hinv].
  - inversion Hwf as [|? ? [Hs Hraw] Hrest]; subst. cbn [fst snd] in Hs, Hraw.
    unfold record_round.
    assert (store_inv (if tune then (0%nat, clear_input_counts (snd st)) else st) (if tune then [] else kept)) as Hinv0.
    { destruct tune; [|exact Hinv]. destruct Hinv as (Hi & _ & _). unfold clear_input_counts. rewrite Hi.
      split; [reflexivity|]. split; reflexivity. }
    destruct (push_samples_inv ssize raw _ _ Hinv0 Hs Hraw) as (st1 & -> & Hinv1). cbn [bind].
    apply IH; assumption.
Qed.

(** [C05_counts_length]: whatever was stored for the kind before
    [input_counter] was called, and however the rounds are split between tuning
    and collecting: the kind stays per-input, the number of stored counts is the
    number of stored samples, and each is its sample's own per-iteration value.
    Never a panic.  Guards: sample sizes are not 0, a sample's input counts sum
    below 2^128. *)
Theorem counts_length ci0 rounds :
  Forall round_wf rounds ->
  exists n ci, record_rounds (0%nat, set_input_counter ci0) rounds = Ok (n, ci) /\
    ci_input ci = true /\
    length (ci_counts ci) = n /\ n = length (kept_samples [] rounds) /\
    ci_counts ci = map stored_value (kept_samples [] rounds).
Proof.
  intros Hwf.
  destruct (record_rounds_inv rounds (0%nat, set_input_counter ci0) []) as ([n ci] & H & (Hi & Hn & Hc)).
  { split; [reflexivity|]. split; reflexivity. }
  { exact Hwf. }
  exists n, ci. cbn [fst snd] in *. split; [exact H|]. split; [exact Hi|].
  split; [rewrite Hc, map_length; symmetry; exact Hn|]. split; [exact Hn|exact Hc].
Qed.

Lemma stored_values_ok ssize l :
  Forall (fun p => fst p = ssize) l ->
  forallb2 (fun sum v => v =? (sum / ssize) mod 2 ^ 64)
           (map (fun p : N * list N => sum_list (snd p)) l) (map stored_value l) = true.
Proof.
  induction 1 as [|p l Hp Hl IH]; [reflexivity|]. cbn [map forallb2]. rewrite IH, andb_true_r.
  unfold stored_value. rewrite Hp. apply N.eqb_refl.
Qed.

(** The specification evaluated on the real runs' dumps holds of the storage model. *)
Lemma stored_model_sb ci0 rounds ssize n ci :
  Forall round_wf rounds ->
  Forall (fun p => fst p = ssize) (kept_samples [] rounds) ->
  record_rounds (0%nat, set_input_counter ci0) rounds = Ok (n, ci) ->
  stored_counts_sb ssize (map (fun p => sum_list (snd p)) (kept_samples [] rounds)) ci = true.
Proof.
  intros Hwf Hsz H. destruct (counts_length ci0 rounds Hwf) as (n' & ci' & H' & Hi & _ & _ & Hc).
  rewrite H in H'. injection H' as <- <-. unfold stored_counts_sb. rewrite Hi, Hc. cbn [andb].
  apply stored_values_ok. exact Hsz.
Qed.

Example counts_length_satisfiable :
  Forall round_wf [(true, 1, [[5]]); (true, 2, [[5; 8]; [1; 1]]); (false, 2, [[9; 9]])] /\
  record_rounds (0%nat, set_input_counter {| ci_counts := [1000]; ci_input := false |})
                [(true, 1, [[5]]); (true, 2, [[5; 8]; [1; 1]]); (false, 2, [[9; 9]])]
  = Ok (3%nat, {| ci_counts := [6; 1; 9]; ci_input := true |}).
Proof.
  split; [|reflexivity].
  repeat constructor; cbn; try discriminate; reflexivity.
Qed.

(** * [Bencher::counter] after [input_counter] of the same kind *)

Lemma push_samples_constant ssize raw : forall n ci,
  ci_input ci = false ->
  push_samples ssize (n, ci) raw = Ok ((n + length raw)%nat, ci).
Proof.
  induction raw as [|x r IH]; intros n ci Hi; cbn [push_samples length].
  - rewrite Nat.add_0_r. reflexivity.
  - unfold push_sample. cbn [fst snd]. rewrite Hi. cbn [bind]. rewrite IH by exact Hi. f_equal. f_equal. lia.
Qed.

Lemma record_rounds_constant rounds : forall n ci kept,
  ci_input ci = false -> n = length kept ->
  record_rounds (n, ci) rounds = Ok (length (kept_samples kept rounds), ci).
Proof.
  induction rounds as [|[[tune ssize] raw] rest IH]; intros n ci kept Hi Hn; cbn [record_rounds kept_samples].
  - subst. reflexivity.
  - unfold record_round. cbn [snd].
    replace (clear_input_counts ci) with ci by (unfold clear_input_counts; rewrite Hi; reflexivity).
    destruct tune.
    + rewrite push_samples_constant by exact Hi. cbn [bind]. apply IH; [exact Hi|].
      cbn [app]. rewrite map_length. reflexivity.
    + rewrite push_samples_constant by exact Hi. cbn [bind]. apply IH; [exact Hi|].
      rewrite app_length, map_length. subst. reflexivity.
Qed.

(** Current code: a constant set with [Bencher::counter] after [input_counter]
    of the same kind replaces it: whatever the rounds, no panic, one stored
    count, the kind is not per-input, and every sample reports that constant. *)
Theorem counter_overrides_input_counter ci0 c rounds :
  let ci := {| ci_counts := [c]; ci_input := false |} in
  set_counter c (set_input_counter ci0) = ci /\
  record_rounds (0%nat, set_counter c (set_input_counter ci0)) rounds
    = Ok (length (kept_samples [] rounds), ci) /\
  constant_counter_sb c ci = true /\
  forall s, count_for ci s = Some c.
Proof.
  cbn zeta. split; [reflexivity|]. split; [|split].
  - apply (record_rounds_constant rounds 0%nat _ []); reflexivity.
  - unfold constant_counter_sb. cbn. apply N.eqb_refl.
  - intros s. reflexivity.
Qed.

(** Before commit 5377f60 [set_counter] left the kind per-input with the
    constant as a stale first entry; without a tuning round (explicit sample
    size) every sample then read its predecessor's count (4 counts for 3
    samples). *)
Example old_counter_after_input_counter_is_stale :
  record_rounds (0%nat, set_counter_old 3023 (set_input_counter {| ci_counts := []; ci_input := false |}))
                [(false, 2, [[252; 726]; [432; 141]; [615; 321]])]
  = Ok (3%nat, {| ci_counts := [3023; 489; 286; 468]; ci_input := true |}).
Proof. reflexivity. Qed.

(** The same run on the current code. *)
Example counter_after_input_counter_now :
  record_rounds (0%nat, set_counter 3023 (set_input_counter {| ci_counts := []; ci_input := false |}))
                [(false, 2, [[252; 726]; [432; 141]; [615; 321]])]
  = Ok (3%nat, {| ci_counts := [3023]; ci_input := false |}).
Proof. reflexivity. Qed.
