(** The hereditary statement for whole trees: when every sibling set at every
    depth satisfies the three conditions of [Proofs/TreeCmp.v] and every
    argument list the oracle condition, [sort_forest] returns (no fuel
    exhaustion, no order-violation panic) and the result is the input with
    every sibling set and argument list put in sorted order. *)

From Coq Require Import Permutation QArith.
From DivanV Require Import Base.Res Generated.Consts Model.Natural Model.SortBy Model.ArgCmp Model.TreeCmp
  Proofs.SortCmp Proofs.Natural Proofs.ArgCmp Proofs.TreeCmp.
Local Open Scope N_scope.

Section Hereditary.
Variable V : Type.
Variable vcmp : V -> V -> comparison.
Variable fparse : bytes -> option V.

Notation arg_cmp := (arg_cmp V vcmp fparse).
Notation sort_node := (sort_node V vcmp fparse).
Notation sort_forest := (sort_forest V vcmp fparse).

(** The three conditions on one sibling set. *)
Definition sib_ok (l : list tree) : Prop :=
  let S := fun t => In t l in
  addr_identity S /\ loc_addr_uniform S /\ consts_uniform S.

(** ... at every depth, and the oracle condition on every argument list. *)
Inductive wf_tree : tree -> Prop :=
| WF_leaf_none : forall a n c l, wf_tree (Leaf a n c l None)
| WF_leaf_args : forall a n c l args,
    oracle_ok_on V vcmp fparse (in_names args) -> wf_tree (Leaf a n c l (Some args))
| WF_parent : forall raw g ch, sib_ok ch -> Forall wf_tree ch -> wf_tree (Parent raw g ch).

(** [sorted_perm attr rev t t']: [t'] is [t] with, at every node, the children
    arranged in a sorted permutation [mid] (for the comparator in the chosen
    direction) and each of them treated in the same way; on a leaf the
    arguments are the names of a sorted permutation of the indexed arguments. *)
Inductive sorted_perm (attr : sort_attr) (rev : bool) : tree -> tree -> Prop :=
| SP_leaf_none : forall a n c l, sorted_perm attr rev (Leaf a n c l None) (Leaf a n c l None)
| SP_leaf_args : forall a n c l args L,
    Permutation (indexed args) L -> ssorted (revc rev (arg_cmp attr)) L ->
    sorted_perm attr rev (Leaf a n c l (Some args)) (Leaf a n c l (Some (map snd L)))
| SP_parent : forall raw g ch mid ch',
    Permutation ch mid -> ssorted (revc rev (cmp_by_attr attr)) mid ->
    Forall2 (sorted_perm attr rev) mid ch' ->
    sorted_perm attr rev (Parent raw g ch) (Parent raw g ch').

Lemma depth_child : forall c ch, In c ch ->
  (depth c <= fold_right (fun c m => Nat.max (depth c) m) 0%nat ch)%nat.
Proof.
  induction ch as [|x r IH]; intros H; [destruct H|].
  simpl. destruct H as [->|H]; [lia|]. specialize (IH H). lia.
Qed.

Lemma sort_children_ok : forall f attr rev l,
  (forall c, In c l -> exists c', sort_node f attr rev c = Ok c' /\ sorted_perm attr rev c c') ->
  exists l',
    (fix go (l : list tree) : res (list tree) :=
       match l with
       | [] => Ok []
       | c :: r => do c' <- sort_node f attr rev c; do r' <- go r; Ok (c' :: r')
       end) l = Ok l' /\ Forall2 (sorted_perm attr rev) l l'.
Proof.
  induction l as [|x r IH]; intros H.
  - exists []. split; [reflexivity|constructor].
  - destruct (H x (or_introl eq_refl)) as (x' & Ex & Sx).
    destruct IH as (r' & Er & Sr); [intros c Hc; apply H; right; exact Hc|].
    exists (x' :: r'). split; [|constructor; assumption].
    rewrite Ex. simpl. rewrite Er. reflexivity.
Qed.

Lemma sort_node_total : forall fuel attr rev t,
  (depth t <= fuel)%nat -> wf_tree t ->
  exists t', sort_node fuel attr rev t = Ok t' /\ sorted_perm attr rev t t'.
Proof.
  induction fuel as [|f IH]; intros attr rev t Hd W.
  - destruct t; simpl in Hd; lia.
  - destruct W as [a n c l|a n c l args OK|raw g ch [H1 [H2 H3]] Wch].
    + exists (Leaf a n c l None). split; [reflexivity|constructor].
    + simpl.
      rewrite (sort_by_ok (D args) _ (tpo_rev_arg_cmp_D V vcmp fparse args OK attr rev) _ (Forall_D_indexed args)).
      simpl. eexists. split; [reflexivity|]. apply SP_leaf_args.
      * apply isort_perm.
      * apply (isort_sorted (D args) _ (tpo_rev_arg_cmp_D V vcmp fparse args OK attr rev)).
        apply Forall_D_indexed.
    + set (S := fun t => In t ch).
      assert (T : tpo_on S (revc rev (cmp_by_attr attr))).
      { apply tpo_rev. apply (tpo_cmp_by_attr S H1 H2 H3). }
      assert (FS : Forall S ch) by (apply Forall_forall; intros x Hx; exact Hx).
      set (mid := isort (revc rev (cmp_by_attr attr)) ch).
      assert (PM : Permutation ch mid) by apply isort_perm.
      assert (SM : ssorted (revc rev (cmp_by_attr attr)) mid) by (apply (isort_sorted S _ T); exact FS).
      destruct (sort_children_ok f attr rev mid) as (ch' & Ech & Sch).
      { intros c Hc. assert (Hin : In c ch) by (eapply Permutation_in; [apply Permutation_sym; exact PM|exact Hc]).
        apply IH.
        - simpl in Hd. pose proof (depth_child c ch Hin). lia.
        - rewrite Forall_forall in Wch. apply Wch. exact Hin. }
      exists (Parent raw g ch'). split.
      * cbn [TreeCmp.sort_node]. rewrite (sort_by_ok S _ T ch FS). fold mid.
        cbn [bind]. rewrite Ech. reflexivity.
      * apply (SP_parent attr rev raw g ch mid ch'); assumption.
Qed.

(** The whole forest. *)
Lemma sort_forest_total : forall attr rev ts,
  sib_ok ts -> Forall wf_tree ts ->
  exists ts', sort_forest attr rev ts = Ok ts' /\
    sorted_perm attr rev (Parent [] None ts) (Parent [] None ts') /\
    tree_perm (Parent [] None ts) (Parent [] None ts').
Proof.
  intros attr rev ts Hs Hw.
  destruct (sort_node_total (S (depth (Parent [] None ts))) attr rev (Parent [] None ts)) as (t' & E & SP).
  - lia.
  - apply WF_parent; assumption.
  - inversion SP; subst. exists ch'.
    assert (EF : sort_forest attr rev ts = Ok ch').
    { unfold TreeCmp.sort_forest. rewrite E. reflexivity. }
    split; [exact EF|split; [exact SP|]].
    apply (sort_forest_perm V vcmp fparse attr rev). exact EF.
Qed.

End Hereditary.

(** Satisfiability by a non-trivial forest (exact decimal oracle): a module with
    two benchmarks, one of them with arguments, beside a top-level benchmark. *)
Definition ex_loc1 : loc := ([97], (10, 1)).
Definition ex_loc2 : loc := ([97], (5, 1)).
Definition ex_loc3 : loc := ([98], (1, 1)).
Definition ex_b2 : tree := Leaf 0 [98; 50] None ex_loc1 (Some [[49; 48]; [57]; [49; 46; 53]]).
Definition ex_b10 : tree := Leaf 1 [98; 49; 48] None ex_loc2 None.
Definition ex_mod : tree := Parent [109] None [ex_b2; ex_b10].
Definition ex_top : tree := Leaf 2 [116] None ex_loc3 None.
Definition ex_forest : list tree := [ex_mod; ex_top].

Lemma ex_sib_ok_inner : sib_ok [ex_b2; ex_b10].
Proof.
  split; [|split].
  - intros x y a [<-|[<-|[]]] [<-|[<-|[]]]; simpl; intros E1 E2; congruence.
  - intros x y [<-|[<-|[]]] [<-|[<-|[]]] _; simpl; split; discriminate.
  - intros x y [<-|[<-|[]]] [<-|[<-|[]]]; simpl; exact I.
Qed.

Lemma ex_sib_ok_outer : sib_ok ex_forest.
Proof.
  split; [|split].
  - intros x y a [<-|[<-|[]]] [<-|[<-|[]]]; simpl; intros E1 E2; congruence.
  - intros x y [<-|[<-|[]]] [<-|[<-|[]]]; vm_compute; intros E; try discriminate E; split; congruence.
  - intros x y [<-|[<-|[]]] [<-|[<-|[]]]; simpl; exact I.
Qed.

Example sort_forest_hyps_satisfiable :
  sib_ok ex_forest /\ Forall (wf_tree fval fval_cmp dec_parse) ex_forest.
Proof.
  split; [exact ex_sib_ok_outer|].
  constructor; [|constructor; [|constructor]].
  - apply WF_parent; [exact ex_sib_ok_inner|].
    constructor; [|constructor; [|constructor]].
    + apply WF_leaf_args. apply oracle_dec_ok.
    + apply WF_leaf_none.
  - apply WF_leaf_none.
Qed.

Lemma sort_forest_dec_total : forall attr rev ts,
  sib_ok ts -> Forall (wf_tree fval fval_cmp dec_parse) ts ->
  exists ts', sort_forest_dec attr rev ts = Ok ts' /\
    sorted_perm fval fval_cmp dec_parse attr rev (Parent [] None ts) (Parent [] None ts') /\
    tree_perm (Parent [] None ts) (Parent [] None ts').
Proof. intros. apply sort_forest_total; assumption. Qed.
