(** C12: registration order changes the built tree only by the order of
    siblings.  A trie without empty parents is determined, up to sibling order,
    by the chains of its leaves. *)
From Coq Require Import Permutation.
From DivanV Require Import Base.Res Model.Registry Model.Tree Model.Driver
  Proofs.TreeBase Proofs.DriverExec Proofs.TreeLeaves Proofs.Flat.
Local Open Scope N_scope.
Arguments mk_leaf : simpl never.

(** Equality of trees up to the order of siblings (argument lists of leaves equal). *)
Inductive tree_equiv : tree -> tree -> Prop :=
| TE_leaf : forall e a, tree_equiv (Leaf e a) (Leaf e a)
| TE_parent : forall r g ch ch1 ch2,
    Forall2 tree_equiv ch ch1 -> Permutation ch1 ch2 -> tree_equiv (Parent r g ch) (Parent r g ch2).
Definition forest_equiv (l l2 : list tree) : Prop :=
  exists l1, Forall2 tree_equiv l l1 /\ Permutation l1 l2.

(** No parent without a leaf below it. *)
Fixpoint inhab (t : tree) : bool :=
  match t with
  | Leaf _ _ => true
  | Parent _ _ ch => negb (is_nil ch) && forallb inhab ch
  end.

Definition LR (l : list tree) : list cleaf := flat_map leaves_rel l.

Lemma inhab_leaves : forall t, inhab t = true -> exists x, In x (leaves_rel t).
Proof.
  induction t as [e a|r g ch IH] using tree_ind'; intro H.
  - exists ([], e, a). left. reflexivity.
  - cbn in H. apply andb_true_iff in H. destruct H as [Hn Hall].
    destruct ch as [|c tl]; [discriminate|]. inversion IH as [|? ? Hc _]; subst.
    cbn in Hall. apply andb_true_iff in Hall. destruct Hall as [Hci _].
    destruct (Hc Hci) as [x Hx]. exists (cprepend (r, g) x). cbn [leaves_rel]. apply in_map. cbn [flat_map].
    apply in_or_app. left. exact Hx.
Qed.

(** ** [inhab] is kept by construction *)
Lemma inhab_from_path : forall e rest m, inhab (from_path e m rest) = true.
Proof.
  intros e. induction rest as [|n r IH]; intro m; cbn [from_path inhab forallb is_nil negb andb].
  - unfold mk_leaf. reflexivity.
  - rewrite IH. reflexivity.
Qed.

Lemma update_first_not_nil : forall p f l l', update_first p f l = Some l' -> is_nil l' = false.
Proof.
  intros p f [|x tl] l' H; [discriminate|]. cbn in H. destruct (p x); [inversion H; reflexivity|].
  destruct (update_first p f tl); [inversion H; reflexivity|discriminate].
Qed.

Lemma inhab_insert_entry : forall e path t,
  forallb inhab t = true -> forallb inhab (insert_entry path e t) = true /\ is_nil (insert_entry path e t) = false.
Proof.
  intros e. induction path as [|m rest IH]; intros t H; cbn [insert_entry].
  - split; [apply forallb_app_intro; [exact H|unfold mk_leaf; reflexivity]|destruct t; reflexivity].
  - destruct (update_first _ _ t) as [t'|] eqn:E.
    + split; [|eapply update_first_not_nil; exact E].
      eapply update_first_forallb; [|exact E|exact H].
      intros [r g ch|e0 a] Hx; [|exact Hx]. cbn [map_children inhab] in *.
      apply andb_true_iff in Hx. destruct Hx as [_ Hall]. destruct (IH ch Hall) as [H1 H2]. rewrite H1, H2. reflexivity.
    + split; [|destruct t; reflexivity]. apply forallb_app_intro; [exact H|]. cbn [forallb]. rewrite inhab_from_path. reflexivity.
Qed.

Lemma inhab_from_benches : forall es, forallb inhab (from_benches es) = true.
Proof.
  intro es. unfold from_benches. assert (H : forallb inhab [] = true) by reflexivity.
  revert H. generalize (@nil tree). induction es as [|e es IH]; intros t H; cbn; [exact H|].
  apply IH. apply inhab_insert_entry. exact H.
Qed.

Lemma inhab_descend : forall k,
  (forall l, forallb inhab l = true -> forallb inhab (k l) = true /\ is_nil (k l) = is_nil l) ->
  forall comps l, forallb inhab l = true -> forallb inhab (descend comps k l) = true /\ is_nil (descend comps k l) = is_nil l.
Proof.
  intros k Hk. induction comps as [|c rest IH]; intros l H; cbn [descend]; [apply Hk; exact H|].
  destruct (update_first _ _ l) as [l'|] eqn:E; cbn [or_same]; [|split; [exact H|reflexivity]].
  split.
  - eapply update_first_forallb; [|exact E|exact H].
    intros [r g ch|e0 a] Hx; [|exact Hx]. cbn [map_children inhab] in *.
    apply andb_true_iff in Hx. destruct Hx as [Hn Hall]. destruct (IH ch Hall) as [H1 H2]. rewrite H1, H2, Hn. reflexivity.
  - rewrite (update_first_not_nil _ _ _ _ E). destruct l; [discriminate|reflexivity].
Qed.

Lemma inhab_insert_group : forall g l, forallb inhab l = true -> forallb inhab (insert_group l g) = true.
Proof.
  intros g l H. unfold insert_group. apply inhab_descend; [|exact H].
  intros l0 H0. destruct (update_first _ _ l0) as [l'|] eqn:E; cbn [or_same]; [|split; [exact H0|reflexivity]].
  split.
  - eapply update_first_forallb; [|exact E|exact H0]. intros [r g0 ch|e0 a] Hx; exact Hx.
  - rewrite (update_first_not_nil _ _ _ _ E). destruct l0; [discriminate|reflexivity].
Qed.

Lemma inhab_build_tree : forall benches groups, forallb inhab (build_tree benches groups) = true.
Proof.
  intros. unfold build_tree. generalize (inhab_from_benches (all_entries benches groups)).
  generalize (from_benches (all_entries benches groups)).
  induction groups as [|g gs IH]; intros t H; cbn; [exact H|]. apply IH. apply inhab_insert_group. exact H.
Qed.

(** ** Selecting the leaves below one top-level parent *)
Definition has_head (r : str) (x : cleaf) : bool :=
  match fst (fst x) with (r', _) :: _ => str_eqb r' r | [] => false end.

Lemma filter_head_node : forall r t,
  filter (has_head r) (leaves_rel t) = if is_parent_named r t then leaves_rel t else [].
Proof.
  intros r [r' g ch|e a]; [|reflexivity]. cbn [leaves_rel is_parent_named].
  destruct (str_eqb r' r) eqn:E.
  - apply filter_all. intros x Hx. apply in_map_iff in Hx. destruct Hx as [y [Hy _]]. subst. exact E.
  - apply filter_none. intros x Hx. apply in_map_iff in Hx. destruct Hx as [y [Hy _]]. subst. exact E.
Qed.

Lemma filter_nohead_node : forall r t,
  filter (fun x => negb (has_head r x)) (leaves_rel t) = if is_parent_named r t then [] else leaves_rel t.
Proof.
  intros r [r' g ch|e a]; [|reflexivity]. cbn [leaves_rel is_parent_named].
  destruct (str_eqb r' r) eqn:E.
  - apply filter_none. intros x Hx. apply in_map_iff in Hx. destruct Hx as [y [Hy _]]. subst. unfold has_head. cbn. rewrite E. reflexivity.
  - apply filter_all. intros x Hx. apply in_map_iff in Hx. destruct Hx as [y [Hy _]]. subst. unfold has_head. cbn. rewrite E. reflexivity.
Qed.

Lemma not_named : forall r l t, ~ In r (parent_names l) -> In t l -> is_parent_named r t = false.
Proof.
  intros r l t Hn Ht. destruct (is_parent_named r t) eqn:E; [|reflexivity]. exfalso. apply Hn.
  apply is_parent_named_spec in E. unfold parent_names. apply in_flat_map. exists t. split; [exact Ht|]. rewrite E. left. reflexivity.
Qed.

Lemma filter_head_absent : forall r l, ~ In r (parent_names l) -> filter (has_head r) (LR l) = [].
Proof.
  intros r l Hn. unfold LR. rewrite filter_flat_map. 
  induction l as [|t tl IH]; [reflexivity|]. cbn [flat_map]. rewrite filter_head_node.
  rewrite (not_named r (t :: tl) t Hn (or_introl eq_refl)). cbn [app]. apply IH.
  intro H. apply Hn. unfold parent_names. cbn [flat_map]. apply in_or_app. right. exact H.
Qed.

Lemma filter_nohead_absent : forall r l, ~ In r (parent_names l) -> filter (fun x => negb (has_head r x)) (LR l) = LR l.
Proof.
  intros r l Hn. unfold LR. rewrite filter_flat_map.
  induction l as [|t tl IH]; [reflexivity|]. cbn [flat_map]. rewrite filter_nohead_node.
  rewrite (not_named r (t :: tl) t Hn (or_introl eq_refl)). f_equal. apply IH.
  intro H. apply Hn. unfold parent_names. cbn [flat_map]. apply in_or_app. right. exact H.
Qed.

Lemma LR_app : forall l1 l2, LR (l1 ++ l2) = LR l1 ++ LR l2.
Proof. intros. unfold LR. apply flat_map_app. Qed.

Lemma names_split : forall A r g ch B,
  NoDup (parent_names (A ++ Parent r g ch :: B)) ->
  ~ In r (parent_names A) /\ ~ In r (parent_names B) /\ NoDup (parent_names (A ++ B)).
Proof.
  intros A r g ch B H. rewrite parent_names_app in H. cbn [parent_names flat_map parent_name app] in H.
  fold (parent_names B) in H. pose proof (NoDup_remove_1 _ _ _ H) as H1. pose proof (NoDup_remove_2 _ _ _ H) as H2.
  rewrite parent_names_app. split; [|split; [|exact H1]]; intro Hin; apply H2; apply in_or_app; [left|right]; exact Hin.
Qed.

Lemma select_parent : forall A r g ch B, NoDup (parent_names (A ++ Parent r g ch :: B)) ->
  filter (has_head r) (LR (A ++ Parent r g ch :: B)) = leaves_rel (Parent r g ch) /\
  filter (fun x => negb (has_head r x)) (LR (A ++ Parent r g ch :: B)) = LR (A ++ B).
Proof.
  intros A r g ch B H. destruct (names_split A r g ch B H) as [HA [HB _]].
  assert (E : LR (A ++ Parent r g ch :: B) = LR A ++ leaves_rel (Parent r g ch) ++ LR B).
  { rewrite LR_app. reflexivity. }
  rewrite E, !filter_app.
  rewrite (filter_head_absent r A HA), (filter_head_absent r B HB), (filter_nohead_absent r A HA), (filter_nohead_absent r B HB).
  rewrite filter_head_node, filter_nohead_node. cbn [is_parent_named]. rewrite str_eqb_refl.
  rewrite app_nil_r, LR_app. split; reflexivity.
Qed.

(** ** Uniqueness *)
Definition determined (t : tree) : Prop :=
  forall t', trie t -> inhab t = true -> trie t' -> inhab t' = true ->
             Permutation (leaves_rel t) (leaves_rel t') -> tree_equiv t t'.

Lemma cprepend_inj : forall p x y, cprepend p x = cprepend p y -> x = y.
Proof. intros p [[cx ex] ax] [[cy ey] ay] H. unfold cprepend in H. cbn in H. inversion H. reflexivity. Qed.

Lemma map_inj : forall A B (f : A -> B), (forall x y, f x = f y -> x = y) -> forall l l', map f l = map f l' -> l = l'.
Proof.
  intros A B f Hf. induction l as [|x tl IH]; intros [|y tl'] H; try discriminate; [reflexivity|].
  cbn in H. inversion H. f_equal; [apply Hf; assumption|apply IH; assumption].
Qed.

Lemma Permutation_map_inj : forall A B (f : A -> B), (forall x y, f x = f y -> x = y) ->
  forall l l', Permutation (map f l) (map f l') -> Permutation l l'.
Proof.
  intros A B f Hf l l' H. apply Permutation_map_inv in H. destruct H as [l3 [H1 H2]].
  apply (map_inj _ _ f Hf) in H1. subst l3. apply Permutation_sym. exact H2.
Qed.

Lemma forest_determined : forall T, Forall determined T ->
  trie_forest T -> forallb inhab T = true ->
  forall T', trie_forest T' -> forallb inhab T' = true ->
  Permutation (LR T) (LR T') -> forest_equiv T T'.
Proof.
  induction T as [|x tl IH]; intros Hdet [Hnd Htr] Hin T' [Hnd' Htr'] Hin' Hp.
  - (* no leaves: T' is empty *)
    destruct T' as [|y tl']; [exists []; split; constructor|]. exfalso.
    cbn in Hin'. apply andb_true_iff in Hin'. destruct Hin' as [Hy _]. destruct (inhab_leaves y Hy) as [z Hz].
    cbn in Hp. apply Permutation_nil in Hp. unfold LR in Hp. cbn [flat_map] in Hp. apply app_eq_nil in Hp. destruct Hp as [Hp _].
    rewrite Hp in Hz. exact Hz.
  - inversion Hdet as [|? ? Hx Hdtl]; subst. inversion Htr as [|? ? Htx Httl]; subst.
    cbn in Hin. apply andb_true_iff in Hin. destruct Hin as [Hix Hitl].
    destruct x as [r g ch|e a].
    + (* a parent: find the parent of that name in T' *)
      destruct (inhab_leaves _ Hix) as [z Hz].
      assert (HzT' : In z (LR T')).
      { apply (Permutation_in z Hp). unfold LR. cbn [flat_map]. apply in_or_app. left. exact Hz. }
      unfold LR in HzT'. apply in_flat_map in HzT'. destruct HzT' as [y [Hy Hzy]].
      cbn [leaves_rel] in Hz. apply in_map_iff in Hz. destruct Hz as [z0 [Hz0 _]]. subst z.
      destruct y as [r' g' ch'|e' a']; [|destruct Hzy as [Hzy|[]]; discriminate].
      cbn [leaves_rel] in Hzy. apply in_map_iff in Hzy. destruct Hzy as [z1 [Hz1 _]].
      unfold cprepend in Hz1. cbn in Hz1. inversion Hz1. subst r' g'.
      apply in_split in Hy. destruct Hy as [A [B HT']]. subst T'.
      cbn [parent_names flat_map parent_name app] in Hnd. fold (parent_names tl) in Hnd.
      destruct (select_parent [] r g ch tl Hnd) as [S1 S2]. destruct (select_parent A r g ch' B Hnd') as [S1' S2'].
      cbn [app] in S1, S2.
      assert (Px : Permutation (leaves_rel (Parent r g ch)) (leaves_rel (Parent r g ch'))).
      { rewrite <- S1, <- S1'. apply filter_perm. exact Hp. }
      assert (Ptl : Permutation (LR tl) (LR (A ++ B))).
      { rewrite <- S2, <- S2'. apply filter_perm. exact Hp. }
      apply Forall_app in Htr'. destruct Htr' as [HtA HtB]. inversion HtB as [|? ? Hty HtB']; subst.
      rewrite forallb_app in Hin'. apply andb_true_iff in Hin'. destruct Hin' as [HiA HiB]. cbn in HiB.
      apply andb_true_iff in HiB. destruct HiB as [Hiy HiB'].
      pose proof (Hx (Parent r g ch') Htx Hix Hty Hiy Px) as Heq.
      destruct (names_split A r g ch' B Hnd') as [_ [_ HndAB]].
      inversion Hnd as [|? ? _ Hndtl]; subst.
      destruct (IH Hdtl (conj Hndtl Httl) Hitl (A ++ B)) as [l1 [F1 P1]].
      { split; [exact HndAB|]. apply Forall_app. split; assumption. }
      { rewrite forallb_app, HiA, HiB'. reflexivity. }
      { exact Ptl. }
      exists (Parent r g ch' :: l1). split; [constructor; assumption|].
      apply Permutation_cons_app. exact P1.
    + (* a leaf: the same leaf is in T' *)
      assert (HzT' : In ([], e, a) (LR T')).
      { apply (Permutation_in _ Hp). unfold LR. cbn [flat_map leaves_rel]. left. reflexivity. }
      unfold LR in HzT'. apply in_flat_map in HzT'. destruct HzT' as [y [Hy Hzy]].
      destruct y as [r' g' ch'|e' a'].
      { cbn [leaves_rel] in Hzy. apply in_map_iff in Hzy. destruct Hzy as [z1 [Hz1 _]]. discriminate. }
      destruct Hzy as [Hzy|[]]. inversion Hzy. subst e' a'.
      apply in_split in Hy. destruct Hy as [A [B HT']]. subst T'.
      assert (Ptl : Permutation (LR tl) (LR (A ++ B))).
      { rewrite LR_app in *. unfold LR in Hp at 1 3. cbn [flat_map leaves_rel app] in Hp. fold (LR tl) (LR B) in Hp.
        apply (Permutation_cons_app_inv _ _ Hp). }
      apply Forall_app in Htr'. destruct Htr' as [HtA HtB]. inversion HtB as [|? ? _ HtB']; subst.
      rewrite forallb_app in Hin'. apply andb_true_iff in Hin'. destruct Hin' as [HiA HiB]. cbn in HiB.
      rewrite parent_names_app in Hnd'. cbn [parent_names flat_map parent_name app] in Hnd'. fold (parent_names B) in Hnd'.
      rewrite <- parent_names_app in Hnd'.
      cbn [parent_names flat_map parent_name app] in Hnd. fold (parent_names tl) in Hnd.
      destruct (IH Hdtl (conj Hnd Httl) Hitl (A ++ B)) as [l1 [F1 P1]].
      { split; [exact Hnd'|]. apply Forall_app. split; assumption. }
      { rewrite forallb_app, HiA, HiB. reflexivity. }
      { exact Ptl. }
      exists (Leaf e a :: l1). split; [constructor; [constructor|assumption]|].
      apply Permutation_cons_app. exact P1.
Qed.

Lemma all_determined : forall t, determined t.
Proof.
  induction t as [e a|r g ch IH] using tree_ind'; intros t' Ht Hi Ht' Hi' Hp.
  - destruct t' as [r' g' ch'|e' a'].
    + exfalso. destruct (inhab_leaves _ Hi') as [z Hz].
      pose proof (Permutation_in z (Permutation_sym Hp) Hz) as Hz2. destruct Hz2 as [Hz2|[]]. subst z.
      cbn [leaves_rel] in Hz. apply in_map_iff in Hz. destruct Hz as [z0 [Hz0 _]]. discriminate.
    + cbn in Hp. apply Permutation_length_1 in Hp. inversion Hp. constructor.
  - destruct (inhab_leaves _ Hi) as [z Hz].
    pose proof (Permutation_in z Hp Hz) as Hz'.
    cbn [leaves_rel] in Hz. apply in_map_iff in Hz. destruct Hz as [z0 [Hz0 _]]. subst z.
    destruct t' as [r' g' ch'|e' a']; [|destruct Hz' as [Hz'|[]]; discriminate].
    cbn [leaves_rel] in Hz'. apply in_map_iff in Hz'. destruct Hz' as [z1 [Hz1 _]].
    unfold cprepend in Hz1. cbn in Hz1. inversion Hz1. subst r' g'.
    cbn [leaves_rel] in Hp. apply (Permutation_map_inj _ _ _ (cprepend_inj (r, g))) in Hp.
    inversion Ht as [|? ? ? Hn Hf]; subst. inversion Ht' as [|? ? ? Hn' Hf']; subst.
    cbn in Hi, Hi'. apply andb_true_iff in Hi, Hi'. destruct Hi as [_ Hi]. destruct Hi' as [_ Hi'].
    destruct (forest_determined ch IH (conj Hn Hf) Hi ch' (conj Hn' Hf') Hi' Hp) as [c1 [F1 P1]].
    apply (TE_parent r g ch c1 ch'); assumption.
Qed.

(** ** Registration order *)
Lemma tree_order_independent : forall benches groups benches' groups',
  Permutation benches benches' -> Permutation groups groups' ->
  NoDup (map (attach_key benches groups) groups) ->
  (forall x, In x groups -> attach_key benches' groups' x = attach_key benches groups x) ->
  forest_equiv (build_tree benches groups) (build_tree benches' groups').
Proof.
  intros b g b' g' Hb Hg Hnd Hkf.
  apply forest_determined.
  - apply Forall_forall. intros t _. apply all_determined.
  - apply modules_merged.
  - apply inhab_build_tree.
  - apply modules_merged.
  - apply inhab_build_tree.
  - unfold LR. rewrite !build_tree_leaves_rel.
    assert (Hre : forall x, rekey (attach_key b g) g x = rekey (attach_key b' g') g' x).
    { intro x. unfold rekey, keyed_chain. rewrite (upd_all_perm _ g g' Hg Hnd).
      rewrite (upd_all_ext (attach_key b g) (attach_key b' g') g'); [reflexivity|].
      intros y Hy. symmetry. apply Hkf. apply (Permutation_in y (Permutation_sym Hg)). exact Hy. }
    rewrite (map_ext _ _ Hre).
    apply Permutation_map.
    eapply Permutation_trans; [apply tree_complete|].
    eapply Permutation_trans; [|apply Permutation_sym; apply tree_complete].
    apply Permutation_map. apply all_entries_perm; assumption.
Qed.

Lemma tree_equiv_refl : forall t, tree_equiv t t.
Proof.
  induction t as [e a|r g ch IH] using tree_ind'; [constructor|].
  apply (TE_parent r g ch ch ch); [|apply Permutation_refl]. induction IH; constructor; assumption.
Qed.

(** [tree_equiv] relates different trees: a non-trivial instance. *)
Example tree_equiv_swaps :
  tree_equiv (Parent [99] None [Leaf (ABench w_bench_a) None; Parent [102] None [Leaf (ABench w_bench_a) None]])
             (Parent [99] None [Parent [102] None [Leaf (ABench w_bench_a) None]; Leaf (ABench w_bench_a) None]).
Proof.
  eapply TE_parent; [|apply perm_swap]. constructor; [apply tree_equiv_refl|constructor; [apply tree_equiv_refl|constructor]].
Qed.
