(** The slot [insert_group] sets is the one the specification names: the
    options a benchmark gets on the built tree are those of the nearest
    enclosing groups (last registered group per module, up to [r#]). *)
From Coq Require Import Permutation.
From DivanV Require Import Base.Res Model.SplitVec Model.Filter Model.Options Model.TreeBuild
  Proofs.SplitVec Proofs.Filter Proofs.Options Proofs.TreeBuild.

Notation chain := (list (str * option nat)).

Lemma str_list_eqb_eq (a b : list str) : str_list_eqb a b = true <-> a = b.
Proof.
  revert b. induction a as [|x a IH]; intros [|y b]; cbn [str_list_eqb]; split; intros H;
    try reflexivity; try discriminate.
  - apply andb_true_iff in H. destruct H as [H1 H2]. apply str_eqb_eq in H1. apply IH in H2. congruence.
  - injection H as -> ->. apply andb_true_iff. split; [apply str_eqb_refl'|apply IH; reflexivity].
Qed.

(** * Chain level *)

(** What one [insert_group g addr raw] does to the chain of a leaf (relative to
    the forest it is applied to). *)
Fixpoint upd (g : nat) (addr : list str) (raw : str) (c : chain) : chain :=
  match c with
  | [] => []
  | (m, slot) :: rest =>
      match addr with
      | [] => if str_eqb (strip_raw raw) (strip_raw m) then (m, Some g) :: rest else c
      | a :: addr' => if str_eqb m a then (m, slot) :: upd g addr' raw rest else c
      end
  end.

Fixpoint upd_all (g : nat) (groups : list (list str * str)) (c : chain) : chain :=
  match groups with
  | [] => c
  | (p, raw) :: rest => upd_all (S g) rest (upd g p raw c)
  end.

(** The specification on a chain whose slots are the accumulators. *)
Fixpoint spec_from (g : nat) (groups : list (list str * str)) (prefix : list str) (c : chain) : chain :=
  match c with
  | [] => []
  | (m, slot) :: rest => (m, last_group_from g groups prefix m slot) :: spec_from g groups (prefix ++ [m]) rest
  end.

Lemma spec_from_skip (g : nat) (addr : list str) (raw : str) (gs : list (list str * str)) (c : chain) : forall prefix,
  (forall ext, addr <> prefix ++ ext) ->
  spec_from g ((addr, raw) :: gs) prefix c = spec_from (S g) gs prefix c.
Proof.
  induction c as [|[m slot] rest IH]; intros prefix H; cbn [spec_from]; [reflexivity|].
  cbn [last_group_from].
  destruct (str_list_eqb addr prefix) eqn:E.
  - apply str_list_eqb_eq in E. exfalso. apply (H []). rewrite app_nil_r. exact E.
  - cbn [andb]. f_equal. apply IH. intros ext Heq. apply (H ([m] ++ ext)). rewrite app_assoc. exact Heq.
Qed.

Lemma spec_from_upd (g : nat) (raw : str) (gs : list (list str * str)) (c : chain) : forall prefix rem,
  spec_from (S g) gs prefix (upd g rem raw c) = spec_from g ((prefix ++ rem, raw) :: gs) prefix c.
Proof.
  induction c as [|[m slot] rest IH]; intros prefix rem; [destruct rem; reflexivity|].
  destruct rem as [|a rem]; cbn [upd].
  - rewrite app_nil_r. cbn [spec_from last_group_from].
    replace (str_list_eqb prefix prefix) with true by (symmetry; apply str_list_eqb_eq; reflexivity). cbn [andb].
    assert (Htail : spec_from g ((prefix, raw) :: gs) (prefix ++ [m]) rest = spec_from (S g) gs (prefix ++ [m]) rest).
    { apply spec_from_skip. intros ext Heq. apply (f_equal (@length str)) in Heq. rewrite !app_length in Heq. cbn [length] in Heq. lia. }
    rewrite Htail.
    destruct (str_eqb (strip_raw raw) (strip_raw m)); reflexivity.
  - cbn [spec_from last_group_from].
    replace (str_list_eqb (prefix ++ a :: rem) prefix) with false.
    2:{ symmetry. destruct (str_list_eqb (prefix ++ a :: rem) prefix) eqn:E; [|reflexivity].
        apply str_list_eqb_eq in E. apply (f_equal (@length str)) in E. rewrite app_length in E. cbn [length] in E. lia. }
    cbn [andb].
    destruct (str_eqb m a) eqn:Ema.
    + apply str_eqb_eq in Ema. subst a. cbn [spec_from]. f_equal.
      rewrite IH. rewrite <- app_assoc. reflexivity.
    + cbn [spec_from]. f_equal. symmetry. apply spec_from_skip.
      intros ext Heq. rewrite <- app_assoc in Heq. apply app_inv_head in Heq. cbn [app] in Heq.
      injection Heq as Heq _. subst a. rewrite str_eqb_refl' in Ema. discriminate.
Qed.

Lemma upd_all_spec (groups : list (list str * str)) : forall g c,
  upd_all g groups c = spec_from g groups [] c.
Proof.
  induction groups as [|[p raw] rest IH]; intros g c; cbn [upd_all].
  - induction c as [|[m slot] r IHc] using rev_ind; [reflexivity|].
    clear IHc. generalize (@nil str). induction (r ++ [(m, slot)]) as [|[m' s'] l IHl]; intros pre; [reflexivity|].
    cbn [spec_from last_group_from]. f_equal. apply IHl.
  - rewrite IH. apply (spec_from_upd g raw rest c [] p).
Qed.

(** On a chain without groups this is the specification's chain. *)
Lemma spec_from_plain (groups : list (list str * str)) (p : list str) : forall prefix,
  spec_from 0 groups prefix (plain p) = spec_chain_from groups prefix p.
Proof.
  induction p as [|m rest IH]; intros prefix; [reflexivity|].
  cbn [plain map spec_from spec_chain_from]. unfold enclosing_group. f_equal. apply IH.
Qed.

(** * Tree level *)
Definition pfx (above : chain) (ic : nat * chain) : nat * chain := (fst ic, above ++ snd ic).
Definition updc (g : nat) (addr : list str) (raw : str) (ic : nat * chain) : nat * chain := (fst ic, upd g addr raw (snd ic)).

Lemma forest_rel (ch : list btree) :
  Forall (fun t => forall above, leaf_chains_tree above t = map (pfx above) (leaf_chains_tree [] t)) ch ->
  forall A, chains A ch = map (pfx A) (chains [] ch).
Proof.
  intros H A. unfold chains. induction H as [|c r Hc _ IH]; [reflexivity|].
  cbn [flat_map]. rewrite (Hc A), IH. symmetry. apply map_app.
Qed.

Lemma tree_rel (t : btree) : forall above, leaf_chains_tree above t = map (pfx above) (leaf_chains_tree [] t).
Proof.
  induction t as [r g ch IH|b] using btree_ind'; intros above.
  - cbn [leaf_chains_tree app].
    change (flat_map (leaf_chains_tree (above ++ [(r, g)])) ch) with (chains (above ++ [(r, g)]) ch).
    change (flat_map (leaf_chains_tree [(r, g)]) ch) with (chains [(r, g)] ch).
    rewrite (forest_rel ch IH (above ++ [(r, g)])), (forest_rel ch IH [(r, g)]).
    rewrite map_map. apply map_ext. intros [i c]. unfold pfx. cbn [fst snd]. rewrite <- app_assoc. reflexivity.
  - cbn [leaf_chains_tree map]. unfold pfx. cbn [fst snd]. rewrite app_nil_r. reflexivity.
Qed.

Lemma chains_rel (A : chain) (tree : list btree) : chains A tree = map (pfx A) (chains [] tree).
Proof. apply forest_rel. apply Forall_forall. intros t _. apply tree_rel. Qed.

Lemma chains_cons_parent (r : str) (s : option nat) (ch rest : list btree) :
  chains [] (BParent r s ch :: rest) = map (pfx [(r, s)]) (chains [] ch) ++ chains [] rest.
Proof.
  unfold chains at 1. cbn [flat_map leaf_chains_tree app].
  change (flat_map (leaf_chains_tree [(r, s)]) ch) with (chains [(r, s)] ch). rewrite chains_rel. reflexivity.
Qed.

Lemma chains_cons_leaf (b : nat) (rest : list btree) : chains [] (BLeaf b :: rest) = (b, []) :: chains [] rest.
Proof. reflexivity. Qed.

(** Siblings distinct even up to [r#]. *)
Inductive suniq : list btree -> Prop :=
| suniq_intro (tree : list btree) :
    NoDup (map strip_raw (parent_names tree)) ->
    (forall r g ch, In (BParent r g ch) tree -> suniq ch) ->
    suniq tree.

Lemma suniq_tail (t : btree) (rest : list btree) : suniq (t :: rest) -> suniq rest.
Proof.
  intros H. inversion H as [tr Hnd Hsub]; subst. constructor.
  - destruct t; cbn [parent_names map] in Hnd; [inversion Hnd; assumption|exact Hnd].
  - intros r g ch Hin. apply (Hsub r g ch). right. exact Hin.
Qed.

Lemma unchanged_base (g : nat) (raw : str) (tree : list btree) :
  (forall r s ch, In (BParent r s ch) tree -> str_eqb (strip_raw raw) (strip_raw r) = false) ->
  map (updc g [] raw) (chains [] tree) = chains [] tree.
Proof.
  induction tree as [|t rest IH]; intros H; [reflexivity|]. destruct t as [r s ch|b].
  - rewrite chains_cons_parent, map_app, IH; [|intros r0 s0 ch0 Hin; apply (H r0 s0 ch0); right; exact Hin].
    f_equal. rewrite map_map. apply map_ext. intros [i c]. unfold updc, pfx. cbn [fst snd app upd].
    rewrite (H r s ch (or_introl eq_refl)). reflexivity.
  - rewrite chains_cons_leaf. cbn [map]. rewrite IH; [reflexivity|].
    intros r0 s0 ch0 Hin. apply (H r0 s0 ch0). right. exact Hin.
Qed.

Lemma unchanged_step (g : nat) (a : str) (rem : list str) (raw : str) (tree : list btree) :
  (forall r s ch, In (BParent r s ch) tree -> str_eqb r a = false) ->
  map (updc g (a :: rem) raw) (chains [] tree) = chains [] tree.
Proof.
  induction tree as [|t rest IH]; intros H; [reflexivity|]. destruct t as [r s ch|b].
  - rewrite chains_cons_parent, map_app, IH; [|intros r0 s0 ch0 Hin; apply (H r0 s0 ch0); right; exact Hin].
    f_equal. rewrite map_map. apply map_ext. intros [i c]. unfold updc, pfx. cbn [fst snd app upd].
    rewrite (H r s ch (or_introl eq_refl)). reflexivity.
  - rewrite chains_cons_leaf. cbn [map]. rewrite IH; [reflexivity|].
    intros r0 s0 ch0 Hin. apply (H r0 s0 ch0). right. exact Hin.
Qed.

Lemma set_group_first_chains (g : nat) (raw : str) (tree : list btree) :
  suniq tree -> chains [] (set_group_first raw g tree) = map (updc g [] raw) (chains [] tree).
Proof.
  induction tree as [|t rest IH]; intros H; [reflexivity|]. destruct t as [r slot ch|b]; cbn [set_group_first].
  - destruct (str_eqb (strip_raw raw) (strip_raw r)) eqn:E.
    + rewrite !chains_cons_parent, map_app. f_equal.
      * rewrite map_map. apply map_ext. intros [i c]. unfold updc, pfx. cbn [fst snd app upd]. rewrite E. reflexivity.
      * symmetry. apply unchanged_base. intros r0 s0 ch0 Hin.
        destruct (str_eqb (strip_raw raw) (strip_raw r0)) eqn:E0; [|reflexivity]. exfalso.
        apply str_eqb_eq in E. apply str_eqb_eq in E0.
        inversion H as [tr Hnd _]; subst. cbn [parent_names map] in Hnd. inversion Hnd as [|x l Hnotin _]; subst.
        apply Hnotin. rewrite <- E, E0. apply in_map. apply in_parent_names. exists s0, ch0. exact Hin.
    + rewrite !chains_cons_parent, map_app, (IH (suniq_tail _ _ H)). f_equal.
      rewrite map_map. apply map_ext. intros [i c].
      unfold updc, pfx. cbn [fst snd app upd]. rewrite E. reflexivity.
  - rewrite !chains_cons_leaf. cbn [map]. rewrite (IH (suniq_tail _ _ H)). reflexivity.
Qed.

Lemma suniq_child (pre post : list btree) (m : str) (g : option nat) (ch : list btree) :
  suniq (pre ++ BParent m g ch :: post) -> suniq ch.
Proof.
  intros H. inversion H as [tree Hnd Hsub]; subst. apply (Hsub m g ch). apply in_or_app. right. left. reflexivity.
Qed.

Lemma suniq_replace (pre post : list btree) (m : str) (g g' : option nat) (ch ch' : list btree) :
  suniq (pre ++ BParent m g ch :: post) -> suniq ch' -> suniq (pre ++ BParent m g' ch' :: post).
Proof.
  intros H Hch. inversion H as [tree Hnd Hsub]; subst. constructor.
  - rewrite parent_names_app in *. exact Hnd.
  - intros r g0 ch0 Hin. apply in_app_or in Hin. destruct Hin as [Hin|[Hin|Hin]].
    + apply (Hsub r g0 ch0). apply in_or_app. left. exact Hin.
    + injection Hin as _ _ <-. exact Hch.
    + apply (Hsub r g0 ch0). apply in_or_app. right. right. exact Hin.
Qed.

Lemma set_group_first_names (raw : str) (g : nat) (tree : list btree) :
  parent_names (set_group_first raw g tree) = parent_names tree
  /\ (forall r s ch, In (BParent r s ch) (set_group_first raw g tree) -> exists s', In (BParent r s' ch) tree).
Proof.
  induction tree as [|t rest [IH1 IH2]]; [split; [reflexivity|intros r s ch []]|].
  destruct t as [r0 s0 ch0|b]; cbn [set_group_first].
  - destruct (str_eqb (strip_raw raw) (strip_raw r0)).
    + split; [reflexivity|]. intros r s ch [Hin|Hin]; [injection Hin as <- _ <-; exists s0; left; reflexivity|exists s; right; exact Hin].
    + split; [cbn [parent_names]; rewrite IH1; reflexivity|].
      intros r s ch [Hin|Hin]; [exists s; left; exact Hin|]. destruct (IH2 r s ch Hin) as [s' Hs']. exists s'. right. exact Hs'.
  - split; [cbn [parent_names]; exact IH1|].
    intros r s ch [Hin|Hin]; [discriminate|]. destruct (IH2 r s ch Hin) as [s' Hs']. exists s'. right. exact Hs'.
Qed.

Lemma insert_group_suniq (g : nat) (gp : list str) (raw : str) : forall tree,
  suniq tree -> suniq (insert_group g gp raw tree).
Proof.
  induction gp as [|a rem IH]; intros tree H; cbn [insert_group].
  - destruct (set_group_first_names raw g tree) as [Hn Hin]. inversion H as [tr Hnd Hsub]; subst. constructor.
    + rewrite Hn. exact Hnd.
    + intros r s ch Hi. destruct (Hin r s ch Hi) as [s' Hs']. apply (Hsub r s' ch Hs').
  - destruct (update_first_parent a (insert_group g rem raw) tree) as [tree'|] eqn:E; [|exact H].
    destruct (ufp_some _ _ _ _ E) as (pre & g0 & ch & post & -> & _ & ->).
    apply (suniq_replace pre post a g0 g0 ch); [exact H|]. apply IH. apply (suniq_child _ _ _ _ _ H).
Qed.

Lemma insert_group_chains (g : nat) (gp : list str) (raw : str) : forall tree,
  suniq tree -> chains [] (insert_group g gp raw tree) = map (updc g gp raw) (chains [] tree).
Proof.
  induction gp as [|a rem IH]; intros tree H; cbn [insert_group]; [apply set_group_first_chains; exact H|].
  destruct (update_first_parent a (insert_group g rem raw) tree) as [tree'|] eqn:E.
  - destruct (ufp_some _ _ _ _ E) as (pre & g0 & ch & post & -> & Hpre & ->).
    rewrite (chains_app [] pre (BParent a g0 (insert_group g rem raw ch) :: post)).
    rewrite (chains_app [] pre (BParent a g0 ch :: post)).
    rewrite !chains_cons_parent. rewrite !map_app.
    rewrite (IH ch (suniq_child _ _ _ _ _ H)).
    assert (Hp : map (updc g (a :: rem) raw) (chains [] pre) = chains [] pre).
    { apply unchanged_step. intros r s c Hin. exact (Hpre _ Hin). }
    assert (Hq : map (updc g (a :: rem) raw) (chains [] post) = chains [] post).
    { apply unchanged_step. intros r s c Hin. destruct (str_eqb r a) eqn:Era; [|reflexivity]. exfalso.
      apply str_eqb_eq in Era. subst r.
      inversion H as [tr Hnd _]; subst. rewrite parent_names_app in Hnd. cbn [parent_names] in Hnd.
      rewrite map_app in Hnd. cbn [map] in Hnd. apply NoDup_remove_2 in Hnd. apply Hnd.
      apply in_or_app. right. apply in_map. apply in_parent_names. exists s, c. exact Hin. }
    rewrite Hp, Hq.
    f_equal. f_equal. rewrite !map_map. apply map_ext. intros [i c].
    unfold updc, pfx. cbn [fst snd app upd]. rewrite str_eqb_refl'. reflexivity.
  - symmetry. apply unchanged_step. intros r s c Hin. apply (ufp_none _ _ _ E _ Hin).
Qed.

Definition updc_all (g : nat) (groups : list (list str * str)) (ic : nat * chain) : nat * chain :=
  (fst ic, upd_all g groups (snd ic)).

Lemma insert_groups_from_chains (groups : list (list str * str)) : forall g tree,
  suniq tree -> chains [] (insert_groups_from g groups tree) = map (updc_all g groups) (chains [] tree).
Proof.
  induction groups as [|[p raw] rest IH]; intros g tree H; cbn [insert_groups_from].
  - symmetry. etransitivity; [|apply map_id]. apply map_ext. intros [i c]. reflexivity.
  - rewrite (IH (S g) _ (insert_group_suniq g p raw tree H)), (insert_group_chains g p raw tree H), map_map.
    apply map_ext. intros [i c]. reflexivity.
Qed.

(** * The theorems *)
Fixpoint spec_chains_from (groups : list (list str * str)) (i : nat) (paths : list (list str)) : list (nat * chain) :=
  match paths with
  | [] => []
  | p :: rest => (i, spec_chain groups p) :: spec_chains_from groups (S i) rest
  end.

Lemma expected_to_spec (groups : list (list str * str)) (paths : list (list str)) : forall i,
  map (updc_all 0 groups) (expected_from i paths) = spec_chains_from groups i paths.
Proof.
  induction paths as [|p rest IH]; intros i; [reflexivity|].
  cbn [expected_from map spec_chains_from]. rewrite IH. f_equal.
  unfold updc_all, spec_chain. cbn [fst snd]. rewrite upd_all_spec, spec_from_plain. reflexivity.
Qed.

(** [C15_tree_groups_shape] *)
Lemma build_tree_chains (paths : list (list str)) (groups : list (list str * str)) :
  suniq (from_benches paths) ->
  Permutation (leaf_chains (build_tree paths groups)) (spec_chains_from groups 0 paths).
Proof.
  intros H. unfold build_tree. change (leaf_chains ?t) with (chains [] t).
  rewrite (insert_groups_from_chains groups 0 _ H). rewrite <- expected_to_spec.
  apply Permutation_map. apply from_benches_spec.
Qed.

Fixpoint spec_options_from (runner : options) (groups : list (list str * str)) (gopt : nat -> option options)
  (bopt : nat -> option options) (i : nat) (paths : list (list str)) : list (nat * options) :=
  match paths with
  | [] => []
  | p :: rest => (i, spec_options_of_bench runner groups gopt (bopt i) p) :: spec_options_from runner groups gopt bopt (S i) rest
  end.

Lemma spec_chains_to_options (runner : options) (gopt bopt : nat -> option options)
  (groups : list (list str * str)) (paths : list (list str)) : forall i,
  map (fun bc : nat * chain =>
         (fst bc,
          resolve runner (map (fun rg => match snd rg with Some g => gopt g | None => None end) (snd bc)) (bopt (fst bc))))
      (spec_chains_from groups i paths)
  = spec_options_from runner groups gopt bopt i paths.
Proof.
  induction paths as [|p rest IH]; intros i; [reflexivity|].
  cbn [spec_chains_from map spec_options_from fst snd]. rewrite IH. f_equal.
  unfold spec_options_of_bench. rewrite spec_effective_correct. reflexivity.
Qed.

(** [C15_options_on_tree_spec] *)
Lemma options_on_tree_spec (runner : options) (gopt bopt : nat -> option options)
  (paths : list (list str)) (groups : list (list str * str)) :
  suniq (from_benches paths) ->
  Permutation (options_on_tree runner gopt bopt (build_tree paths groups))
              (spec_options_from runner groups gopt bopt 0 paths).
Proof.
  intros H. unfold options_on_tree. rewrite <- spec_chains_to_options.
  apply Permutation_map. apply (build_tree_chains paths groups H).
Qed.

(** * The hypothesis, on the inputs: no two module names that differ by an [r#]
    prefix only. *)
Definition no_raw_twins (paths : list (list str)) : Prop :=
  forall c d, In c (concat paths) -> In d (concat paths) -> strip_raw c = strip_raw d -> c = d.

Section Twins.
  Variable S : str -> Prop.
  Hypothesis Sinj : forall c d, S c -> S d -> strip_raw c = strip_raw d -> c = d.

  Inductive names_ok : list btree -> Prop :=
  | names_ok_intro (tree : list btree) :
      (forall r g ch, In (BParent r g ch) tree -> S r /\ names_ok ch) -> names_ok tree.

  Lemma from_path_ok (b : nat) (ms : list str) : Forall S ms -> suniq [from_path b ms] /\ names_ok [from_path b ms].
  Proof.
    induction ms as [|m rest IH]; intros HS; cbn [from_path].
    - split; constructor.
      + cbn. constructor.
      + intros r g ch [H|[]]. discriminate.
      + intros r g ch [H|[]]. discriminate.
    - inversion HS as [|x l Hm Hrest]; subst. destruct (IH Hrest) as [IH1 IH2]. split; constructor.
      + cbn [parent_names map]. constructor; [intros []|constructor].
      + intros r g ch [H|[]]. injection H as _ _ <-. exact IH1.
      + intros r g ch [H|[]]. injection H as <- _ <-. split; [exact Hm|exact IH2].
  Qed.

  Lemma insert_entry_ok (b : nat) (p : list str) : Forall S p -> forall tree,
    suniq tree -> names_ok tree -> suniq (insert_entry b p tree) /\ names_ok (insert_entry b p tree).
  Proof.
    induction p as [|m rest IH]; intros HS tree Hu Hn; cbn [insert_entry].
    - inversion Hu as [t Hnd Hsub]; subst. inversion Hn as [t Hok]; subst. split; constructor.
      + rewrite parent_names_app. cbn [parent_names]. rewrite app_nil_r. exact Hnd.
      + intros r g ch Hin. apply in_app_or in Hin. destruct Hin as [Hin|[Hin|[]]]; [apply (Hsub r g ch Hin)|discriminate].
      + intros r g ch Hin. apply in_app_or in Hin. destruct Hin as [Hin|[Hin|[]]]; [apply (Hok r g ch Hin)|discriminate].
    - inversion HS as [|x l Hm Hrest]; subst.
      destruct (update_first_parent m (insert_entry b rest) tree) as [tree'|] eqn:E.
      + destruct (ufp_some _ _ _ _ E) as (pre & g & ch & post & -> & _ & ->).
        inversion Hn as [t Hok]; subst.
        assert (Hmem : In (BParent m g ch) (pre ++ BParent m g ch :: post)) by (apply in_or_app; right; left; reflexivity).
        destruct (Hok m g ch Hmem) as [HSm Hnch].
        destruct (IH Hrest ch (suniq_child _ _ _ _ _ Hu) Hnch) as [IH1 IH2]. split.
        * apply (suniq_replace pre post m g g ch); assumption.
        * constructor. intros r g0 ch0 Hin. apply in_app_or in Hin. destruct Hin as [Hin|[Hin|Hin]].
          -- apply (Hok r g0 ch0). apply in_or_app. left. exact Hin.
          -- injection Hin as <- _ <-. split; assumption.
          -- apply (Hok r g0 ch0). apply in_or_app. right. right. exact Hin.
      + pose proof (ufp_none _ _ _ E) as Hnone.
        inversion Hu as [t Hnd Hsub]; subst. inversion Hn as [t Hok]; subst.
        destruct (from_path_ok b rest Hrest) as [Hfu Hfn]. split; constructor.
        * rewrite parent_names_app. cbn [parent_names from_path]. rewrite map_app. cbn [map].
          apply NoDup_snoc; [exact Hnd|]. intros Hin. apply in_map_iff in Hin. destruct Hin as (r & Hstrip & Hr).
          apply in_parent_names in Hr. destruct Hr as (g & ch & Hr).
          destruct (Hok r g ch Hr) as [HSr _]. assert (r = m) by (apply Sinj; assumption). subst r.
          specialize (Hnone _ Hr). cbn [is_parent_named] in Hnone. rewrite str_eqb_refl' in Hnone. discriminate.
        * intros r g ch Hin. apply in_app_or in Hin. destruct Hin as [Hin|[Hin|[]]]; [apply (Hsub r g ch Hin)|].
          cbn [from_path] in Hin. injection Hin as _ _ <-. exact Hfu.
        * intros r g ch Hin. apply in_app_or in Hin. destruct Hin as [Hin|[Hin|[]]]; [apply (Hok r g ch Hin)|].
          cbn [from_path] in Hin. injection Hin as <- _ <-. split; assumption.
  Qed.

  Lemma from_benches_from_ok (paths : list (list str)) : Forall (Forall S) paths -> forall i tree,
    suniq tree -> names_ok tree -> suniq (from_benches_from i paths tree).
  Proof.
    induction paths as [|p rest IH]; intros HS i tree Hu Hn; cbn [from_benches_from]; [exact Hu|].
    inversion HS as [|x l Hp Hrest]; subst.
    destruct (insert_entry_ok i p Hp tree Hu Hn) as [H1 H2]. apply IH; assumption.
  Qed.
End Twins.

Lemma from_benches_suniq (paths : list (list str)) : no_raw_twins paths -> suniq (from_benches paths).
Proof.
  intros H. unfold from_benches.
  apply (from_benches_from_ok (fun c => In c (concat paths)) H).
  - apply Forall_forall. intros p Hp. apply Forall_forall. intros c Hc. apply in_concat. exists p. split; assumption.
  - constructor; [constructor|intros r g ch []].
  - constructor. intros r g ch [].
Qed.

(** Final forms. *)
Lemma tree_groups_shape (paths : list (list str)) (groups : list (list str * str)) :
  no_raw_twins paths ->
  Permutation (leaf_chains (build_tree paths groups)) (spec_chains_from groups 0 paths).
Proof. intros H. apply build_tree_chains. apply from_benches_suniq. exact H. Qed.

Lemma options_on_tree_correct (runner : options) (gopt bopt : nat -> option options)
  (paths : list (list str)) (groups : list (list str * str)) :
  no_raw_twins paths ->
  Permutation (options_on_tree runner gopt bopt (build_tree paths groups))
              (spec_options_from runner groups gopt bopt 0 paths).
Proof. intros H. apply options_on_tree_spec. apply from_benches_suniq. exact H. Qed.

(** The hypothesis is satisfiable by paths that do contain a raw identifier
    and a function named like a module. *)
Example no_raw_twins_example :
  no_raw_twins [[[109%N]; [114%N; 35%N; 116%N]]; [[109%N]]; [[109%N]; [115%N]]].
Proof.
  intros c d Hc Hd. cbn [concat app In] in Hc, Hd.
  repeat (destruct Hc as [<-|Hc]); try contradiction;
    repeat (destruct Hd as [<-|Hd]); try contradiction; cbn; intros E; try reflexivity; discriminate.
Qed.
