(** The hypotheses of the C12 / C14 / C17 theorems are satisfiable by non-trivial values. *)
From Coq Require Import Permutation.
From DivanV Require Import Base.Res Model.Registry Model.Tree Model.Driver
  Proofs.TreeBase Proofs.DriverExec Proofs.DriverC14 Proofs.TreeLeaves Proofs.Flat Proofs.FlatBridge Proofs.Expand
  Proofs.C14Refuted.
Local Open Scope N_scope.

(** C14_exact_roundtrip: unique paths and a listed path. *)
Example exact_roundtrip_hypotheses :
  let p := [99; 58; 58; 103; 58; 58; 107] in
  NoDup (map xpath (exec_forest (r_cfg RINo) [] None (build_tree [r_kept] [r_group]))) /\
  In (p ++ s_benchmark) (lines (fst (run_action (r_cfg RINo) (fun t => t) ListTerse [r_kept] [r_group]))).
Proof.
  split.
  - vm_compute. constructor; [intros []|constructor].
  - vm_compute. left. reflexivity.
Qed.

(** C12_order_independent: distinct group keys (two groups, two modules). *)
Definition ex_group2 : group_entry :=
  {| g_id := 12; g_meta := r_meta [104] r_c None; g_generic := None |}.
Example order_independent_hypotheses :
  NoDup (map group_key [r_group; ex_group2]) /\ Permutation [r_group; ex_group2] [ex_group2; r_group].
Proof.
  split.
  - vm_compute. constructor; [intros [H|[]]; discriminate|constructor; [intros []|constructor]].
  - apply perm_swap.
Qed.

(** C12_expand_exact / C17_once_shared: a generic function over two types and three literal consts with arguments. *)
Definition ex_decl : bench_decl :=
  {| bd_raw := [102]; bd_name := None; bd_line := 3; bd_col := 1; bd_opts := None;
     bd_args := Some [VInt 1; VInt 2];
     bd_types := Some [[105]; [106]]; bd_consts := Some (CLit [[49]; [50]; [51]]) |}.
Example expand_exact_hypotheses :
  generic_is_empty (bd_types ex_decl) (bd_consts ex_decl) = false /\
  (bd_types ex_decl <> None \/ bd_consts ex_decl <> None) /\
  consts_compile (bd_consts ex_decl) /\
  (exists rows, expand_bench r_c 0 ex_decl
                = Ok ([], [{| g_id := 0; g_meta := bench_meta r_c ex_decl; g_generic := Some rows |}], 7)
                /\ length (concat rows) = 6%nat).
Proof.
  split; [reflexivity|]. split; [left; discriminate|]. split; [exact I|].
  eexists. split; [vm_compute; reflexivity|reflexivity].
Qed.

(** C12_extern_consts: 20 values compile, 21 do not. *)
Example extern_consts_boundary :
  extern_consts (repeat [49] 20) = Ok (repeat [49] 20) /\ extern_consts (repeat [49] 21) = Panic Other.
Proof. split; vm_compute; reflexivity. Qed.

(** C17_label_value: running actions. *)
Example running_actions : (is_list Test = false /\ Test <> ListTerse) /\ (is_list Bench = false /\ Bench <> ListTerse).
Proof. repeat split; discriminate. Qed.
