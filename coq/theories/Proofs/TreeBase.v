(** Basic facts about the tree model: induction principle, string equality,
    well-formedness is kept by construction, group insertion and [retain]. *)
From Coq Require Import Permutation.
From DivanV Require Import Base.Res Model.Registry Model.Tree.
Local Open Scope N_scope.
Arguments mk_leaf : simpl never.

Section TreeInd.
  Variable P : tree -> Prop.
  Hypothesis HL : forall e a, P (Leaf e a).
  Hypothesis HP : forall r g ch, Forall P ch -> P (Parent r g ch).
  Fixpoint tree_ind' (t : tree) : P t :=
    match t with
    | Leaf e a => HL e a
    | Parent r g ch =>
        HP r g ch ((fix go (l : list tree) : Forall P l :=
                      match l with
                      | [] => Forall_nil P
                      | x :: tl => Forall_cons x (tree_ind' x) (go tl)
                      end) ch)
    end.
End TreeInd.

Lemma str_eqb_spec : forall a b, str_eqb a b = true <-> a = b.
Proof.
  induction a as [|x a IH]; destruct b as [|y b]; cbn; split; intro H; try congruence; try discriminate.
  - apply andb_true_iff in H. destruct H as [H1 H2]. apply N.eqb_eq in H1. apply IH in H2. congruence.
  - inversion H; subst. rewrite N.eqb_refl. cbn. apply IH. reflexivity.
Qed.

Lemma str_eqb_refl : forall a, str_eqb a a = true.
Proof. intro a. apply str_eqb_spec. reflexivity. Qed.

Lemma is_nil_spec : forall A (l : list A), is_nil l = true <-> l = [].
Proof. destruct l; cbn; split; congruence. Qed.

(** ** [update_first] *)
Lemma update_first_forallb : forall (q : tree -> bool) p f l l',
  (forall x, q x = true -> q (f x) = true) ->
  update_first p f l = Some l' -> forallb q l = true -> forallb q l' = true.
Proof.
  intros q p f. induction l as [|x tl IH]; intros l' Hf H Hq; cbn in *.
  - discriminate.
  - apply andb_true_iff in Hq. destruct Hq as [Hx Htl].
    destruct (p x).
    + inversion H; subst. cbn. rewrite (Hf x Hx), Htl. reflexivity.
    + destruct (update_first p f tl) as [tl'|] eqn:E; [|discriminate].
      inversion H; subst. cbn. rewrite Hx. cbn. apply (IH tl' Hf eq_refl Htl).
Qed.

Lemma forallb_app_intro : forall A (q : A -> bool) l1 l2,
  forallb q l1 = true -> forallb q l2 = true -> forallb q (l1 ++ l2) = true.
Proof. intros. rewrite forallb_app. rewrite H, H0. reflexivity. Qed.

(** ** Well-formedness *)
Lemma index_list_lt : forall n, forallb (fun i => i <? N.of_nat n) (index_list n) = true.
Proof.
  intro n. unfold index_list. apply forallb_forall. intros x Hx.
  apply in_map_iff in Hx. destruct Hx as [k [Hk Hin]]. apply in_seq in Hin. subst.
  apply N.ltb_lt. lia.
Qed.

Lemma wf_mk_leaf : forall e, wf_node (mk_leaf e) = true.
Proof.
  intro e. unfold mk_leaf. destruct (entry_runner e) as [|o vals] eqn:E; cbn; rewrite E.
  - reflexivity.
  - apply index_list_lt.
Qed.

Lemma wf_from_path : forall e rest cur, wf_node (from_path e cur rest) = true.
Proof.
  intros e. induction rest as [|n r IH]; intro cur; cbn [from_path]; cbn [wf_node forallb].
  - rewrite wf_mk_leaf. reflexivity.
  - rewrite IH. reflexivity.
Qed.

Lemma wf_map_children : forall f t,
  (forall l, wf_forest l = true -> wf_forest (f l) = true) ->
  wf_node t = true -> wf_node (map_children f t) = true.
Proof.
  intros f [r g ch|e a] Hf H; cbn in *; [|exact H]. apply Hf. exact H.
Qed.

Lemma wf_insert_entry : forall e path t,
  wf_forest t = true -> wf_forest (insert_entry path e t) = true.
Proof.
  intros e. induction path as [|m rest IH]; intros t H; cbn.
  - unfold wf_forest. apply forallb_app_intro; [exact H|]. cbn. rewrite wf_mk_leaf. reflexivity.
  - destruct (update_first (is_parent_named m) (map_children (insert_entry rest e)) t) as [t'|] eqn:E.
    + unfold wf_forest. eapply update_first_forallb; [|exact E|exact H].
      intros x Hx. apply wf_map_children; [|exact Hx]. intros l Hl. apply IH. exact Hl.
    + unfold wf_forest. apply forallb_app_intro; [exact H|]. cbn. rewrite wf_from_path. reflexivity.
Qed.

Lemma wf_from_benches_aux : forall es t,
  wf_forest t = true ->
  wf_forest (fold_left (fun t e => insert_entry (entry_path e) e t) es t) = true.
Proof.
  induction es as [|e es IH]; intros t H; cbn; [exact H|].
  apply IH. apply wf_insert_entry. exact H.
Qed.

Lemma wf_from_benches : forall es, wf_forest (from_benches es) = true.
Proof. intro es. apply wf_from_benches_aux. reflexivity. Qed.

Lemma wf_or_same : forall t o,
  wf_forest t = true -> (forall t', o = Some t' -> wf_forest t' = true) -> wf_forest (or_same t o) = true.
Proof. intros t [t'|] H Ho; cbn; [apply Ho; reflexivity|exact H]. Qed.

Lemma wf_descend : forall k,
  (forall l, wf_forest l = true -> wf_forest (k l) = true) ->
  forall comps t, wf_forest t = true -> wf_forest (descend comps k t) = true.
Proof.
  intros k Hk. induction comps as [|c rest IH]; intros t H; cbn.
  - apply Hk. exact H.
  - apply wf_or_same; [exact H|]. intros t' E.
    unfold wf_forest. eapply update_first_forallb; [|exact E|exact H].
    intros x Hx. apply wf_map_children; [|exact Hx]. exact IH.
Qed.

Lemma wf_set_group : forall g t, wf_node t = true -> wf_node (set_group g t) = true.
Proof. intros g [r g0 ch|e a] H; cbn in *; exact H. Qed.

Lemma wf_insert_group : forall g t, wf_forest t = true -> wf_forest (insert_group t g) = true.
Proof.
  intros g t H. unfold insert_group. apply wf_descend; [|exact H].
  intros l Hl. apply wf_or_same; [exact Hl|]. intros t' E.
  unfold wf_forest. eapply update_first_forallb; [|exact E|exact Hl].
  intros x Hx. apply wf_set_group. exact Hx.
Qed.

Lemma wf_build_tree : forall benches groups, wf_forest (build_tree benches groups) = true.
Proof.
  intros benches groups. unfold build_tree.
  generalize (wf_from_benches (all_entries benches groups)).
  generalize (from_benches (all_entries benches groups)).
  induction groups as [|g gs IH]; intros t H; cbn; [exact H|].
  apply IH. apply wf_insert_group. exact H.
Qed.

Lemma forallb_flat_map : forall A B (q : B -> bool) (f : A -> list B) l,
  (forall x, In x l -> forallb q (f x) = true) -> forallb q (flat_map f l) = true.
Proof.
  intros A B q f. induction l as [|x tl IH]; intro H; cbn; [reflexivity|].
  rewrite forallb_app. rewrite (H x (or_introl eq_refl)). cbn. apply IH. intros y Hy. apply H. right. exact Hy.
Qed.

Lemma forallb_filter : forall A (q p : A -> bool) l, forallb q l = true -> forallb q (filter p l) = true.
Proof.
  intros A q p. induction l as [|x tl IH]; intro H; cbn; [reflexivity|].
  cbn in H. apply andb_true_iff in H. destruct H as [Hx Ht].
  destruct (p x); cbn; [rewrite Hx; cbn|]; apply IH; exact Ht.
Qed.

Lemma wf_retain_node : forall f t pp, wf_node t = true -> wf_forest (retain_node f pp t) = true.
Proof.
  intros f. induction t as [e a|r g ch IH] using tree_ind'; intros pp H.
  - cbn. destruct a as [args|].
    + destruct (is_nil _) eqn:E; [reflexivity|]. cbn. cbn in H.
      destruct (entry_runner e) as [|o vals]; [discriminate|].
      rewrite (forallb_filter _ _ _ _ H). reflexivity.
    + destruct (f _); [|reflexivity]. cbn. cbn in H. rewrite H. reflexivity.
  - cbn. destruct (is_nil _) eqn:E; [reflexivity|]. cbn. rewrite andb_true_r.
    cbn in H. apply forallb_flat_map. intros x Hx.
    rewrite Forall_forall in IH. apply (IH x Hx). rewrite forallb_forall in H. apply H. exact Hx.
Qed.

Lemma wf_retain : forall f t, wf_forest t = true -> wf_forest (retain f t) = true.
Proof.
  intros f t H. unfold retain. apply forallb_flat_map. intros x Hx. apply wf_retain_node.
  unfold wf_forest in H. rewrite forallb_forall in H. apply H. exact Hx.
Qed.
