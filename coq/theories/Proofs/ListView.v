(** C12: the [--list] view.  The leaves painted by [run_action List] (ignored or
    not) are, as a multiset, the flat semantics' [flat_list]: every registered
    entry the filter keeps, under its display path, marked ignored iff the options
    of the groups above it and its own say so. *)
From Coq Require Import Permutation.
From DivanV Require Import Base.Res Model.Registry Model.Tree Model.Driver
  Proofs.TreeBase Proofs.DriverExec Proofs.DriverC14 Proofs.TreeLeaves Proofs.Flat Proofs.FlatBridge.
Local Open Scope N_scope.
Arguments mk_leaf : simpl never.

Definition lcase := (N * str)%type.

Definition painted_leaves (l : list action) : list lcase :=
  filter (fun x => negb (fst x =? 0)) (painted l).

Fixpoint listed_node (c : cfg) (pp : str) (po : option opts) (t : tree) : list lcase :=
  let options := merge_opts po (node_opts t) in
  let path := join_path pp (display_name t) in
  match t with
  | Leaf e _ => [(if leaf_ignored c options then 1 else 2, path)]
  | Parent _ _ ch => flat_map (listed_node c path options) ch
  end.
Definition listed_forest c pp po l := flat_map (listed_node c pp po) l.

Lemma painted_leaves_app : forall l1 l2, painted_leaves (l1 ++ l2) = painted_leaves l1 ++ painted_leaves l2.
Proof. intros. unfold painted_leaves, painted. rewrite flat_map_app, filter_app. reflexivity. Qed.

Definition okl (tr : trace) (xs : list lcase) : Prop := snd tr = None /\ painted_leaves (fst tr) = xs.

Lemma okl_tseq : forall a b xs ys, okl a xs -> okl b ys -> okl (tseq a b) (xs ++ ys).
Proof.
  intros [la pa] [lb pb] xs ys [Ha1 Ha2] [Hb1 Hb2]. unfold okl. cbn [fst snd] in *. subst pa. cbn [tseq fst snd].
  split; [exact Hb1|]. rewrite painted_leaves_app, Ha2, Hb2. reflexivity.
Qed.
Lemma okl_tseq_l : forall a b ys, okl a [] -> okl b ys -> okl (tseq a b) ys.
Proof. intros a b ys Ha Hb. apply (okl_tseq a b [] ys Ha Hb). Qed.
Lemma okl_tseq_r : forall a b xs, okl a xs -> okl b [] -> okl (tseq a b) xs.
Proof. intros a b xs Ha Hb. rewrite <- (app_nil_r xs). apply (okl_tseq a b xs [] Ha Hb). Qed.

Lemma run_node_list_view : forall c t pp po il, okl (run_node c List pp po il t) (listed_node c pp po t).
Proof.
  intros c. induction t as [e a|r g ch IH] using tree_ind'; intros pp po il.
  - cbn [run_node listed_node]. unfold run_bench_entry. rewrite ignore_same.
    cbn [display_name]. destruct (leaf_ignored c _); split; reflexivity.
  - rewrite run_node_parent. cbv zeta. cbn [listed_node].
    apply okl_tseq_l; [split; reflexivity|]. apply okl_tseq_r; [|split; reflexivity].
    set (path := join_path pp _). set (options := merge_opts po _). clearbody path options.
    induction IH as [|x tl Hx Htl IHl]; cbn [run_forest flat_map]; [split; reflexivity|].
    apply okl_tseq; [apply Hx|apply IHl].
Qed.

Lemma run_forest_list_view : forall c l pp po, okl (run_forest c List pp po l) (listed_forest c pp po l).
Proof.
  intros c. induction l as [|x tl IH]; intros pp po; cbn [run_forest]; [split; reflexivity|].
  unfold listed_forest. cbn [flat_map]. apply okl_tseq; [apply run_node_list_view|apply IH].
Qed.

(** Sorting permutes the view. *)
Lemma listed_sib_perm : forall c t t' pp po,
  sib_perm t t' -> Permutation (listed_node c pp po t) (listed_node c pp po t').
Proof.
  intros c. induction t as [e args|r g ch IH] using tree_ind'; intros t' pp po H;
    inversion H as [e0|e0 a0 a' HPa|r0 g0 ch0 ch1 ch2 HF HP]; subst.
  - apply Permutation_refl.
  - apply Permutation_refl.
  - cbn [listed_node]. cbn [display_name node_opts node_meta].
    set (path := join_path pp _). set (options := merge_opts po _).
    apply Permutation_trans with (flat_map (listed_node c path options) ch1).
    + apply (Permutation_flat_map_Forall2 _ _ sib_perm); [exact HF|].
      intros x y Hx Hxy. rewrite Forall_forall in IH. apply (IH x Hx). exact Hxy.
    + apply Permutation_flat_map. exact HP.
Qed.

Lemma listed_forest_perm : forall c l l' pp po,
  forest_perm l l' -> Permutation (listed_forest c pp po l) (listed_forest c pp po l').
Proof.
  intros c l l' pp po [l1 [H1 H2]]. unfold listed_forest.
  apply Permutation_trans with (flat_map (listed_node c pp po) l1).
  - apply (Permutation_flat_map_Forall2 _ _ sib_perm); [exact H1|]. intros x y _ Hxy. apply listed_sib_perm. exact Hxy.
  - apply Permutation_flat_map. exact H2.
Qed.

(** The view of a filtered tree, by the chains of the unfiltered one. *)
Definition lcase_of (c : cfg) (f : str -> bool) (pp : str) (po : option opts) (x : cleaf) : list lcase :=
  let ch := fst (fst x) in
  let e := snd (fst x) in
  let pp' := fold_left (fun p y => join_path p (chain_display y)) ch pp in
  let po' := fold_left (fun o y => merge_opts o (chain_opts y)) ch po in
  let path := join_path pp' (entry_display e) in
  let options := merge_opts po' (m_opts (entry_meta e)) in
  let kept := match snd x with
              | None => f path
              | Some l => negb (is_nil (filter (fun i => f (arg_path path e i)) l))
              end in
  if kept then [(if leaf_ignored c options then 1 else 2, path)] else [].

Lemma listed_retain_by_chains : forall c f t pp po,
  listed_forest c pp po (retain_node f pp t) = flat_map (lcase_of c f pp po) (leaves_rel t).
Proof.
  intros c f. induction t as [e a|r g ch IH] using tree_ind'; intros pp po.
  - cbn [retain_node leaves_rel flat_map]. rewrite app_nil_r. unfold lcase_of. cbn [fst snd fold_left display_name].
    destruct a as [l|].
    + destruct (is_nil (filter _ l)); reflexivity.
    + destruct (f _); reflexivity.
  - cbn [retain_node leaves_rel].
    set (path := join_path pp (display_name (Parent r g ch))).
    assert (Hpre : forall x, lcase_of c f pp po (cprepend (r, g) x) = lcase_of c f path (merge_opts po (node_opts (Parent r g ch))) x).
    { intros [[cx ex] ax]. unfold lcase_of, cprepend. cbn [fst snd fold_left].
      replace (join_path pp (chain_display (r, g))) with path by (destruct g; reflexivity).
      replace (merge_opts po (chain_opts (r, g))) with (merge_opts po (node_opts (Parent r g ch))) by (destruct g; reflexivity).
      reflexivity. }
    rewrite flat_map_map, (flat_map_ext _ _ Hpre). clear Hpre.
    assert (Hch : listed_forest c path (merge_opts po (node_opts (Parent r g ch))) (flat_map (retain_node f path) ch)
                  = flat_map (lcase_of c f path (merge_opts po (node_opts (Parent r g ch)))) (flat_map leaves_rel ch)).
    { generalize (merge_opts po (node_opts (Parent r g ch))) as options. intro options. clearbody path.
      induction IH as [|x tl Hx Htl IHl]; [reflexivity|].
      cbn [flat_map]. unfold listed_forest in *. rewrite !flat_map_app. rewrite Hx, IHl. reflexivity. }
    destruct (is_nil (flat_map (retain_node f path) ch)) eqn:En.
    + apply is_nil_spec in En. rewrite En in Hch. cbn in Hch. rewrite <- Hch. reflexivity.
    + unfold listed_forest at 1. cbn [flat_map listed_node]. rewrite app_nil_r.
      cbn [display_name]. exact Hch.
Qed.

Lemma listed_retain_forest : forall c f l po,
  listed_forest c [] po (retain f l) = flat_map (lcase_of c f [] po) (flat_map leaves_rel l).
Proof.
  intros c f l po. unfold retain, listed_forest. rewrite flat_map_flat_map.
  induction l as [|x tl IH]; [reflexivity|]. cbn [flat_map]. rewrite flat_map_app, <- IH.
  f_equal. apply (listed_retain_by_chains c f x [] po).
Qed.

Lemma existsb_filter_nil : forall A (p : A -> bool) l, existsb p l = negb (is_nil (filter p l)).
Proof. intros A p. induction l as [|x tl IH]; [reflexivity|]. cbn. destruct (p x); [reflexivity|exact IH]. Qed.

Lemma keyed_list_flat : forall c benches groups e,
  no_name_clash (attach_key benches groups) benches groups -> lookups_agree benches groups ->
  In e (all_entries benches groups) ->
  lcase_of c (c_filter c) [] None (rekey (attach_key benches groups) groups (rleaf_of e))
  = flat_list_case c (find_module_group groups) e.
Proof.
  intros c benches groups e Hg Hl He. unfold lcase_of, flat_list_case, rekey, rleaf_of. cbn [fst snd].
  rewrite (keyed_chain_entry (attach_key benches groups) benches groups e Hg He).
  rewrite <- (entry_chain_agree benches groups e Hl He).
  fold (chain_path (entry_chain (find_module_group groups) e)). fold (chain_options (entry_chain (find_module_group groups) e)).
  unfold leaf_args. destruct (entry_runner e) as [|o vals]; [reflexivity|].
  rewrite existsb_filter_nil. reflexivity.
Qed.

Section Sorted.
  Variable srt : list tree -> list tree.
  Hypothesis srt_perm : forall t, forest_perm t (srt t).

  Lemma list_view : forall c benches groups,
    no_name_clash (attach_key benches groups) benches groups -> lookups_agree benches groups ->
    snd (run_action c srt List benches groups) = None /\
    Permutation (painted_leaves (fst (run_action c srt List benches groups))) (flat_list c benches groups).
  Proof.
    intros c benches groups Hg Hl.
    set (t := retain (c_filter c) (build_tree benches groups)).
    assert (Hflat : Permutation (listed_forest c [] None t) (flat_list c benches groups)).
    { unfold t. rewrite listed_retain_forest, build_tree_leaves_rel. unfold flat_list.
      eapply Permutation_trans.
      - apply Permutation_flat_map_l. apply Permutation_map. apply tree_complete.
      - rewrite map_map, flat_map_map.
        rewrite (flat_map_ext_in _ _ _ _ (all_entries benches groups) (fun e He => keyed_list_flat c benches groups e Hg Hl He)).
        apply Permutation_refl. }
    unfold run_action. fold t. destruct (is_nil t) eqn:En.
    - apply is_nil_spec in En. rewrite En in Hflat. split; [reflexivity|exact Hflat].
    - destruct (run_forest_list_view c (srt t) [] None) as [Hp Hx]. split; [exact Hp|]. rewrite Hx.
      eapply Permutation_trans; [apply Permutation_sym; apply listed_forest_perm; apply srt_perm|exact Hflat].
  Qed.
End Sorted.
