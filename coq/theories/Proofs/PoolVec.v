(** Proofs about the pool model, part 10: [par_extend]'s result vector.  The
    new length never exceeds the capacity, the old elements stay, the new
    suffix is the broadcast's result slots. *)

From DivanV Require Import Base.Res Generated.Consts Model.Pool Proofs.Pool.
From Coq Require Import Arith Lia List Bool.
Import ListNotations.
Import PoolM.

Lemma set_nth_app_here {A} (a : list A) x y b : set_nth (length a) x (a ++ y :: b) = a ++ x :: b.
Proof. induction a as [|h t IH]; cbn; auto. now rewrite IH. Qed.

Lemma write_from_app {A} (sl : list A) : forall a b,
  length b = length sl -> write_from (length a) sl (a ++ b) = a ++ sl.
Proof.
  induction sl as [|x rest IH]; intros a b H; destruct b as [|y b']; try discriminate; cbn.
  - reflexivity.
  - rewrite set_nth_app_here.
    replace (a ++ x :: b') with ((a ++ [x]) ++ b') by (rewrite <- app_assoc; reflexivity).
    replace (S (length a)) with (length (a ++ [x])) by (rewrite app_length; cbn; lia).
    rewrite IH by (cbn in H; lia). rewrite <- app_assoc. reflexivity.
Qed.

Theorem par_extend_vector v n sl :
  length (v_elems v) <= v_cap v -> length sl = S n ->
  exists v', par_extend_vec v n sl = Ok v'
             /\ v_elems v' = v_elems v ++ sl
             /\ length (v_elems v') <= v_cap v'
             /\ v_cap v <= v_cap v'.
Proof.
  intros Hc Hl. unfold par_extend_vec, par_extend_prepare, reserve_exact.
  set (len := length (v_elems v)) in *. rewrite Nat.add_1_r.
  assert (E : Nat.leb (len + S n) (if Nat.leb (S n) (v_cap v - len) then v_cap v else len + S n) = true).
  { destruct (Nat.leb (S n) (v_cap v - len)) eqn:L; apply Nat.leb_le; [apply Nat.leb_le in L|]; lia. }
  rewrite E. eexists. split; [reflexivity|]. cbn [v_elems v_cap].
  unfold len. rewrite write_from_app by (rewrite repeat_length; lia).
  split; [reflexivity|]. rewrite app_length, Hl. fold len.
  destruct (Nat.leb (S n) (v_cap v - len)) eqn:L; [apply Nat.leb_le in L|apply Nat.leb_gt in L]; lia.
Qed.

(** The precondition of [set_len] is the only panic site, and it needs the
    spare room that [reserve_exact] is asked for: with a request that is too
    small (here: the seeded "only what is missing of the missing") the model
    panics.  [reserve_small] is that variant of line 61. *)
Definition prepare_with (req : nat -> nat -> nat -> nat) (v : vecst) (n : nat) : res vecst :=
  let old_len := length (v_elems v) in
  let additional := n + 1 in
  let cap' := reserve_exact old_len (v_cap v) (req old_len (v_cap v) additional) in
  if Nat.leb (old_len + additional) cap'
  then Ok {| v_elems := v_elems v ++ repeat None additional; v_cap := cap' |}
  else Panic Other.

Example prepare_code_shape v n : prepare_with (fun _ _ a => a) v n = par_extend_prepare v n.
Proof. reflexivity. Qed.

Example prepare_refuted_when_request_shrinks :
  prepare_with (fun len cap a => a - (cap - len)) {| v_elems := []; v_cap := 2 |} 4 = Panic Other.
Proof. reflexivity. Qed.
