(** C20: the node lines of the layout are the nodes of the picture in
    depth-first order, each exactly once. *)
From DivanV Require Import Base.Res Model.Painter Model.DriverPaint Model.Parse Proofs.Painter Proofs.PaintDriver.
From Coq Require Import Lia.

Lemma pic_ind2 (P : pic -> Prop) :
  (forall n c rows kids, Forall P kids -> P (Pic n c rows kids)) -> forall p, P p.
Proof.
  intros H. fix IH 1. intros [n c rows kids]. apply H.
  induction kids as [|k r IHr]; constructor; [apply IH | exact IHr].
Qed.

(** The name a layout entry introduces (rows and blank lines introduce none). *)
Definition spec_name (l : lspec) : list str :=
  match l with LTop n _ => [n] | LNode _ _ n _ => [n] | LRow _ _ _ => [] | LBlank => [] end.

Definition lay_names (ls : list lspec) : list str := flat_map spec_name ls.

Lemma lay_names_app : forall a b, lay_names (a ++ b) = lay_names a ++ lay_names b.
Proof. intros. apply flat_map_app. Qed.

Lemma lay_names_rows : forall fl l rows, lay_names (map (LRow fl l) rows) = [].
Proof. induction rows; [reflexivity | exact IHrows]. Qed.

Lemma lay_names_node : forall p fl last, lay_names (lay_node fl last p) = preorder p.
Proof.
  induction p as [n c rows kids IH] using pic_ind2. intros fl last.
  rewrite lay_node_eq. cbn [preorder]. change (LNode fl last n c :: ?x) with ([LNode fl last n c] ++ x).
  cbn [lay_names flat_map spec_name app]. f_equal.
  change (flat_map spec_name ?x) with (lay_names x).
  rewrite lay_names_app, lay_names_rows. cbn [app].
  generalize (fl ++ [negb last]) as fl'. induction kids as [|k r IHr]; intros fl'; [reflexivity|].
  inversion IH; subst. cbn [lay_kids flat_map]. rewrite lay_names_app, H1, IHr by assumption. reflexivity.
Qed.

Lemma lay_names_kids : forall kids fl, lay_names (lay_kids fl kids) = flat_map preorder kids.
Proof.
  induction kids as [|k r IH]; intros fl; [reflexivity|].
  cbn [lay_kids flat_map]. rewrite lay_names_app, lay_names_node, IH. reflexivity.
Qed.

Lemma lay_names_layout : forall ps, lay_names (layout ps) = flat_map preorder ps.
Proof.
  induction ps as [|[n c rows kids] r IH]; [reflexivity|].
  cbn [layout flat_map lay_top preorder]. fold (layout r).
  change (LTop n c :: ?x) with ([LTop n c] ++ x).
  rewrite !lay_names_app, lay_names_kids, IH. cbn. rewrite app_nil_r. reflexivity.
Qed.

Lemma glyphs_encode_position : forall a t,
  forallb is_group t = true -> Forall wf_node t ->
  exists p out ls, paint a t = Ok (p, out) /\ out = unlines ls /\
                   Forall2 line_ok (layout (picture a t)) ls.
Proof.
  intros a t Hg Hw. destruct (paint_layout a t Hg Hw) as (p & out & E & _ & _ & ls & Eo & F).
  exists p, out, ls. auto.
Qed.

Lemma preorder_once : forall a t,
  lay_names (layout (picture a t)) = flat_map preorder (picture a t).
Proof. intros. apply lay_names_layout. Qed.
