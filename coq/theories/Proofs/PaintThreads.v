(** The thread-count branches of a benchmark: every requested count (0 read as
    the machine's parallelism) exactly once, in increasing order. *)
From DivanV Require Import Base.Res Model.PaintThreads.
From Coq Require Import Lia Sorted.
Local Open Scope N_scope.

Inductive incr : list N -> Prop :=
| incr_nil : incr []
| incr_one : forall a, incr [a]
| incr_cons : forall a b r, a < b -> incr (b :: r) -> incr (a :: b :: r).

Inductive nondecr : list N -> Prop :=
| nd_nil : nondecr []
| nd_one : forall a, nondecr [a]
| nd_cons : forall a b r, a <= b -> nondecr (b :: r) -> nondecr (a :: b :: r).

Lemma insert_in : forall x l y, In y (insert_n x l) <-> x = y \/ In y l.
Proof.
  induction l as [|a r IH]; intros y; cbn; [tauto|].
  destruct (x <=? a); cbn; [tauto|]. rewrite IH. tauto.
Qed.

Lemma insert_nondecr : forall x l, nondecr l -> nondecr (insert_n x l).
Proof.
  induction l as [|a r IH]; intros H; cbn; [constructor|].
  destruct (x <=? a) eqn:E.
  - apply N.leb_le in E. constructor; assumption.
  - apply N.leb_gt in E. inversion H; subst; cbn.
    + constructor; [lia | constructor].
    + specialize (IH H3). cbn in IH. destruct (x <=? b) eqn:E2.
      * apply N.leb_le in E2. constructor; [lia|]. constructor; assumption.
      * constructor; assumption.
Qed.

Lemma sort_in : forall l y, In y (sort_n l) <-> In y l.
Proof. induction l as [|a r IH]; intros y; cbn; [tauto|]. rewrite insert_in, IH. tauto. Qed.

Lemma sort_nondecr : forall l, nondecr (sort_n l).
Proof. induction l; cbn; [constructor | apply insert_nondecr; assumption]. Qed.

Lemma dedup_in : forall l y, In y (dedup_n l) <-> In y l.
Proof.
  induction l as [|a r IH]; intros y; [tauto|].
  destruct r as [|b r']; [cbn; tauto|].
  change (dedup_n (a :: b :: r')) with (if a =? b then dedup_n (b :: r') else a :: dedup_n (b :: r')).
  destruct (a =? b) eqn:E.
  - apply N.eqb_eq in E. subst. rewrite IH. cbn. tauto.
  - cbn [In]. rewrite IH. cbn. tauto.
Qed.

Lemma dedup_hd : forall a r, exists r', dedup_n (a :: r) = a :: r'.
Proof.
  intros a r. revert a. induction r as [|b r IH]; intros a; [exists []; reflexivity|].
  change (dedup_n (a :: b :: r)) with (if a =? b then dedup_n (b :: r) else a :: dedup_n (b :: r)).
  destruct (a =? b) eqn:E; [apply N.eqb_eq in E; subst; apply IH | eexists; reflexivity].
Qed.

Lemma dedup_incr : forall l, nondecr l -> incr (dedup_n l).
Proof.
  induction l as [|a r IH]; intros H; [constructor|].
  destruct r as [|b r']; [constructor|].
  inversion H; subst.
  change (dedup_n (a :: b :: r')) with (if a =? b then dedup_n (b :: r') else a :: dedup_n (b :: r')).
  destruct (a =? b) eqn:E; [apply IH; assumption|].
  apply N.eqb_neq in E. destruct (dedup_hd b r') as (r'' & Er). specialize (IH H4).
  rewrite Er in *. constructor; [lia | assumption].
Qed.

(** Every requested count, with 0 read as [par], appears; nothing else does;
    strictly increasing, hence each exactly once. *)
Theorem threads_norm : forall par raw,
  incr (norm_threads par raw) /\
  forall n, In n (norm_threads par raw) <-> In n (resolve_threads par raw).
Proof.
  intros. unfold norm_threads. split.
  - apply dedup_incr, sort_nondecr.
  - intros n. rewrite dedup_in, sort_in. tauto.
Qed.

Example threads_norm_ex :
  norm_threads 16 [2; 0; 1; 2] = [1; 2; 16] /\ norm_threads 16 [0; 16] = [16] /\ norm_threads 16 [] = [].
Proof. repeat split. Qed.
