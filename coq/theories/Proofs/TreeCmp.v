(** Proofs about [Model/TreeCmp.v]: the sibling comparator is a total preorder
    on sibling sets satisfying three stated conditions; sorting a tree only
    permutes the children of each node and the arguments of each leaf. *)

From Coq Require Import Permutation.
From DivanV Require Import Base.Res Generated.Consts Model.Natural Model.SortBy Model.ArgCmp Model.TreeCmp
  Proofs.SortCmp Proofs.Natural Proofs.ArgCmp.
Local Open Scope N_scope.

(** * Component orders *)

Lemma tpo_loc_cmp : tpo_on all loc_cmp.
Proof.
  apply (tpo_ext all _ (thenc (fun a b : loc => bytes_cmp (fst a) (fst b))
                          (thenc (fun a b : loc => fst (snd a) ?= fst (snd b))
                                 (fun a b : loc => snd (snd a) ?= snd (snd b))))).
  - intros x y _ _. reflexivity.
  - apply tpo_thenc; [|apply tpo_thenc].
    + apply (tpo_pull all all (fun a : loc => fst a) bytes_cmp); [intros; exact I|exact tpo_bytes_cmp].
    + apply (tpo_pull all all (fun a : loc => fst (snd a)) N.compare); [intros; exact I|exact tpo_N].
    + apply (tpo_pull all all (fun a : loc => snd (snd a)) N.compare); [intros; exact I|exact tpo_N].
Qed.

Lemma tpo_opt_cmp {A} (c : A -> A -> comparison) : tpo_on all c -> tpo_on all (opt_cmp c).
Proof.
  intros T. split; [|split].
  - intros [x|] [y|] _ _; simpl; try reflexivity. apply (tpo_anti all c T); exact I.
  - intros [x|] [y|] [z|] _ _ _; simpl; try discriminate; try reflexivity.
    apply (tpo_lt_trans all c T); exact I.
  - intros [x|] [y|] [z|] _ _ _; simpl; try discriminate; try reflexivity.
    apply (tpo_eq_l all c T); exact I.
Qed.

(** * Conditions on a sibling set *)

Section Siblings.
Variable S : tree -> Prop.

(** Two siblings with the same entry address are the same entry. *)
Definition addr_identity : Prop :=
  forall x y a, S x -> S y -> entry_addr x = Some a -> entry_addr y = Some a -> x = y.

(** Siblings sharing a source location all have an entry address or none has
    (false only if one macro invocation produced a module and sibling
    benchmarks at one line and column). *)
Definition loc_addr_uniform : Prop :=
  forall x y, S x -> S y -> opt_cmp loc_cmp (location x) (location y) = Eq ->
    (entry_addr x = None <-> entry_addr y = None).

(** Either no sibling is a constant of a generic benchmark, or all are and
    they carry the same [partial_cmp] (constants of one benchmark have one type). *)
Definition consts_uniform : Prop :=
  forall x y, S x -> S y ->
    match leaf_const x, leaf_const y with
    | Some cx, Some cy => fst cx = fst cy
    | None, None => True
    | _, _ => False
    end.

Hypothesis H1 : addr_identity.
Hypothesis H2 : loc_addr_uniform.
Hypothesis H3 : consts_uniform.

Definition cval (t : tree) : Z := match leaf_const t with Some c => snd c | None => 0%Z end.
Definition caddr (t : tree) : N := match entry_addr t with Some a => a | None => 0 end.

Lemma name_cmp_tree_key : forall x y, S x -> S y ->
  name_cmp_tree x y =
  thenc (fun a b => (cval a ?= cval b)%Z) (fun a b => natural_cmp (display_name a) (display_name b)) x y.
Proof.
  intros x y Sx Sy. pose proof (H3 x y Sx Sy) as H.
  unfold name_cmp_tree, thenc, cval, const_cmp.
  destruct (leaf_const x) as [cx|]; destruct (leaf_const y) as [cy|]; try contradiction.
  - rewrite H, N.eqb_refl. reflexivity.
  - reflexivity.
Qed.

Lemma tpo_name_cmp_tree : tpo_on S name_cmp_tree.
Proof.
  apply (tpo_ext S _ _ name_cmp_tree_key).
  apply tpo_thenc.
  - apply (tpo_weaken S all); [intros; exact I|].
    apply (tpo_pull all all cval Z.compare); [intros; exact I|exact tpo_Z].
  - apply (tpo_weaken S all); [intros; exact I|].
    apply (tpo_pull all all display_name natural_cmp); [intros; exact I|exact tpo_natural_cmp].
Qed.

Lemma loc_cmp_tree_key : forall x y, S x -> S y ->
  attr_cmp_tree SLocation x y =
  thenc (fun a b => opt_cmp loc_cmp (location a) (location b)) (fun a b => caddr a ?= caddr b) x y.
Proof.
  intros x y Sx Sy. unfold attr_cmp_tree, thenc.
  destruct (opt_cmp loc_cmp (location x) (location y)) eqn:E; try reflexivity.
  pose proof (H2 x y Sx Sy E) as H. unfold addr_ordering, caddr.
  destruct (entry_addr x) as [a|]; destruct (entry_addr y) as [b|]; try reflexivity.
  - destruct H as [_ H]. specialize (H eq_refl). discriminate.
  - destruct H as [H _]. specialize (H eq_refl). discriminate.
Qed.

Lemma tpo_attr_cmp_tree : forall attr, tpo_on S (attr_cmp_tree attr).
Proof.
  intros [| |].
  - apply (tpo_weaken S all); [intros; exact I|].
    apply (tpo_pull all all kind Z.compare); [intros; exact I|exact tpo_Z].
  - exact tpo_name_cmp_tree.
  - apply (tpo_ext S _ _ loc_cmp_tree_key). apply tpo_thenc.
    + apply (tpo_weaken S all); [intros; exact I|].
      apply (tpo_pull all all location (opt_cmp loc_cmp)); [intros; exact I|].
      apply tpo_opt_cmp. exact tpo_loc_cmp.
    + apply (tpo_weaken S all); [intros; exact I|].
      apply (tpo_pull all all caddr N.compare); [intros; exact I|exact tpo_N].
Qed.

Lemma tpo_tree_cascade : forall attr,
  tpo_on S (cascade (map attr_cmp_tree (with_tie_breakers attr))).
Proof.
  intros attr. apply tpo_cascade. apply Forall_forall. intros c Hc.
  apply in_map_iff in Hc. destruct Hc as (a & <- & _). apply tpo_attr_cmp_tree.
Qed.

Lemma cmp_by_attr_cascade : forall attr x y, S x -> S y ->
  cmp_by_attr attr x y = cascade (map attr_cmp_tree (with_tie_breakers attr)) x y.
Proof.
  intros attr x y Sx Sy. unfold cmp_by_attr.
  destruct (addr_ordering x y) as [[| |]|] eqn:E; try reflexivity.
  unfold addr_ordering in E.
  destruct (entry_addr x) as [a|] eqn:Ex; [|discriminate].
  destruct (entry_addr y) as [b|] eqn:Ey; [|discriminate].
  injection E as E. apply N.compare_eq in E. subst b.
  assert (x = y) by (eapply H1; eauto). subst y.
  symmetry. apply (tpo_refl S _ (tpo_tree_cascade attr)). exact Sx.
Qed.

(** [cmp_by_attr] is a total preorder on the sibling set, for every attribute
    and both directions: std's sorts have no inconsistency to detect. *)
Lemma tpo_cmp_by_attr : forall attr, tpo_on S (cmp_by_attr attr).
Proof.
  intros attr. apply (tpo_ext S _ _ (cmp_by_attr_cascade attr)). apply tpo_tree_cascade.
Qed.

Lemma sort_siblings_ok : forall attr rev l, Forall S l ->
  sort_by (revc rev (cmp_by_attr attr)) l = Ok (isort (revc rev (cmp_by_attr attr)) l).
Proof.
  intros attr rev l Hl. apply (sort_by_ok S). - apply tpo_rev. apply tpo_cmp_by_attr. - exact Hl.
Qed.

End Siblings.

(** The three conditions cannot simply be dropped: without [loc_addr_uniform]
    two groups and an address-less parent at one location form a cycle. *)
Definition w_loc : loc := ([102], (1, 1)).
Definition w_a : tree := Parent [97] (Some (5, [97], w_loc)) [].
Definition w_b : tree := Parent [99] (Some (3, [99], w_loc)) [].
Definition w_c : tree := Parent [98] None [Leaf 9 [120] None w_loc None].

Lemma loc_addr_uniform_needed :
  cmp_by_attr SLocation w_a w_c = Lt /\ cmp_by_attr SLocation w_c w_b = Lt /\
  cmp_by_attr SLocation w_a w_b = Gt.
Proof. vm_compute. repeat split. Qed.

(** ... and without [consts_uniform] a plain benchmark named "-1x" beside the
    constants -2 and -1 of a generic benchmark forms a cycle by name. *)
Definition w_m2 : tree := Leaf 1 [45; 50] (Some (0, (-2)%Z)) w_loc None.
Definition w_m1 : tree := Leaf 2 [45; 49] (Some (0, (-1)%Z)) w_loc None.
Definition w_x : tree := Leaf 3 [45; 49; 120] None w_loc None.

Lemma consts_uniform_needed :
  cmp_by_attr SName w_m2 w_m1 = Lt /\ cmp_by_attr SName w_m1 w_x = Lt /\
  cmp_by_attr SName w_x w_m2 = Lt.
Proof. vm_compute. repeat split. Qed.

(** * Sorting only permutes *)

(** [tree_perm a b]: [b] is [a] with the children of every node and the
    arguments of every leaf permuted — same entries under the same parents. *)
Inductive tree_perm : tree -> tree -> Prop :=
| TP_leaf_none : forall a n c l, tree_perm (Leaf a n c l None) (Leaf a n c l None)
| TP_leaf_args : forall a n c l x y, Permutation x y ->
    tree_perm (Leaf a n c l (Some x)) (Leaf a n c l (Some y))
| TP_parent : forall raw g ch mid ch', Permutation ch mid -> Forall2 tree_perm mid ch' ->
    tree_perm (Parent raw g ch) (Parent raw g ch').

Lemma sort_by_perm {A} (c : A -> A -> comparison) l l' : sort_by c l = Ok l' -> Permutation l l'.
Proof.
  unfold sort_by. destruct (all_pairs_ok c (isort c l)); [|discriminate].
  intros [= <-]. apply isort_perm.
Qed.

Lemma indexed_snd {A} : forall (l : list A) i, map snd (index_from i l) = l.
Proof. induction l as [|x r IH]; intros i; simpl; [reflexivity|]. rewrite IH. reflexivity. Qed.

Section SortPerm.
Variable V : Type.
Variable vcmp : V -> V -> comparison.
Variable fparse : bytes -> option V.

Lemma sort_node_perm : forall fuel attr rev t t',
  sort_node V vcmp fparse fuel attr rev t = Ok t' -> tree_perm t t'.
Proof.
  induction fuel as [|f IH]; intros attr rev t t' H; [discriminate|].
  destruct t as [a n c l [args|]|raw g ch]; simpl in H.
  - destruct (sort_by _ (indexed args)) as [perm|p] eqn:E; [|discriminate].
    simpl in H. injection H as <-. apply TP_leaf_args.
    apply sort_by_perm in E. rewrite <- (indexed_snd args 0) at 1.
    apply Permutation_map. exact E.
  - injection H as <-. apply TP_leaf_none.
  - destruct (sort_by _ ch) as [sorted|p] eqn:E; [|discriminate]. simpl in H.
    apply sort_by_perm in E.
    match type of H with bind ?g _ = _ => destruct g as [ch'|p] eqn:G end; [|discriminate].
    simpl in H. injection H as <-.
    apply (TP_parent raw g ch sorted ch' E).
    clear E. revert ch' G. induction sorted as [|x r IHr]; intros ch' G.
    + injection G as <-. constructor.
    + destruct (sort_node V vcmp fparse f attr rev x) as [x'|p] eqn:Ex; [|discriminate].
      simpl in G.
      match type of G with bind ?g _ = _ => destruct g as [r'|p] eqn:Gr end; [|discriminate].
      simpl in G. injection G as <-. constructor.
      * eapply IH. exact Ex.
      * apply IHr. reflexivity.
Qed.

(** Whenever the sort of a forest returns, the result is the input with
    siblings and arguments permuted: nothing lost, duplicated or re-parented. *)
Lemma sort_forest_perm : forall attr rev ts ts',
  sort_forest V vcmp fparse attr rev ts = Ok ts' ->
  tree_perm (Parent [] None ts) (Parent [] None ts').
Proof.
  intros attr rev ts ts' H. unfold sort_forest in H.
  destruct (sort_node V vcmp fparse _ attr rev (Parent [] None ts)) as [t|p] eqn:E; [|discriminate].
  apply sort_node_perm in E. inversion E; subst. injection H as <-.
  econstructor; eauto.
Qed.

End SortPerm.

(** * Statements in the shape used by Properties/C16.v *)

Lemma treecmp_total : forall (S : tree -> Prop) attr,
  addr_identity S -> loc_addr_uniform S -> consts_uniform S ->
  let c := cmp_by_attr attr in
  (forall x y, S x -> S y -> c y x = CompOpp (c x y)) /\
  (forall x y z, S x -> S y -> S z -> c x y = Lt -> c y z = Lt -> c x z = Lt) /\
  (forall x y z, S x -> S y -> S z -> c x y = Eq -> c x z = c y z) /\
  (forall rev l, Forall S l ->
     sort_by (revc rev c) l = Ok (isort (revc rev c) l) /\
     Permutation l (isort (revc rev c) l) /\ ssorted (revc rev c) (isort (revc rev c) l)).
Proof.
  intros S attr H1 H2 H3. pose proof (tpo_cmp_by_attr S H1 H2 H3 attr) as T.
  split; [exact (proj1 T)|split; [exact (proj1 (proj2 T))|split; [exact (proj2 (proj2 T))|]]].
  intros rev l Hl. split; [|split].
  - apply (sort_siblings_ok S H1 H2 H3). exact Hl.
  - apply isort_perm.
  - apply (isort_sorted S _ (tpo_rev S _ rev T)). exact Hl.
Qed.

(** The hypotheses are satisfiable by a non-trivial sibling set: two constants
    of one generic benchmark (same location, different addresses). *)
Example treecmp_hyps_satisfiable :
  let S := fun t => In t [w_m2; w_m1] in
  addr_identity S /\ loc_addr_uniform S /\ consts_uniform S.
Proof.
  split; [|split].
  - intros x y a [<-|[<-|[]]] [<-|[<-|[]]]; simpl; intros E1 E2; congruence.
  - intros x y [<-|[<-|[]]] [<-|[<-|[]]] _; simpl; split; discriminate.
  - intros x y [<-|[<-|[]]] [<-|[<-|[]]]; simpl; reflexivity.
Qed.

(** Reversed direction on siblings: the reverse of the ascending result is a
    sorted permutation for the reversed comparator; when no two distinct
    siblings tie it is the only one, so --sortr shows exactly the reverse. *)
Lemma siblings_reverse : forall (S : tree -> Prop) attr,
  addr_identity S -> loc_addr_uniform S -> consts_uniform S ->
  forall l, Forall S l ->
  let c := cmp_by_attr attr in
  Permutation l (rev (isort c l)) /\ ssorted (revc true c) (rev (isort c l)) /\
  ((forall x y, S x -> S y -> c x y = Eq -> x = y) ->
   forall l', Permutation l l' -> ssorted (revc true c) l' -> l' = rev (isort c l)).
Proof.
  intros S attr H1 H2 H3 l Hl c. pose proof (tpo_cmp_by_attr S H1 H2 H3 attr) as T.
  assert (HS : Forall S (isort c l)) by (apply (Forall_perm _ l); [apply isort_perm|exact Hl]).
  split; [|split].
  - eapply perm_trans; [apply isort_perm|apply Permutation_rev].
  - apply (ssorted_rev S c T); [exact HS|]. apply (isort_sorted S c T). exact Hl.
  - intros Strict l' HP HSo.
    apply (sorted_perm_unique S (revc true c) (tpo_rev S c true T)).
    + intros x y Sx Sy E. apply Strict; auto. unfold revc, apply_reverse in E.
      destruct (c x y); simpl in E; congruence.
    + apply (Forall_perm _ l); [exact HP|exact Hl].
    + eapply perm_trans; [apply Permutation_sym; exact HP|].
      eapply perm_trans; [apply isort_perm|apply Permutation_rev].
    + exact HSo.
    + apply (ssorted_rev S c T); [exact HS|]. apply (isort_sorted S c T). exact Hl.
Qed.
