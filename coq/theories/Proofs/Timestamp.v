From DivanV Require Import Base.Res Generated.Consts Model.Timestamp.
From Coq Require Import ZifyN ZifyBool.
Local Open Scope N_scope.
Ltac Zify.zify_post_hook ::= Z.div_mod_to_equations.

(** * Counter readings to picoseconds *)

Definition tsc_spec (later earlier freq : N) : N :=
  if later <? earlier then 0 else ((later - earlier) * 1000000000000) / freq.

Lemma two64_val : 2 ^ 64 = 18446744073709551616. Proof. reflexivity. Qed.
Lemma two128_val : 2 ^ 128 = 340282366920938463463374607431768211456. Proof. reflexivity. Qed.

Lemma tsc_no_overflow a b :
  a < 2 ^ 64 -> b < 2 ^ 64 -> (b - a) * tsc_picos_const < 2 ^ 128.
Proof.
  intros Ha Hb. unfold tsc_picos_const. rewrite two64_val in *. rewrite two128_val. nia.
Qed.

Lemma tsc_exact a b f :
  f <> 0 -> a < 2 ^ 64 -> b < 2 ^ 64 ->
  tsc_duration b a f = Ok (tsc_spec b a f) /\ (b - a) * tsc_picos_const < 2 ^ 128.
Proof.
  intros Hf Ha Hb. split; [|apply tsc_no_overflow; assumption].
  unfold tsc_duration, tsc_spec.
  destruct (b <? a) eqn:Hlt; [reflexivity|].
  unfold checked_mul. pose proof (tsc_no_overflow a b Ha Hb) as Hov.
  apply N.ltb_lt in Hov. rewrite Hov. cbn [bind].
  unfold checked_div. destruct (f =? 0) eqn:Hf0; [apply N.eqb_eq in Hf0; contradiction|].
  reflexivity.
Qed.

Lemma tsc_backwards a b f : b < a -> tsc_duration b a f = Ok 0.
Proof. intros H. unfold tsc_duration. apply N.ltb_lt in H. rewrite H. reflexivity. Qed.

Lemma tsc_monotone a b b' f :
  f <> 0 -> b <= b' -> tsc_spec b a f <= tsc_spec b' a f.
Proof.
  intros Hf Hb. unfold tsc_spec.
  destruct (b <? a) eqn:H1; destruct (b' <? a) eqn:H2.
  - apply N.le_refl.
  - apply N.le_0_l.
  - exfalso. apply N.ltb_ge in H1. apply N.ltb_lt in H2. lia.
  - apply N.ltb_ge in H1. apply N.ltb_ge in H2.
    apply N.div_le_mono; [assumption|]. nia.
Qed.

(** Additive up to one picosecond of rounding. *)
Lemma tsc_additive a b c f :
  f <> 0 -> a <= b -> b <= c ->
  tsc_spec b a f + tsc_spec c b f <= tsc_spec c a f /\
  tsc_spec c a f <= tsc_spec b a f + tsc_spec c b f + 1.
Proof.
  intros Hf Hab Hbc. unfold tsc_spec.
  destruct (b <? a) eqn:H1; [lia|].
  destruct (c <? b) eqn:H2; [lia|].
  destruct (c <? a) eqn:H3; [lia|].
  assert (Hsum : (c - a) * 1000000000000 = (b - a) * 1000000000000 + (c - b) * 1000000000000) by nia.
  rewrite Hsum.
  set (x := (b - a) * 1000000000000). set (y := (c - b) * 1000000000000).
  clearbody x y. clear - Hf.
  pose proof (N.div_mod x f Hf). pose proof (N.div_mod y f Hf).
  pose proof (N.div_mod (x + y) f Hf).
  pose proof (N.mod_lt x f Hf). pose proof (N.mod_lt y f Hf). pose proof (N.mod_lt (x + y) f Hf).
  split; nia.
Qed.

Lemma tsc_shift_invariant a b k f :
  a <= b -> tsc_spec (b + k) (a + k) f = tsc_spec b a f.
Proof.
  intros Hab. unfold tsc_spec.
  destruct (b + k <? a + k) eqn:H1; destruct (b <? a) eqn:H2; try lia.
  replace (b + k - (a + k)) with (b - a) by lia. reflexivity.
Qed.

(** * std Duration to picoseconds *)

Lemma duration_exact secs nanos :
  secs < 2 ^ 64 -> nanos < 1000000000 ->
  fine_from_duration secs nanos = Ok ((secs * 1000000000 + nanos) * 1000).
Proof.
  intros Hs Hn. unfold fine_from_duration, duration_as_nanos, checked_mul.
  rewrite two64_val in Hs.
  assert (H : (secs * 1000000000 + nanos) * 1000 <? 2 ^ 128 = true).
  { apply N.ltb_lt. rewrite two128_val. nia. }
  rewrite H. reflexivity.
Qed.

(** The OS arm of the dispatcher: exactly the nanoseconds between the two
    instants times 1000 (whole seconds included), zero when reversed. *)
Lemma os_duration_exact later earlier :
  later < 2 ^ 64 * 1000000000 ->
  os_duration_since later earlier = Ok ((later - earlier) * 1000).
Proof.
  intros Hl. unfold os_duration_since.
  assert (He : later - earlier < 2 ^ 64 * 1000000000) by lia.
  rewrite duration_exact.
  - f_equal. f_equal.
    rewrite (N.mul_comm _ 1000000000). symmetry. apply N.div_mod. discriminate.
  - apply N.div_lt_upper_bound; [discriminate|]. lia.
  - apply N.mod_lt. discriminate.
Qed.

Lemma os_duration_reversed later earlier :
  later <= earlier -> os_duration_since later earlier = Ok 0.
Proof.
  intros H. unfold os_duration_since.
  replace (later - earlier) with 0 by lia. reflexivity.
Qed.

Lemma osd_model_sb earlier later :
  later < 2 ^ 64 * 1000000000 ->
  osd_sb earlier later (os_duration_since later earlier) = true.
Proof.
  intros Hl. rewrite os_duration_exact by assumption. cbn [osd_sb]. apply N.eqb_refl.
Qed.

(** * Timer precision under a uniformly stepping clock *)

Lemma prec_tick_min s : ps_min (prec_tick s) = ps_min s.
Proof. unfold prec_tick. destruct (_ <? _); reflexivity. Qed.

Lemma prec_tick_seen s : ps_seen (prec_tick s) = ps_seen s.
Proof. unfold prec_tick. destruct (_ <? _); reflexivity. Qed.

Lemma prec_run_cons s x l :
  prec_run s (x :: l) =
  match prec_step s x with PrecReturn v => Some v | PrecContinue s' => prec_run s' l end.
Proof. reflexivity. Qed.

Lemma prec_run_equal d (Hd : d <> 0) :
  forall (m : nat) s rest,
    ps_min s = d -> ps_seen s + N.of_nat m = 99 ->
    prec_run s (repeat d (S m) ++ rest) = Some d.
Proof.
  induction m as [|m IH]; intros s rest Hmin Hseen.
  - cbn [repeat app prec_run]. unfold prec_step.
    destruct (d =? 0) eqn:Hd0; [apply N.eqb_eq in Hd0; contradiction|].
    rewrite Hmin, N.compare_refl.
    assert (Hs : ps_seen s = 99) by lia. rewrite Hs. reflexivity.
  - change (repeat d (S (S m)) ++ rest) with (d :: (repeat d (S m) ++ rest)).
    rewrite prec_run_cons. unfold prec_step.
    destruct (d =? 0) eqn:Hd0; [apply N.eqb_eq in Hd0; contradiction|].
    rewrite Hmin, N.compare_refl.
    unfold prec_seen_threshold.
    destruct (100 <=? ps_seen s + 1) eqn:Hthr; [lia|].
    apply IH.
    + rewrite prec_tick_min. reflexivity.
    + rewrite prec_tick_seen. cbn [ps_seen]. lia.
Qed.

Lemma precision_uniform d n :
  0 < d -> d < u128_max -> (101 <= n)%nat ->
  measure_precision (repeat d n) = Some d.
Proof.
  intros Hpos Hmax Hn.
  replace n with (1 + (100 + (n - 101)))%nat by lia.
  rewrite !repeat_app.
  unfold measure_precision.
  change (repeat d 1 ++ repeat d 100 ++ repeat d (n - 101)) with (d :: (repeat d 100 ++ repeat d (n - 101))).
  rewrite prec_run_cons. unfold prec_step.
  destruct (d =? 0) eqn:Hd0; [lia|].
  cbn [prec_init ps_min].
  destruct (d ?= u128_max) eqn:Hc;
    [apply N.compare_eq in Hc; lia | | apply N.compare_gt_iff in Hc; lia].
  apply (prec_run_equal d ltac:(lia) 99).
  - rewrite prec_tick_min. reflexivity.
  - rewrite prec_tick_seen. reflexivity.
Qed.

(** In clock terms: a counter advancing [t] ticks between two successive reads
    at frequency [f] produces the sample [tsc_spec t 0 f] each time. *)
Lemma precision_uniform_ticks t f n :
  f <> 0 -> t < 2 ^ 64 -> 0 < tsc_spec t 0 f -> (101 <= n)%nat ->
  measure_precision (repeat (tsc_spec t 0 f) n) = Some (tsc_spec t 0 f).
Proof.
  intros Hf Ht Hpos Hn. apply precision_uniform; [assumption| |assumption].
  unfold tsc_spec in *. destruct (t <? 0) eqn:H0; [lia|].
  unfold u128_max. rewrite two128_val. rewrite two64_val in Ht.
  assert ((t - 0) * 1000000000000 / f <= (t - 0) * 1000000000000).
  { apply N.div_le_upper_bound; [assumption|]. nia. }
  lia.
Qed.

(** Non-vacuity. *)
Example precision_example :
  measure_precision (repeat 50000 101) = Some 50000 /\ prec_consumed prec_init (repeat 50000 200) 0 = Some 101.
Proof. vm_compute. split; reflexivity. Qed.

Example tsc_example : tsc_duration (2 ^ 64 - 1) 0 1 = Ok ((2 ^ 64 - 1) * 1000000000000).
Proof. vm_compute. reflexivity. Qed.

(** * The model satisfies the boolean specifications *)

Lemma tsc_sb_spec a b f v :
  f <> 0 -> (tsc_sb a b f (Ok v) = true <-> v = tsc_spec b a f).
Proof.
  intros Hf. unfold tsc_sb, tsc_spec. destruct (b <? a) eqn:Hlt.
  - rewrite N.eqb_eq. reflexivity.
  - rewrite andb_true_iff, N.leb_le, N.ltb_lt.
    set (x := (b - a) * 1000000000000).
    pose proof (N.div_mod x f Hf) as Hdm. pose proof (N.mod_lt x f Hf) as Hml.
    split.
    + intros [H1 H2]. apply (N.div_unique x f v (x - v * f)); lia.
    + intros ->. split; nia.
Qed.

Lemma tsc_model_sb a b f :
  f <> 0 -> a < 2 ^ 64 -> b < 2 ^ 64 -> tsc_sb a b f (tsc_duration b a f) = true.
Proof.
  intros Hf Ha Hb. destruct (tsc_exact a b f Hf Ha Hb) as [-> _].
  apply tsc_sb_spec; [assumption|reflexivity].
Qed.

Lemma dur_model_sb secs nanos :
  secs < 2 ^ 64 -> nanos < 1000000000 -> dur_sb secs nanos (fine_from_duration secs nanos) = true.
Proof.
  intros Hs Hn. rewrite duration_exact by assumption. cbn [dur_sb]. apply N.eqb_refl.
Qed.

Lemma prec_model_sb t f n :
  f <> 0 -> t < 2 ^ 64 -> 0 < tsc_spec t 0 f -> (101 <= n)%nat ->
  prec_sb f t (measure_precision (repeat (tsc_spec t 0 f) n)) = true.
Proof.
  intros Hf Ht Hpos Hn. rewrite precision_uniform_ticks by assumption.
  cbn [prec_sb]. apply tsc_sb_spec; [assumption|reflexivity].
Qed.

(** * The per-kind precision cache *)

Lemma pc_get_set_same c k v : pc_get (pc_set c k v) k = Some v.
Proof. destruct k; reflexivity. Qed.

Lemma pc_get_set_other c k k' v : tkind_eqb k k' = false -> pc_get (pc_set c k v) k' = pc_get c k'.
Proof. destruct k, k'; cbn; intros H; try discriminate; reflexivity. Qed.

Lemma tkind_eqb_eq a b : tkind_eqb a b = true <-> a = b.
Proof. destruct a, b; cbn; split; intros H; try reflexivity; try discriminate. Qed.

(** What the [i]-th query reports, for any cache state: the cached value of its
    kind if there is one, else the first measurement of that kind among the
    queries so far — whatever queries of the other kind happen in between. *)
Lemma prec_queries_nth : forall qs c i k m,
  nth_error qs i = Some (k, m) ->
  nth_error (prec_queries c qs) i =
  Some (match pc_get c k with
        | Some v => v
        | None => match first_of_kind k (firstn (S i) qs) with Some v => v | None => m end
        end).
Proof.
  induction qs as [|[k0 m0] qs IH]; intros c i k m Hn.
  - destruct i; discriminate.
  - destruct i as [|i].
    + cbn in Hn. injection Hn as -> ->. cbn [prec_queries prec_query].
      destruct (pc_get c k) as [v|] eqn:Ec; cbn [nth_error].
      * reflexivity.
      * cbn [firstn first_of_kind]. replace (tkind_eqb k k) with true by (destruct k; reflexivity). reflexivity.
    + cbn in Hn. cbn [prec_queries prec_query].
      destruct (pc_get c k0) as [v0|] eqn:Ec0; cbn [nth_error].
      * rewrite (IH c i k m Hn). cbn [firstn first_of_kind].
        destruct (pc_get c k) as [v|] eqn:Ec; [reflexivity|].
        destruct (tkind_eqb k k0) eqn:Ek.
        -- apply tkind_eqb_eq in Ek. subst k0. rewrite Ec in Ec0. discriminate.
        -- reflexivity.
      * rewrite (IH (pc_set c k0 m0) i k m Hn). cbn [firstn first_of_kind].
        destruct (tkind_eqb k k0) eqn:Ek.
        -- apply tkind_eqb_eq in Ek. subst k0. rewrite pc_get_set_same, Ec0. reflexivity.
        -- assert (Hk : tkind_eqb k0 k = false) by (destruct k, k0; cbn in *; congruence).
           rewrite (pc_get_set_other c k0 k m0 Hk). reflexivity.
Qed.

Theorem precision_cached_per_kind : forall qs i k m,
  nth_error qs i = Some (k, m) ->
  nth_error (prec_queries pcache_empty qs) i = first_of_kind k qs.
Proof.
  intros qs i k m Hn. rewrite (prec_queries_nth qs pcache_empty i k m Hn).
  assert (Hg : pc_get pcache_empty k = None) by (destruct k; reflexivity). rewrite Hg.
  (* the first of kind k within the first i+1 queries is the first of kind k overall,
     because query i itself has kind k *)
  clear Hg. revert i Hn. induction qs as [|[k0 m0] qs IH]; intros i Hn.
  - destruct i; discriminate.
  - destruct i as [|i]; cbn in Hn.
    + injection Hn as -> ->. cbn. replace (tkind_eqb k k) with true by (destruct k; reflexivity). reflexivity.
    + cbn [firstn first_of_kind]. destruct (tkind_eqb k k0); [reflexivity|]. apply IH. exact Hn.
Qed.

(** Queries of one kind never change what the other kind reports. *)
Theorem precision_kinds_independent : forall qs k,
  first_of_kind k (filter (fun q => tkind_eqb k (fst q)) qs) = first_of_kind k qs.
Proof.
  induction qs as [|[k0 m0] qs IH]; intros k; [reflexivity|].
  cbn [filter fst]. destruct (tkind_eqb k k0) eqn:Ek; cbn [first_of_kind]; rewrite Ek; [reflexivity|apply IH].
Qed.

Lemma all_eqb_repeat_like : forall (l : list N) v, Forall (fun x => x = v) l -> all_eqb l = true.
Proof.
  induction l as [|x t IH]; intros v H; [reflexivity|].
  inversion H as [|? ? Hx Ht]; subst. destruct t as [|y t']; [reflexivity|].
  inversion Ht as [|? ? Hy Ht']; subst. cbn [all_eqb]. rewrite N.eqb_refl. cbn [andb]. apply (IH v). exact Ht.
Qed.

(** The model satisfies the boolean specification: for every query sequence in
    which every TSC measurement would give [tscv] and every OS measurement a
    non-zero whole number of nanoseconds. *)
Lemma prec_queries_length : forall qs c, length (prec_queries c qs) = length qs.
Proof. induction qs as [|[k m] qs IH]; intros c; cbn; [reflexivity|]. destruct (pc_get c k); cbn; rewrite IH; reflexivity. Qed.

Definition cache_ok (tscv : N) (c : pcache) : Prop :=
  (forall v, pc_tsc c = Some v -> v = tscv) /\
  (forall v, pc_os c = Some v -> 0 < v /\ v mod 1000 = 0).

Definition os_val (c : pcache) (qs : list (tkind * N)) : option N :=
  match pc_os c with Some v => Some v | None => first_of_kind KOs qs end.

Lemma precq_invariant : forall qs c tscv,
  cache_ok tscv c ->
  Forall (fun q => match fst q with KTsc => snd q = tscv | KOs => 0 < snd q /\ snd q mod 1000 = 0 end) qs ->
  Forall (fun ka => match fst ka with
                    | KTsc => snd ka = tscv
                    | KOs => Some (snd ka) = os_val c qs /\ 0 < snd ka /\ snd ka mod 1000 = 0
                    end) (combine (map fst qs) (prec_queries c qs)).
Proof.
  induction qs as [|[k m] qs IH]; intros c tscv Hc Hq; [constructor|].
  pose proof Hc as [Ht Ho].
  inversion Hq as [|? ? Hq1 Hq2]; subst. cbn [map fst prec_queries prec_query].
  destruct k; cbn [pc_get].
  - (* OS query *)
    cbn in Hq1. destruct (pc_os c) as [v|] eqn:Eo; cbn [combine].
    + constructor.
      * cbn. unfold os_val. rewrite Eo. split; [reflexivity|]. apply Ho. reflexivity.
      * assert (H := IH c tscv Hc Hq2). unfold os_val in *. rewrite Eo in *. exact H.
    + constructor.
      * cbn. unfold os_val. rewrite Eo. cbn. split; [reflexivity|exact Hq1].
      * assert (Hc' : cache_ok tscv (pc_set c KOs m)).
        { split; cbn; [exact Ht|]. intros v Hv. injection Hv as <-. exact Hq1. }
        assert (H := IH (pc_set c KOs m) tscv Hc' Hq2). unfold os_val in *. cbn in *. rewrite Eo. cbn. exact H.
  - (* TSC query *)
    cbn in Hq1. destruct (pc_tsc c) as [v|] eqn:Et; cbn [combine].
    + constructor; [cbn; apply Ht; reflexivity|].
      assert (H := IH c tscv Hc Hq2). unfold os_val in *. cbn. exact H.
    + constructor; [cbn; exact Hq1|].
      assert (Hc' : cache_ok tscv (pc_set c KTsc m)).
      { split; cbn; [|exact Ho]. intros v Hv. injection Hv as <-. exact Hq1. }
      assert (H := IH (pc_set c KTsc m) tscv Hc' Hq2). unfold os_val in *. cbn in *. exact H.
Qed.

Theorem precq_model_sb : forall qs tscv,
  Forall (fun q => match fst q with KTsc => snd q = tscv | KOs => 0 < snd q /\ snd q mod 1000 = 0 end) qs ->
  precq_sb (map fst qs) tscv (prec_queries pcache_empty qs) = true.
Proof.
  intros qs tscv Hq. unfold precq_sb.
  assert (Hc : cache_ok tscv pcache_empty) by (split; cbn; intros v H; discriminate).
  assert (HI := precq_invariant qs pcache_empty tscv Hc Hq).
  rewrite map_length, prec_queries_length, Nat.eqb_refl. cbn [andb].
  set (l := combine (map fst qs) (prec_queries pcache_empty qs)) in *.
  assert (H1 : forallb (fun ka => match fst ka with KTsc => snd ka =? tscv | KOs => true end) l = true).
  { apply forallb_forall. intros ka Hin. rewrite Forall_forall in HI. specialize (HI ka Hin).
    destruct (fst ka); [reflexivity|]. apply N.eqb_eq. exact HI. }
  rewrite H1. cbn [andb].
  set (os := map snd (filter (fun ka => tkind_eqb (fst ka) KOs) l)).
  assert (Hos : Forall (fun v => Some v = os_val pcache_empty qs /\ 0 < v /\ v mod 1000 = 0) os).
  { unfold os. apply Forall_forall. intros v Hv. apply in_map_iff in Hv. destruct Hv as [ka [<- Hin]].
    apply filter_In in Hin. destruct Hin as [Hin Hk]. rewrite Forall_forall in HI. specialize (HI ka Hin).
    destruct (fst ka); [exact HI|discriminate]. }
  assert (H2 : all_eqb os = true).
  { destruct (os_val pcache_empty qs) as [w|] eqn:Ew.
    - apply (all_eqb_repeat_like os w). eapply Forall_impl; [|exact Hos]. cbn. intros a [Ha _]. congruence.
    - destruct os as [|x t]; [reflexivity|]. inversion Hos as [|? ? [Hx _] _]. discriminate. }
  rewrite H2. cbn [andb]. apply forallb_forall. intros v Hv. rewrite Forall_forall in Hos. destruct (Hos v Hv) as [_ [Hp Hm]].
  apply andb_true_iff. split; [apply N.ltb_lt; exact Hp|apply N.eqb_eq; exact Hm].
Qed.
