From DivanV Require Import Base.Res Generated.Consts Model.Timestamp.
From Coq Require Import ZifyN ZifyBool.
Local Open Scope N_scope.
Ltac Zify.zify_post_hook ::= Z.div_mod_to_equations.

(** * Counter readings to picoseconds *)

Definition tsc_spec (later earlier freq : N) : N :=
  if later <? earlier then 0 else ((later - earlier) * 1000000000000) / freq.

Lemma two64_val : 2 ^ 64 = 18446744073709551616. Proof. reflexivity. Qed.
Lemma two128_val : 2 ^ 128 = 340282366920938463463374607431768211456. Proof. reflexivity. Qed.

Lemma tsc_no_overflow a b :
  a < 2 ^ 64 -> b < 2 ^ 64 -> (b - a) * tsc_picos_const < 2 ^ 128.
Proof.
  intros Ha Hb. unfold tsc_picos_const. rewrite two64_val in *. rewrite two128_val. nia.
Qed.

Lemma tsc_exact a b f :
  f <> 0 -> a < 2 ^ 64 -> b < 2 ^ 64 ->
  tsc_duration b a f = Ok (tsc_spec b a f) /\ (b - a) * tsc_picos_const < 2 ^ 128.
Proof.
  intros Hf Ha Hb. split; [|apply tsc_no_overflow; assumption].
  unfold tsc_duration, tsc_spec.
  destruct (b <? a) eqn:Hlt; [reflexivity|].
  unfold checked_mul. pose proof (tsc_no_overflow a b Ha Hb) as Hov.
  apply N.ltb_lt in Hov. rewrite Hov. cbn [bind].
  unfold checked_div. destruct (f =? 0) eqn:Hf0; [apply N.eqb_eq in Hf0; contradiction|].
  reflexivity.
Qed.

Lemma tsc_backwards a b f : b < a -> tsc_duration b a f = Ok 0.
Proof. intros H. unfold tsc_duration. apply N.ltb_lt in H. rewrite H. reflexivity. Qed.

Lemma tsc_monotone a b b' f :
  f <> 0 -> b <= b' -> tsc_spec b a f <= tsc_spec b' a f.
Proof.
  intros Hf Hb. unfold tsc_spec.
  destruct (b <? a) eqn:H1; destruct (b' <? a) eqn:H2.
  - apply N.le_refl.
  - apply N.le_0_l.
  - exfalso. apply N.ltb_ge in H1. apply N.ltb_lt in H2. lia.
  - apply N.ltb_ge in H1. apply N.ltb_ge in H2.
    apply N.div_le_mono; [assumption|]. nia.
Qed.

(** Additive up to one picosecond of rounding. *)
Lemma tsc_additive a b c f :
  f <> 0 -> a <= b -> b <= c ->
  tsc_spec b a f + tsc_spec c b f <= tsc_spec c a f /\
  tsc_spec c a f <= tsc_spec b a f + tsc_spec c b f + 1.
Proof.
  intros Hf Hab Hbc. unfold tsc_spec.
  destruct (b <? a) eqn:H1; [lia|].
  destruct (c <? b) eqn:H2; [lia|].
  destruct (c <? a) eqn:H3; [lia|].
  assert (Hsum : (c - a) * 1000000000000 = (b - a) * 1000000000000 + (c - b) * 1000000000000) by nia.
  rewrite Hsum.
  set (x := (b - a) * 1000000000000). set (y := (c - b) * 1000000000000).
  clearbody x y. clear - Hf.
  pose proof (N.div_mod x f Hf). pose proof (N.div_mod y f Hf).
  pose proof (N.div_mod (x + y) f Hf).
  pose proof (N.mod_lt x f Hf). pose proof (N.mod_lt y f Hf). pose proof (N.mod_lt (x + y) f Hf).
  split; nia.
Qed.

Lemma tsc_shift_invariant a b k f :
  a <= b -> tsc_spec (b + k) (a + k) f = tsc_spec b a f.
Proof.
  intros Hab. unfold tsc_spec.
  destruct (b + k <? a + k) eqn:H1; destruct (b <? a) eqn:H2; try lia.
  replace (b + k - (a + k)) with (b - a) by lia. reflexivity.
Qed.

(** * std Duration to picoseconds *)

Lemma duration_exact secs nanos :
  secs < 2 ^ 64 -> nanos < 1000000000 ->
  fine_from_duration secs nanos = Ok ((secs * 1000000000 + nanos) * 1000).
Proof.
  intros Hs Hn. unfold fine_from_duration, duration_as_nanos, checked_mul.
  rewrite two64_val in Hs.
  assert (H : (secs * 1000000000 + nanos) * 1000 <? 2 ^ 128 = true).
  { apply N.ltb_lt. rewrite two128_val. nia. }
  rewrite H. reflexivity.
Qed.

(** * Timer precision under a uniformly stepping clock *)

Lemma prec_tick_min s : ps_min (prec_tick s) = ps_min s.
Proof. unfold prec_tick. destruct (_ <? _); reflexivity. Qed.

Lemma prec_tick_seen s : ps_seen (prec_tick s) = ps_seen s.
Proof. unfold prec_tick. destruct (_ <? _); reflexivity. Qed.

Lemma prec_run_cons s x l :
  prec_run s (x :: l) =
  match prec_step s x with PrecReturn v => Some v | PrecContinue s' => prec_run s' l end.
Proof. reflexivity. Qed.

Lemma prec_run_equal d (Hd : d <> 0) :
  forall (m : nat) s rest,
    ps_min s = d -> ps_seen s + N.of_nat m = 99 ->
    prec_run s (repeat d (S m) ++ rest) = Some d.
Proof.
  induction m as [|m IH]; intros s rest Hmin Hseen.
  - cbn [repeat app prec_run]. unfold prec_step.
    destruct (d =? 0) eqn:Hd0; [apply N.eqb_eq in Hd0; contradiction|].
    rewrite Hmin, N.compare_refl.
    assert (Hs : ps_seen s = 99) by lia. rewrite Hs. reflexivity.
  - change (repeat d (S (S m)) ++ rest) with (d :: (repeat d (S m) ++ rest)).
    rewrite prec_run_cons. unfold prec_step.
    destruct (d =? 0) eqn:Hd0; [apply N.eqb_eq in Hd0; contradiction|].
    rewrite Hmin, N.compare_refl.
    unfold prec_seen_threshold.
    destruct (100 <=? ps_seen s + 1) eqn:Hthr; [lia|].
    apply IH.
    + rewrite prec_tick_min. reflexivity.
    + rewrite prec_tick_seen. cbn [ps_seen]. lia.
Qed.

Lemma precision_uniform d n :
  0 < d -> d < u128_max -> (101 <= n)%nat ->
  measure_precision (repeat d n) = Some d.
Proof.
  intros Hpos Hmax Hn.
  replace n with (1 + (100 + (n - 101)))%nat by lia.
  rewrite !repeat_app.
  unfold measure_precision.
  change (repeat d 1 ++ repeat d 100 ++ repeat d (n - 101)) with (d :: (repeat d 100 ++ repeat d (n - 101))).
  rewrite prec_run_cons. unfold prec_step.
  destruct (d =? 0) eqn:Hd0; [lia|].
  cbn [prec_init ps_min].
  destruct (d ?= u128_max) eqn:Hc;
    [apply N.compare_eq in Hc; lia | | apply N.compare_gt_iff in Hc; lia].
  apply (prec_run_equal d ltac:(lia) 99).
  - rewrite prec_tick_min. reflexivity.
  - rewrite prec_tick_seen. reflexivity.
Qed.

(** In clock terms: a counter advancing [t] ticks between two successive reads
    at frequency [f] produces the sample [tsc_spec t 0 f] each time. *)
Lemma precision_uniform_ticks t f n :
  f <> 0 -> t < 2 ^ 64 -> 0 < tsc_spec t 0 f -> (101 <= n)%nat ->
  measure_precision (repeat (tsc_spec t 0 f) n) = Some (tsc_spec t 0 f).
Proof.
  intros Hf Ht Hpos Hn. apply precision_uniform; [assumption| |assumption].
  unfold tsc_spec in *. destruct (t <? 0) eqn:H0; [lia|].
  unfold u128_max. rewrite two128_val. rewrite two64_val in Ht.
  assert ((t - 0) * 1000000000000 / f <= (t - 0) * 1000000000000).
  { apply N.div_le_upper_bound; [assumption|]. nia. }
  lia.
Qed.

(** Non-vacuity. *)
Example precision_example :
  measure_precision (repeat 50000 101) = Some 50000 /\ prec_consumed prec_init (repeat 50000 200) 0 = Some 101.
Proof. vm_compute. split; reflexivity. Qed.

Example tsc_example : tsc_duration (2 ^ 64 - 1) 0 1 = Ok ((2 ^ 64 - 1) * 1000000000000).
Proof. vm_compute. reflexivity. Qed.

(** * The model satisfies the boolean specifications *)

Lemma tsc_sb_spec a b f v :
  f <> 0 -> (tsc_sb a b f (Ok v) = true <-> v = tsc_spec b a f).
Proof.
  intros Hf. unfold tsc_sb, tsc_spec. destruct (b <? a) eqn:Hlt.
  - rewrite N.eqb_eq. reflexivity.
  - rewrite andb_true_iff, N.leb_le, N.ltb_lt.
    set (x := (b - a) * 1000000000000).
    pose proof (N.div_mod x f Hf) as Hdm. pose proof (N.mod_lt x f Hf) as Hml.
    split.
    + intros [H1 H2]. apply (N.div_unique x f v (x - v * f)); lia.
    + intros ->. split; nia.
Qed.

Lemma tsc_model_sb a b f :
  f <> 0 -> a < 2 ^ 64 -> b < 2 ^ 64 -> tsc_sb a b f (tsc_duration b a f) = true.
Proof.
  intros Hf Ha Hb. destruct (tsc_exact a b f Hf Ha Hb) as [-> _].
  apply tsc_sb_spec; [assumption|reflexivity].
Qed.

Lemma dur_model_sb secs nanos :
  secs < 2 ^ 64 -> nanos < 1000000000 -> dur_sb secs nanos (fine_from_duration secs nanos) = true.
Proof.
  intros Hs Hn. rewrite duration_exact by assumption. cbn [dur_sb]. apply N.eqb_refl.
Qed.

Lemma prec_model_sb t f n :
  f <> 0 -> t < 2 ^ 64 -> 0 < tsc_spec t 0 f -> (101 <= n)%nat ->
  prec_sb f t (measure_precision (repeat (tsc_spec t 0 f) n)) = true.
Proof.
  intros Hf Ht Hpos Hn. rewrite precision_uniform_ticks by assumption.
  cbn [prec_sb]. apply tsc_sb_spec; [assumption|reflexivity].
Qed.
