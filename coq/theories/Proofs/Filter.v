(** Proofs about Model/Filter.v: [FilterSet::is_match] on a set built by any
    interleaving of [include]/[exclude] equals the specification on the history. *)
From Coq Require Import Permutation.
From DivanV Require Import Base.Res Model.SplitVec Model.Filter Proofs.SplitVec.

Lemma existsb_perm {A : Type} (p : A -> bool) (l1 l2 : list A) :
  Permutation l1 l2 -> existsb p l1 = existsb p l2.
Proof.
  intros H. induction H as [|x l l' _ IH|x y l|l l' l'' _ IH1 _ IH2].
  - reflexivity.
  - cbn [existsb]. rewrite IH. reflexivity.
  - cbn [existsb]. destruct (p x); destruct (p y); reflexivity.
  - rewrite IH1. exact IH2.
Qed.

(** [position] on a concatenation. *)
Lemma position_app {A : Type} (p : A -> bool) (l1 l2 : list A) :
  position p (l1 ++ l2) =
  match position p l1 with
  | Some i => Some i
  | None => match position p l2 with Some j => Some (length l1 + j)%nat | None => None end
  end.
Proof.
  induction l1 as [|x l1 IH]; cbn [app position length].
  - destruct (position p l2); reflexivity.
  - destruct (p x); [reflexivity|]. rewrite IH.
    destruct (position p l1); [reflexivity|].
    destruct (position p l2); reflexivity.
Qed.

Lemma position_some_lt {A : Type} (p : A -> bool) (l : list A) (i : nat) :
  position p l = Some i -> (i < length l)%nat.
Proof.
  revert i. induction l as [|x l IH]; intros i H; cbn [position] in H; [discriminate|].
  destruct (p x).
  - injection H as <-. cbn [length]. lia.
  - destruct (position p l) as [j|]; [|discriminate].
    injection H as <-. cbn [length]. specialize (IH j eq_refl). lia.
Qed.

Lemma position_existsb {A : Type} (p : A -> bool) (l : list A) :
  existsb p l = match position p l with Some _ => true | None => false end.
Proof.
  induction l as [|x l IH]; cbn [existsb position]; [reflexivity|].
  destruct (p x); [reflexivity|]. cbn [orb]. rewrite IH.
  destruct (position p l); reflexivity.
Qed.

Lemma str_eqb_eq (a b : str) : str_eqb a b = true <-> a = b.
Proof.
  unfold str_eqb. revert b. induction a as [|x a IH]; intros [|y b]; cbn [list_eqb]; split; intros H;
    try reflexivity; try discriminate.
  - apply andb_true_iff in H. destruct H as [H1 H2]. apply N.eqb_eq in H1. apply IH in H2. congruence.
  - injection H as -> ->. apply andb_true_iff. split; [apply N.eqb_refl | apply IH; reflexivity].
Qed.

Section WithRegexOracle.
  Variable matches : str -> str -> bool.

  Lemma any_skip_inserted (ops : list (pfilter * bool)) (p : str) :
    any_skip matches ops p = existsb (fun f => filter_is_match matches f p) (inserted_before ops).
  Proof.
    unfold any_skip, inserted_before.
    induction ops as [|[f b] ops IH]; [reflexivity|].
    cbn [existsb filter snd fst]. rewrite IH.
    destruct b; cbn [negb andb orb map existsb fst]; reflexivity.
  Qed.

  Lemma any_positive_inserted (ops : list (pfilter * bool)) (p : str) :
    any_positive matches ops p = existsb (fun f => filter_is_match matches f p) (inserted_after ops).
  Proof.
    unfold any_positive, inserted_after.
    induction ops as [|[f b] ops IH]; [reflexivity|].
    cbn [existsb filter snd fst]. rewrite IH.
    destruct b; cbn [negb andb orb map existsb fst]; reflexivity.
  Qed.

  Lemma no_positives_inserted (ops : list (pfilter * bool)) :
    no_positives ops = match inserted_after ops with [] => true | _ => false end.
  Proof.
    unfold no_positives, inserted_after.
    induction ops as [|[f b] ops IH]; [reflexivity|].
    cbn [existsb filter snd]. destruct b; cbn [orb negb map]; [reflexivity|exact IH].
  Qed.

  (** [is_match] of a well-formed set, in terms of its halves. *)
  Lemma fs_is_match_halves (fs : filter_set) (p : str) :
    sv_wf fs ->
    fs_is_match matches fs p =
    Ok (negb (existsb (fun f => filter_is_match matches f p) (sv_before fs))
        && (match sv_after fs with [] => true | _ => false end
            || existsb (fun f => filter_is_match matches f p) (sv_after fs))).
  Proof.
    intros Hwf. destruct (sv_wf_repr fs Hwf) as [Hitems Hsplit].
    unfold fs_is_match. rewrite (sv_split_index_ok fs Hwf). cbn [bind].
    rewrite Hitems, Hsplit.
    set (F := sv_before fs). set (R := sv_after fs).
    set (q := fun f => filter_is_match matches f p).
    rewrite position_app. rewrite (position_existsb q F), (position_existsb q R).
    destruct (position q F) as [i|] eqn:EF.
    - apply position_some_lt in EF. cbn [negb andb].
      f_equal. apply Nat.leb_gt. exact EF.
    - cbn [negb andb].
      destruct (position q R) as [j|] eqn:ER.
      + rewrite orb_true_r. f_equal. apply Nat.leb_le. lia.
      + rewrite orb_false_r. f_equal. rewrite app_length.
        destruct R; cbn [length].
        * apply Nat.eqb_eq. lia.
        * apply Nat.eqb_neq. lia.
  Qed.

  (** Main statement: any interleaving of insertions. *)
  Lemma is_match_correct (ops : list (pfilter * bool)) (p : str) :
    fs_query matches ops p = Ok (is_match_spec matches ops p).
  Proof.
    unfold fs_query, fs_build, fs_empty.
    destruct (sv_build_spec ops) as (fs & Hbuild & Hwf & _ & Hbefore & Hafter).
    rewrite Hbuild. cbn [bind].
    rewrite (fs_is_match_halves fs p Hwf).
    unfold is_match_spec.
    rewrite any_skip_inserted, any_positive_inserted, no_positives_inserted.
    rewrite Hbefore.
    rewrite (existsb_perm _ _ _ Hafter).
    f_equal. f_equal. f_equal.
    destruct (sv_after fs) as [|x r] eqn:EA.
    - apply Permutation_nil in Hafter. rewrite Hafter. reflexivity.
    - destruct (inserted_after ops) eqn:EI; [|reflexivity].
      apply Permutation_sym in Hafter. apply Permutation_nil in Hafter. discriminate.
  Qed.

  Lemma fs_build_ok (ops : list (pfilter * bool)) :
    exists fs, fs_build ops = Ok fs /\ sv_wf fs /\
               forall p, fs_is_match matches fs p = Ok (is_match_spec matches ops p).
  Proof.
    unfold fs_build, fs_empty.
    destruct (sv_build_spec ops) as (fs & Hbuild & Hwf & _ & Hbefore & Hafter).
    exists fs. split; [exact Hbuild|]. split; [exact Hwf|].
    intros p. pose proof (is_match_correct ops p) as H.
    unfold fs_query, fs_build, fs_empty in H. rewrite Hbuild in H. exact H.
  Qed.

  Lemma is_match_sb_model (ops : list (pfilter * bool)) (p : str) :
    is_match_sb matches ops p (fs_query matches ops p) = true.
  Proof.
    rewrite is_match_correct. cbn [is_match_sb]. apply eqb_reflx.
  Qed.

  Lemma is_match_sb_meaning (ops : list (pfilter * bool)) (p : str) (b : bool) :
    is_match_sb matches ops p (Ok b) = true <->
    (b = true <->
     (forall f, In (f, false) ops -> filter_is_match matches f p = false) /\
     ((forall f, ~ In (f, true) ops) \/ exists f, In (f, true) ops /\ filter_is_match matches f p = true)).
  Proof.
    cbn [is_match_sb]. rewrite eqb_true_iff.
    assert (Hspec : is_match_spec matches ops p = true <->
      (forall f, In (f, false) ops -> filter_is_match matches f p = false) /\
      ((forall f, ~ In (f, true) ops) \/ exists f, In (f, true) ops /\ filter_is_match matches f p = true)).
    { unfold is_match_spec, any_skip, any_positive, no_positives.
      rewrite andb_true_iff, orb_true_iff, !negb_true_iff.
      split.
      - intros [Hs Hp]. split.
        + intros f Hin. destruct (filter_is_match matches f p) eqn:E; [|reflexivity].
          assert (Hex : existsb (fun o => negb (snd o) && filter_is_match matches (fst o) p) ops = true).
          { apply existsb_exists. exists (f, false). split; [exact Hin|]. cbn. exact E. }
          congruence.
        + destruct Hp as [Hp|Hp].
          * left. intros f Hin.
            assert (Hex : existsb (fun o : pfilter * bool => snd o) ops = true).
            { apply existsb_exists. exists (f, true). split; [exact Hin|reflexivity]. }
            congruence.
          * right. apply existsb_exists in Hp. destruct Hp as [[f b0] [Hin Hb]].
            cbn [fst snd] in Hb. apply andb_true_iff in Hb. destruct Hb as [-> Hb].
            exists f. split; assumption.
      - intros [Hs Hp]. split.
        + destruct (existsb _ ops) eqn:E; [|reflexivity].
          apply existsb_exists in E. destruct E as [[f b0] [Hin Hb]].
          cbn [fst snd] in Hb. apply andb_true_iff in Hb. destruct Hb as [Hb1 Hb2].
          destruct b0; [discriminate|]. rewrite (Hs f Hin) in Hb2. discriminate.
        + destruct Hp as [Hp|[f [Hin Hm]]].
          * left. destruct (existsb _ ops) eqn:E; [|reflexivity].
            apply existsb_exists in E. destruct E as [[f b0] [Hin Hb]].
            cbn [snd] in Hb. subst b0. exfalso. exact (Hp f Hin).
          * right. apply existsb_exists. exists (f, true). split; [exact Hin|].
            cbn [fst snd andb]. exact Hm. }
    rewrite <- Hspec. split.
    - intros ->. reflexivity.
    - intros H. destruct b; destruct (is_match_spec matches ops p); try reflexivity.
      + destruct H as [H _]. symmetry. apply H. reflexivity.
      + destruct H as [_ H]. apply H. reflexivity.
  Qed.
End WithRegexOracle.

(** The hypotheses of nothing above are vacuous: a concrete history where a
    skip filter overrides a positive one and where two positives are ORed. *)
Example is_match_example :
  let m := fun (pat s : str) => str_eqb pat [97%N] in   (* pattern "a" matches everything *)
  let ops := [(FExact [120%N], true); (FExact [121%N], false); (FRegex [97%N], true); (FExact [120%N], false)] in
  fs_query m ops [120%N] = Ok false /\ fs_query m ops [122%N] = Ok true /\ fs_query m ops [121%N] = Ok false.
Proof. repeat split; reflexivity. Qed.
