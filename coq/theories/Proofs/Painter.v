(** Lemmas about the painter model (C20): what every operation writes and how
    it changes depth, prefix and widths. *)
From DivanV Require Import Base.Res Model.Painter Model.DriverPaint Model.Parse.
From Coq Require Import Lia.

(** An ignored entry paints one [(ignored)] line and calls nothing. *)
Lemma ignored_entry_ops : forall a id name args threads out is_last,
  run_bench_entry a id name true args threads out is_last = [IgnoreLeaf name is_last].
Proof. reflexivity. Qed.

Ltac fin := cbn [prefix depth widths]; first [reflexivity | symmetry; assumption | assumption].

(** ** Shape of a written row *)

(** [row_shape cells s]: [s] is the cells in order, each followed by some
    padding and separated by " │ "; an empty last cell is preceded by " │"
    only. *)
Inductive row_shape : list str -> str -> Prop :=
| RS_one : forall v, row_shape [v] v
| RS_last_empty : forall v k, row_shape [v; []] (v ++ spaces k ++ [sp; c_bar])
| RS_cons : forall v k rest t, rest <> [] -> row_shape rest t ->
    row_shape (v :: rest) (v ++ spaces k ++ [sp; c_bar; sp] ++ t).

Definition sep_shape (cells : list str) (s : str) : Prop :=
  (cells = [[]] /\ s = [sp; c_bar]) \/
  (cells <> [[]] /\ exists t, s = [sp; c_bar; sp] ++ t /\ row_shape cells t).

Definition hd_pos (ws : list nat) : Prop :=
  match ws with w :: _ => 0 < w | [] => False end.

Lemma write_go_cons2 : forall first v v2 rest w ws,
  write_go first (v :: v2 :: rest) (w :: ws) =
  bind (write_go false (v2 :: rest) ws) (fun r =>
    Ok ((if first then [] else [sp; c_bar; sp]) ++ v
        ++ (if Nat.leb (length v) w then spaces (w - length v) else []) ++ fst r,
        (if Nat.leb (length v) w then w else length v) :: snd r)).
Proof. intros. destruct first; reflexivity. Qed.

Lemma pad_spaces : forall (v : str) w,
  exists k, (if Nat.leb (length v) w then spaces (w - length v) else []) = spaces k.
Proof. intros. destruct (Nat.leb (length v) w); [eexists; reflexivity | exists 0; reflexivity]. Qed.

Lemma row_shape_step : forall v rest s pad,
  (exists k, pad = spaces k) -> sep_shape rest s -> rest <> [] -> row_shape (v :: rest) (v ++ pad ++ s).
Proof.
  intros v rest s pad (k & ->) Sh Hne.
  destruct Sh as [[-> ->] | [Hn (t & -> & Ht)]].
  - apply RS_last_empty.
  - apply RS_cons; [congruence | exact Ht].
Qed.

Lemma write_go_false : forall cells ws,
  cells <> [] -> length cells <= S (length ws) ->
  exists s ws', write_go false cells ws = Ok (s, ws') /\ sep_shape cells s /\
                length ws' = length ws /\ (hd_pos ws -> hd_pos ws').
Proof.
  induction cells as [|v rest IH]; intros ws Hne Hlen; [congruence|].
  destruct rest as [|v2 rest'].
  - cbn [write_go]. destruct v as [|c v'].
    + exists [sp; c_bar], ws. cbn. repeat split; auto. left; auto.
    + exists ([sp; c_bar; sp] ++ c :: v'), ws. cbn. repeat split; auto.
      right. split; [congruence|]. exists (c :: v'). split; auto. constructor.
  - destruct ws as [|w ws']; [cbn in Hlen; lia|].
    destruct (IH ws') as (s & wsr & E & Sh & L & Hp); [congruence | cbn in *; lia |].
    rewrite write_go_cons2, E. cbn [bind fst snd].
    eexists. eexists. split; [reflexivity|].
    split; [|split].
    + right. split; [congruence|]. eexists. split; [reflexivity|].
      apply row_shape_step; [apply pad_spaces | exact Sh | congruence].
    + cbn. rewrite L. reflexivity.
    + intros Hw. cbn in *. destruct (Nat.leb (length v) w) eqn:El; [exact Hw|].
      apply PeanoNat.Nat.leb_gt in El. lia.
Qed.

Lemma write_cols_shape : forall cells ws,
  cells <> [] -> length cells <= S (length ws) ->
  exists s ws', write_cols cells ws = Ok (s, ws') /\ row_shape cells s /\
                length ws' = length ws /\ (hd_pos ws -> hd_pos ws').
Proof.
  intros cells ws Hne Hlen. unfold write_cols.
  destruct cells as [|v rest]; [congruence|].
  destruct rest as [|v2 rest'].
  - exists v, ws. cbn. repeat split; auto. constructor.
  - destruct ws as [|w ws']; [cbn in Hlen; lia|].
    destruct (write_go_false (v2 :: rest') ws') as (s & wsr & E & Sh & L & Hp); [congruence | cbn in *; lia |].
    rewrite write_go_cons2, E. cbn [bind fst snd app].
    eexists. eexists. split; [reflexivity|].
    split; [|split].
    + apply row_shape_step; [apply pad_spaces | exact Sh | congruence].
    + cbn. rewrite L. reflexivity.
    + intros Hw. cbn in *. destruct (Nat.leb (length v) w) eqn:El; [exact Hw|].
      apply PeanoNat.Nat.leb_gt in El. lia.
Qed.

(** ** Lines *)

Definition tail_ok (c : option (list str)) (tail : str) : Prop :=
  match c with
  | None => exists k, tail = spaces k /\ (k = 0 \/ 2 <= k)
  | Some row => exists k s, 2 <= k /\ tail = spaces k ++ s /\ row_shape row s
  end.

Definition line_ok (l : lspec) (line : str) : Prop :=
  match l with
  | LTop n c => exists tail, line = n ++ tail /\ tail_ok c tail
  | LNode fl last n c =>
    exists tail, line = units_str fl ++ branch_glyph last ++ n ++ tail /\ tail_ok c tail
  | LRow fl last row =>
    exists k s, 2 <= k /\
      line = units_str fl ++ (if last then [] else [c_bar]) ++ spaces k ++ s /\ row_shape row s
  | LBlank => line = []
  end.

Definition unlines (ls : list str) : str := flat_map (fun l => l ++ [nl]) ls.

Definition lines_shape (specs : list lspec) (out : str) : Prop :=
  exists ls, out = unlines ls /\ Forall2 line_ok specs ls.

Lemma unlines_app : forall a b, unlines (a ++ b) = unlines a ++ unlines b.
Proof. intros. unfold unlines. apply flat_map_app. Qed.

Lemma lines_shape_app : forall s1 s2 o1 o2,
  lines_shape s1 o1 -> lines_shape s2 o2 -> lines_shape (s1 ++ s2) (o1 ++ o2).
Proof.
  intros s1 s2 o1 o2 (l1 & -> & F1) (l2 & -> & F2).
  exists (l1 ++ l2). split; [symmetry; apply unlines_app | apply Forall2_app; auto].
Qed.

Lemma lines_shape_nil : lines_shape [] [].
Proof. exists []. split; [reflexivity | constructor]. Qed.

Lemma lines_shape_one : forall spec line, line_ok spec line -> lines_shape [spec] (line ++ [nl]).
Proof.
  intros. exists [line]. split; [cbn; rewrite app_nil_r; reflexivity | repeat constructor; auto].
Qed.

(** ** The painter invariant under an action *)

Definition inv (a : action) (p : painter) : Prop :=
  if is_bench a then length (widths p) = 6 /\ hd_pos (widths p)
  else widths p = [0; 0; 0; 0; 0; 0].

Lemma inv_has_columns : forall a p, inv a p -> has_columns p = is_bench a.
Proof.
  intros a p H. unfold inv in H. unfold has_columns.
  destruct (is_bench a).
  - destruct H as [_ H]. destruct (widths p) as [|w ws]; [contradiction|].
    cbn in *. destruct w; [lia|]. reflexivity.
  - rewrite H. reflexivity.
Qed.

Lemma units_str_app : forall a b, units_str (a ++ b) = units_str a ++ units_str b.
Proof. induction a; intros; cbn; [reflexivity|]. rewrite IHa, app_assoc. reflexivity. Qed.

Lemma units_str_length : forall fl, length (units_str fl) = 3 * length fl.
Proof. induction fl as [|f fl IH]; cbn [units_str length]; [reflexivity|].
  rewrite app_length, IH. destruct f; cbn; lia. Qed.

Lemma right_pad_spec : forall n m, exists k, fst (right_pad n m) = spaces k /\ 2 <= k.
Proof. intros. unfold right_pad, tree_col_buf. cbn [fst]. eexists. split; [reflexivity|]. lia. Qed.

Lemma headings_len : length headings = 6. Proof. reflexivity. Qed.

(** [start_parent] below the top level. *)
Lemma start_parent_inner : forall a p fl name l,
  inv a p -> depth p = S (length fl) -> prefix p = units_str fl ->
  exists p' line, start_parent p name l = Ok (p', line ++ [nl]) /\
    line_ok (LNode fl l name (parent_cells a false)) line /\
    inv a p' /\ depth p' = S (S (length fl)) /\ prefix p' = units_str (fl ++ [negb l]).
Proof.
  intros a p fl name l Hinv Hd Hp.
  pose proof (inv_has_columns _ _ Hinv) as Hc.
  unfold start_parent. rewrite Hd. cbn [Nat.eqb]. rewrite Hc.
  unfold parent_cells, inv in *.
  destruct (is_bench a) eqn:Ea.
  - destruct Hinv as [Hl Hpos].
    destruct (write_cols_shape six_empty (widths p)) as (s & ws' & E & Sh & L & Hp');
      [compute; congruence | rewrite Hl; cbn; lia |].
    destruct (right_pad_spec (length (prefix p ++ branch_glyph l ++ name)) (max_name_span p)) as (k & Ek & Hk).
    destruct (right_pad _ _) as [pad span] eqn:Erp. cbn [fst] in Ek. subst pad.
    rewrite E. cbn [bind fst snd].
    eexists. exists (units_str fl ++ branch_glyph l ++ name ++ spaces k ++ s).
    split; [|split; [|split; [|split]]].
    + rewrite Hp. f_equal. f_equal. rewrite <- !app_assoc. reflexivity.
    + cbn. eexists. split; [reflexivity|]. exists k, s. auto.
    + cbn [widths]. split; [lia | auto].
    + fin.
    + cbn [prefix]. rewrite ?Hp, units_str_app. cbn. destruct l; cbn; rewrite ?app_nil_r; reflexivity.
  - cbn [bind fst snd].
    eexists. exists (units_str fl ++ branch_glyph l ++ name).
    split; [|split; [|split; [|split]]].
    + rewrite Hp. f_equal. f_equal. rewrite ?app_nil_r, <- ?app_assoc. reflexivity.
    + cbn. exists []. split; [rewrite app_nil_r; reflexivity|]. exists 0. split; [reflexivity | lia].
    + cbn [widths]. exact Hinv.
    + fin.
    + cbn [prefix]. rewrite ?Hp, units_str_app. cbn. destruct l; cbn; rewrite ?app_nil_r; reflexivity.
Qed.

(** [start_parent] at the top level: no glyph, headings, prefix unchanged. *)
Lemma start_parent_top : forall a p name l,
  inv a p -> depth p = 0 -> prefix p = [] ->
  exists p' line, start_parent p name l = Ok (p', line ++ [nl]) /\
    line_ok (LTop name (parent_cells a true)) line /\
    inv a p' /\ depth p' = 1 /\ prefix p' = [].
Proof.
  intros a p name l Hinv Hd Hp.
  pose proof (inv_has_columns _ _ Hinv) as Hc.
  unfold start_parent. rewrite Hd. cbn [Nat.eqb]. rewrite Hc.
  unfold parent_cells, inv in *.
  destruct (is_bench a) eqn:Ea.
  - destruct Hinv as [Hl Hpos].
    destruct (write_cols_shape headings (widths p)) as (s & ws' & E & Sh & L & Hp');
      [compute; congruence | rewrite Hl; cbn; lia |].
    destruct (right_pad_spec (length (prefix p ++ [] ++ name)) (max_name_span p)) as (k & Ek & Hk).
    destruct (right_pad _ _) as [pad span] eqn:Erp. cbn [fst] in Ek. subst pad.
    rewrite E. cbn [bind fst snd].
    eexists. exists (name ++ spaces k ++ s).
    split; [|split; [|split; [|split]]].
    + rewrite Hp. cbn [app]. f_equal. f_equal. rewrite <- !app_assoc. reflexivity.
    + cbn. eexists. split; [reflexivity|]. exists k, s. auto.
    + cbn [widths]. split; [lia | auto].
    + fin.
    + cbn [prefix]. first [exact Hp | reflexivity].
  - cbn [bind fst snd].
    eexists. exists name.
    split; [|split; [|split; [|split]]].
    + rewrite Hp. cbn [app]. rewrite !app_nil_r. reflexivity.
    + cbn. exists []. split; [rewrite app_nil_r; reflexivity|]. exists 0. split; [reflexivity | lia].
    + cbn [widths]. exact Hinv.
    + fin.
    + cbn [prefix]. first [exact Hp | reflexivity].
Qed.

Lemma firstn_units : forall fl b,
  firstn (length (units_str (fl ++ [b])) - 3) (units_str (fl ++ [b])) = units_str fl.
Proof.
  intros. rewrite units_str_app. rewrite app_length.
  replace (length (units_str [b])) with 3 by (destruct b; reflexivity).
  replace (length (units_str fl) + 3 - 3) with (length (units_str fl) + 0) by lia.
  rewrite firstn_app_2. cbn. rewrite app_nil_r. reflexivity.
Qed.

(** [finish_parent] of a parent below the top level. *)
Lemma finish_parent_inner : forall a p fl b,
  inv a p -> depth p = S (S (length fl)) -> prefix p = units_str (fl ++ [b]) ->
  exists p', finish_parent p = Ok (p', []) /\
    inv a p' /\ depth p' = S (length fl) /\ prefix p' = units_str fl.
Proof.
  intros a p fl b Hinv Hd Hp. unfold finish_parent. rewrite Hd. cbn [Nat.eqb].
  eexists. split; [reflexivity|]. split; [exact Hinv|]. split; [reflexivity|].
  cbn [prefix]. rewrite Hp. apply firstn_units.
Qed.

(** [finish_parent] of a top-level parent: a blank line. *)
Lemma finish_parent_top : forall a p,
  inv a p -> depth p = 1 -> prefix p = [] ->
  exists p', finish_parent p = Ok (p', [nl]) /\
    inv a p' /\ depth p' = 0 /\ prefix p' = [].
Proof.
  intros a p Hinv Hd Hp. unfold finish_parent. rewrite Hd. cbn [Nat.eqb].
  eexists. split; [reflexivity|]. split; [exact Hinv|]. split; [reflexivity|].
  cbn [prefix]. rewrite Hp. reflexivity.
Qed.

(** [ignore_leaf] *)
Lemma ignore_leaf_line : forall a p fl name l,
  inv a p -> prefix p = units_str fl ->
  exists p' line, ignore_leaf p name l = Ok (p', line ++ [nl]) /\
    line_ok (LNode fl l name (Some (if is_bench a then from_first s_ignored else [s_ignored]))) line /\
    inv a p' /\ depth p' = depth p /\ prefix p' = prefix p.
Proof.
  intros a p fl name l Hinv Hp.
  pose proof (inv_has_columns _ _ Hinv) as Hc.
  unfold ignore_leaf. rewrite Hc.
  destruct (right_pad_spec (length (prefix p ++ branch_glyph l ++ name)) (max_name_span p)) as (k & Ek & Hk).
  destruct (right_pad _ _) as [pad span] eqn:Erp. cbn [fst] in Ek. subst pad.
  unfold inv in *.
  destruct (is_bench a) eqn:Ea.
  - destruct Hinv as [Hl Hpos].
    destruct (write_cols_shape (from_first s_ignored) (widths p)) as (s & ws' & E & Sh & L & Hp');
      [compute; congruence | rewrite Hl; cbn; lia |].
    rewrite E. cbn [bind fst snd].
    eexists. exists (units_str fl ++ branch_glyph l ++ name ++ spaces k ++ s).
    split; [|split; [|split; [|split]]].
    + rewrite Hp. f_equal. f_equal. rewrite <- !app_assoc. reflexivity.
    + cbn. eexists. split; [reflexivity|]. exists k, s. auto.
    + cbn [widths]. split; [lia | auto].
    + fin.
    + fin.
  - cbn [bind fst snd].
    eexists. exists (units_str fl ++ branch_glyph l ++ name ++ spaces k ++ s_ignored).
    split; [|split; [|split; [|split]]].
    + rewrite Hp. f_equal. f_equal. rewrite <- !app_assoc. reflexivity.
    + cbn. eexists. split; [reflexivity|]. exists k, s_ignored. repeat split; auto. constructor.
    + cbn [widths]. exact Hinv.
    + fin.
    + fin.
Qed.

(** [start_leaf]: the beginning of a line; the padding is empty without
    columns and at least two spaces with them. *)
Lemma start_leaf_text : forall a p fl name l,
  inv a p -> prefix p = units_str fl ->
  exists p' k, start_leaf p name l = Ok (p', units_str fl ++ branch_glyph l ++ name ++ spaces k) /\
    (if is_bench a then 2 <= k else k = 0) /\
    inv a p' /\ depth p' = depth p /\ prefix p' = prefix p.
Proof.
  intros a p fl name l Hinv Hp.
  pose proof (inv_has_columns _ _ Hinv) as Hc.
  unfold start_leaf. rewrite Hc.
  destruct (is_bench a) eqn:Ea.
  - destruct (right_pad_spec (length (prefix p ++ branch_glyph l ++ name)) (max_name_span p)) as (k & Ek & Hk).
    destruct (right_pad _ _) as [pad span] eqn:Erp. cbn [fst] in Ek. subst pad.
    eexists. exists k. split; [|split; [exact Hk|split; [|split]]].
    + rewrite Hp. f_equal. f_equal. rewrite <- !app_assoc. reflexivity.
    + unfold inv in *. rewrite Ea in *. exact Hinv.
    + fin.
    + fin.
  - eexists. exists 0. split; [|split; [reflexivity|split; [|split]]].
    + rewrite Hp. f_equal. f_equal. cbn. rewrite ?app_nil_r, <- ?app_assoc. reflexivity.
    + unfold inv in *. rewrite Ea in *. exact Hinv.
    + fin.
    + fin.
Qed.

(** Continuation rows. *)
Lemma write_rows_lines : forall fl l rows span ws,
  Forall (fun r => length r = 6) rows -> length ws = 6 -> hd_pos ws ->
  exists out span' ws', write_rows (units_str fl) l rows span ws = Ok (out, span', ws') /\
    lines_shape (map (LRow fl l) rows) out /\ length ws' = 6 /\ hd_pos ws'.
Proof.
  intros fl l rows. induction rows as [|row rest IH]; intros span ws Hf Hl Hpos.
  - exists [], span, ws. cbn. repeat split; auto. apply lines_shape_nil.
  - inversion Hf as [|? ? Hr Hf']; subst.
    cbn [write_rows].
    destruct (right_pad_spec (length (units_str fl ++ (if negb l then [c_bar] else []))) span) as (k & Ek & Hk).
    destruct (right_pad _ _) as [pad span1] eqn:Erp. cbn [fst] in Ek. subst pad.
    destruct (write_cols_shape row ws) as (s & ws1 & E & Sh & L & Hp');
      [destruct row; cbn in Hr; congruence | rewrite Hr, Hl; lia |].
    rewrite E. cbn [bind fst snd].
    destruct (IH span1 ws1 Hf') as (out & span' & ws' & E2 & Sh2 & L2 & Hp2); [lia | auto |].
    rewrite E2. cbn [bind fst snd].
    eexists. eexists. eexists. split; [reflexivity|]. split; [|split; auto].
    cbn [map].
    replace ((units_str fl ++ (if negb l then [c_bar] else [])) ++ spaces k ++ s ++ [nl] ++ out)
      with ((units_str fl ++ (if l then [] else [c_bar]) ++ spaces k ++ s) ++ [nl] ++ out).
    2:{ destruct l; cbn [negb]; rewrite <- !app_assoc; reflexivity. }
    change (LRow fl l row :: map (LRow fl l) rest) with ([LRow fl l row] ++ map (LRow fl l) rest).
    rewrite app_assoc.
    apply lines_shape_app; [|exact Sh2].
    apply lines_shape_one. cbn. exists k, s. auto.
Qed.

Definition wf_cells (c : stats_cells) : Prop :=
  length (time_row c) = 6 /\ Forall (fun r => length r = 6) (cont_rows c).

Lemma fold_max_ge : forall l w, w <= fold_left Nat.max l w.
Proof. induction l; intros; cbn; [lia|]. specialize (IHl (Nat.max w a)). lia. Qed.

Lemma widen_spec : forall k rows ws, length (widen k rows ws) = length ws /\
  (hd_pos ws -> hd_pos (widen k rows ws)).
Proof.
  induction k; intros rows ws; cbn [widen]; [destruct ws; auto|].
  destruct ws as [|w ws']; [auto|].
  cbn [length]. destruct (IHk (map (@tl str) rows) ws') as [L _]. rewrite L. split; [reflexivity|].
  cbn. intros Hw. pose proof (fold_max_ge (map (fun r => length (hd [] r)) rows) w). lia.
Qed.

(** [finish_leaf]: the rest of the leaf's line, then its continuation rows. *)
Lemma finish_leaf_text : forall p fl l c,
  inv ABench p -> prefix p = units_str fl -> wf_cells c ->
  exists p' s out, finish_leaf p l c = Ok (p', s ++ [nl] ++ out) /\
    row_shape (time_row c) s /\ lines_shape (map (LRow fl l) (cont_rows c)) out /\
    inv ABench p' /\ depth p' = depth p /\ prefix p' = prefix p.
Proof.
  intros p fl l c Hinv Hp [Ht Hr]. unfold inv in Hinv. cbn [is_bench] in Hinv. destruct Hinv as [Hl Hpos].
  unfold finish_leaf.
  destruct (widen_spec 4 (width_rows c) (widths p)) as [Lw Pw].
  destruct (write_cols_shape (time_row c) (widen 4 (width_rows c) (widths p))) as (s & ws1 & E & Sh & L & Hp');
    [destruct (time_row c); cbn in Ht; congruence | rewrite Ht, Lw, Hl; lia |].
  rewrite E. cbn [bind fst snd].
  rewrite Hp.
  destruct (write_rows_lines fl l (cont_rows c) (max_name_span p) ws1 Hr) as (out & span' & ws' & E2 & Sh2 & L2 & Hp2);
    [lia | auto |].
  rewrite E2. cbn [bind fst snd].
  eexists. exists s, out. split; [reflexivity|]. repeat split; auto.
Qed.
