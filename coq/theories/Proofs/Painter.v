(** Lemmas about the painter and the driver model (C20). *)
From DivanV Require Import Base.Res Model.Painter Model.DriverPaint Model.Parse.

(** An ignored entry paints one [(ignored)] line and calls nothing. *)
Lemma ignored_entry_ops : forall a id name args threads out is_last,
  run_bench_entry a id name true args threads out is_last = [IgnoreLeaf name is_last].
Proof. reflexivity. Qed.
