(** Group [round] (C08): the theorems in the form stated in Properties/C08.v. *)
From Coq Require Import List Arith Bool Lia NArith.
From DivanV Require Import Model.Round Proofs.RoundBase Proofs.RoundInv Proofs.RoundTerm.
Import ListNotations.

Lemma invariant_reachable : forall c st,
  1 <= nthreads c -> fixed_code c -> reachable c st -> inv_b c st = true.
Proof. intros c st T G R. apply inv_b_iff. apply inv_reachable; assumption. Qed.

Lemma no_overlap_reachable : forall c st,
  2 <= nthreads c -> fixed_code c -> reachable c st -> gp st = GRun ->
  let n := ssize c (round st) in
  forall ti tj, In ti (ths st) -> In tj (ths st) ->
    panicked ti = false -> n + 3 < pc ti <= 2 * n + 4 ->
    panicked tj = false -> n + 2 <= pc tj <= 2 * n + 5.
Proof. intros c st T G R. apply no_overlap. apply inv_reachable; auto. lia. Qed.

Lemma deadlock_free_reachable : forall c st,
  1 <= nthreads c -> fixed_code c -> reachable c st -> final st = false ->
  exists l st', step c st l = Some st'.
Proof. intros c st T G R. apply deadlock_free. apply inv_reachable; assumption. Qed.

Lemma measure_decreases_reachable : forall c st l st',
  1 <= nthreads c -> fixed_code c -> reachable c st ->
  step c st l = Some st' -> measure c st' < measure c st.
Proof. intros c st l st' T G R. apply measure_step; auto. apply inv_reachable; assumption. Qed.
