(** List facts used by Proofs/Stats.v: permutations and sortedness of the
    sorted view, minimum / maximum / middle of a sorted list. *)
From DivanV Require Import Base.Res Model.Stats.
From Coq Require Import ZifyN ZifyBool ZifyNat Permutation Sorted.
Local Open Scope N_scope.

(** * [is_perm], [sorted_by_snd] *)

Lemma pair_eqb_eq a b : pair_eqb a b = true -> a = b.
Proof.
  destruct a as [a1 a2], b as [b1 b2]. unfold pair_eqb. cbn [fst snd].
  intros H. apply andb_true_iff in H. destruct H as [H1 H2].
  apply N.eqb_eq in H1. apply N.eqb_eq in H2. subst. reflexivity.
Qed.

Lemma remove_first_perm a l l' : remove_first a l = Some l' -> Permutation l (a :: l').
Proof.
  revert l'. induction l as [|x r IH]; intros l' H; cbn [remove_first] in H; [discriminate|].
  destruct (pair_eqb a x) eqn:E.
  - apply pair_eqb_eq in E. subst x. injection H as <-. apply Permutation_refl.
  - destruct (remove_first a r) as [r'|] eqn:R; [|discriminate].
    injection H as <-. specialize (IH r' eq_refl).
    eapply Permutation_trans; [apply perm_skip; exact IH|]. apply perm_swap.
Qed.

Lemma is_perm_sound l1 l2 : is_perm l1 l2 = true -> Permutation l1 l2.
Proof.
  revert l2. induction l1 as [|a r IH]; intros l2 H; cbn [is_perm] in H.
  - destruct l2; [constructor|discriminate].
  - destruct (remove_first a l2) as [l2'|] eqn:R; [|discriminate].
    apply remove_first_perm in R. apply IH in H.
    eapply Permutation_trans; [apply perm_skip; exact H|]. apply Permutation_sym. exact R.
Qed.

Definition le_snd (a b : N * N) : Prop := snd a <= snd b.

Lemma sorted_by_snd_sound l : sorted_by_snd l = true -> StronglySorted N.le (map snd l).
Proof.
  intros H. apply Sorted_StronglySorted.
  { intros x y z; apply N.le_trans. }
  induction l as [|x r IH]; [constructor|].
  cbn [sorted_by_snd] in H. destruct r as [|y r'].
  - cbn. constructor; constructor.
  - apply andb_true_iff in H. destruct H as [H1 H2].
    cbn [map]. constructor.
    + apply IH. exact H2.
    + constructor. apply N.leb_le. exact H1.
Qed.

Lemma map_snd_index_from k l : map snd (index_from k l) = l.
Proof. revert k. induction l as [|x r IH]; intros k; cbn; [reflexivity|]. rewrite IH. reflexivity. Qed.

Lemma length_index_from k l : length (index_from k l) = length l.
Proof. revert k. induction l as [|x r IH]; intros k; cbn; [reflexivity|]. rewrite IH. reflexivity. Qed.

Lemma admissible_vals durs sv :
  admissibleb durs sv = true ->
  Permutation (map snd sv) durs /\ StronglySorted N.le (map snd sv) /\ length sv = length durs.
Proof.
  unfold admissibleb. intros H. apply andb_true_iff in H. destruct H as [Hp Hs].
  apply is_perm_sound in Hp. split; [|split].
  - rewrite <- (map_snd_index_from 0 durs). apply Permutation_map. exact Hp.
  - apply sorted_by_snd_sound. exact Hs.
  - rewrite (Permutation_length Hp). apply length_index_from.
Qed.

(** * [sort_vals] is the sorted permutation *)

Lemma insert_val_perm x l : Permutation (insert_val x l) (x :: l).
Proof.
  induction l as [|y r IH]; cbn [insert_val]; [apply Permutation_refl|].
  destruct (x <=? y); [apply Permutation_refl|].
  eapply Permutation_trans; [apply perm_skip; exact IH|]. apply perm_swap.
Qed.

Lemma sort_vals_perm l : Permutation (sort_vals l) l.
Proof.
  induction l as [|x r IH]; cbn [sort_vals]; [constructor|].
  eapply Permutation_trans; [apply insert_val_perm|]. apply perm_skip. exact IH.
Qed.

Lemma insert_val_sorted x l : StronglySorted N.le l -> StronglySorted N.le (insert_val x l).
Proof.
  induction l as [|y r IH]; intros H; cbn [insert_val].
  - constructor; constructor.
  - inversion H as [|? ? Hr Hy]; subst.
    destruct (x <=? y) eqn:E.
    + apply N.leb_le in E. constructor; [exact H|].
      constructor; [exact E|].
      eapply Forall_impl; [|exact Hy]. intros z Hz. cbn beta in Hz. lia.
    + apply N.leb_gt in E. constructor; [apply IH; exact Hr|].
      apply (Permutation_Forall (Permutation_sym (insert_val_perm x r))).
      constructor; [lia|exact Hy].
Qed.

Lemma sort_vals_sorted l : StronglySorted N.le (sort_vals l).
Proof. induction l as [|x r IH]; cbn [sort_vals]; [constructor|]. apply insert_val_sorted. exact IH. Qed.

(** Two sorted lists with the same elements are the same list. *)
Lemma sorted_perm_unique l1 l2 :
  StronglySorted N.le l1 -> StronglySorted N.le l2 -> Permutation l1 l2 -> l1 = l2.
Proof.
  revert l2. induction l1 as [|a r IH]; intros l2 H1 H2 P.
  - apply Permutation_nil in P. subst. reflexivity.
  - destruct l2 as [|b r2]; [apply Permutation_sym, Permutation_nil in P; discriminate|].
    inversion H1 as [|? ? Hr Ha]; subst. inversion H2 as [|? ? Hr2 Hb]; subst.
    assert (a = b) as ->.
    { assert (In a (b :: r2)) as Ia by (eapply Permutation_in; [exact P|left; reflexivity]).
      assert (In b (a :: r)) as Ib by (eapply Permutation_in; [apply Permutation_sym; exact P|left; reflexivity]).
      destruct Ia as [->|Ia]; [reflexivity|]. destruct Ib as [->|Ib]; [reflexivity|].
      rewrite Forall_forall in Ha, Hb. specialize (Ha _ Ib). specialize (Hb _ Ia). lia. }
    f_equal. apply IH; [exact Hr|exact Hr2|]. eapply Permutation_cons_inv. exact P.
Qed.

Lemma admissible_sorted_vals durs sv :
  admissibleb durs sv = true -> map snd sv = sort_vals durs.
Proof.
  intros H. destruct (admissible_vals _ _ H) as (P & S & _).
  apply sorted_perm_unique; [exact S|apply sort_vals_sorted|].
  eapply Permutation_trans; [exact P|]. apply Permutation_sym, sort_vals_perm.
Qed.

(** * Minimum and maximum *)

Lemma fold_min_le l x : fold_left N.min l x <= x /\ Forall (fun y => fold_left N.min l x <= y) l.
Proof.
  revert x. induction l as [|a r IH]; intros x; cbn [fold_left]; [split; [lia|constructor]|].
  destruct (IH (N.min x a)) as [H1 H2]. split; [lia|].
  constructor; [lia|exact H2].
Qed.

Lemma fold_min_in l x : fold_left N.min l x = x \/ In (fold_left N.min l x) l.
Proof.
  revert x. induction l as [|a r IH]; intros x; cbn [fold_left]; [left; reflexivity|].
  destruct (IH (N.min x a)) as [H|H].
  - rewrite H. destruct (N.min_spec x a) as [[_ ->]|[_ ->]]; [left; reflexivity|right; left; reflexivity].
  - right. right. exact H.
Qed.

Lemma list_min_spec l : l <> [] -> In (list_min l) l /\ Forall (fun y => list_min l <= y) l.
Proof.
  destruct l as [|x r]; [congruence|]. intros _. unfold list_min. split.
  - destruct (fold_min_in r x) as [->|H]; [left; reflexivity|right; exact H].
  - destruct (fold_min_le r x) as [H1 H2]. constructor; assumption.
Qed.

Lemma fold_max_ge l x : x <= fold_left N.max l x /\ Forall (fun y => y <= fold_left N.max l x) l.
Proof.
  revert x. induction l as [|a r IH]; intros x; cbn [fold_left]; [split; [lia|constructor]|].
  destruct (IH (N.max x a)) as [H1 H2]. split; [lia|].
  constructor; [lia|exact H2].
Qed.

Lemma fold_max_in l x : fold_left N.max l x = x \/ In (fold_left N.max l x) l.
Proof.
  revert x. induction l as [|a r IH]; intros x; cbn [fold_left]; [left; reflexivity|].
  destruct (IH (N.max x a)) as [H|H].
  - rewrite H. destruct (N.max_spec x a) as [[_ ->]|[_ ->]]; [right; left; reflexivity|left; reflexivity].
  - right. right. exact H.
Qed.

Lemma list_max_spec l : l <> [] -> In (list_max l) l /\ Forall (fun y => y <= list_max l) l.
Proof.
  intros Hne. unfold list_max. destruct (fold_max_ge l 0) as [_ H2]. split; [|exact H2].
  destruct (fold_max_in l 0) as [H|H]; [|exact H].
  destruct l as [|x r]; [congruence|].
  inversion H2 as [|? ? Hx _]; subst. rewrite H in Hx. assert (x = 0) by lia. subst.
  rewrite H. left. reflexivity.
Qed.

(** Least / greatest element of a list are unique. *)
Lemma min_unique l a b :
  In a l -> Forall (fun y => a <= y) l -> In b l -> Forall (fun y => b <= y) l -> a = b.
Proof. intros Ia Fa Ib Fb. rewrite Forall_forall in Fa, Fb. specialize (Fa _ Ib). specialize (Fb _ Ia). lia. Qed.

Lemma max_unique l a b :
  In a l -> Forall (fun y => y <= a) l -> In b l -> Forall (fun y => y <= b) l -> a = b.
Proof. intros Ia Fa Ib Fb. rewrite Forall_forall in Fa, Fb. specialize (Fa _ Ib). specialize (Fb _ Ia). lia. Qed.

Lemma sorted_hd_min x r : StronglySorted N.le (x :: r) -> Forall (fun y => x <= y) (x :: r).
Proof. intros H. inversion H; subst. constructor; [lia|assumption]. Qed.

Lemma last_error_app {A} (l : list A) x : last_error (l ++ [x]) = Some x.
Proof.
  induction l as [|a r IH]; [reflexivity|].
  cbn [app last_error]. destruct (r ++ [x]) eqn:E; [destruct r; discriminate|exact IH].
Qed.

Lemma last_error_in {A} (l : list A) x : last_error l = Some x -> In x l.
Proof.
  induction l as [|a r IH]; cbn [last_error]; [discriminate|].
  destruct r as [|b r']; [intros [= ->]; left; reflexivity|]. intros H. right. apply IH. exact H.
Qed.

Lemma last_error_none {A} (l : list A) : last_error l = None -> l = [].
Proof.
  induction l as [|a r IH]; [reflexivity|]. cbn [last_error].
  destruct r as [|b r']; [discriminate|]. intros H. apply IH in H. discriminate.
Qed.

Lemma last_error_map {A B} (f : A -> B) l : last_error (map f l) = option_map f (last_error l).
Proof.
  induction l as [|a r IH]; [reflexivity|]. cbn [map last_error].
  destruct r as [|b r']; [reflexivity|]. exact IH.
Qed.

Lemma sorted_last_max l x :
  StronglySorted N.le l -> last_error l = Some x -> Forall (fun y => y <= x) l.
Proof.
  induction l as [|a r IH]; intros S H; [constructor|].
  inversion S as [|? ? Sr Ha]; subst. cbn [last_error] in H. destruct r as [|b r'].
  - injection H as ->. constructor; [lia|constructor].
  - specialize (IH Sr H). constructor; [|exact IH].
    apply last_error_in in H. rewrite Forall_forall in Ha. apply Ha. exact H.
Qed.

Lemma perm_forall_in {P : N -> Prop} l1 l2 : Permutation l1 l2 -> Forall P l1 -> Forall P l2.
Proof. intros Hp Hf. eapply Permutation_Forall; eassumption. Qed.

(** First and last of an admissible view carry the least / greatest duration. *)
Lemma admissible_hd durs sv s :
  admissibleb durs sv = true -> hd_error sv = Some s -> snd s = list_min durs.
Proof.
  intros H Hh. destruct (admissible_vals _ _ H) as (P & S & _).
  destruct sv as [|x r]; [discriminate|]. injection Hh as ->.
  assert (durs <> []) as Hne.
  { intros ->. apply Permutation_sym, Permutation_nil in P. discriminate. }
  destruct (list_min_spec durs Hne) as [Im Fm].
  cbn [map] in P, S. apply (min_unique durs).
  - eapply Permutation_in; [exact P|left; reflexivity].
  - eapply perm_forall_in; [exact P|]. apply sorted_hd_min. exact S.
  - exact Im.
  - exact Fm.
Qed.

Lemma admissible_last durs sv s :
  admissibleb durs sv = true -> last_error sv = Some s -> snd s = list_max durs.
Proof.
  intros H Hl. destruct (admissible_vals _ _ H) as (P & S & _).
  assert (last_error (map snd sv) = Some (snd s)) as Hl' by (rewrite last_error_map, Hl; reflexivity).
  assert (durs <> []) as Hne.
  { intros ->. apply Permutation_sym, Permutation_nil in P. destruct sv; discriminate. }
  destruct (list_max_spec durs Hne) as [Im Fm].
  apply (max_unique durs).
  - eapply Permutation_in; [exact P|]. apply last_error_in. exact Hl'.
  - eapply perm_forall_in; [exact P|]. apply sorted_last_max; assumption.
  - exact Im.
  - exact Fm.
Qed.

(** * Sums *)

Lemma sum_list_app l1 l2 : sum_list (l1 ++ l2) = sum_list l1 + sum_list l2.
Proof. induction l1 as [|x r IH]; cbn [app sum_list]; [reflexivity|]. rewrite IH. lia. Qed.

Lemma sum_list_perm l1 l2 : Permutation l1 l2 -> sum_list l1 = sum_list l2.
Proof. induction 1; cbn [sum_list]; lia. Qed.

Lemma sum_list_bounds l lo hi :
  Forall (fun y => lo <= y) l -> Forall (fun y => y <= hi) l ->
  N.of_nat (length l) * lo <= sum_list l /\ sum_list l <= N.of_nat (length l) * hi.
Proof.
  induction l as [|x r IH]; intros H1 H2; cbn [length sum_list]; [lia|].
  inversion H1; subst. inversion H2; subst. destruct (IH ltac:(assumption) ltac:(assumption)). nia.
Qed.

Lemma sum_list_in_le l x : In x l -> x <= sum_list l.
Proof.
  induction l as [|a r IH]; intros H; [destruct H|]. cbn [sum_list].
  destruct H as [->|H]; [lia|]. specialize (IH H). lia.
Qed.
