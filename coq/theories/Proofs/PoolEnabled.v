(** Proofs about the pool model, part 8: deadlock freedom in terms of the
    executable label enumeration [enabled_labels] used by the explorer. *)

From DivanV Require Import Base.Res Generated.Consts Model.Pool Proofs.Pool Proofs.PoolLive.
From Coq Require Import Arith Lia List Bool.
Import ListNotations.
Import PoolM.

Arguments Nat.sub : simpl never.
Arguments Nat.eqb : simpl never.

Lemma in_cand s l :
  match l with
  | EBegin n => exists rest, script s = n :: rest
  | EDrop => script s = []
  | ERun0 p => p = false
  | ELoad | EPark => True
  | ESpurious => False
  | ESend k | EWClone k | EWDec k | EWUnpark k | EWExit k => 1 <= k <= length (ws s)
  | EWRun k p => 1 <= k <= length (ws s) /\ p = false
  end -> In l (candidate_labels s).
Proof.
  unfold candidate_labels.
  assert (K : forall k, 1 <= k <= length (ws s) -> In k (seq 1 (length (ws s)))) by (intros k H; apply in_seq; lia).
  rewrite !in_app_iff.
  destruct l; intro H.
  - destruct H as (rest & ->). left. now left.
  - right. left. apply in_map. auto.
  - subst. right. right. left. now left.
  - right. right. left. right. now left.
  - right. right. left. right. right. now left.
  - contradiction.
  - destruct H as [H ->]. right. right. right. left.
    apply (in_map (fun k => EWRun k false)). auto.
  - right. right. right. right. left. apply in_map. auto.
  - right. right. right. right. right. left. apply in_map. auto.
  - right. right. right. right. right. right. left. apply in_map. auto.
  - rewrite H. left. now left.
  - right. right. right. right. right. right. right. apply in_map. auto.
Qed.

Lemma getw_range s k w : getw s k = Some w -> 1 <= k <= length (ws s).
Proof.
  intro H. destruct (getw_pos _ _ _ H) as (j & -> & Hj). apply nth_error_lt in Hj. lia.
Qed.

Theorem deadlock_free_enabled c scr s :
  good c -> reachable c scr s -> final s = false -> enabled_labels c s <> [].
Proof.
  intros G R F.
  assert (X : exists l, In l (candidate_labels s) /\ enabled c s l = true).
  { destruct (deadlock_free c scr s G R F) as (l & s1 & NS & St).
    (* any enabled non-spurious label is a candidate, up to the panic flag *)
    pose proof (step_inv _ _ _ _ St) as Sp.
    destruct l; cbn in Sp; try contradiction.
    - exists (EBegin n). split; [|unfold enabled; now rewrite St].
      apply in_cand. destruct Sp as (_ & rest & Es & _). eauto.
    - exists (ESend k). split; [|unfold enabled; now rewrite St].
      apply in_cand. destruct Sp as (n & _ & Hg & _). eapply getw_range; eauto.
    - exists (ERun0 false). destruct Sp as (n & Hc & _). split; [now apply in_cand|].
      unfold enabled, step. now rewrite Hc.
    - exists ELoad. split; [now apply in_cand|unfold enabled; now rewrite St].
    - exists EPark. split; [now apply in_cand|unfold enabled; now rewrite St].
    - exists (EWRun k false). destruct Sp as (b & Hg & _). split.
      + apply in_cand. split; auto. eapply getw_range; eauto.
      + unfold enabled, step. rewrite Hg. now destruct (cst s).
    - exists (EWClone k). split; [|unfold enabled; now rewrite St].
      apply in_cand. destruct Sp as (b & Hg & _). eapply getw_range; eauto.
    - exists (EWDec k). split; [|unfold enabled; now rewrite St].
      apply in_cand. destruct Sp as (b & Hg & _). eapply getw_range; eauto.
    - exists (EWUnpark k). split; [|unfold enabled; now rewrite St].
      apply in_cand. destruct Sp as (b & Hg & _). eapply getw_range; eauto.
    - exists EDrop. split; [|unfold enabled; now rewrite St].
      apply in_cand. destruct Sp as (_ & Es & _). exact Es.
    - exists (EWExit k). split; [|unfold enabled; now rewrite St].
      apply in_cand. destruct Sp as (_ & Hg & _). eapply getw_range; eauto. }
  destruct X as (l & Hin & En). intro E.
  assert (Y : In l (enabled_labels c s)) by (apply filter_In; auto).
  rewrite E in Y. contradiction.
Qed.
