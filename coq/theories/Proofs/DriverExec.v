(** The walks of Model/Driver.v against the reference [exec_node]:
    what a run executes, what the terse listing prints, what [retain] keeps,
    and invariance under sorting (any permutation of siblings / argument names). *)
From Coq Require Import Permutation.
From DivanV Require Import Base.Res Model.Registry Model.Tree Model.Driver Proofs.TreeBase.
Local Open Scope N_scope.
Arguments mk_leaf : simpl never.

Definition xcase := (N * str * option (N * value))%type.
Definition xpath (x : xcase) : str := snd (fst x).

(** ** Traces *)
Definition okx (tr : trace) (xs : list xcase) : Prop := snd tr = None /\ executed (fst tr) = xs.

Lemma executed_app : forall l1 l2, executed (l1 ++ l2) = executed l1 ++ executed l2.
Proof. intros. unfold executed. apply flat_map_app. Qed.

Lemma okx_tret : forall l, okx (tret l) (executed l).
Proof. intro l. split; reflexivity. Qed.

Lemma okx_tseq : forall a b xs ys, okx a xs -> okx b ys -> okx (tseq a b) (xs ++ ys).
Proof.
  intros [la pa] [lb pb] xs ys [Ha1 Ha2] [Hb1 Hb2]. unfold okx. cbn [fst snd] in *. subst pa. cbn [tseq fst snd].
  split; [exact Hb1|]. rewrite executed_app, Ha2, Hb2. reflexivity.
Qed.

Lemma okx_tseq_l : forall a b ys, okx a [] -> okx b ys -> okx (tseq a b) ys.
Proof. intros a b ys Ha Hb. apply (okx_tseq a b [] ys Ha Hb). Qed.

Lemma okx_tseq_r : forall a b xs, okx a xs -> okx b [] -> okx (tseq a b) xs.
Proof. intros a b xs Ha Hb. rewrite <- (app_nil_r xs). apply (okx_tseq a b xs [] Ha Hb). Qed.

Lemma run_node_parent : forall c a pp po il r g ch,
  run_node c a pp po il (Parent r g ch) =
  let name := display_name (Parent r g ch) in
  let path := join_path pp name in
  let options := merge_opts po (node_opts (Parent r g ch)) in
  tseq (tret [AStartParent name path il])
       (tseq (run_forest c a path options ch) (tret [AFinishParent])).
Proof.
  intros. cbn [run_node]. cbv zeta. f_equal. f_equal.
  induction ch as [|x tl IH]; [reflexivity|]. cbn [run_forest]. f_equal. exact IH.
Qed.

(** ** The ignore decision is the same in both walks *)
Lemma ignore_same : forall c options,
  should_ignore c (default_false (o_ignore (match options with
                                            | None => c_opts c
                                            | Some eo => opts_overwrite (c_opts c) eo
                                            end)))
  = leaf_ignored c options.
Proof.
  intros c [eo|]; unfold leaf_ignored; cbn.
  - reflexivity.
  - destruct (o_ignore (c_opts c)); reflexivity.
Qed.

(** ** A run executes exactly [exec_node] (Test and Bench), in order, without panic *)
(** A case is executed once, whatever the number of thread counts it is run over. *)
Lemma executed_run_threads_more : forall a id path arg tcs, executed (run_threads a id path arg false tcs) = [].
Proof.
  intros a id path arg. induction tcs as [|tc tl IH]; [reflexivity|].
  cbn [run_threads]. rewrite executed_app, IH. destruct (is_bench a); reflexivity.
Qed.

Lemma executed_run_bench : forall tcs a id name path il arg,
  executed (run_bench tcs a id name path il arg) = [(id, path, arg)].
Proof.
  intros tcs a id name path il arg. unfold run_bench.
  destruct tcs as [|t1 [|t2 tl]]; try (destruct (is_bench a); reflexivity).
  rewrite !executed_app. cbn [run_threads]. rewrite !executed_app, executed_run_threads_more.
  destruct (is_bench a); reflexivity.
Qed.

Lemma run_args_ok : forall tcs a e vals path args,
  forallb (fun i => i <? N.of_nat (length vals)) args = true ->
  okx (run_args tcs a e vals path args) (flat_map (arg_case e vals path) args).
Proof.
  intros tcs a e vals path. induction args as [|i tl IH]; intro H; cbn [run_args flat_map].
  - apply okx_tret.
  - cbn in H. apply andb_true_iff in H. destruct H as [Hi Htl]. apply N.ltb_lt in Hi.
    unfold arg_case at 1.
    destruct (nth_error vals (N.to_nat i)) as [v|] eqn:E.
    + apply (okx_tseq _ _ [(entry_id e, arg_path path e i, Some (i, v))]); [|apply IH; exact Htl].
      split; [reflexivity|]. cbn [fst tret]. apply executed_run_bench.
    + apply nth_error_None in E. lia.
Qed.

Lemma run_bench_entry_ok : forall c a e args options path il,
  is_list a = false -> wf_node (Leaf e args) = true ->
  okx (run_bench_entry c a e args options path il)
      (if leaf_ignored c options then []
       else match entry_runner e with
            | RPlain => [(entry_id e, path, None)]
            | RArgs _ vals => flat_map (arg_case e vals path) (match args with Some l => l | None => [] end)
            end).
Proof.
  intros c a e args options path il Ha Hwf. unfold run_bench_entry. rewrite ignore_same.
  destruct (leaf_ignored c options); [split; reflexivity|]. rewrite Ha.
  cbn in Hwf. destruct (entry_runner e) as [|o vals] eqn:E.
  - split; [reflexivity|]. cbn [fst tret]. apply executed_run_bench.
  - destruct args as [l|]; [|discriminate].
    apply okx_tseq_l; [split; reflexivity|].
    apply okx_tseq_r; [apply run_args_ok; exact Hwf|split; reflexivity].
Qed.

Lemma run_node_ok : forall c a, is_list a = false ->
  forall t pp po il, wf_node t = true -> okx (run_node c a pp po il t) (exec_node c pp po t).
Proof.
  intros c a Ha. induction t as [e args|r g ch IH] using tree_ind'; intros pp po il Hwf.
  - cbn [run_node exec_node]. apply run_bench_entry_ok; assumption.
  - rewrite run_node_parent. cbv zeta. cbn [exec_node].
    apply okx_tseq_l; [split; reflexivity|].
    set (path := join_path pp _). set (options := merge_opts po _).
    apply okx_tseq_r; [|split; reflexivity].
    cbn in Hwf. clear -IH Hwf. induction ch as [|x tl IHl]; cbn [run_forest flat_map].
    + apply okx_tret.
    + cbn in Hwf. apply andb_true_iff in Hwf. destruct Hwf as [Hx Htl].
      inversion IH as [|? ? Px Ptl]; subst.
      apply okx_tseq; [apply Px; exact Hx|apply IHl; assumption].
Qed.

Lemma run_forest_ok : forall c a, is_list a = false ->
  forall l pp po, wf_forest l = true -> okx (run_forest c a pp po l) (exec_forest c pp po l).
Proof.
  intros c a Ha. induction l as [|x tl IH]; intros pp po H; cbn [run_forest].
  - apply okx_tret.
  - cbn in H. apply andb_true_iff in H. destruct H as [Hx Htl].
    unfold exec_forest. cbn [flat_map]. apply okx_tseq; [apply run_node_ok; assumption|apply IH; exact Htl].
Qed.

(** ** The terse listing prints exactly one line per executed case *)
Definition line_of (x : xcase) : str := xpath x ++ s_benchmark.

Lemma lines_app : forall l1 l2, lines (l1 ++ l2) = lines l1 ++ lines l2.
Proof. intros. unfold lines. apply flat_map_app. Qed.

Lemma lines_println : forall A (f : A -> str) l, lines (map (fun i => APrintln (f i)) l) = map f l.
Proof. intros A f. induction l as [|x tl IH]; cbn; [reflexivity|]. f_equal. exact IH. Qed.

Lemma list_node_ok : forall c t pp po, wf_node t = true ->
  lines (list_node c pp po t) = map line_of (exec_node c pp po t).
Proof.
  intros c. induction t as [e args|r g ch IH] using tree_ind'; intros pp po Hwf.
  - cbn [list_node exec_node]. fold (leaf_ignored c (merge_opts po (node_opts (Leaf e args)))).
    destruct (leaf_ignored c _); [reflexivity|].
    cbn in Hwf. destruct (entry_runner e) as [|o vals] eqn:E.
    + destruct args; [discriminate|]. reflexivity.
    + destruct args as [l|]; [|discriminate].
      rewrite lines_println. clear -Hwf. induction l as [|i tl IHl]; [reflexivity|].
      cbn in Hwf. apply andb_true_iff in Hwf. destruct Hwf as [Hi Htl]. apply N.ltb_lt in Hi.
      cbn [map flat_map]. unfold arg_case at 1. destruct (nth_error vals (N.to_nat i)) eqn:E2.
      * cbn. f_equal. apply IHl. exact Htl.
      * apply nth_error_None in E2. lia.
  - cbn [list_node exec_node]. cbn in Hwf.
    set (path := join_path pp _). set (options := merge_opts po _). clearbody path options.
    induction ch as [|x tl IHl]; [reflexivity|].
    cbn in Hwf. apply andb_true_iff in Hwf. destruct Hwf as [Hx Htl].
    inversion IH as [|? ? Px Ptl]; subst.
    cbn [flat_map]. rewrite lines_app, map_app. f_equal; [apply Px; exact Hx|apply IHl; assumption].
Qed.

Lemma list_forest_ok : forall c l pp po, wf_forest l = true ->
  lines (list_forest c pp po l) = map line_of (exec_forest c pp po l).
Proof.
  intros c. induction l as [|x tl IH]; intros pp po H; [reflexivity|].
  cbn in H. apply andb_true_iff in H. destruct H as [Hx Htl].
  unfold list_forest, exec_forest. cbn [flat_map]. rewrite lines_app, map_app.
  f_equal; [apply list_node_ok; exact Hx|apply IH; exact Htl].
Qed.

(** ** Listing runs nothing *)
Definition quiet (l : list action) : Prop := forallb (fun x => negb (runs_something x)) l = true.

Lemma quiet_app : forall l1 l2, quiet l1 -> quiet l2 -> quiet (l1 ++ l2).
Proof. intros. unfold quiet. rewrite forallb_app. rewrite H, H0. reflexivity. Qed.

Definition okq (tr : trace) : Prop := snd tr = None /\ quiet (fst tr).

Lemma okq_tseq : forall a b, okq a -> okq b -> okq (tseq a b).
Proof.
  intros [la pa] [lb pb] [Ha1 Ha2] [Hb1 Hb2]. unfold okq. cbn [fst snd] in *. subst pa. cbn [tseq fst snd]. split; [exact Hb1|].
  apply quiet_app; assumption.
Qed.

Lemma list_node_quiet : forall c t pp po, quiet (list_node c pp po t).
Proof.
  intros c. induction t as [e args|r g ch IH] using tree_ind'; intros pp po.
  - cbn [list_node]. destruct (should_ignore c _); [reflexivity|].
    destruct args as [l|]; [|reflexivity].
    unfold quiet. apply forallb_forall. intros x Hx. apply in_map_iff in Hx. destruct Hx as [i [Hi _]]. subst. reflexivity.
  - cbn [list_node]. unfold quiet. apply forallb_flat_map. intros x Hx.
    rewrite Forall_forall in IH. apply IH. exact Hx.
Qed.

Lemma run_node_list_quiet : forall c t pp po il, okq (run_node c List pp po il t).
Proof.
  intros c. induction t as [e args|r g ch IH] using tree_ind'; intros pp po il.
  - cbn [run_node]. unfold run_bench_entry. destruct (should_ignore c _); [split; reflexivity|].
    cbn. split; reflexivity.
  - rewrite run_node_parent. cbv zeta. apply okq_tseq; [split; reflexivity|].
    apply okq_tseq; [|split; reflexivity].
    set (path := join_path pp _). set (options := merge_opts po _). clearbody path options.
    induction ch as [|x tl IHl]; cbn [run_forest]; [split; reflexivity|].
    inversion IH as [|? ? Px Ptl]; subst. apply okq_tseq; [apply Px|apply IHl; exact Ptl].
Qed.

Lemma run_forest_list_quiet : forall c l pp po, okq (run_forest c List pp po l).
Proof.
  intros c. induction l as [|x tl IH]; intros pp po; cbn [run_forest]; [split; reflexivity|].
  apply okq_tseq; [apply run_node_list_quiet|apply IH].
Qed.

Lemma list_runs_nothing : forall c srt benches groups a,
  a = List \/ a = ListTerse ->
  snd (run_action c srt a benches groups) = None /\
  forallb (fun x => negb (runs_something x)) (fst (run_action c srt a benches groups)) = true.
Proof.
  intros c srt benches groups a Ha. unfold run_action.
  destruct (is_nil _); [split; reflexivity|].
  destruct Ha as [Ha|Ha]; subst a.
  - apply run_forest_list_quiet.
  - split; [reflexivity|]. cbn [fst tret]. unfold list_forest. apply forallb_flat_map. intros x _. apply list_node_quiet.
Qed.

(** ** [retain] keeps exactly the executed cases whose path passes the filter *)
Lemma filter_flat_map : forall A B (p : B -> bool) (f : A -> list B) l,
  filter p (flat_map f l) = flat_map (fun x => filter p (f x)) l.
Proof.
  intros A B p f. induction l as [|x tl IH]; cbn; [reflexivity|]. rewrite filter_app. f_equal. exact IH.
Qed.

Lemma flat_map_flat_map : forall A B C (f : A -> list B) (g : B -> list C) l,
  flat_map g (flat_map f l) = flat_map (fun x => flat_map g (f x)) l.
Proof.
  intros A B C f g. induction l as [|x tl IH]; cbn; [reflexivity|]. rewrite flat_map_app. f_equal. exact IH.
Qed.

Lemma flat_map_ext_in : forall A B (f g : A -> list B) l,
  (forall x, In x l -> f x = g x) -> flat_map f l = flat_map g l.
Proof.
  intros A B f g. induction l as [|x tl IH]; intro H; cbn; [reflexivity|].
  rewrite (H x (or_introl eq_refl)). f_equal. apply IH. intros y Hy. apply H. right. exact Hy.
Qed.

Lemma filter_all : forall A (q : A -> bool) l, (forall x, In x l -> q x = true) -> filter q l = l.
Proof.
  intros A q. induction l as [|x tl IH]; intro H; cbn; [reflexivity|].
  rewrite (H x (or_introl eq_refl)). f_equal. apply IH. intros y Hy. apply H. right. exact Hy.
Qed.

Lemma filter_none : forall A (q : A -> bool) l, (forall x, In x l -> q x = false) -> filter q l = [].
Proof.
  intros A q. induction l as [|x tl IH]; intro H; cbn; [reflexivity|].
  rewrite (H x (or_introl eq_refl)). apply IH. intros y Hy. apply H. right. exact Hy.
Qed.

Lemma flat_map_filter_case : forall A B (g : A -> list B) (p : A -> bool) (q : B -> bool) l,
  (forall i x, In x (g i) -> q x = p i) ->
  flat_map g (filter p l) = filter q (flat_map g l).
Proof.
  intros A B g p q. induction l as [|i tl IH]; intro H; cbn [filter flat_map]; [reflexivity|].
  rewrite filter_app, <- (IH H). destruct (p i) eqn:E.
  - cbn [flat_map]. f_equal. symmetry. apply filter_all. intros x Hx. rewrite (H i x Hx). exact E.
  - rewrite (filter_none _ q (g i)); [reflexivity|]. intros x Hx. rewrite (H i x Hx). exact E.
Qed.

Lemma exec_retain_node : forall c f t pp po, wf_node t = true ->
  exec_forest c pp po (retain_node f pp t) = filter (fun x => f (xpath x)) (exec_node c pp po t).
Proof.
  intros c f. induction t as [e args|r g ch IH] using tree_ind'; intros pp po Hwf.
  - cbn [retain_node]. cbn [display_name]. cbn in Hwf. destruct args as [l|].
    + destruct (entry_runner e) as [|o vals] eqn:E; [discriminate|].
      assert (Hgen : flat_map (arg_case e vals (join_path pp (entry_display e))) (filter (fun i => f (arg_path (join_path pp (entry_display e)) e i)) l)
                     = filter (fun x => f (xpath x)) (flat_map (arg_case e vals (join_path pp (entry_display e))) l)).
      { apply flat_map_filter_case. intros i x Hx. unfold arg_case in Hx.
        destruct (nth_error vals (N.to_nat i)); [|contradiction]. destruct Hx as [Hx|[]]. subst x. reflexivity. }
      destruct (is_nil _) eqn:En.
      * apply is_nil_spec in En. cbn [exec_forest flat_map exec_node]. cbn [display_name].
        destruct (leaf_ignored c _); [reflexivity|]. rewrite E.
        rewrite <- Hgen, En. reflexivity.
      * unfold exec_forest. cbn [flat_map exec_node]. rewrite app_nil_r. cbn [display_name node_opts node_meta].
        destruct (leaf_ignored c _); [reflexivity|]. rewrite E.
        exact Hgen.
    + destruct (entry_runner e) as [|o vals] eqn:E; [|discriminate].
      cbn [display_name]. destruct (f _) eqn:Ef.
      * unfold exec_forest. cbn [flat_map exec_node]. rewrite app_nil_r. cbn [display_name node_opts node_meta].
        destruct (leaf_ignored c _); [reflexivity|]. rewrite E. cbn [filter xpath fst snd]. rewrite Ef. reflexivity.
      * cbn [exec_forest flat_map exec_node]. cbn [display_name].
        destruct (leaf_ignored c _); [reflexivity|]. rewrite E. cbn [filter xpath fst snd]. rewrite Ef. reflexivity.
  - cbn [retain_node exec_node]. cbn in Hwf.
    set (path := join_path pp _). set (options := merge_opts po _).
    assert (Hch : exec_forest c path options (flat_map (retain_node f path) ch)
                  = filter (fun x => f (xpath x)) (flat_map (exec_node c path options) ch)).
    { unfold exec_forest. rewrite flat_map_flat_map, filter_flat_map. apply flat_map_ext_in. intros x Hx.
      rewrite Forall_forall in IH. apply (IH x Hx). rewrite forallb_forall in Hwf. apply Hwf. exact Hx. }
    destruct (is_nil _) eqn:En.
    + apply is_nil_spec in En. rewrite En in Hch. cbn in Hch. rewrite <- Hch. reflexivity.
    + unfold exec_forest. cbn [flat_map exec_node]. rewrite app_nil_r.
      cbn [display_name node_opts node_meta]. exact Hch.
Qed.

Lemma exec_retain : forall c f l po, wf_forest l = true ->
  exec_forest c [] po (retain f l) = filter (fun x => f (xpath x)) (exec_forest c [] po l).
Proof.
  intros c f l po H. unfold retain, exec_forest. rewrite flat_map_flat_map, filter_flat_map.
  apply flat_map_ext_in. intros x Hx. apply exec_retain_node.
  unfold wf_forest in H. rewrite forallb_forall in H. apply H. exact Hx.
Qed.
