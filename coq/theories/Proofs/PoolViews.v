(** Proofs about the pool model, part 4: publication (release/acquire views)
    and the result slots of [par_extend]. *)

From DivanV Require Import Base.Res Generated.Consts Model.Pool Proofs.Pool Proofs.PoolCalls.
From Coq Require Import Arith Lia List Bool.
Import ListNotations.
Import PoolM.

Arguments Nat.sub : simpl never.
Arguments Nat.mul : simpl never.
Arguments Nat.eqb : simpl never.
Arguments Nat.leb : simpl never.
Arguments Nat.ltb : simpl never.

(** * Views as sets *)

Lemma In_vadd x c v : In x (vadd c v) <-> x = c \/ In x v.
Proof.
  unfold vadd. destruct (vmem c v) eqn:E.
  - apply vmem_In in E. split; auto. intros [->|H]; auto.
  - cbn. intuition.
Qed.

Lemma In_vunion x a b : In x (vunion a b) <-> In x a \/ In x b.
Proof.
  unfold vunion. induction a as [|h t IH]; cbn.
  - intuition.
  - rewrite In_vadd, IH. intuition.
Qed.

(** * [nth] and [set_nth] *)

Lemma nth_set_nth_eq {A} j (x d : A) l : j < length l -> nth j (set_nth j x l) d = x.
Proof.
  revert j; induction l as [|h t IH]; intros [|j] H; cbn in *; try lia; auto. apply IH. lia.
Qed.

Lemma nth_set_nth_neq {A} i j (x d : A) l : i <> j -> nth j (set_nth i x l) d = nth j l d.
Proof.
  revert i j; induction l as [|h t IH]; intros [|i] [|j] H; cbn; auto; try lia.
Qed.

(** * The view invariant *)

Definition at_clone_or_dec (s : state) (j b : nat) : Prop :=
  nth_error (ws s) j = Some (WClone b) \/ nth_error (ws s) j = Some (WDec b).

Record InvV (c : cfg) (s : state) : Prop := {
  V_caller : in_broadcast (cst s) = true -> caller_ran (cst s) = true -> In (cur s, 0) (cview s);
  V_worker : forall j b, at_clone_or_dec s j b -> In (b, S j) (nth j (wviews s) []);
  V_loc : is_release (c_dec c) = true -> in_broadcast (cst s) = true ->
          forall j, called s (S j) = true -> (exists b, at_clone_or_dec s j b) \/ In (cur s, S j) (lview s);
  V_ret : is_release (c_dec c) = true -> is_acquire (c_load c) = true ->
          Forall (fun r => forall i, i <= r_n r -> In (r_b r, i) (r_view r)) (returned s)
}.

Lemma invv_init c scr : InvV c (init scr).
Proof.
  constructor; cbn; try discriminate.
  - intros j b [H|H]; destruct j; discriminate.
  - intros; constructor.
Qed.

(** Worker [S j] moves from [w] to [w'] (possibly together with the caller, at a
    rendezvous); the other workers and their views do not change. *)
Lemma invv_worker c s s' j w w' :
  InvV c s -> nth_error (ws s) j = Some w ->
  ws s' = set_nth j w' (ws s) -> cur s' = cur s -> cview s' = cview s -> returned s' = returned s ->
  in_broadcast (cst s') = in_broadcast (cst s) ->
  (caller_ran (cst s') = true -> caller_ran (cst s) = true) ->
  (forall j', j' <> j -> nth j' (wviews s') [] = nth j' (wviews s) []) ->
  (forall x, In x (lview s) -> In x (lview s')) ->
  (forall j', j' <> j -> called s' (S j') = true -> called s (S j') = true) ->
  (forall b, w' = WClone b \/ w' = WDec b -> In (b, S j) (nth j (wviews s') [])) ->
  (is_release (c_dec c) = true -> in_broadcast (cst s) = true -> called s' (S j) = true ->
   (exists b, w' = WClone b \/ w' = WDec b) \/ In (cur s, S j) (lview s')) ->
  InvV c s'.
Proof.
  intros V Hj Hws Hu Hcv Hr Hb Hran Hwv Hlv Hcal Hown Hloc.
  assert (Lt : j < length (ws s)) by (eapply nth_error_lt; eauto).
  constructor.
  - intros B Rn. rewrite Hu, Hcv. rewrite Hb in B. apply (V_caller _ _ V); auto.
  - intros j' b [H|H]; rewrite Hws in H.
    + destruct (Nat.eq_dec j j') as [<-|N].
      * rewrite nth_error_set_nth_eq in H by auto. inversion H. apply Hown. auto.
      * rewrite nth_error_set_nth_neq in H by auto. rewrite Hwv by auto. apply (V_worker _ _ V). now left.
    + destruct (Nat.eq_dec j j') as [<-|N].
      * rewrite nth_error_set_nth_eq in H by auto. inversion H. apply Hown. auto.
      * rewrite nth_error_set_nth_neq in H by auto. rewrite Hwv by auto. apply (V_worker _ _ V). now right.
  - intros Rl B j' Cl. rewrite Hb in B. rewrite Hu.
    destruct (Nat.eq_dec j j') as [<-|N].
    + destruct (Hloc Rl B Cl) as [(b & Hb')|H]; [left|right; auto].
      exists b. unfold at_clone_or_dec. rewrite Hws, nth_error_set_nth_eq by auto. destruct Hb' as [->| ->]; auto.
    + assert (Cl0 : called s (S j') = true) by (apply Hcal; auto).
      destruct (V_loc _ _ V Rl B j' Cl0) as [(b & Hb')|H]; [left|right; auto].
      exists b. unfold at_clone_or_dec in *. now rewrite Hws, nth_error_set_nth_neq by auto.
  - rewrite Hr. apply V.
Qed.

Lemma called_other s s' j w' j' :
  ws s' = set_nth j w' (ws s) -> cst s' = cst s -> cur s' = cur s -> j' <> j ->
  called s' (S j') = called s (S j').
Proof. intros Hws Hc Hu N. cbn. now rewrite Hc, Hu, Hws, nth_error_set_nth_neq by auto. Qed.

(** The caller moves; workers and their views stay. *)
Lemma invv_caller c s s' :
  InvV c s -> ws s' = ws s -> wviews s' = wviews s -> cur s' = cur s -> lview s' = lview s ->
  returned s' = returned s ->
  (forall x, In x (cview s) -> In x (cview s')) ->
  in_broadcast (cst s') = in_broadcast (cst s) ->
  (caller_ran (cst s') = true -> caller_ran (cst s) = true \/ In (cur s, 0) (cview s')) ->
  (forall j, called s' (S j) = called s (S j)) ->
  InvV c s'.
Proof.
  intros V Hw Hwv Hu Hl Hr Hcv Hb Hran Hcal.
  constructor.
  - intros B Rn. rewrite Hu. destruct (Hran Rn) as [H|H]; auto.
    apply Hcv. rewrite Hb in B. now apply (V_caller _ _ V).
  - intros j b H. unfold at_clone_or_dec in H. rewrite Hw in H. rewrite Hwv. now apply (V_worker _ _ V).
  - intros Rl B j Cl. rewrite Hb in B. rewrite Hcal in Cl. rewrite Hu, Hl.
    unfold at_clone_or_dec. rewrite Hw. now apply (V_loc _ _ V).
  - rewrite Hr. apply V.
Qed.

Lemma called_S_ext s s' :
  sent (cst s') = sent (cst s) -> cur s' = cur s -> ws s' = ws s ->
  forall j, called s' (S j) = called s (S j).
Proof. intros H1 H2 H3 j. cbn. now rewrite H1, H2, H3. Qed.

Lemma invv_begin c s n rest : Inv s -> InvV c s -> cst s = CIdle -> InvV c (st_begin s n rest).
Proof.
  intros I V Hc. constructor; unfold st_begin; cbn.
  - intros _ H. destruct (Nat.eqb n 0); discriminate.
  - intros j b H. unfold at_clone_or_dec in H. cbn in H.
    assert (Lt : j < length (ws s)).
    { destruct (Nat.lt_ge_cases j (length (ws s))) as [L|L]; auto. exfalso.
      rewrite !nth_error_app2 in H by auto.
      destruct H as [H|H]; apply nth_error_In in H; apply repeat_spec in H; discriminate. }
    rewrite !nth_error_app1 in H by auto. rewrite app_nth1 by (rewrite (I_wv s I); auto).
    now apply (V_worker _ _ V).
  - intros _ _ j Cl. exfalso. cbn in Cl. apply andb_prop in Cl. destruct Cl as [Cl _].
    apply Nat.ltb_lt in Cl. destruct (Nat.eqb n 0); cbn in Cl; lia.
  - apply V.
Qed.

Lemma called_send s j n :
  cst s = CSend (S j) n -> nth_error (ws s) j = Some WIdle -> S j <= n ->
  forall i, called (st_send s (S j) n) i = called s i.
Proof.
  intros Hc Hj R3 [|j']; cbn.
  - rewrite Hc. now destruct (Nat.eqb (S j) n).
  - rewrite Hc. cbn.
    destruct (Nat.eq_dec j j') as [<-|N].
    + rewrite nth_error_set_nth_eq by (eapply nth_error_lt; eauto). rewrite Hj. cbn.
      rewrite Nat.eqb_refl. cbn. rewrite andb_false_r.
      symmetry. apply andb_false_intro1. apply Nat.ltb_ge. lia.
    + rewrite nth_error_set_nth_neq by auto. f_equal.
      destruct (Nat.eqb (S j) n) eqn:E; cbn.
      * apply Nat.eqb_eq in E. subst n.
        destruct (Nat.ltb (S j') (S (S j))) eqn:A, (Nat.ltb (S j') (S j)) eqn:B; auto;
          [apply Nat.ltb_lt in A; apply Nat.ltb_ge in B|apply Nat.ltb_ge in A; apply Nat.ltb_lt in B]; lia.
      * destruct (Nat.ltb (S j') (S (S j))) eqn:A, (Nat.ltb (S j') (S j)) eqn:B; auto;
          [apply Nat.ltb_lt in A; apply Nat.ltb_ge in B|apply Nat.ltb_ge in A; apply Nat.ltb_lt in B]; lia.
Qed.

Lemma invv_send c s j n :
  Inv s -> InvV c s -> cst s = CSend (S j) n -> nth_error (ws s) j = Some WIdle ->
  InvV c (st_send s (S j) n).
Proof.
  intros I V Hc Hj.
  pose proof (I_rc s I) as R. unfold rc_ok in R. rewrite Hc in R. destruct R as (_ & _ & R3 & _).
  eapply (invv_worker c s _ j WIdle (WRun (cur s))); eauto; cbn.
  - rewrite Hc. now destruct (Nat.eqb (S j) n).
  - rewrite Hc. destruct (Nat.eqb (S j) n); discriminate.
  - intros j' N. now rewrite nth_set_nth_neq by auto.
  - intros j' N Cl. change (called s (S j') = true). rewrite <- (called_send s j n Hc Hj R3 (S j')). exact Cl.
  - intros b [H|H]; discriminate.
  - intros _ _ Cl. change (called (st_send s (S j) n) (S j) = true) in Cl.
    rewrite (called_send s j n Hc Hj R3 (S j)) in Cl.
    cbn in Cl. rewrite Hc in Cl. cbn in Cl. apply andb_prop in Cl. destruct Cl as [Cl _].
    apply Nat.ltb_lt in Cl. lia.
Qed.

Lemma invv_run0 c s n p : InvV c s -> cst s = CRun n -> InvV c (st_run0 s n p).
Proof.
  intros V Hc. eapply invv_caller; eauto; cbn.
  - intros x H. apply In_vadd. auto.
  - now rewrite Hc.
  - intros _. right. apply In_vadd. auto.
  - intros j. now rewrite Hc.
Qed.

Lemma load_view_mono c s x : In x (cview s) -> In x (load_view c s).
Proof. unfold load_view. destruct (is_acquire (c_load c)); auto. intro H. apply In_vunion. auto. Qed.

Lemma invv_topark c s n : InvV c s -> cst s = CLoad n -> InvV c (st_topark s n (load_view c s)).
Proof.
  intros V Hc. eapply invv_caller; eauto; cbn.
  - apply load_view_mono.
  - now rewrite Hc.
  - intros _. left. now rewrite Hc.
  - intros j. now rewrite Hc.
Qed.

Lemma invv_to_load c s n tok : InvV c s -> cst s = CPark n -> InvV c (to_load s n tok).
Proof.
  intros V Hc. eapply invv_caller; eauto; cbn.
  - now rewrite Hc.
  - intros _. left. now rewrite Hc.
  - intros j. now rewrite Hc.
Qed.

Lemma invv_drop c s : InvV c s -> cst s = CIdle -> InvV c (st_drop s).
Proof.
  intros V Hc. eapply invv_caller; eauto; cbn.
  - now rewrite Hc.
  - discriminate.
  - intros j. now rewrite Hc.
Qed.

Lemma invv_return c scr s n tok :
  Inv s -> Inv2 scr s -> InvV c s -> cst s = CLoad n -> rc s = 0 ->
  InvV c (do_return s n (load_view c s) tok).
Proof.
  intros I J V Hc Hr.
  assert (B : in_broadcast (cst s) = true) by now rewrite Hc.
  constructor; unfold do_return; cbn; try discriminate.
  - apply V.
  - intros Rl Aq. apply Forall_app. split; [now apply (V_ret _ _ V)|].
    constructor; [|constructor]. cbn. intros i Hi.
    unfold load_view. rewrite Aq. apply In_vunion.
    destruct i as [|j].
    + right. apply (V_caller _ _ V); auto. now rewrite Hc.
    + left.
      assert (Cl : called s (S j) = true).
      { apply (J_cur _ _ J B). apply (all_called_at_return scr s n I J Hc Hr). exact Hi. }
      destruct (V_loc _ _ V Rl B j Cl) as [(b & Hb)|H]; auto. exfalso.
      pose proof (I_rc s I) as R. unfold rc_ok in R. rewrite Hc in R. destruct R as (R1 & _).
      assert (Z : Forall (fun w => pre_dec (cur s) w = false) (ws s)).
      { apply count_zero_forall. unfold count_pre in R1. lia. }
      destruct Hb as [Hb|Hb];
        pose proof (Forall_nth_error _ _ _ _ Z Hb) as P;
        pose proof (Forall_nth_error _ _ _ _ (I_wf s I) Hb) as W; cbn in *; destruct W as [-> _];
        rewrite Nat.eqb_refl in P; discriminate.
Qed.

Lemma wv_len s j : Inv s -> j < length (ws s) -> j < length (wviews s).
Proof. intros I H. now rewrite (I_wv s I). Qed.

Lemma invv_wrun c s j b p :
  Inv s -> InvV c s -> nth_error (ws s) j = Some (WRun b) -> InvV c (st_wrun s (S j) b p).
Proof.
  intros I V Hj.
  assert (Lt : j < length (ws s)) by (eapply nth_error_lt; eauto).
  eapply (invv_worker c s _ j (WRun b) (WClone b)); eauto; cbn.
  - intros j' N. now rewrite nth_set_nth_neq by auto.
  - intros j' N. now rewrite nth_error_set_nth_neq by auto.
  - intros b0 [H|H]; inversion H; subst.
    rewrite nth_set_nth_eq by (apply wv_len; auto). apply In_vadd. auto.
Qed.

Lemma invv_wclone c s j b :
  Inv s -> InvV c s -> nth_error (ws s) j = Some (WClone b) -> InvV c (st_wclone s (S j) b).
Proof.
  intros I V Hj.
  eapply (invv_worker c s _ j (WClone b) (WDec b)); eauto; cbn.
  - intros j' N. now rewrite nth_error_set_nth_neq by auto.
  - intros b0 [H|H]; inversion H; subst. apply (V_worker _ _ V). now left.
Qed.

Lemma invv_wdec c s j b :
  Inv s -> InvV c s -> nth_error (ws s) j = Some (WDec b) -> InvV c (st_wdec c s (S j) b).
Proof.
  intros I V Hj.
  pose proof (Forall_nth_error _ _ _ _ (I_wf s I) Hj) as Wf. cbn in Wf. destruct Wf as [-> _].
  eapply (invv_worker c s _ j (WDec (cur s)) (if Nat.eqb (rc s) (c_unpark_old c) then WUnpark (cur s) else WIdle)); eauto; cbn.
  - intros x H. destruct (is_release (c_dec c)); auto. apply In_vunion. auto.
  - intros j' N. now rewrite nth_error_set_nth_neq by auto.
  - intros b0 [H|H]; destruct (Nat.eqb (rc s) (c_unpark_old c)); discriminate.
  - intros Rl _ _. right. rewrite Rl. apply In_vunion. left. apply (V_worker _ _ V). now right.
Qed.

Lemma invv_wunpark c s j b :
  Inv s -> InvV c s -> nth_error (ws s) j = Some (WUnpark b) -> InvV c (st_wunpark s (S j)).
Proof.
  intros I V Hj.
  assert (Lt : j < length (ws s)) by (eapply nth_error_lt; eauto).
  eapply (invv_worker c s _ j (WUnpark b) WIdle); eauto; cbn.
  - intros j' N. now rewrite nth_error_set_nth_neq by auto.
  - intros b0 [H|H]; discriminate.
  - intros Rl B Cl. right.
    assert (Cl0 : called s (S j) = true).
    { revert Cl. cbn. rewrite nth_error_set_nth_eq, Hj by auto. auto. }
    destruct (V_loc _ _ V Rl B j Cl0) as [(b0 & [H|H])|H]; auto; unfold at_clone_or_dec in H; congruence.
Qed.

Lemma invv_wexit c s j :
  Inv s -> InvV c s -> cst s = CDone -> nth_error (ws s) j = Some WIdle -> InvV c (st_wexit s (S j)).
Proof.
  intros I V Hc Hj.
  eapply (invv_worker c s _ j WIdle WExit); eauto; cbn.
  - now rewrite Hc.
  - now rewrite Hc.
  - intros j' N. cbn. rewrite Hc. cbn. discriminate.
  - intros b0 [H|H]; discriminate.
  - rewrite Hc. discriminate.
Qed.

Theorem invv_step c scr s l s' :
  good c -> Inv s -> Inv2 scr s -> InvV c s -> step c s l = Some s' -> InvV c s'.
Proof.
  intros G I J V H. pose proof G as (G1 & G2 & G3). apply step_inv in H. destruct l; cbn in H.
  - destruct H as (Hc & rest & Es & ->). now apply invv_begin.
  - destruct H as (n & Hc & Hg & ->). destruct (getw_pos _ _ _ Hg) as (j & -> & Hj). now apply invv_send.
  - destruct H as (n & Hc & ->). now apply invv_run0.
  - destruct H as (n & Hc & ->). rewrite leave_good by auto.
    destruct (Nat.eqb (rc s) 0) eqn:E.
    + apply Nat.eqb_eq in E. eapply invv_return; eauto.
    + now apply invv_topark.
  - destruct H as (n & Hc & _ & ->). rewrite G2. now apply invv_to_load.
  - destruct H as (n & Hc & ->). rewrite G2. now apply invv_to_load.
  - destruct H as (b & Hg & ->). destruct (getw_pos _ _ _ Hg) as (j & -> & Hj). now apply invv_wrun.
  - destruct H as (b & Hg & ->). destruct (getw_pos _ _ _ Hg) as (j & -> & Hj). now apply invv_wclone.
  - destruct H as (b & Hg & ->). destruct (getw_pos _ _ _ Hg) as (j & -> & Hj). now apply invv_wdec.
  - destruct H as (b & Hg & ->). destruct (getw_pos _ _ _ Hg) as (j & -> & Hj). eapply invv_wunpark; eauto.
  - destruct H as (Hc & Es & ->). now apply invv_drop.
  - destruct H as (Hc & Hg & ->). destruct (getw_pos _ _ _ Hg) as (j & -> & Hj). now apply invv_wexit.
Qed.

Theorem invv_reachable c scr s : good c -> reachable c scr s -> InvV c s.
Proof.
  intros G R. induction R.
  - apply invv_init.
  - eapply invv_step; eauto; [eapply inv_reachable|eapply inv2_reachable]; eauto.
Qed.

(** * Publication *)

Lemma view_has_all_intro b n v : (forall i, i <= n -> In (b, i) v) -> view_has_all b n v = true.
Proof.
  intro H. unfold view_has_all. apply forallb_forall. intros i Hi. apply in_seq in Hi.
  apply vmem_In. apply H. lia.
Qed.

(** If the decrement is (at least) a release and the load (at least) an
    acquire, the caller's view at the return of a broadcast contains every call
    of that broadcast: the return happens-after all [n + 1] calls. *)
Theorem publication c scr s r :
  good c -> is_release (c_dec c) = true -> is_acquire (c_load c) = true ->
  reachable c scr s -> In r (returned s) ->
  view_has_all (r_b r) (r_n r) (r_view r) = true
  /\ forall i, i <= r_n r -> In (r_b r, i) (r_view r).
Proof.
  intros G Rl Aq R Hr. pose proof (invv_reachable _ _ _ G R) as V.
  pose proof (V_ret _ _ V Rl Aq) as F. rewrite Forall_forall in F. specialize (F _ Hr).
  split; auto. now apply view_has_all_intro.
Qed.
