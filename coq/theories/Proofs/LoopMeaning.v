(** Proofs about Model/Loop.v, part 5: what the boolean specifications [c03_sb]
    and [c19_sb] mean, as propositions ([c03_sb_meaning], [c19_sb_meaning]). *)

From DivanV Require Import Base.Res Generated.Consts Model.Timestamp Model.Loop Proofs.Loop Proofs.LoopProps Proofs.LoopSb.
From Coq Require Import ZifyN ZifyBool ZifyNat Lia.
Local Open Scope N_scope.
Arguments N.add : simpl never.
Arguments N.sub : simpl never.
Arguments N.mul : simpl never.
Arguments N.div : simpl never.
Arguments N.modulo : simpl never.
Arguments N.pow : simpl never.
Arguments N.min : simpl never.
Arguments N.max : simpl never.

(** * Reflection of the list predicates *)

Lemma all_eq_spec v l : all_eq v l = true <-> (forall x, In x l -> x = v).
Proof.
  unfold all_eq. rewrite forallb_forall. split; intros H x Hx; specialize (H x Hx).
  - apply N.eqb_eq. exact H.
  - apply N.eqb_eq. exact H.
Qed.

Lemma list_eqb_spec a : forall b, list_eqb a b = true <-> a = b.
Proof.
  unfold list_eqb. induction a as [|x a IH]; intros [|y b]; cbn [length combine forallb Nat.eqb andb fst snd].
  - split; reflexivity.
  - split; discriminate.
  - split; discriminate.
  - split.
    + intros H. apply Bool.andb_true_iff in H. destruct H as [H1 H2].
      apply Bool.andb_true_iff in H2. destruct H2 as [H3 H4]. apply N.eqb_eq in H3. subst y.
      f_equal. apply IH. apply Bool.andb_true_iff. split; assumption.
    + intros E. injection E as E1 E2. subst y b.
      assert (H : (length a =? length a)%nat && forallb (fun p => fst p =? snd p) (combine a a) = true) by (apply IH; reflexivity).
      apply Bool.andb_true_iff in H. destruct H as [H1 H2]. rewrite H1, H2, N.eqb_refl. reflexivity.
Qed.

Lemma uniform_spec t l : uniform t l = true <-> uniform_p t l.
Proof.
  unfold uniform, uniform_p. rewrite forallb_forall. split; intros H o Ho; specialize (H o Ho); apply Nat.eqb_eq; exact H.
Qed.

Lemma forallb_seq (P : nat -> bool) n :
  forallb P (seq 0 n) = true <-> (forall j, (j < n)%nat -> P j = true).
Proof.
  rewrite forallb_forall. split.
  - intros H j Hj. apply H. apply in_seq. lia.
  - intros H j Hj. apply in_seq in Hj. apply H. lia.
Qed.

Lemma forallb_kinds (P : ckind -> bool) : forallb P all_kinds = true <-> (forall k, P k = true).
Proof.
  rewrite forallb_forall. split.
  - intros H k. apply H. destruct k; cbn; tauto.
  - intros H k _. apply H.
Qed.

(** * C03 *)

Definition c03_holds (c : cfg) (t : nat) (init : N) (hist : list round_obs) (o : seen) : Prop :=
  let k := length hist in
  length (o_calls o) = t /\ length (o_sizes o) = k /\ uniform_p t hist /\
  if zero_case c then
    (* nothing runs *)
    k = 0%nat /\ (forall x, In x (o_calls o) -> x = 0) /\ length (o_samples o) = 0%nat /\
    o_stat_samples o = 0 /\ o_stat_iters o = 0
  else if c_test c then
    (* test mode: one round, one call per thread, nothing stored *)
    k = 1%nat /\ (forall x, In x (o_calls o) -> x = 1) /\ length (o_samples o) = 0%nat /\
    o_stat_samples o = 0 /\ o_stat_iters o = 0
  else
    let recorded := N.of_nat (length (o_samples o)) in
    let last_sz := last (o_sizes o) 0 in
    (* reported figures: samples = recorded, iters = recorded x size, the size
       being the number of calls each recorded sample took (the last round's) *)
    o_stat_samples o = recorded /\ o_stat_iters o = recorded * o_final_size o /\
    o_final_size o = last_sz /\ o_stat_iters o = recorded * last_sz /\
    match c_size c with
    | None => True
    | Some s =>
        let n := sample_count_of c in
        let r := ceil_div n (N.of_nat t) in
        (forall x, In x (o_sizes o) -> x = s) /\
        (forall x, In x (o_calls o) -> x = s * N.of_nat k) /\
        recorded = N.of_nat t * N.of_nat k /\
        o_final_size o = (if (k =? 0)%nat then 0 else s) /\
        (* no time limit reached before the first min(R, k) rounds => k = R = ceil(n/t)
           rounds, unless the ceiling stopped the run earlier or the floor prolonged it *)
        ((forall j, (j < N.to_nat (N.min r (N.of_nat k)))%nat -> elapsed_after c init hist j < c_max c) ->
         (N.of_nat k < r -> c_max c <= elapsed_after c init hist k) /\
         (r <= N.of_nat k ->
          c_min c <= elapsed_after c init hist (N.to_nat r) \/ c_max c <= elapsed_after c init hist (N.to_nat r) ->
          N.of_nat k = r))
    end.

Theorem c03_sb_meaning c t init hist o :
  c03_sb c t init hist o = true <-> c03_holds c t init hist o.
Proof.
  unfold c03_sb, c03_holds. cbv zeta.
  rewrite !Bool.andb_true_iff, !Nat.eqb_eq, uniform_spec.
  destruct (zero_case c).
  { rewrite !Bool.andb_true_iff, !Nat.eqb_eq, !N.eqb_eq, all_eq_spec. tauto. }
  destruct (c_test c).
  { rewrite !Bool.andb_true_iff, !Nat.eqb_eq, !N.eqb_eq, all_eq_spec. tauto. }
  rewrite !Bool.andb_true_iff, !N.eqb_eq.
  destruct (c_size c) as [s|]; [|tauto].
  rewrite !Bool.andb_true_iff, !N.eqb_eq, !all_eq_spec.
  set (r := ceil_div (sample_count_of c) (N.of_nat t)).
  set (kN := N.of_nat (length hist)).
  assert (Hfree :
    (if forallb (fun j => elapsed_after c init hist j <? c_max c) (seq 0 (N.to_nat (N.min r kN)))
     then if kN <? r then c_max c <=? elapsed_after c init hist (length hist)
          else if (c_min c <=? elapsed_after c init hist (N.to_nat r)) || (c_max c <=? elapsed_after c init hist (N.to_nat r))
               then kN =? r else true
     else true) = true <->
    ((forall j, (j < N.to_nat (N.min r kN))%nat -> elapsed_after c init hist j < c_max c) ->
     (kN < r -> c_max c <= elapsed_after c init hist (length hist)) /\
     (r <= kN ->
      c_min c <= elapsed_after c init hist (N.to_nat r) \/ c_max c <= elapsed_after c init hist (N.to_nat r) ->
      kN = r))).
  { destruct (forallb _ _) eqn:Ef.
    - pose proof (proj1 (forallb_seq (fun j => elapsed_after c init hist j <? c_max c) _) Ef) as Ef'.
      assert (Hf : forall j, (j < N.to_nat (N.min r kN))%nat -> elapsed_after c init hist j < c_max c)
        by (intros j Hj; apply N.ltb_lt; apply Ef'; exact Hj).
      destruct (kN <? r) eqn:Ek.
      + apply N.ltb_lt in Ek. rewrite N.leb_le. split.
        * intros H _. split; [intros _; exact H|intros Hge; lia].
        * intros H. apply (H Hf). exact Ek.
      + apply N.ltb_ge in Ek.
        destruct ((c_min c <=? _) || (c_max c <=? _)) eqn:Eb.
        * apply Bool.orb_true_iff in Eb. rewrite !N.leb_le in Eb. rewrite N.eqb_eq. split.
          -- intros H _. split; [intros Hlt; lia|intros _ _; exact H].
          -- intros H. apply (H Hf); assumption.
        * apply Bool.orb_false_iff in Eb. destruct Eb as [E1 E2]. apply N.leb_gt in E1. apply N.leb_gt in E2.
          split; [|reflexivity]. intros _ _. split; [intros Hlt; lia|intros _ [Hx|Hx]; lia].
    - split; [|reflexivity]. intros _ Hf. exfalso.
      assert (Ht : forallb (fun j => elapsed_after c init hist j <? c_max c) (seq 0 (N.to_nat (N.min r kN))) = true).
      { apply (proj2 (forallb_seq (fun j => elapsed_after c init hist j <? c_max c) _)). intros j Hj. apply N.ltb_lt. apply Hf. exact Hj. }
      rewrite Ht in Ef. discriminate. }
  rewrite Hfree. tauto.
Qed.

(** * C19 *)

Definition c19_holds (c : cfg) (init : N) (hist : list round_obs) (o : seen) : Prop :=
  let k := length hist in
  zero_case c = false -> tuned c = true ->
  (* sizes 1, 2, 4, ... up to the first passing round, then constant *)
  o_sizes o = sizes_of c hist k /\
  (* the recorded samples are those of the kept rounds, at the final size *)
  N.of_nat (length (o_samples o)) = total_len (kept_of c hist) /\
  o_samples o = expected_samples c (o_final_size o) (kept_of c hist) /\
  o_final_size o = match k with O => 0 | S k' => size_of_round c hist k' end /\
  (* every input-based counter kind: the per-iteration values of the kept samples; nothing otherwise *)
  (forall kd, qget kd (o_counts o) =
              if qget kd (c_input_counts c) then expected_counts kd (o_final_size o) (kept_of c hist) else []) /\
  (* allocation info for exactly the kept samples that allocated *)
  o_alloc_keys o = alloc_keys_from 0 (concat (kept_of c hist)) /\
  (* the rounds follow the rule (the first passing round counts, max_time covers tuning) *)
  (forall j, (j < k)%nat -> continue_after c init hist j = true) /\
  continue_after c init hist k = negb (o_done o) /\
  (* the figures *)
  o_stat_samples o = N.of_nat (length (o_samples o)) /\
  o_stat_iters o = N.of_nat (length (o_samples o)) * o_final_size o.

Theorem c19_sb_meaning c init hist o :
  c19_sb c init hist o = true <-> c19_holds c init hist o.
Proof.
  unfold c19_sb, c19_holds. cbv zeta.
  destruct (zero_case c); [cbn [orb]; split; [intros _ H; discriminate|reflexivity]|].
  destruct (tuned c); cbn [orb negb]; [|split; [intros _ _ H; discriminate|reflexivity]].
  rewrite !Bool.andb_true_iff, !list_eqb_spec, !N.eqb_eq, forallb_seq, forallb_kinds.
  assert (Hk : (forall kd, list_eqb (qget kd (o_counts o))
                  (if qget kd (c_input_counts c) then expected_counts kd (o_final_size o) (kept_of c hist) else []) = true) <->
               (forall kd, qget kd (o_counts o) =
                  if qget kd (c_input_counts c) then expected_counts kd (o_final_size o) (kept_of c hist) else [])).
  { split; intros H kd; apply list_eqb_spec; apply H. }
  rewrite Hk.
  assert (Hd : (if o_done o then negb (continue_after c init hist (length hist)) else continue_after c init hist (length hist)) = true <->
               continue_after c init hist (length hist) = negb (o_done o)).
  { destruct (o_done o), (continue_after c init hist (length hist)); cbn; split; intros; try reflexivity; discriminate. }
  rewrite Hd. split.
  - intros H _ _. tauto.
  - intros H. specialize (H eq_refl eq_refl). tauto.
Qed.

(** * C19 end to end: what the model reports satisfies [c19_e2e_sb] *)
Theorem c19_e2e_model c init hist out t s :
  c_test c = false ->
  bench_loop c init hist = Ok out -> out_done out = true ->
  seen_of_outcome t out = Ok s ->
  N.of_nat (length (st_samples (s_store (out_state out)))) < 2 ^ 32 ->
  c19_e2e_sb c init (firstn (rounds_of (out_state out)) hist) (o_sizes s) (o_stat_samples s) (o_stat_iters s) = true.
Proof.
  intros Ht H Hdone Hs Hm.
  pose proof (c19_model_sb c init hist out t s Ht H Hs Hm) as Hsb.
  apply c19_sb_meaning in Hsb. unfold c19_holds in Hsb. cbv zeta in Hsb.
  unfold c19_e2e_sb. cbv zeta.
  destruct (zero_case c) eqn:Hz; [reflexivity|]. destruct (tuned c) eqn:Htu; [|reflexivity]. cbn [orb negb].
  destruct (Hsb eq_refl eq_refl) as [Hsz [Hlen [_ [Hfin [_ [_ [Hlt [Hend [Hss Hsi]]]]]]]]].
  destruct (seen_fields t out s Hs) as [Hd _]. rewrite Hd, Hdone in Hend. cbn [negb] in Hend.
  set (pre := firstn (rounds_of (out_state out)) hist) in *.
  rewrite <- Hsz, list_eqb_refl. cbn [andb].
  assert (Hall : forallb (fun j => continue_after c init pre j) (seq 0 (length pre)) = true)
    by (apply forallb_seq; exact Hlt).
  rewrite Hall, Hend. cbn [andb negb].
  rewrite Hss, Hlen, N.eqb_refl. cbn [andb].
  rewrite Hsi. rewrite <- Hlen.
  assert (Hlast : o_final_size s = last (o_sizes s) 0).
  { rewrite Hfin, Hsz. unfold sizes_of. destruct (length pre) as [|k']; [reflexivity|].
    rewrite seq_S, map_app. cbn [map Nat.add]. symmetry. apply last_last. }
  rewrite Hlast. apply N.eqb_refl.
Qed.
