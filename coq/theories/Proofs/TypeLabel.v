(** C17: the type label names the type.  For every type name (any string):
    the label and the type name agree once every [ident::] qualifier is deleted
    from both; hence two type names that get the same label agree up to
    qualifiers.  The label function before the repair fails both ("&a::S"). *)
From DivanV Require Import Base.Res Model.Registry.
Local Open Scope N_scope.

Lemma unq_ident_prefix : forall id s run,
  forallb is_ident_byte id = true -> unq (id ++ s) run = unq s (rev id ++ run).
Proof.
  induction id as [|c tl IH]; intros s run H; [reflexivity|].
  cbn in H. apply andb_true_iff in H. destruct H as [Hc Htl].
  cbn [app unq]. rewrite Hc. rewrite (IH s (c :: run) Htl). cbn [rev]. rewrite <- app_assoc. reflexivity.
Qed.

Lemma ty_scan_unq : forall n s id, (length s <= n)%nat -> forallb is_ident_byte id = true ->
  unq (ty_scan s (id ++ s)) [] = unq s (rev id).
Proof.
  induction n as [|n IH]; intros s id Hlen Hid.
  - destruct s; [|cbn in Hlen; lia]. cbn [ty_scan]. rewrite (unq_ident_prefix id [] [] Hid). rewrite app_nil_r. reflexivity.
  - destruct s as [|c rest].
    + cbn [ty_scan]. rewrite (unq_ident_prefix id [] [] Hid). rewrite app_nil_r. reflexivity.
    + cbn [ty_scan unq]. destruct (is_ident_byte c) eqn:Ec.
      * replace (id ++ c :: rest) with ((id ++ [c]) ++ rest) by (rewrite <- app_assoc; reflexivity).
        rewrite (IH rest (id ++ [c])).
        -- rewrite rev_app_distr. reflexivity.
        -- cbn in Hlen. lia.
        -- rewrite forallb_app, Hid. cbn. rewrite Ec. reflexivity.
      * destruct rest as [|c2 rest2].
        -- rewrite (unq_ident_prefix id [c] [] Hid). cbn [unq]. rewrite Ec, app_nil_r. reflexivity.
        -- destruct ((c =? ch_colon) && (c2 =? ch_colon)) eqn:Ecc.
           ++ apply (IH rest2 []); [cbn in Hlen; lia|reflexivity].
           ++ rewrite (unq_ident_prefix id (c :: c2 :: rest2) [] Hid). cbn [unq]. rewrite Ec, Ecc, app_nil_r. reflexivity.
Qed.

(** (b) the label names the type. *)
Lemma label_names_type : forall raw, unqualify (type_display raw) = unqualify raw.
Proof.
  intro raw. unfold unqualify, type_display. apply (ty_scan_unq (length raw) raw []); [lia|reflexivity].
Qed.

(** (a) two instantiations share a label only if their type names agree up to qualifiers. *)
Lemma labels_distinguish : forall raw1 raw2,
  type_display raw1 = type_display raw2 -> unqualify raw1 = unqualify raw2.
Proof. intros raw1 raw2 H. rewrite <- (label_names_type raw1), <- (label_names_type raw2), H. reflexivity. Qed.

(** Plain path types keep the label they always had. *)
Example path_labels_unchanged :
  (* "alloc::string::String", "alloc::vec::Vec<alloc::string::String>" *)
  type_display [97;108;108;111;99;58;58;115;116;114;105;110;103;58;58;83;116;114;105;110;103] = [83;116;114;105;110;103] /\
  type_display_old [97;108;108;111;99;58;58;115;116;114;105;110;103;58;58;83;116;114;105;110;103] = [83;116;114;105;110;103] /\
  type_display [97;58;58;86;60;98;58;58;83;62] = [86;60;98;58;58;83;62] /\
  type_display_old [97;58;58;86;60;98;58;58;83;62] = [86;60;98;58;58;83;62].
Proof. repeat split; vm_compute; reflexivity. Qed.

(** The old function: "&a::S" and "a::S" both get the label "S". *)
Example old_label_refuted :
  let r1 := [38; 97; 58; 58; 83] in    (* "&a::S" *)
  let r2 := [97; 58; 58; 83] in        (* "a::S" *)
  type_display_old r1 = type_display_old r2 /\
  unqualify r1 <> unqualify r2 /\
  unqualify (type_display_old r1) <> unqualify r1 /\
  type_display r1 = r1 /\ type_display r2 = [83].
Proof. repeat split; vm_compute; try reflexivity; discriminate. Qed.
