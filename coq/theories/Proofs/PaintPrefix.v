(** C20, prefix invariant: for ANY sequence of painter operations that does not
    panic, the depth is the number of open parents and the prefix consists of
    exactly one three-column unit per open parent below the top level: a bar
    if that parent was opened with [is_last = false], spaces otherwise. *)
From DivanV Require Import Base.Res Model.Painter Model.DriverPaint Model.Parse Proofs.Painter Proofs.PaintDriver.
From Coq Require Import Lia.

(** The open parents, tracked from the operations alone: [None] = no parent
    open; [Some ls] = a top-level parent is open and [ls] are the [is_last]
    flags of the open parents below it, outermost first. *)
Definition track (st : option (list bool)) (o : op) : option (option (list bool)) :=
  match o with
  | StartParent _ l => Some (match st with None => Some [] | Some ls => Some (ls ++ [l]) end)
  | FinishParent =>
    match st with
    | None => None
    | Some [] => Some None
    | Some ls => Some (Some (removelast ls))
    end
  | _ => Some st
  end.

Fixpoint track_ops (st : option (list bool)) (ops : list op) : option (option (list bool)) :=
  match ops with
  | [] => Some st
  | o :: r => match track st o with Some st' => track_ops st' r | None => None end
  end.

Definition st_depth (st : option (list bool)) : nat :=
  match st with None => 0 | Some ls => S (length ls) end.

(** [true] = the open parent has later siblings. *)
Definition st_flags (st : option (list bool)) : list bool :=
  match st with None => [] | Some ls => map negb ls end.

Lemma step_track : forall p o p1 out st,
  depth p = st_depth st -> prefix p = units_str (st_flags st) ->
  step p o = Ok (p1, out) ->
  exists st', track st o = Some st' /\ depth p1 = st_depth st' /\ prefix p1 = units_str (st_flags st').
Proof.
  intros p o p1 out st Hd Hp E. destruct o; cbn [step track] in *.
  - (* StartParent *)
    unfold start_parent in E.
    destruct (if has_columns p then right_pad _ _ else _) as [pad span].
    destruct (if has_columns p then write_cols _ _ else _) as [[s ws]|]; [|discriminate].
    cbn [bind fst snd] in E. inversion E; subst; clear E. cbn [depth prefix].
    eexists. split; [reflexivity|].
    destruct st as [ls|]; cbn [st_depth st_flags] in *.
    + rewrite Hd. cbn [Nat.eqb]. split; [rewrite last_length; reflexivity|].
      rewrite Hp, map_app, units_str_app. cbn. destruct is_last; cbn; rewrite ?app_nil_r; reflexivity.
    + rewrite Hd. cbn [Nat.eqb]. split; [reflexivity | exact Hp].
  - (* FinishParent *)
    unfold finish_parent in E. destruct (depth p) as [|d] eqn:Ed; [discriminate|].
    inversion E; subst; clear E. cbn [depth prefix].
    destruct st as [ls|]; cbn [st_depth st_flags] in *; [|discriminate].
    destruct ls as [|b ls'].
    + eexists. split; [reflexivity|]. cbn in *. split; [lia|]. rewrite Hp. reflexivity.
    + destruct (exists_last (l := b :: ls')) as (ls0 & b0 & E0); [congruence|].
      rewrite E0 in *. eexists. split; [reflexivity|].
      rewrite removelast_last. cbn [st_depth st_flags]. rewrite app_length in Hd. cbn in Hd.
      split; [lia|]. rewrite Hp, map_app. cbn [map]. apply firstn_units.
  - (* StartLeaf *)
    unfold start_leaf in E. destruct (if has_columns p then right_pad _ _ else _) as [pad span].
    inversion E; subst. exists st. auto.
  - inversion E; subst. exists st. auto.
  - (* FinishLeaf *)
    unfold finish_leaf in E.
    destruct (write_cols _ _) as [[s ws]|]; [|discriminate]. cbn [bind fst snd] in E.
    destruct (write_rows _ _ _ _ _) as [[[o2 sp2] ws2]|]; [|discriminate]. cbn [bind fst snd] in E.
    inversion E; subst. exists st. auto.
  - (* IgnoreLeaf *)
    unfold ignore_leaf in E. destruct (right_pad _ _) as [pad span].
    destruct (if has_columns p then write_cols _ _ else _) as [[s ws]|]; [|discriminate].
    cbn [bind fst snd] in E. inversion E; subst. exists st. auto.
  - inversion E; subst. exists st. auto.
Qed.

Lemma exec_track : forall ops p p1 out st,
  depth p = st_depth st -> prefix p = units_str (st_flags st) ->
  exec p ops = Ok (p1, out) ->
  exists st', track_ops st ops = Some st' /\ depth p1 = st_depth st' /\
              prefix p1 = units_str (st_flags st').
Proof.
  induction ops as [|o r IH]; intros p p1 out st Hd Hp E.
  - cbn in E. inversion E; subst. exists st. auto.
  - cbn [exec] in E. destruct (step p o) as [[pa oa]|] eqn:Es; [|discriminate].
    cbn [bind fst snd] in E. destruct (exec pa r) as [[pb ob]|] eqn:Er; [|discriminate].
    cbn [bind fst snd] in E. inversion E; subst.
    destruct (step_track p o pa oa st Hd Hp Es) as (st1 & T1 & Hd1 & Hp1).
    destruct (IH pa p1 ob st1 Hd1 Hp1 Er) as (st2 & T2 & Hd2 & Hp2).
    exists st2. cbn [track_ops]. rewrite T1. auto.
Qed.

Lemma exec_app_inv : forall o1 o2 p p2 out,
  exec p (o1 ++ o2) = Ok (p2, out) ->
  exists p1 out1 out2, exec p o1 = Ok (p1, out1) /\ exec p1 o2 = Ok (p2, out2) /\ out = out1 ++ out2.
Proof.
  induction o1 as [|o r IH]; intros o2 p p2 out E.
  - exists p, [], out. cbn in *. auto.
  - cbn [app exec] in *. destruct (step p o) as [[pa oa]|] eqn:Es; [|discriminate].
    cbn [bind fst snd] in *. destruct (exec pa (r ++ o2)) as [[pb ob]|] eqn:Er; [|discriminate].
    cbn [bind fst snd] in E. inversion E; subst.
    destruct (IH o2 pa p2 ob Er) as (p1 & out1 & out2 & E1 & E2 & ->).
    exists p1, (oa ++ out1), out2. rewrite E1. cbn [bind fst snd]. rewrite app_assoc. auto.
Qed.

(** At every point of any run of the painter from its initial state. *)
Theorem prefix_invariant_ops : forall span ws ops p out,
  exec (painter_new span ws) ops = Ok (p, out) ->
  exists st, track_ops None ops = Some st /\ depth p = st_depth st /\
             prefix p = units_str (st_flags st) /\
             length (prefix p) = 3 * (depth p - 1).
Proof.
  intros span ws ops p out E.
  destruct (exec_track ops (painter_new span ws) p out None eq_refl eq_refl E) as (st & T & Hd & Hp).
  exists st. repeat split; auto. rewrite Hp, Hd, units_str_length.
  destruct st; cbn [st_flags st_depth]; [rewrite map_length|cbn]; lia.
Qed.

(** At every point of the painting of a tree. *)
Theorem prefix_invariant_paint : forall a t before after p out,
  paint a t = Ok (p, out) -> paint_ops a t = before ++ after ->
  exists p1 out1 st,
    exec (painter_new (max_span 0 t) (initial_widths a t)) before = Ok (p1, out1) /\
    track_ops None before = Some st /\ depth p1 = st_depth st /\
    prefix p1 = units_str (st_flags st) /\ length (prefix p1) = 3 * (depth p1 - 1).
Proof.
  intros a t before after p out E Hs. unfold paint in E. rewrite Hs in E.
  destruct (exec_app_inv _ _ _ _ _ E) as (p1 & out1 & out2 & E1 & _ & _).
  destruct (prefix_invariant_ops _ _ _ _ _ E1) as (st & T & Hd & Hp & Hl).
  exists p1, out1, st. auto.
Qed.

(** The driver closes every parent it opens. *)
Theorem paint_balanced : forall a t,
  forallb is_group t = true -> Forall wf_node t ->
  exists p out, paint a t = Ok (p, out) /\ track_ops None (paint_ops a t) = Some None.
Proof.
  intros a t Hg Hwf. destruct (paint_layout a t Hg Hwf) as (p & out & E & Hd & Hp & _).
  exists p, out. split; [exact E|].
  unfold paint in E. destruct (prefix_invariant_ops _ _ _ _ _ E) as (st & T & Hd' & _).
  rewrite T. destruct st; [cbn in Hd'; lia | reflexivity].
Qed.
