(** Release build, no guard: the tallies modulo 2^64 (property C10, the region
    outside [no_overflow]). *)
From DivanV Require Import Base.Res Model.Tally Proofs.Tally.
From Coq Require Import ZifyN ZifyBool ZifyNat.
Local Open Scope Z_scope.

Arguments N.add : simpl never.
Arguments N.sub : simpl never.
Arguments N.modulo : simpl never.
Arguments Z.add : simpl never.
Arguments Z.sub : simpl never.
Arguments Z.modulo : simpl never.
Arguments Z.max : simpl never.
Arguments Z.opp : simpl never.

(** * Release arithmetic is total *)

Lemma add_u64_false a b : add_u64 false a b = Ok ((a + b) mod two64N)%N.
Proof.
  unfold add_u64. destruct (a + b <? two64N)%N eqn:E; [|reflexivity].
  apply N.ltb_lt in E. rewrite N.mod_small by exact E. reflexivity.
Qed.

Lemma in_i64_range z : in_i64 z = true -> - two63 <= z < two63.
Proof. unfold in_i64, two63. lia. Qed.

Lemma add_i64_false a b : add_i64 false a b = Ok (wrap_i64 (a + b)).
Proof.
  unfold add_i64. destruct (in_i64 (a + b)) eqn:E; [|reflexivity].
  rewrite wrap_i64_id by (apply in_i64_range; exact E). reflexivity.
Qed.

Lemma sub_i64_false a b : sub_i64 false a b = Ok (wrap_i64 (a - b)).
Proof.
  unfold sub_i64. destruct (in_i64 (a - b)) eqn:E; [|reflexivity].
  rewrite wrap_i64_id by (apply in_i64_range; exact E). reflexivity.
Qed.

(** * Two's-complement wrap *)

Lemma wrap_mult z : exists q, wrap_i64 z = z + q * two64.
Proof.
  exists (- ((z + two63) / two64)). unfold wrap_i64.
  rewrite Z.mod_eq by (unfold two64; lia). ring.
Qed.

Lemma wrap_plus_mult z q : wrap_i64 (z + q * two64) = wrap_i64 z.
Proof.
  unfold wrap_i64. f_equal.
  replace (z + q * two64 + two63) with (z + two63 + q * two64) by ring.
  apply Z_mod_plus_full.
Qed.

Lemma wrap_add_l a b : wrap_i64 (wrap_i64 a + b) = wrap_i64 (a + b).
Proof.
  destruct (wrap_mult a) as [q ->].
  replace (a + q * two64 + b) with (a + b + q * two64) by ring. apply wrap_plus_mult.
Qed.

Lemma wrap_add_r a b : wrap_i64 (a + wrap_i64 b) = wrap_i64 (a + b).
Proof.
  destruct (wrap_mult b) as [q ->].
  replace (a + (b + q * two64)) with (a + b + q * two64) by ring. apply wrap_plus_mult.
Qed.

Lemma wrap_shift z : wrap_i64 (z + two64) = wrap_i64 z.
Proof. replace (z + two64) with (z + 1 * two64) by ring. apply wrap_plus_mult. Qed.

Lemma wrap_opp_r a b : wrap_i64 (a - wrap_i64 b) = wrap_i64 (a - b).
Proof.
  destruct (wrap_mult b) as [q ->].
  replace (a - (b + q * two64)) with (a - b + (- q) * two64) by ring. apply wrap_plus_mult.
Qed.

Lemma wrap_sub_l a b : wrap_i64 (wrap_i64 a - b) = wrap_i64 (a - b).
Proof.
  destruct (wrap_mult a) as [q ->].
  replace (a + q * two64 - b) with (a - b + q * two64) by ring. apply wrap_plus_mult.
Qed.

Lemma wrap_hi z : two63 <= z < two63 + two64 -> wrap_i64 z = z - two64.
Proof.
  intros H. unfold wrap_i64.
  replace (z + two63) with ((z + two63 - two64) + 1 * two64) by lia.
  rewrite Z_mod_plus_full. rewrite Z.mod_small by (unfold two63, two64 in *; lia). lia.
Qed.

Lemma wrap_lo z : - two63 - two64 <= z < - two63 -> wrap_i64 z = z + two64.
Proof.
  intros H. unfold wrap_i64.
  replace (z + two63) with ((z + two63 + two64) + (-1) * two64) by lia.
  rewrite Z_mod_plus_full. rewrite Z.mod_small by (unfold two63, two64 in *; lia). lia.
Qed.

(** [new.overflowing_sub(old) as isize] is the wrapped signed difference. *)
Lemma realloc_diff_wrap a b :
  (a < two64N)%N -> (b < two64N)%N ->
  usize_as_i64 (fst (overflowing_sub_u64 b a)) = wrap_i64 (Z.of_N b - Z.of_N a).
Proof.
  intros Ha Hb. unfold overflowing_sub_u64, usize_as_i64. cbn [fst].
  destruct (a <=? b)%N eqn:E.
  - apply N.leb_le in E. f_equal. lia.
  - apply N.leb_gt in E. rewrite <- (wrap_shift (Z.of_N b - Z.of_N a)). f_equal.
    unfold two64N, two64 in *. lia.
Qed.

(** ... and its [wrapping_abs] as usize is [op_bytes_m]. *)
Lemma realloc_abs_wrap a b :
  (a < two64N)%N -> (b < two64N)%N ->
  i64_as_usize (wrapping_abs_i64 (wrap_i64 (Z.of_N b - Z.of_N a))) = op_bytes_m (ORealloc a b).
Proof.
  intros Ha Hb. cbn [op_bytes_m].
  set (D := Z.of_N b - Z.of_N a).
  assert (HD : - two64 < D < two64) by (unfold D, two64, two64N in *; lia).
  assert (Hd : Z.of_N (if (b <? a)%N then (a - b)%N else (b - a)%N) = Z.abs D).
  { unfold D. destruct (b <? a)%N eqn:E; lia. }
  set (d := (if (b <? a)%N then (a - b)%N else (b - a)%N)) in *.
  unfold i64_as_usize, wrapping_abs_i64.
  destruct (Z_lt_le_dec D (- two63)) as [C1|C1].
  - (* D < -2^63 *)
    rewrite wrap_lo by (unfold two63, two64 in *; lia).
    destruct (Z.eqb _ _) eqn:E1; [unfold two63, two64 in *; lia|].
    rewrite Z.mod_small by (unfold two63, two64 in *; lia).
    destruct (d <=? 9223372036854775808)%N eqn:E2; unfold two63, two64, two64N in *; lia.
  - destruct (Z_lt_le_dec D two63) as [C2|C2].
    + (* in range *)
      rewrite wrap_i64_id by lia.
      destruct (Z.eqb _ _) eqn:E1.
      * apply Z.eqb_eq in E1. rewrite E1.
        replace ((- two63) mod two64) with two63 by (unfold two63, two64; reflexivity).
        destruct (d <=? 9223372036854775808)%N eqn:E2; unfold two63, two64, two64N in *; lia.
      * rewrite Z.mod_small by (unfold two63, two64 in *; lia).
        destruct (d <=? 9223372036854775808)%N eqn:E2; unfold two63, two64, two64N in *; lia.
    + (* D >= 2^63 *)
      rewrite wrap_hi by (unfold two63, two64 in *; lia).
      destruct (Z.eqb _ _) eqn:E1.
      * apply Z.eqb_eq in E1. rewrite E1.
        replace ((- two63) mod two64) with two63 by (unfold two63, two64; reflexivity).
        destruct (d <=? 9223372036854775808)%N eqn:E2; unfold two63, two64, two64N in *; lia.
      * rewrite Z.mod_small by (unfold two63, two64 in *; lia).
        destruct (d <=? 9223372036854775808)%N eqn:E2; unfold two63, two64, two64N in *; lia.
Qed.

(** * Rows modulo 2^64 *)

Definition mtally (k : opk) (ops : list aop) : tally :=
  mkT (spec_count k ops mod two64N)%N (spec_bytes_m k ops mod two64N)%N.

Lemma spec_bytes_m_snoc k pre o :
  spec_bytes_m k (pre ++ [o]) = (spec_bytes_m k pre + ind (opk_eqb (kind_of o) k) * op_bytes_m o)%N.
Proof.
  unfold spec_bytes_m. rewrite ops_of_kind_app, map_app, sumN_app.
  unfold ops_of_kind at 2. cbn [filter].
  destruct (opk_eqb (kind_of o) k); unfold sumN; cbn [map fold_right ind]; lia.
Qed.

Lemma two64N_nz : two64N <> 0%N.
Proof. unfold two64N. lia. Qed.

Lemma mtally_snoc k pre o :
  mtally k (pre ++ [o]) =
  if opk_eqb (kind_of o) k
  then mkT ((t_count (mtally k pre) + 1) mod two64N)%N ((t_size (mtally k pre) + op_bytes_m o) mod two64N)%N
  else mtally k pre.
Proof.
  unfold mtally. rewrite spec_count_snoc, spec_bytes_m_snoc.
  destruct (opk_eqb (kind_of o) k); cbn [ind t_count t_size].
  - rewrite !N.add_mod_idemp_l by exact two64N_nz. f_equal. f_equal. lia.
  - f_equal; f_equal; lia.
Qed.

Lemma tally_op_false i k s :
  tally_op false i k s =
  Ok (set_tally i k (mkT ((t_count (get_tally i k) + 1) mod two64N)%N ((t_size (get_tally i k) + s) mod two64N)%N)).
Proof. unfold tally_op. rewrite !add_u64_false. reflexivity. Qed.

(** * The invariant *)

Definition all_in_range (f : list aop -> Z) (ops : list aop) : Prop :=
  forall n, in_i64 (f (firstn n ops)) = true.

Record winv (pre : list aop) (i : info) : Prop := {
  w_grow : i_grow i = mtally KGrow pre;
  w_shrink : i_shrink i = mtally KShrink pre;
  w_alloc : i_alloc i = mtally KAlloc pre;
  w_dealloc : i_dealloc i = mtally KDealloc pre;
  w_cc : i_cur_count i = wrap_i64 (live_count pre);
  w_cs : i_cur_size i = wrap_i64 (live_size pre);
  w_mc : all_in_range live_count pre -> i_max_count i = peak delta_count pre;
  w_ms : all_in_range live_size pre -> i_max_size i = peak delta_size pre
}.

Lemma all_in_range_snoc f pre o :
  all_in_range f (pre ++ [o]) ->
  all_in_range f pre /\ in_i64 (f pre) = true /\ in_i64 (f (pre ++ [o])) = true.
Proof.
  intros H. split; [|split].
  - intros n. destruct (Nat.le_gt_cases n (length pre)) as [L|L].
    + specialize (H n). rewrite firstn_app in H.
      replace (n - length pre)%nat with 0%nat in H by lia. cbn [firstn] in H. rewrite app_nil_r in H. exact H.
    + rewrite firstn_all2 by lia. specialize (H (length pre)).
      rewrite firstn_app, Nat.sub_diag in H. cbn [firstn] in H. rewrite app_nil_r, firstn_all in H. exact H.
  - specialize (H (length pre)).
    rewrite firstn_app, Nat.sub_diag in H. cbn [firstn] in H. rewrite app_nil_r, firstn_all in H. exact H.
  - specialize (H (length (pre ++ [o]))). rewrite firstn_all in H. exact H.
Qed.

Lemma winv_init : winv [] info_init.
Proof. constructor; try reflexivity; intros _; reflexivity. Qed.

Lemma step_winv pre o i :
  op_wf o = true -> winv pre i -> exists i', step false i o = Ok i' /\ winv (pre ++ [o]) i'.
Proof.
  intros Hwf [Hg Hs Ha Hd Hcc Hcs Hmc Hms].
  destruct i as [g s a d cc mc cs ms].
  cbn [i_grow i_shrink i_alloc i_dealloc i_cur_count i_max_count i_cur_size i_max_size] in *.
  subst g s a d cc cs.
  pose proof (sum_le_peak delta_count pre) as Lc. fold (live_count pre) in Lc.
  pose proof (sum_le_peak delta_size pre) as Ls. fold (live_size pre) in Ls.
  destruct o as [sz|sz|old new]; cbn [step].
  - (* alloc *)
    unfold tally_alloc. rewrite tally_op_false. cbn [bind get_tally set_tally
      i_grow i_shrink i_alloc i_dealloc i_cur_count i_max_count i_cur_size i_max_size].
    rewrite add_i64_false. cbn [bind]. unfold set_counts.
    cbn [i_grow i_shrink i_alloc i_dealloc i_cur_count i_max_count i_cur_size i_max_size].
    rewrite add_i64_false. cbn [bind]. unfold set_sizes.
    cbn [i_grow i_shrink i_alloc i_dealloc i_cur_count i_max_count i_cur_size i_max_size].
    eexists. split; [reflexivity|].
    constructor; cbn [i_grow i_shrink i_alloc i_dealloc i_cur_count i_max_count i_cur_size i_max_size];
      try (rewrite mtally_snoc; cbn [kind_of opk_eqb op_bytes_m]; reflexivity).
    + rewrite live_count_snoc, wrap_add_l. reflexivity.
    + rewrite live_size_snoc. unfold usize_as_i64. rewrite wrap_add_l, wrap_add_r. reflexivity.
    + intros R. apply all_in_range_snoc in R. destruct R as [R0 [R1 R2]].
      rewrite (Hmc R0). rewrite wrap_add_l.
      replace (live_count pre + 1) with (live_count (pre ++ [OAlloc sz])) by (rewrite live_count_snoc; reflexivity).
      rewrite wrap_i64_id by (apply in_i64_range; exact R2).
      rewrite peak_snoc. fold (live_count pre). rewrite live_count_snoc. reflexivity.
    + intros R. apply all_in_range_snoc in R. destruct R as [R0 [R1 R2]].
      rewrite (Hms R0). unfold usize_as_i64. rewrite wrap_add_l, wrap_add_r.
      replace (live_size pre + Z.of_N sz) with (live_size (pre ++ [OAlloc sz])) by (rewrite live_size_snoc; reflexivity).
      rewrite wrap_i64_id by (apply in_i64_range; exact R2).
      rewrite peak_snoc. fold (live_size pre). rewrite live_size_snoc. reflexivity.
  - (* dealloc *)
    unfold tally_dealloc. rewrite tally_op_false. cbn [bind get_tally set_tally
      i_grow i_shrink i_alloc i_dealloc i_cur_count i_max_count i_cur_size i_max_size].
    rewrite sub_i64_false. cbn [bind]. unfold set_counts.
    cbn [i_grow i_shrink i_alloc i_dealloc i_cur_count i_max_count i_cur_size i_max_size].
    rewrite sub_i64_false. cbn [bind]. unfold set_sizes.
    cbn [i_grow i_shrink i_alloc i_dealloc i_cur_count i_max_count i_cur_size i_max_size].
    eexists. split; [reflexivity|].
    constructor; cbn [i_grow i_shrink i_alloc i_dealloc i_cur_count i_max_count i_cur_size i_max_size];
      try (rewrite mtally_snoc; cbn [kind_of opk_eqb op_bytes_m]; reflexivity).
    + rewrite live_count_snoc, wrap_sub_l. cbn [delta_count]. f_equal; lia.
    + rewrite live_size_snoc. unfold usize_as_i64. rewrite wrap_opp_r, wrap_sub_l. cbn [delta_size]. f_equal; lia.
    + intros R. apply all_in_range_snoc in R. destruct R as [R0 [R1 R2]].
      rewrite (Hmc R0). rewrite peak_snoc. fold (live_count pre). cbn [delta_count]. lia.
    + intros R. apply all_in_range_snoc in R. destruct R as [R0 [R1 R2]].
      rewrite (Hms R0). rewrite peak_snoc. fold (live_size pre). cbn [delta_size]. lia.
  - (* realloc *)
    cbn [op_wf] in Hwf. apply andb_prop in Hwf. destruct Hwf as [Hwa Hwb].
    apply N.ltb_lt in Hwa. apply N.ltb_lt in Hwb.
    unfold tally_realloc.
    pose proof (realloc_diff_wrap old new Hwa Hwb) as Hdiff.
    destruct (overflowing_sub_u64 new old) as [du sh] eqn:Eos.
    cbn [fst] in Hdiff. rewrite Hdiff. rewrite realloc_abs_wrap by assumption.
    assert (Hsh : sh = (new <? old)%N) by (unfold overflowing_sub_u64 in Eos; inversion Eos; reflexivity).
    subst sh. rewrite tally_op_false.
    destruct (new <? old)%N eqn:E;
      cbn [bind get_tally set_tally i_grow i_shrink i_alloc i_dealloc i_cur_count i_max_count i_cur_size i_max_size];
      rewrite add_i64_false; cbn [bind]; unfold set_sizes;
      cbn [i_grow i_shrink i_alloc i_dealloc i_cur_count i_max_count i_cur_size i_max_size];
      (eexists; split; [reflexivity|]);
      (constructor; cbn [i_grow i_shrink i_alloc i_dealloc i_cur_count i_max_count i_cur_size i_max_size];
       try (rewrite mtally_snoc; cbn [kind_of]; rewrite E; cbn [opk_eqb]; reflexivity)).
    + rewrite live_count_snoc. cbn [delta_count]. f_equal; lia.
    + rewrite live_size_snoc, wrap_add_l, wrap_add_r. reflexivity.
    + intros R. apply all_in_range_snoc in R. destruct R as [R0 [R1 R2]].
      rewrite (Hmc R0). rewrite peak_snoc. fold (live_count pre). cbn [delta_count]. lia.
    + intros R. apply all_in_range_snoc in R. destruct R as [R0 [R1 R2]].
      rewrite (Hms R0). rewrite wrap_add_l, wrap_add_r.
      replace (live_size pre + (Z.of_N new - Z.of_N old)) with (live_size (pre ++ [ORealloc old new]))
        by (rewrite live_size_snoc; reflexivity).
      rewrite wrap_i64_id by (apply in_i64_range; exact R2).
      rewrite peak_snoc. fold (live_size pre). rewrite live_size_snoc. reflexivity.
    + rewrite live_count_snoc. cbn [delta_count]. f_equal; lia.
    + rewrite live_size_snoc, wrap_add_l, wrap_add_r. reflexivity.
    + intros R. apply all_in_range_snoc in R. destruct R as [R0 [R1 R2]].
      rewrite (Hmc R0). rewrite peak_snoc. fold (live_count pre). cbn [delta_count]. lia.
    + intros R. apply all_in_range_snoc in R. destruct R as [R0 [R1 R2]].
      rewrite (Hms R0). rewrite wrap_add_l, wrap_add_r.
      replace (live_size pre + (Z.of_N new - Z.of_N old)) with (live_size (pre ++ [ORealloc old new]))
        by (rewrite live_size_snoc; reflexivity).
      rewrite wrap_i64_id by (apply in_i64_range; exact R2).
      rewrite peak_snoc. fold (live_size pre). rewrite live_size_snoc. reflexivity.
Qed.

Lemma run_winv ops : forallb op_wf ops = true -> exists i, run false ops = Ok i /\ winv ops i.
Proof.
  induction ops as [|o ops IH] using rev_ind; intros H.
  - exists info_init. split; [reflexivity|apply winv_init].
  - rewrite forallb_app in H. apply andb_prop in H. destruct H as [H1 H2].
    cbn [forallb] in H2. rewrite andb_true_r in H2.
    destruct (IH H1) as [i [Hr Hi]].
    destruct (step_winv ops o i H2 Hi) as [i' [Hs Hi']].
    exists i'. split; [|exact Hi']. rewrite run_snoc, Hr. cbn [bind]. exact Hs.
Qed.

Lemma op_bytes_m_small o : realloc_small o = true -> op_bytes_m o = op_bytes o.
Proof.
  destruct o as [s|s|a b]; try reflexivity. cbn [realloc_small op_bytes_m op_bytes]. intros H. rewrite H.
  reflexivity.
Qed.

Lemma spec_bytes_m_small k ops : forallb realloc_small ops = true -> spec_bytes_m k ops = spec_bytes k ops.
Proof.
  intros H. unfold spec_bytes_m, spec_bytes, ops_of_kind. f_equal.
  induction ops as [|o ops IH]; [reflexivity|].
  cbn [forallb] in H. apply andb_prop in H. destruct H as [H1 H2].
  cbn [filter]. destruct (opk_eqb (kind_of o) k); cbn [map]; rewrite ?op_bytes_m_small by exact H1; rewrite IH by exact H2; reflexivity.
Qed.

(** Release build, every sequence of usize operands, no guard. *)
Theorem release_exact_mod ops :
  forallb op_wf ops = true ->
  exists i, run false ops = Ok i /\
    (forall k, t_count (get_tally i k) = (spec_count k ops mod two64N)%N /\
               t_size (get_tally i k) = (spec_bytes_m k ops mod two64N)%N) /\
    (forallb realloc_small ops = true -> forall k, spec_bytes_m k ops = spec_bytes k ops) /\
    i_cur_count i = wrap_i64 (live_count ops) /\
    i_cur_size i = wrap_i64 (live_size ops) /\
    ((forall n, in_i64 (live_count (firstn n ops)) = true) -> i_max_count i = peak delta_count ops) /\
    ((forall n, in_i64 (live_size (firstn n ops)) = true) -> i_max_size i = peak delta_size ops).
Proof.
  intros H. destruct (run_winv ops H) as [i [Hr [Hg Hs Ha Hd Hcc Hcs Hmc Hms]]].
  exists i. split; [exact Hr|]. split.
  - intros []; cbn [get_tally]; rewrite ?Hg, ?Hs, ?Ha, ?Hd; split; reflexivity.
  - split; [intros S k; apply spec_bytes_m_small; exact S|].
    split; [exact Hcc|]. split; [exact Hcs|]. split; [exact Hmc|exact Hms].
Qed.

(** Non-trivial instances.  Row sums really wrap ... *)
Example release_mod_example :
  run false [OAlloc 18446744073709551615; OAlloc 18446744073709551615; ODealloc 3; ORealloc 9223372036854775808 0]
  = Ok (mkI tally_zero (mkT 1 9223372036854775808) (mkT 2 18446744073709551614) (mkT 1 3)
            1 2 9223372036854775803 9223372036854775803).
Proof. vm_compute. reflexivity. Qed.

(** ... and a size change beyond 2^63 is *not* tallied as |new - old|: growing
    from 2 to 2^64-1 bytes is recorded as a 3-byte grow that lowers the live
    bytes by 3 (so "exact byte sum mod 2^64" is false for such requests; they
    violate [Layout]'s size <= isize::MAX). *)
Example release_big_realloc_refutes_exact_sum :
  run false [ORealloc 2 18446744073709551615]
  = Ok (mkI (mkT 1 3) tally_zero tally_zero tally_zero 0 0 (-3) 0)
  /\ op_bytes (ORealloc 2 18446744073709551615) = 18446744073709551613%N
  /\ op_bytes_m (ORealloc 2 18446744073709551615) = 3%N.
Proof. vm_compute. repeat split; reflexivity. Qed.

(** The max half needs its range hypothesis: after live bytes wrapped, the
    recorded maximum is below the true peak. *)
Example release_max_needs_range :
  run false [OAlloc 9223372036854775807; OAlloc 2; ODealloc 9223372036854775807]
  = Ok (mkI tally_zero tally_zero (mkT 2 9223372036854775809) (mkT 1 9223372036854775807)
            1 2 2 9223372036854775807)
  /\ peak delta_size [OAlloc 9223372036854775807; OAlloc 2; ODealloc 9223372036854775807] = 9223372036854775809.
Proof. vm_compute. split; reflexivity. Qed.

(** * The boolean specification of the release build *)

Theorem release_sb_meaning ops i :
  release_sb ops (Ok i) = true <->
  (forallb op_wf ops = true ->
   (forall k, get_tally i k = mtally k ops) /\
   i_cur_count i = wrap_i64 (live_count ops) /\ i_cur_size i = wrap_i64 (live_size ops)).
Proof.
  unfold release_sb. destruct (forallb op_wf ops).
  - unfold release_sb_clauses. cbn [forallb fst]. rewrite !andb_true_iff, !tally_eqb_spec, !Z.eqb_eq. split.
    + intros (Hg & Hs & Ha & Hd & Hc & Hz & _) _. split; [intros []; cbn [get_tally]; assumption|split; assumption].
    + intros H. destruct (H eq_refl) as [Hr [Hc Hz]].
      pose proof (Hr KGrow) as Hg. pose proof (Hr KShrink) as Hs. pose proof (Hr KAlloc) as Ha. pose proof (Hr KDealloc) as Hd.
      cbn [get_tally] in Hg, Hs, Ha, Hd. repeat split; assumption.
  - split; [intros _ H; discriminate H|reflexivity].
Qed.

Theorem release_model_sb ops : release_sb ops (run false ops) = true.
Proof.
  destruct (forallb op_wf ops) eqn:H.
  - destruct (run_winv ops H) as [i [Hr [Hg Hs Ha Hd Hcc Hcs _ _]]]. rewrite Hr.
    apply release_sb_meaning. intros _. split; [intros []; cbn [get_tally]; assumption|split; assumption].
  - unfold release_sb. rewrite H. reflexivity.
Qed.

Theorem release_sb_no_panic ops p : forallb op_wf ops = true -> release_sb ops (Panic p) = false.
Proof. intros H. unfold release_sb. rewrite H. reflexivity. Qed.
