(** Proofs about the pool model, part 5: the result slots of [par_extend]. *)

From DivanV Require Import Base.Res Generated.Consts Model.Pool Proofs.Pool Proofs.PoolCalls.
From Coq Require Import Arith Lia List Bool.
Import ListNotations.
Import PoolM.

Arguments Nat.sub : simpl never.
Arguments Nat.mul : simpl never.
Arguments Nat.eqb : simpl never.
Arguments Nat.leb : simpl never.
Arguments Nat.ltb : simpl never.

Lemma vmem_iff c l l' : (In c l <-> In c l') -> vmem c l = vmem c l'.
Proof.
  intro H. destruct (vmem c l) eqn:A, (vmem c l') eqn:B; auto.
  - apply vmem_In in A. apply H in A. apply vmem_In in A. congruence.
  - apply vmem_In in B. apply H in B. apply vmem_In in B. congruence.
Qed.

Lemma vmem_snoc_other c l x : c <> x -> vmem c (l ++ [x]) = vmem c l.
Proof. intro N. apply vmem_iff. rewrite in_snoc. intuition. Qed.

Lemma vmem_snoc_same c l : vmem c (l ++ [c]) = true.
Proof. apply vmem_In. apply in_snoc. auto. Qed.

Lemma vmem_false c l : ~ In c l -> vmem c l = false.
Proof. intro H. destruct (vmem c l) eqn:E; auto. apply vmem_In in E. contradiction. Qed.

Lemma expected_slots_ext s s' b n :
  (forall i, vmem (b, i) (calls s') = vmem (b, i) (calls s)) ->
  (forall i, vmem (b, i) (panics s') = vmem (b, i) (panics s)) ->
  expected_slots s' b n = expected_slots s b n.
Proof.
  intros H1 H2. unfold expected_slots. apply map_ext. intro i. unfold expected_slot. now rewrite H1, H2.
Qed.

Lemma map_seq_set_nth {A} (f f' : nat -> A) len : forall start x,
  start <= x < start + len -> (forall i, i <> x -> f' i = f i) ->
  map f' (seq start len) = set_nth (x - start) (f' x) (map f (seq start len)).
Proof.
  induction len as [|len IH]; intros start x Hx Hf; [lia|].
  cbn [seq map]. destruct (Nat.eq_dec start x) as [->|N].
  - rewrite Nat.sub_diag. cbn. f_equal. apply map_ext_in. intros i Hi. apply in_seq in Hi. apply Hf. lia.
  - replace (x - start) with (S (x - S start)) by lia. cbn. rewrite Hf by auto. f_equal.
    apply IH; auto. lia.
Qed.

Lemma map_const_repeat {A} (v : A) len : forall start, map (fun _ => v) (seq start len) = repeat v len.
Proof. induction len; intro start; cbn; auto. now rewrite IHlen. Qed.

Record InvS (s : state) : Prop := {
  S_cur : in_broadcast (cst s) = true -> slots s = expected_slots s (cur s) (bcast_n (cst s));
  S_ret : Forall (fun r => r_slots r = expected_slots s (r_b r) (r_n r)) (returned s)
}.

Lemma invs_init scr : InvS (init scr).
Proof. constructor; cbn; [discriminate|constructor]. Qed.

Lemma invs_same s s' :
  calls s' = calls s -> panics s' = panics s -> slots s' = slots s -> returned s' = returned s -> cur s' = cur s ->
  (in_broadcast (cst s') = true -> in_broadcast (cst s) = true /\ bcast_n (cst s') = bcast_n (cst s)) ->
  InvS s -> InvS s'.
Proof.
  intros Hc Hp Hs Hr Hu Hb SS. constructor.
  - intros B. destruct (Hb B) as [B0 N]. rewrite Hs, Hu, N, (S_cur _ SS B0).
    symmetry. apply expected_slots_ext; intros; now rewrite ?Hc, ?Hp.
  - rewrite Hr. eapply Forall_impl; [|exact (S_ret _ SS)]. intros r H. rewrite H.
    symmetry. apply expected_slots_ext; intros; now rewrite ?Hc, ?Hp.
Qed.

(** Logging call [(cur, x)], [x <= n], during a broadcast. *)
Lemma invs_log scr s s' x (p : bool) :
  Inv2 scr s -> InvS s -> in_broadcast (cst s) = true ->
  calls s' = calls s ++ [(cur s, x)] -> panics s' = (if p then panics s ++ [(cur s, x)] else panics s) ->
  slots s' = (if p then slots s else set_nth x (Some x) (slots s)) ->
  returned s' = returned s -> cur s' = cur s ->
  in_broadcast (cst s') = in_broadcast (cst s) -> bcast_n (cst s') = bcast_n (cst s) ->
  called s x = false -> x <= bcast_n (cst s) ->
  InvS s'.
Proof.
  intros J SS B Hc Hp Hs Hr Hu Hb Hn Hx Hle.
  assert (Nin : ~ In (cur s, x) (calls s)).
  { intro X. apply (J_cur _ _ J B) in X. congruence. }
  assert (Npan : ~ In (cur s, x) (panics s)) by (intro X; apply Nin; now apply (J_pan _ _ J)).
  constructor.
  - intros _. rewrite Hu, Hn, Hs, (S_cur _ SS B).
    unfold expected_slots.
    assert (Oth : forall i, i <> x -> expected_slot s' (cur s) i = expected_slot s (cur s) i).
    { intros i N. unfold expected_slot. rewrite Hc, Hp.
      rewrite vmem_snoc_other by congruence.
      destruct p; [rewrite vmem_snoc_other by congruence|]; reflexivity. }
    destruct p.
    + symmetry. apply map_ext. intro i. destruct (Nat.eq_dec i x) as [->|N]; [|auto].
      unfold expected_slot. rewrite Hc, Hp, !vmem_snoc_same, (vmem_false _ _ Nin). reflexivity.
    + rewrite (map_seq_set_nth (expected_slot s (cur s)) (expected_slot s' (cur s)) (S (bcast_n (cst s))) 0 x) by (auto; lia).
      rewrite Nat.sub_0_r. f_equal.
      unfold expected_slot. rewrite Hc, Hp, vmem_snoc_same, (vmem_false _ _ Npan). reflexivity.
  - rewrite Hr. pose proof (J_ret _ _ J) as Rt.
    pose proof (S_ret _ SS) as Sr.
    rewrite Forall_forall in *. intros r Hin. rewrite (Sr r Hin).
    destruct (Rt r Hin) as [R1 _]. rewrite B in R1.
    symmetry. apply expected_slots_ext; intro i; rewrite ?Hc, ?Hp.
    + apply vmem_snoc_other. intro E. inversion E. lia.
    + destruct p; auto. apply vmem_snoc_other. intro E. inversion E. lia.
Qed.

Lemma invs_begin scr s n rest : Inv2 scr s -> InvS s -> cst s = CIdle -> InvS (st_begin s n rest).
Proof.
  intros J SS Hc. constructor; unfold st_begin; cbn [slots cst cur calls panics returned].
  - intros _.
    assert (N' : bcast_n (if Nat.eqb n 0 then CRun 0 else CSend 1 n) = n).
    { destruct (Nat.eqb n 0) eqn:E; cbn; auto. apply Nat.eqb_eq in E. auto. }
    rewrite N'. unfold expected_slots. rewrite <- (map_const_repeat None (S n) 0).
    apply map_ext. intro i. unfold expected_slot. cbn [calls panics].
    rewrite (vmem_false (S (cur s), i) (calls s)); auto.
    intro X. apply (J_le _ _ J) in X. cbn in X. lia.
  - eapply Forall_impl; [|exact (S_ret _ SS)]. intros r H. rewrite H.
    symmetry. apply expected_slots_ext; reflexivity.
Qed.

Lemma sent_le_n s : Inv s -> sent (cst s) <= S (bcast_n (cst s)).
Proof.
  intro I. pose proof (I_rc s I) as R. unfold rc_ok in R. destruct (cst s); cbn; try lia.
Qed.

Lemma invs_return s n cv tok : InvS s -> cst s = CLoad n -> InvS (do_return s n cv tok).
Proof.
  intros SS Hc. constructor; unfold do_return; cbn; [discriminate|].
  apply Forall_app. split.
  - eapply Forall_impl; [|exact (S_ret _ SS)]. intros r H. rewrite H.
    symmetry. apply expected_slots_ext; reflexivity.
  - constructor; [|constructor]. cbn.
    assert (B : in_broadcast (cst s) = true) by now rewrite Hc.
    rewrite (S_cur _ SS B), Hc. cbn. apply expected_slots_ext; reflexivity.
Qed.

Theorem invs_step c scr s l s' :
  good c -> Inv s -> Inv2 scr s -> InvS s -> step c s l = Some s' -> InvS s'.
Proof.
  intros G I J SS H. pose proof G as (G1 & G2 & G3). apply step_inv in H. destruct l; cbn in H.
  - destruct H as (Hc & rest & Es & ->). eapply invs_begin; eauto.
  - destruct H as (n & Hc & Hg & ->). eapply invs_same; [..|exact SS]; cbn; auto.
    intros _. rewrite Hc. split; auto. now destruct (Nat.eqb k n).
  - destruct H as (n & Hc & ->).
    eapply (invs_log scr s _ 0 p); eauto; cbn; try (now rewrite Hc). lia.
  - destruct H as (n & Hc & ->). rewrite leave_good by auto.
    destruct (Nat.eqb (rc s) 0) eqn:E.
    + now apply invs_return.
    + eapply invs_same; [..|exact SS]; cbn; auto. intros _. now rewrite Hc.
  - destruct H as (n & Hc & _ & ->). rewrite G2.
    eapply invs_same; [..|exact SS]; cbn; auto. intros _. now rewrite Hc.
  - destruct H as (n & Hc & ->). rewrite G2.
    eapply invs_same; [..|exact SS]; cbn; auto. intros _. now rewrite Hc.
  - destruct H as (b & Hg & ->). destruct (getw_pos _ _ _ Hg) as (j & -> & Hj).
    pose proof (Forall_nth_error _ _ _ _ (I_wf s I) Hj) as Wf. cbn in Wf. destruct Wf as [-> Al].
    assert (B : in_broadcast (cst s) = true) by (rewrite <- (I_alive s I); exact Al).
    pose proof (I_sent s I j _ Hj eq_refl) as Sn. pose proof (sent_le_n s I) as Le.
    eapply (invs_log scr s _ (S j) p); eauto; cbn; try lia.
    rewrite Hj. cbn. rewrite Nat.eqb_refl. cbn. apply andb_false_r.
  - destruct H as (b & Hg & ->). eapply invs_same; [..|exact SS]; cbn; auto.
  - destruct H as (b & Hg & ->). eapply invs_same; [..|exact SS]; cbn; auto.
  - destruct H as (b & Hg & ->). eapply invs_same; [..|exact SS]; cbn; auto.
  - destruct H as (Hc & Es & ->). eapply invs_same; [..|exact SS]; cbn; auto. discriminate.
  - destruct H as (Hc & Hg & ->). eapply invs_same; [..|exact SS]; cbn; auto. discriminate.
Qed.

Theorem invs_reachable c scr s : good c -> reachable c scr s -> InvS s.
Proof.
  intros G R. induction R.
  - apply invs_init.
  - eapply invs_step; eauto; [eapply inv_reachable|eapply inv2_reachable]; eauto.
Qed.

Lemma slots_eqb_refl l : slots_eqb l l = true.
Proof.
  induction l as [|[x|] t IH]; cbn; auto. now rewrite Nat.eqb_refl.
Qed.

(** The result slots handed back by a returned broadcast are, index by index,
    [Some i] when call [i] was made and did not panic and [None] otherwise —
    and (by once-per-index) every call [0..=n] was made, so the empty entries
    are exactly the panicked calls.  Later broadcasts do not disturb them. *)
Theorem results_indexed_returned c scr s r :
  good c -> reachable c scr s -> In r (returned s) ->
  r_slots r = expected_slots s (r_b r) (r_n r)
  /\ length (r_slots r) = S (r_n r)
  /\ forall i, i <= r_n r ->
       nth_error (r_slots r) i = Some (if vmem (r_b r, i) (panics s) then None else Some i).
Proof.
  intros G R Hr. pose proof (invs_reachable _ _ _ G R) as SS. pose proof (inv2_reachable _ _ _ G R) as J.
  pose proof (S_ret _ SS) as F. rewrite Forall_forall in F. specialize (F _ Hr).
  pose proof (J_ret _ _ J) as Rt. rewrite Forall_forall in Rt. destruct (Rt _ Hr) as [_ Hall].
  split; auto. rewrite F. unfold expected_slots. split.
  - now rewrite map_length, seq_length.
  - intros i Hi. rewrite nth_error_map.
    assert (E : nth_error (seq 0 (S (r_n r))) i = Some i).
    { rewrite (nth_error_nth' _ 0) by (rewrite seq_length; lia). rewrite seq_nth by lia. reflexivity. }
    rewrite E. cbn. unfold expected_slot.
    assert (M : vmem (r_b r, i) (calls s) = true) by (apply vmem_In; now apply Hall).
    rewrite M. cbn. now destruct (vmem (r_b r, i) (panics s)).
Qed.
