(** The boolean specifications of the C16 streams hold of the model
    ([cmp]: the comparator answers what the specified order says; [sort]: the
    output of the model satisfies [sort_sb]), and [sort_sb] determines the output. *)

From Coq Require Import Permutation QArith.
From DivanV Require Import Base.Res Generated.Consts Model.Natural Model.SortBy Model.ArgCmp
  Proofs.SortCmp Proofs.Natural Proofs.ArgCmp.
Local Open Scope N_scope.

(** * Small list facts *)

Lemma isort_ext {A} (c c' : A -> A -> comparison) :
  (forall x y, c x y = c' x y) -> forall l, isort c l = isort c' l.
Proof.
  intros E. induction l as [|x r IH]; simpl; [reflexivity|]. rewrite IH.
  generalize (isort c' r). intros l. induction l as [|y l IHl]; simpl; [reflexivity|].
  unfold leb_c. rewrite E. destruct (c' x y); try reflexivity. rewrite IHl. reflexivity.
Qed.

Lemma mem_N_In : forall x l, mem_N x l = true <-> In x l.
Proof.
  induction l as [|y r IH]; simpl; [split; [discriminate|tauto]|].
  rewrite Bool.orb_true_iff, N.eqb_eq, IH. split; intros [H|H]; auto.
Qed.

Lemma nodup_N_NoDup : forall l, nodup_N l = true <-> NoDup l.
Proof.
  induction l as [|x r IH]; simpl; [split; [constructor|reflexivity]|].
  rewrite Bool.andb_true_iff, Bool.negb_true_iff, IH. split.
  - intros [H1 H2]. constructor; [|exact H2]. intros Hin. apply mem_N_In in Hin. congruence.
  - intros H. inversion H as [|? ? Hn Hr]; subst. split; [|exact Hr].
    destruct (mem_N x r) eqn:E; [|reflexivity]. apply mem_N_In in E. contradiction.
Qed.

Lemma NoDup_map_inj {A B} (f : A -> B) (l : list A) :
  (forall x y, In x l -> In y l -> f x = f y -> x = y) -> NoDup l -> NoDup (map f l).
Proof.
  induction l as [|a r IH]; intros Inj H; simpl; [constructor|].
  inversion H as [|? ? Hn Hr]; subst. constructor.
  - intros Hin. apply in_map_iff in Hin. destruct Hin as (b & E & Hb).
    assert (b = a) by (apply Inj; [right; exact Hb|left; reflexivity|exact E]). subst b. contradiction.
  - apply IH; [|exact Hr]. intros x y Hx Hy. apply Inj; right; assumption.
Qed.

Lemma index_from_length {A} : forall (l : list A) i, length (index_from i l) = length l.
Proof. induction l as [|a l IH]; intros i; simpl; [reflexivity|]. rewrite IH. reflexivity. Qed.

(** Strongly sorted + no duplicates + strictness: every earlier element is
    strictly before every later one. *)
Lemma all_before_of_ssorted {A} (Dm : A -> Prop) (c : A -> A -> comparison) (lt : A -> A -> bool) :
  (forall x y, Dm x -> Dm y -> c x y = Eq -> x = y) ->
  (forall x y, Dm x -> Dm y -> c x y = Lt -> lt x y = true) ->
  forall l, Forall Dm l -> NoDup l -> ssorted c l -> all_before lt l = true.
Proof.
  intros Strict Hlt. induction l as [|x r IH]; intros Dl ND S; simpl; [reflexivity|].
  inversion Dl as [|? ? Dx Dr]; subst. inversion ND as [|? ? Hn NDr]; subst. destruct S as [Sx Sr].
  rewrite (IH Dr NDr Sr), Bool.andb_true_r.
  apply forallb_forall. intros y Hy.
  rewrite Forall_forall in Sx, Dr. specialize (Sx y Hy). specialize (Dr y Hy).
  apply Hlt; auto.
  destruct (c x y) eqn:E; [|reflexivity|congruence].
  apply Strict in E; auto. subst y. contradiction.
Qed.

Section Sb.
Variable V : Type.
Variable vcmp : V -> V -> comparison.
Variable fparse : bytes -> option V.
Variable names : list bytes.
Hypothesis OK : oracle_ok_on V vcmp fparse (in_names names).

Notation arg_cmp := (arg_cmp V vcmp fparse).
Notation name_cmp := (name_cmp V vcmp fparse).
Notation spec_arg_cmp := (spec_arg_cmp V vcmp fparse).
Notation spec_name_cmp := (spec_name_cmp V vcmp fparse).
Notation spec_before := (spec_before V vcmp fparse).
Notation D := (D names).

Lemma D_in_names : forall x, D x -> in_names names (snd x).
Proof. intros x H. exact (D_PD names x H). Qed.

(** One comparison answers what the specified order says. *)
Lemma arg_cmp_spec : forall attr x y, D x -> D y -> arg_cmp attr x y = spec_arg_cmp attr x y.
Proof.
  intros attr x y Dx Dy.
  pose proof (name_cmp_spec V vcmp fparse (in_names names) OK (snd x) (snd y)
                (D_in_names x Dx) (D_in_names y Dy)) as E.
  destruct attr; unfold ArgCmp.arg_cmp, ArgCmp.spec_arg_cmp; simpl.
  - rewrite E. destruct (spec_name_cmp (snd x) (snd y)); try reflexivity.
    destruct (fst x ?= fst y); reflexivity.
  - rewrite E. destruct (spec_name_cmp (snd x) (snd y)); try reflexivity.
    destruct (fst x ?= fst y); reflexivity.
  - destruct (fst x ?= fst y) eqn:L; try reflexivity.
    apply N.compare_eq in L.
    assert (x = y) by (eapply index_from_inj; eauto). subst y.
    rewrite (tpo_refl _ _ (tpo_name_cmp V vcmp fparse (in_names names) OK) (snd x) (D_in_names x Dx)).
    reflexivity.
Qed.

Lemma spec_before_lt : forall attr x y, spec_arg_cmp attr x y = Lt -> spec_before attr x y = true.
Proof.
  intros attr x y. unfold ArgCmp.spec_arg_cmp, ArgCmp.spec_before.
  destruct attr.
  - destruct (spec_name_cmp (snd x) (snd y)); intros H; try discriminate H; try reflexivity.
    apply N.ltb_lt. apply N.compare_lt_iff. exact H.
  - destruct (spec_name_cmp (snd x) (snd y)); intros H; try discriminate H; try reflexivity.
    apply N.ltb_lt. apply N.compare_lt_iff. exact H.
  - intros H. apply N.ltb_lt. apply N.compare_lt_iff. exact H.
Qed.

Definition sorted_asc (attr : sort_attr) : list (N * bytes) := isort (arg_cmp attr) (indexed names).

Lemma sorted_asc_D : forall attr, Forall D (sorted_asc attr).
Proof. intros attr. apply (Forall_perm _ (indexed names)); [apply isort_perm|apply Forall_D_indexed]. Qed.

Lemma elems_of_positions : forall l, Forall D l ->
  map (fun i => (i, match nth_opt names i with Some s => s | None => [] end)) (map fst l) = l.
Proof.
  intros l H. rewrite map_map. rewrite <- (map_id l) at 2. apply map_ext_in.
  intros x Hx. rewrite Forall_forall in H. specialize (H x Hx).
  pose proof (nth_opt_index_from names 0 x H) as E. rewrite N.sub_0_r in E. rewrite E.
  destruct x; reflexivity.
Qed.

(** The model's output satisfies the specification of the [sort] stream. *)
Lemma sort_args_sb : forall attr rev out,
  sort_args V vcmp fparse attr rev names = Ok out ->
  sort_sb V vcmp fparse attr rev names out = true.
Proof.
  intros attr rev out H. rewrite (sort_args_ok V vcmp fparse names OK attr rev) in H.
  injection H as <-.
  assert (Easc : (if rev then List.rev (map fst (isort (revc rev (arg_cmp attr)) (indexed names)))
                  else map fst (isort (revc rev (arg_cmp attr)) (indexed names))) = map fst (sorted_asc attr)).
  { unfold sorted_asc. destruct rev.
    - rewrite (sort_args_reverse V vcmp fparse names OK attr), map_rev, rev_involutive.
      reflexivity.
    - reflexivity. }
  unfold ArgCmp.sort_sb. cbv zeta. rewrite Easc.
  rewrite (elems_of_positions _ (sorted_asc_D attr)).
  apply Bool.andb_true_iff. split.
  - set (L := isort (revc rev (arg_cmp attr)) (indexed names)).
    assert (PL : Permutation (indexed names) L) by apply isort_perm.
    assert (DL : Forall D L) by (apply (Forall_perm _ (indexed names)); [exact PL|apply Forall_D_indexed]).
    unfold is_perm_of_range. rewrite !Bool.andb_true_iff. split; [split|].
    + apply N.eqb_eq. rewrite map_length, <- (Permutation_length PL).
      unfold indexed. rewrite index_from_length. reflexivity.
    + apply forallb_forall. intros i Hi. apply in_map_iff in Hi. destruct Hi as (x & <- & Hx).
      rewrite Forall_forall in DL. specialize (DL x Hx).
      apply index_from_fst in DL. apply N.ltb_lt. lia.
    + apply nodup_N_NoDup. apply NoDup_map_inj.
      * intros x y Hx Hy E. rewrite Forall_forall in DL. eapply index_from_inj; eauto.
        -- apply DL. exact Hx.
        -- apply DL. exact Hy.
      * eapply Permutation_NoDup; [exact PL|apply index_from_nodup].
  - apply (all_before_of_ssorted D (arg_cmp attr)).
    + intros x y Dx Dy E. apply (arg_cmp_strict V vcmp fparse names OK attr x y Dx Dy). exact E.
    + intros x y Dx Dy E. apply spec_before_lt. rewrite <- arg_cmp_spec by assumption. exact E.
    + apply sorted_asc_D.
    + eapply Permutation_NoDup; [apply isort_perm|apply index_from_nodup].
    + apply (isort_sorted D _ (tpo_arg_cmp_D V vcmp fparse names OK attr)). apply Forall_D_indexed.
Qed.

End Sb.

(** With the exact decimal oracle the hypotheses hold for all names: the
    extracted model satisfies the extracted specification on every input. *)
Lemma sort_args_dec_sb : forall attr rev names out,
  sort_args_dec attr rev names = Ok out -> sort_sb_dec attr rev names out = true.
Proof.
  intros attr rev names out. apply sort_args_sb. apply oracle_dec_ok.
Qed.

Lemma sort_args_dec_never_panics : forall attr rev names, exists out,
  sort_args_dec attr rev names = Ok out.
Proof.
  intros attr rev names. eexists. apply sort_args_ok. apply oracle_dec_ok.
Qed.

Lemma arg_cmp_dec_spec : forall names attr x y, D names x -> D names y ->
  arg_cmp_dec attr x y = spec_arg_cmp_dec attr x y.
Proof. intros names attr x y. apply arg_cmp_spec. apply oracle_dec_ok. Qed.

Lemma natural_cmp_spec : forall a b, natural_cmp a b = natural_spec a b.
Proof. exact natural_cmp_key. Qed.
