(** What the boolean specification [stats_sb] (Model/Stats.v) says, clause by
    clause, at the level of propositions. *)
From DivanV Require Import Base.Res Model.Stats.
From Coq Require Import ZifyN ZifyBool ZifyNat.
Local Open Scope N_scope.

Lemma forallb2_spec {A B} (f : A -> B -> bool) l1 : forall l2,
  forallb2 f l1 l2 = true <-> Forall2 (fun a b => f a b = true) l1 l2.
Proof.
  induction l1 as [|a r IH]; intros [|b r2]; cbn [forallb2]; split; intros H;
    try discriminate; try constructor; try (inversion H; fail).
  - apply andb_true_iff in H. apply H.
  - apply IH. apply andb_true_iff in H. apply H.
  - inversion H; subst. apply andb_true_iff. split; [assumption|]. apply IH. assumption.
Qed.

(** [xq_close x y]: both finite with non-zero denominators and
    [|x - y| <= 1e-12 * y] (cross-multiplied). *)
Lemma xq_close_spec a b c d :
  xq_close (Fin a b) (Fin c d) = true <->
  b <> 0 /\ d <> 0 /\
  (a * d <= c * b -> (c * b - a * d) * 10 ^ 12 <= c * b) /\
  (c * b <= a * d -> (a * d - c * b) * 10 ^ 12 <= c * b).
Proof.
  cbn [xq_close]. change 1000000000000 with (10 ^ 12). rewrite !andb_true_iff, !negb_true_iff, !N.eqb_neq, N.leb_le.
  destruct (a * d <? c * b) eqn:E; [apply N.ltb_lt in E|apply N.ltb_ge in E]; split.
  - intros ((Hb & Hd) & H). repeat split; try assumption; intros; lia.
  - intros (Hb & Hd & H1 & H2). repeat split; try assumption. apply H1. lia.
  - intros ((Hb & Hd) & H). repeat split; try assumption; intros; lia.
  - intros (Hb & Hd & H1 & H2). repeat split; try assumption. apply H2. lia.
Qed.

Lemma xq_close_classes x y : xq_close x y = true ->
  (exists a b c d, x = Fin a b /\ y = Fin c d /\ (a = 0 <-> c = 0)) \/ (x = Inf /\ y = Inf).
Proof.
  destruct x as [a b| |], y as [c d| |]; try discriminate; [|right; split; reflexivity].
  intros H. left. exists a, b, c, d. split; [reflexivity|]. split; [reflexivity|].
  apply xq_close_spec in H. destruct H as (Hb & Hd & H1 & H2). split; intros ->.
  - destruct (N.eq_dec c 0) as [|Hc]; [assumption|]. exfalso.
    assert (0 * d <= c * b) as H0 by lia. specialize (H1 H0). rewrite N.mul_0_l, N.sub_0_r in H1.
    assert (c * b <> 0) by (apply N.neq_mul_0; split; assumption).
    change (10 ^ 12) with 1000000000000 in H1. nia.
  - destruct (N.eq_dec a 0) as [|Ha]; [assumption|]. exfalso.
    assert (0 * b <= a * d) as H0 by lia. specialize (H2 H0). rewrite N.mul_0_l, N.sub_0_r in H2.
    assert (a * d <> 0) by (apply N.neq_mul_0; split; assumption).
    change (10 ^ 12) with 1000000000000 in H2. nia.
Qed.

Lemma time_ok_spec inp st :
  time_ok inp st = true <->
  st_sample_count st = N.of_nat (length (in_durs inp)) mod 2 ^ 32 /\
  st_iter_count st = in_size inp * N.of_nat (length (in_durs inp)) /\
  fastest (st_time st) = spec_fastest (in_durs inp) (in_size inp) /\
  slowest (st_time st) = spec_slowest (in_durs inp) (in_size inp) /\
  median (st_time st) = spec_median (in_durs inp) (in_size inp) /\
  mean (st_time st) = spec_mean (in_durs inp) (in_size inp) /\
  fastest (st_time st) <= median (st_time st) <= slowest (st_time st) /\
  fastest (st_time st) <= mean (st_time st) <= slowest (st_time st).
Proof.
  unfold time_ok. rewrite !andb_true_iff, !N.eqb_eq, !N.leb_le. tauto.
Qed.

(** A fastest / slowest / odd-median column: there is one recorded sample of
    the required duration whose allocation figures (of its index) and counter
    values are the ones shown. *)
Lemma column_from_one_spec selq seln inp st d :
  column_from_one selq seln inp st d = true <->
  exists smp, In smp (indexed (in_durs inp)) /\ snd smp = d /\
    Forall2 (fun x v => xq_close x (Fin v (in_size inp)) = true)
            (column_of selq st) (figures_of_index inp (fst smp)) /\
    Forall2 (fun ci o => forall set, o = Some set -> exists c, count_for ci smp = Some c /\ seln set = c)
            (in_counters inp) (st_counts st).
Proof.
  unfold column_from_one. rewrite existsb_exists. split; intros (smp & Hin & H); exists smp; (split; [exact Hin|]).
  - rewrite !andb_true_iff, N.eqb_eq, forallb2_spec in H. destruct H as ((H1 & H2) & H3).
    split; [exact H1|]. split; [exact H2|]. unfold counters_from in H3. rewrite forallb2_spec in H3.
    clear - H3. induction H3 as [|ci o l1 l2 Hx F IH]; constructor; [|exact IH].
    intros set ->. destruct (count_for ci smp) as [c|]; [|discriminate]. exists c. split; [reflexivity|].
    apply N.eqb_eq. exact Hx.
  - destruct H as (H1 & H2 & H3). rewrite !andb_true_iff, N.eqb_eq, forallb2_spec. split; [split; assumption|].
    unfold counters_from. rewrite forallb2_spec.
    clear - H3. induction H3 as [|ci o l1 l2 Hx F IH]; constructor; [|exact IH].
    destruct o as [set|]; [|reflexivity]. destruct (Hx set eq_refl) as (c & -> & ->). apply N.eqb_refl.
Qed.

(** The even-count median column: two *different* recorded samples with the
    two middle durations; allocation figures and counter values averaged. *)
Lemma median_from_two_spec inp st :
  median_from_two inp st = true <->
  exists s1 s2, In s1 (indexed (in_durs inp)) /\ In s2 (indexed (in_durs inp)) /\ fst s1 <> fst s2 /\
    snd s1 = mid_lo (in_durs inp) /\ snd s2 = mid_hi (in_durs inp) /\
    Forall2 (fun x v => xq_close x (Fin v (2 * in_size inp)) = true)
            (column_of median st)
            (map (fun p => fst p + snd p)
                 (combine (figures_of_index inp (fst s1)) (figures_of_index inp (fst s2)))) /\
    Forall2 (fun ci o => forall set, o = Some set ->
               exists c1 c2, count_for ci s1 = Some c1 /\ count_for ci s2 = Some c2 /\
                             median set = (c1 + c2) / 2)
            (in_counters inp) (st_counts st).
Proof.
  unfold median_from_two. cbv zeta. rewrite existsb_exists. split.
  - intros (s1 & I1 & H). apply andb_true_iff in H. destruct H as [H1 H]. apply existsb_exists in H.
    destruct H as (s2 & I2 & H). rewrite !andb_true_iff in H. destruct H as (((Hne & H2) & H3) & H4).
    exists s1, s2. apply N.eqb_eq in H1, H2. apply negb_true_iff, N.eqb_neq in Hne.
    apply forallb2_spec in H3. apply forallb2_spec in H4. repeat (split; [assumption|]).
    clear - H4. induction H4 as [|ci o l1 l2 Hx F IH]; constructor; [|exact IH].
    intros set ->. destruct (count_for ci s1) as [c1|]; [|discriminate]. destruct (count_for ci s2) as [c2|]; [|discriminate].
    exists c1, c2. repeat split. apply N.eqb_eq. exact Hx.
  - intros (s1 & s2 & I1 & I2 & Hne & H1 & H2 & H3 & H4). exists s1. split; [exact I1|].
    rewrite H1, N.eqb_refl. cbn [andb]. apply existsb_exists. exists s2. split; [exact I2|].
    rewrite H2, N.eqb_refl. apply N.eqb_neq in Hne. rewrite Hne. cbn [negb andb].
    apply andb_true_iff. split; [apply forallb2_spec; exact H3|]. apply forallb2_spec.
    clear - H4. induction H4 as [|ci o l1 l2 Hx F IH]; constructor; [|exact IH].
    destruct o as [set|]; [|reflexivity]. destruct (Hx set eq_refl) as (c1 & c2 & -> & -> & ->). apply N.eqb_refl.
Qed.

Lemma stats_sb_spec inp out :
  stats_sb inp out = true <->
  (in_domain inp = true ->
   exists st, out = Ok st /\ time_ok inp st = true /\ forallb xq_is_fin (all_xq st) = true /\
              presence_ok inp st = true /\ means_ok inp st = true /\ provenance_ok inp st = true).
Proof.
  unfold stats_sb. destruct (in_domain inp); cbn [negb]; [|split; [intros _ H; discriminate|reflexivity]].
  destruct out as [st|p]; split.
  - intros H _. rewrite !andb_true_iff in H. exists st. tauto.
  - intros H. destruct (H eq_refl) as (st' & [= <-] & H'). rewrite !andb_true_iff. tauto.
  - discriminate.
  - intros H. destruct (H eq_refl) as (st' & E & _). discriminate.
Qed.

Lemma provenance_ok_spec inp st :
  provenance_ok inp st = true <->
  match in_durs inp with
  | [] => Forall (fun x => xq_eqb x (Fin 0 1) = true)
                 (column_of fastest st ++ column_of slowest st ++ column_of median st)
  | _ => column_from_one fastest fastest inp st (list_min (in_durs inp)) = true /\
         column_from_one slowest slowest inp st (list_max (in_durs inp)) = true /\
         (if Nat.even (length (in_durs inp)) then median_from_two inp st = true
          else column_from_one median median inp st (mid_hi (in_durs inp)) = true)
  end.
Proof.
  unfold provenance_ok. destruct (in_durs inp) as [|d0 dr].
  - rewrite forallb_forall, Forall_forall. reflexivity.
  - rewrite !andb_true_iff. destruct (Nat.even (length (d0 :: dr))); tauto.
Qed.
