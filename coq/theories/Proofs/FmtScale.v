(** Lemmas about Model/FmtScale.v: byte sizes / throughputs over exact
    rationals follow the truncation rule with 1000^k / 1024^k prefixes; the
    zero / inf corners; meaning of the boolean specifications. *)

From DivanV Require Import Base.Res Generated.Consts Model.FmtF64 Model.FmtDuration Model.FmtScale
  Proofs.FmtF64 Proofs.FmtDuration.
From Coq Require Import Lia ZifyBool ZifyN ZifyNat.
Ltac Zify.zify_post_hook ::= Z.div_mod_to_equations.
Local Open Scope N_scope.
Arguments N.add : simpl never.
Arguments N.sub : simpl never.
Arguments N.mul : simpl never.
Arguments N.div : simpl never.
Arguments N.modulo : simpl never.
Arguments N.pow : simpl never.

Definition start_at (binary : bool) (i : N) : N := nth (N.to_nat i) (spec_starts binary) 1.

(** The chain of comparisons of [scale_value] and the specification's "largest
    prefix not exceeding the value" pick the same scale. *)
Lemma scale_choice : forall binary a b, b <> 0 ->
  exists i, i <= 5 /\
    scale_idx (starts_of binary) (VQ a b) = i /\
    spec_scale binary a b = (i, start_at binary i) /\
    nth_res (starts_of binary) i = Ok (start_at binary i) /\
    start_at binary i <> 0.
Proof.
  intros binary a b Hb. unfold scale_idx, spec_scale, starts_of.
  destruct binary;
  [change scale_starts_binary with [1; 1024; 1048576; 1073741824; 1099511627776; 1125899906842624];
   change (spec_starts true) with [1; 1024; 1048576; 1073741824; 1099511627776; 1125899906842624]
  |change scale_starts_decimal with [1; 1000; 1000000; 1000000000; 1000000000000; 1000000000000000];
   change (spec_starts false) with [1; 1000; 1000000; 1000000000; 1000000000000; 1000000000000000]];
  cbn [tl starts_walk combine fold_left snd];
  repeat match goal with |- context [a <? ?c * b] => destruct (N.ltb_spec a (c * b)) end;
  try lia;
  repeat match goal with |- context [?c * b <=? a] => destruct (N.leb_spec (c * b) a); try lia end;
  eexists; (split; [|split; [reflexivity|split; [reflexivity|split; [reflexivity|]]]]);
  vm_compute; discriminate.
Qed.

Lemma sfmt_suffix_spec : forall f i, i <= 5 -> sfmt_suffix f i = Ok (spec_suffix f i).
Proof.
  intros f i Hi.
  assert (H : i = 0 \/ i = 1 \/ i = 2 \/ i = 3 \/ i = 4 \/ i = 5) by lia.
  destruct H as [->|[->|[->|[->|[->| ->]]]]]; destruct f as [[|]|[|]| | |]; reflexivity.
Qed.

Lemma spec_suffix_no_space : forall f i, i <= 5 -> notin ch_space (spec_suffix f i).
Proof.
  intros f i Hi.
  assert (H : i = 0 \/ i = 1 \/ i = 2 \/ i = 3 \/ i = 4 \/ i = 5) by lia.
  destruct H as [->|[->|[->|[->|[->| ->]]]]]; destruct f as [[|]|[|]| | |]; vm_compute;
  repeat (constructor; [intros HH; discriminate HH|]); constructor.
Qed.

(** ** The scaled rule on exact rationals *)
Lemma fmt_scaled_spec : forall f sig a b, b <> 0 -> sig + 1 < 2 ^ 64 ->
  fmt_scaled f sig (VQ a b) = Ok (spec_scaled_string f sig a b).
Proof.
  intros f sig a b Hb Hsig. unfold fmt_scaled, spec_scaled_string.
  destruct (scale_choice (sfmt_binary f) a b Hb) as [i [Hi [Hidx [Hspec [Hnth Hnz]]]]].
  rewrite Hidx, Hspec, Hnth. cbn [bind].
  rewrite sfmt_suffix_spec by exact Hi. cbn [bind].
  destruct (b * start_at (sfmt_binary f) i =? 0) eqn:E; [lia|].
  rewrite format_trunc; [reflexivity|lia|exact Hsig].
Qed.

Lemma format_f64_spec : forall sig a b, b <> 0 -> sig + 1 < 2 ^ 64 ->
  format_f64 sig (VQ a b) = Ok (trunc_numeral a b sig).
Proof.
  intros sig a b Hb Hsig. unfold format_f64. destruct (b =? 0) eqn:E; [lia|].
  now apply format_trunc.
Qed.

Lemma format_bytes_spec : forall binary sig a b, b <> 0 -> sig + 1 < 2 ^ 64 ->
  format_bytes binary sig (VQ a b) = Ok (spec_scaled_string (SBytes binary) sig a b).
Proof. intros. now apply fmt_scaled_spec. Qed.

(** ** Throughput: zero count prints 0, zero duration with a non-zero count
    prints inf, otherwise the scaled rule for [count * 10^12 / picos]. *)
Lemma kind_cases : forall kind, kind <= 3 -> kind = 0 \/ kind = 1 \/ kind = 2 \/ kind = 3.
Proof. intros. lia. Qed.

Lemma thr_format_ok : forall kind binary, kind <= 3 -> exists f, thr_format kind binary = Ok f.
Proof.
  intros kind binary Hk. destruct (kind_cases kind Hk) as [->|[->|[-> | ->]]]; eexists; reflexivity.
Qed.

Lemma throughput_zero_count : forall kind picos binary f, thr_format kind binary = Ok f ->
  display_throughput kind 0 picos binary = Ok ([ch_0; ch_space] ++ spec_suffix f 0).
Proof.
  intros kind picos binary f Hf. unfold display_throughput. rewrite Hf. cbn [bind].
  change (thr_value 0 picos) with (VQ 0 1).
  destruct f as [[|]|[|]| | |]; reflexivity.
Qed.

Lemma throughput_zero_duration : forall kind count binary f, thr_format kind binary = Ok f ->
  count <> 0 ->
  display_throughput kind count 0 binary = Ok ([105; 110; 102; ch_space] ++ spec_suffix f 0).
Proof.
  intros kind count binary f Hf Hc. unfold display_throughput. rewrite Hf. cbn [bind].
  unfold thr_value. destruct (count =? 0) eqn:E; [lia|]. change (0 =? 0) with true. cbn match.
  destruct f as [[|]|[|]| | |]; reflexivity.
Qed.

Lemma throughput_scaled : forall kind count picos binary f, thr_format kind binary = Ok f ->
  count <> 0 -> picos <> 0 ->
  display_throughput kind count picos binary
  = Ok (spec_scaled_string f 4 (count * 1000000000000) picos).
Proof.
  intros kind count picos binary f Hf Hc Hp. unfold display_throughput. rewrite Hf. cbn [bind].
  unfold thr_value. destruct (count =? 0) eqn:E; [lia|]. destruct (picos =? 0) eqn:E2; [lia|].
  apply fmt_scaled_spec; [exact Hp|]. vm_compute. reflexivity.
Qed.

Lemma throughput_total : forall kind count picos binary, kind <= 3 ->
  exists s, display_throughput kind count picos binary = Ok s.
Proof.
  intros kind count picos binary Hk. destruct (thr_format_ok kind binary Hk) as [f Hf].
  destruct (N.eq_dec count 0) as [->|Hc]; [eexists; apply (throughput_zero_count _ _ _ _ Hf)|].
  destruct (N.eq_dec picos 0) as [->|Hp]; [eexists; apply (throughput_zero_duration _ _ _ _ Hf Hc)|].
  eexists; apply (throughput_scaled _ _ _ _ _ Hf Hc Hp).
Qed.

(** ** Meaning of the boolean specifications *)

Lemma spec_scale_props : forall binary a b, b <> 0 ->
  fst (spec_scale binary a b) <= 5 /\ snd (spec_scale binary a b) <> 0.
Proof.
  intros binary a b Hb. destruct (scale_choice binary a b Hb) as [i [Hi [_ [Hspec [_ Hnz]]]]].
  rewrite Hspec. cbn [fst snd]. auto.
Qed.

Lemma scaled_sb_spec : forall f sig a b out, b <> 0 ->
  (scaled_sb f sig a b out = true <-> out = spec_scaled_string f sig a b).
Proof.
  intros f sig a b out Hb. unfold scaled_sb, spec_scaled_string.
  pose proof (spec_scale_props (sfmt_binary f) a b Hb) as [Hi Hst].
  destruct (spec_scale (sfmt_binary f) a b) as [i st]. cbn [fst snd] in Hi, Hst.
  assert (Hbs : b * st <> 0) by lia.
  split.
  - intros H. destruct (split_at ch_space out) as [num orest] eqn:Es.
    apply split_at_inv in Es. destruct Es as [_ Es].
    destruct orest as [rest|]; [|discriminate].
    apply andb_true_iff in H. destruct H as [Hn Hr].
    apply numeral_sb_spec in Hn; [|exact Hbs]. apply str_eqb_eq in Hr. subst. reflexivity.
  - intros ->. cbn [app]. rewrite split_at_app by apply trunc_numeral_no_space.
    rewrite numeral_sb_complete by exact Hbs. cbn [andb]. now apply str_eqb_eq.
Qed.

Lemma scaled_model_sb : forall f sig a b, b <> 0 -> sig + 1 < 2 ^ 64 ->
  match fmt_scaled f sig (VQ a b) with
  | Ok s => scaled_sb f sig a b s = true /\ scaled_sb_approx f sig a b s = true
  | Panic _ => False
  end.
Proof.
  intros f sig a b Hb Hsig. rewrite fmt_scaled_spec by assumption.
  assert (H : scaled_sb f sig a b (spec_scaled_string f sig a b) = true) by now apply scaled_sb_spec.
  split; [exact H|]. unfold scaled_sb_approx. now rewrite H.
Qed.

Lemma throughput_model_sb : forall kind count picos binary, kind <= 3 ->
  throughput_sb kind count picos binary (display_throughput kind count picos binary) = true.
Proof.
  intros kind count picos binary Hk. destruct (thr_format_ok kind binary Hk) as [f Hf].
  unfold throughput_sb. rewrite Hf.
  destruct (N.eq_dec count 0) as [->|Hc].
  { rewrite (throughput_zero_count _ _ _ _ Hf). change (0 =? 0) with true. cbn match. now apply str_eqb_eq. }
  destruct (count =? 0) eqn:Ec; [lia|].
  destruct (N.eq_dec picos 0) as [->|Hp].
  { rewrite (throughput_zero_duration _ _ _ _ Hf Hc). change (0 =? 0) with true. cbn match. now apply str_eqb_eq. }
  destruct (picos =? 0) eqn:Ep; [lia|].
  rewrite (throughput_scaled _ _ _ _ _ Hf Hc Hp).
  unfold scaled_sb_approx.
  assert (H : scaled_sb f 4 (count * 1000000000000) picos
                (spec_scaled_string f 4 (count * 1000000000000) picos) = true) by now apply scaled_sb_spec.
  now rewrite H.
Qed.

(** Soundness of the tolerant check: whenever [scaled_sb_approx] accepts, the
    string is the exact specification's string for a rational [x/y] within
    relative 2^-50 of [a/b]. *)
Lemma scaled_sb_approx_sound : forall f sig a b out, b <> 0 ->
  scaled_sb_approx f sig a b out = true ->
  exists x y, y <> 0 /\
    a * (tol - 1) * y <= x * (b * tol) <= a * (tol + 1) * y /\
    out = spec_scaled_string f sig x y.
Proof.
  intros f sig a b out Hb H. unfold scaled_sb_approx in H.
  assert (Ht : tol = 1125899906842624) by reflexivity.
  repeat (apply orb_true_iff in H; destruct H as [H|H]).
  - exists a, b. split; [exact Hb|]. split; [nia|]. now apply scaled_sb_spec.
  - exists (a * (tol - 1)), (b * tol). split; [lia|]. split; [nia|]. apply scaled_sb_spec; [lia|exact H].
  - exists (a * (tol + 1)), (b * tol). split; [lia|]. split; [nia|]. apply scaled_sb_spec; [lia|exact H].
  - destruct (printed_value f out) as [[x y]|] eqn:Ep; [|discriminate].
    apply andb_true_iff in H. destruct H as [H Hs]. apply andb_true_iff in H. destruct H as [H1 H2].
    assert (Hy : y <> 0).
    { unfold printed_value in Ep. destruct (split_at ch_space out) as [num [rest|]]; [|discriminate].
      destruct (suffix_index f rest); [|discriminate].
      destruct (split_at ch_dot num) as [ip ofp].
      match type of Ep with context [if ?c then _ else _] => destruct c end; [|discriminate].
      inversion Ep. apply pow10_nz. }
    exists x, y. split; [exact Hy|]. split; [lia|]. apply scaled_sb_spec; assumption.
Qed.

(** ** Readable forms for Properties/C18.v *)

Lemma scaled_trunc : forall f sig a b, b <> 0 -> sig + 1 < 2 ^ 64 ->
  let '(i, st) := spec_scale (sfmt_binary f) a b in
  let d := len (digits_of (a / (b * st))) in
  let k := sig - d in
  fmt_scaled f sig (VQ a b) = Ok (render_fix (a * 10 ^ k / (b * st)) k ++ [ch_space] ++ spec_suffix f i).
Proof.
  intros f sig a b Hb Hsig. pose proof (fmt_scaled_spec f sig a b Hb Hsig) as H.
  unfold spec_scaled_string in H. destruct (spec_scale (sfmt_binary f) a b) as [i st]. exact H.
Qed.

(** [spec_scale] is the largest prefix 1000^i / 1024^i (i <= 5) not exceeding
    the value; values below 1 use no prefix. *)
Lemma spec_scale_largest : forall binary a b, b <> 0 ->
  let '(i, st) := spec_scale binary a b in
  let base := if binary then 1024 else 1000 in
  i <= 5 /\ st = base ^ i /\ (i <> 0 -> st * b <= a) /\ (i <> 5 -> a < base ^ (i + 1) * b).
Proof.
  intros binary a b Hb. unfold spec_scale.
  destruct binary;
  [change (spec_starts true) with [1; 1024; 1048576; 1073741824; 1099511627776; 1125899906842624]
  |change (spec_starts false) with [1; 1000; 1000000; 1000000000; 1000000000000; 1000000000000000]];
  cbn [combine fold_left snd];
  repeat match goal with |- context [?c * b <=? a] => destruct (N.leb_spec (c * b) a) end;
  try lia;
  (split; [lia|]); (split; [reflexivity|]); split; intros _;
  match goal with |- context [?x ^ ?y] => let v := eval vm_compute in (x ^ y) in change (x ^ y) with v end; lia.
Qed.

Example scaled_guard_satisfiable :
  (3 : N) <> 0 /\ 4 + 1 < 2 ^ 64 /\
  fmt_scaled (SBytes true) 4 (VQ 10000 3) = Ok [51; 46; 50; 53; 53; 32; 75; 105; 66].   (* 3.255 KiB *)
Proof. vm_compute. repeat split; discriminate. Qed.

Example throughput_guard_satisfiable :
  display_throughput 3 1000 2000 false = Ok [53; 48; 48; 32; 71; 105; 116; 101; 109; 47; 115].  (* 500 Gitem/s *)
Proof. reflexivity. Qed.

(** ** Glue for C05: finite values never print "NaN" or "inf"; the throughput
    prints "inf" exactly for a zero duration with a non-zero count. *)

Lemma spec_suffix_letters : forall f i, i <= 5 ->
  ~ In 78 (spec_suffix f i) /\ ~ In 102 (spec_suffix f i).
Proof.
  intros f i Hi.
  assert (H : i = 0 \/ i = 1 \/ i = 2 \/ i = 3 \/ i = 4 \/ i = 5) by lia.
  destruct H as [->|[->|[->|[->|[->| ->]]]]]; destruct f as [[|]|[|]| | |]; vm_compute;
  split; intros HH; repeat (destruct HH as [HH|HH]; [discriminate HH|]); exact HH.
Qed.

Lemma format_f64_prints_no_nan : forall sig a b, b <> 0 -> sig + 1 < 2 ^ 64 ->
  exists num, format_f64 sig (VQ a b) = Ok num /\ numeral_chars num /\
    ~ contains nan_str num /\ ~ contains inf_str num.
Proof.
  intros sig a b Hb Hsig. exists (trunc_numeral a b sig).
  split; [now apply format_f64_spec|]. pose proof (trunc_numeral_chars a b sig) as Hn.
  split; [exact Hn|]. split.
  - apply (not_contains_byte 78); [cbn; auto|].
    apply numeral_chars_notin; [exact Hn|unfold digit; lia|unfold ch_dot; lia].
  - apply (not_contains_byte 102); [cbn; auto|].
    apply numeral_chars_notin; [exact Hn|unfold digit; lia|unfold ch_dot; lia].
Qed.

Lemma fmt_scaled_prints_no_nan : forall f sig a b, b <> 0 -> sig + 1 < 2 ^ 64 ->
  exists num i, i <= 5 /\
    fmt_scaled f sig (VQ a b) = Ok (num ++ [ch_space] ++ spec_suffix f i) /\
    numeral_chars num /\
    ~ contains nan_str (num ++ [ch_space] ++ spec_suffix f i) /\
    ~ contains inf_str (num ++ [ch_space] ++ spec_suffix f i).
Proof.
  intros f sig a b Hb Hsig. pose proof (fmt_scaled_spec f sig a b Hb Hsig) as H.
  unfold spec_scaled_string in H.
  pose proof (spec_scale_props (sfmt_binary f) a b Hb) as [Hi _].
  destruct (spec_scale (sfmt_binary f) a b) as [i st]. cbn [fst] in Hi.
  exists (trunc_numeral a (b * st) sig), i. split; [exact Hi|]. split; [exact H|].
  split; [apply trunc_numeral_chars|].
  destruct (spec_suffix_letters f i Hi) as [H78 H102].
  apply no_nan_inf; [apply trunc_numeral_chars|exact H78|exact H102].
Qed.

Lemma throughput_inf_iff : forall kind count picos binary, kind <= 3 ->
  exists s, display_throughput kind count picos binary = Ok s /\
    (starts_with inf_str s <-> count <> 0 /\ picos = 0) /\
    ~ contains nan_str s.
Proof.
  intros kind count picos binary Hk. destruct (thr_format_ok kind binary Hk) as [f Hf].
  destruct (spec_suffix_letters f 0 ltac:(lia)) as [H78_0 _].
  destruct (N.eq_dec count 0) as [->|Hc].
  { eexists. split; [apply (throughput_zero_count _ _ _ _ Hf)|]. split.
    - split; [intros [post Hp]; discriminate Hp|intros [Hc _]; now elim Hc].
    - apply (not_contains_byte 78); [cbn; auto|]. cbn [app In]. unfold ch_0, ch_space.
      intros [HH|[HH|HH]]; [lia|lia|auto]. }
  destruct (N.eq_dec picos 0) as [->|Hp].
  { eexists. split; [apply (throughput_zero_duration _ _ _ _ Hf Hc)|]. split.
    - split; [auto|]. intros _. eexists. reflexivity.
    - apply (not_contains_byte 78); [cbn; auto|]. cbn [app In]. unfold ch_space.
      intros [HH|[HH|[HH|[HH|HH]]]]; try lia. auto. }
  eexists. split; [apply (throughput_scaled _ _ _ _ _ Hf Hc Hp)|].
  unfold spec_scaled_string.
  pose proof (spec_scale_props (sfmt_binary f) (count * 1000000000000) picos Hp) as [Hi _].
  destruct (spec_scale (sfmt_binary f) (count * 1000000000000) picos) as [i st]. cbn [fst] in Hi.
  destruct (spec_suffix_letters f i Hi) as [H78 H102]. split.
  - split; [|intros [_ H0]; now elim Hp]. intros [post Hpost]. exfalso.
    unfold trunc_numeral in Hpost.
    match type of Hpost with render_fix ?t ?k ++ _ = _ =>
      destruct (render_fix_head_digit t k) as [b0 [r0 [Er Hd]]]; rewrite Er in Hpost end.
    cbn [app inf_str] in Hpost. inversion Hpost; subst. unfold digit in Hd. lia.
  - apply no_nan_inf; [apply trunc_numeral_chars|exact H78|exact H102].
Qed.

(** ** Explicit precision / width of a throughput *)

Lemma trunc_numeral_zero : forall b sig, b <> 0 -> trunc_numeral 0 b sig = [ch_0].
Proof.
  intros b sig Hb. unfold trunc_numeral. cbv zeta. rewrite !(N.div_0_l b Hb).
  set (k := sig - len (digits_of 0)). replace (0 * 10 ^ k / b) with 0 by (symmetry; apply N.div_0_l; exact Hb).
  unfold render_fix. rewrite N.div_0_l, N.mod_0_l by apply pow10_nz. rewrite frac_part_eq.
  assert (Hz : pad_digits (N.to_nat k) 0 = repeat ch_0 (N.to_nat k)).
  { assert (Hd : Forall digit (repeat ch_0 (N.to_nat k))).
    { apply Forall_forall. intros x Hx. apply repeat_spec in Hx. subst. unfold digit, ch_0. lia. }
    rewrite (pad_unique _ Hd). now rewrite repeat_length, val_repeat0. }
  rewrite Hz, strip0_repeat. reflexivity.
Qed.

Lemma body_of_fill : forall width x suf, notin ch_space x -> notin ch_space suf ->
  body_of (fill_to width (x ++ [ch_space] ++ suf)) = x ++ [ch_space] ++ suf.
Proof.
  intros width x suf Hx Hs. rewrite fill_to_split. unfold body_of.
  rewrite split_at_app by exact Hx.
  destruct (N.to_nat match width with None => 0 | Some w => w - (len x + 1 + len suf) end) as [|n].
  - cbn [repeat_byte repeat]. rewrite app_nil_r, split_at_notin by exact Hs. reflexivity.
  - cbn [repeat_byte repeat]. rewrite split_at_app by exact Hs. reflexivity.
Qed.

Lemma throughput_with_cases : forall kind count picos binary prec width f,
  thr_format kind binary = Ok f -> thr_sig prec + 1 < 2 ^ 64 ->
  exists x, notin ch_space x /\
    display_throughput_with kind count picos binary prec width
      = Ok (fill_to width (x ++ [ch_space] ++ spec_suffix f (if (count =? 0) || (picos =? 0) then 0
                                 else fst (spec_scale (sfmt_binary f) (count * 1000000000000) picos)))) /\
    (count = 0 -> x = [ch_0]) /\
    (count <> 0 -> picos = 0 -> x = [105; 110; 102]) /\
    (count <> 0 -> picos <> 0 ->
       x = trunc_numeral (count * 1000000000000)
             (picos * snd (spec_scale (sfmt_binary f) (count * 1000000000000) picos)) (thr_sig prec)).
Proof.
  intros kind count picos binary prec width f Hf Hsig. unfold display_throughput_with. rewrite Hf. cbn [bind].
  unfold thr_value.
  destruct (N.eq_dec count 0) as [->|Hc].
  { change (0 =? 0) with true. cbn [orb]. cbv iota. exists [ch_0]. split; [repeat constructor; unfold ch_0, ch_space; lia|].
    split; [|repeat split; intros; try reflexivity; lia].
    rewrite (fmt_scaled_spec f (thr_sig prec) 0 1) by (try exact Hsig; lia). cbn [bind].
    unfold spec_scaled_string.
    assert (Hsc : spec_scale (sfmt_binary f) 0 1 = (0, 1)) by (destruct f as [[|]|[|]| | |]; reflexivity).
    rewrite Hsc, trunc_numeral_zero by lia. reflexivity. }
  destruct (count =? 0) eqn:Ec; [lia|]. cbn [orb].
  destruct (N.eq_dec picos 0) as [->|Hp].
  { change (0 =? 0) with true. cbv iota. exists [105; 110; 102].
    split; [repeat constructor; unfold ch_space; lia|].
    split; [|repeat split; intros; try reflexivity; lia].
    destruct f as [[|]|[|]| | |]; reflexivity. }
  destruct (picos =? 0) eqn:Ep; [lia|].
  rewrite fmt_scaled_spec by assumption. cbn [bind]. unfold spec_scaled_string.
  destruct (spec_scale (sfmt_binary f) (count * 1000000000000) picos) as [i st]. cbn [fst snd].
  eexists. split; [apply trunc_numeral_no_space|]. split; [reflexivity|].
  repeat split; intros; try reflexivity; lia.
Qed.

(** Never cut, for every precision and width: the output is the rule's
    string for [thr_sig prec] significant figures, padded on the right. *)
Lemma throughput_with_spec : forall kind count picos binary prec width f,
  thr_format kind binary = Ok f -> thr_sig prec + 1 < 2 ^ 64 -> count <> 0 -> picos <> 0 ->
  display_throughput_with kind count picos binary prec width
  = Ok (fill_to width (spec_scaled_string f (thr_sig prec) (count * 1000000000000) picos)).
Proof.
  intros kind count picos binary prec width f Hf Hsig Hc Hp.
  unfold display_throughput_with. rewrite Hf. cbn [bind]. unfold thr_value.
  destruct (count =? 0) eqn:Ec; [lia|]. destruct (picos =? 0) eqn:Ep; [lia|].
  rewrite fmt_scaled_spec by assumption. reflexivity.
Qed.

Lemma throughput_with_default : forall kind count picos binary,
  display_throughput_with kind count picos binary None None = display_throughput kind count picos binary.
Proof.
  intros. unfold display_throughput_with, display_throughput, thr_sig.
  destruct (thr_format kind binary); [|reflexivity]. cbn [bind].
  destruct (fmt_scaled s 4 (thr_value count picos)); reflexivity.
Qed.

Lemma throughput_with_model_sb : forall kind count picos binary prec width,
  kind <= 3 -> thr_sig prec + 1 < 2 ^ 64 ->
  throughput_with_sb kind count picos binary prec width
    (display_throughput_with kind count picos binary prec width) = true.
Proof.
  intros kind count picos binary prec width Hk Hsig.
  destruct (thr_format_ok kind binary Hk) as [f Hf].
  destruct (throughput_with_cases kind count picos binary prec width f Hf Hsig) as [x [Hx [Heq [H0 [Hinf Hgen]]]]].
  rewrite Heq. unfold throughput_with_sb.
  set (i := if (count =? 0) || (picos =? 0) then 0 else fst (spec_scale (sfmt_binary f) (count * 1000000000000) picos)) in *.
  assert (Hi : i <= 5).
  { unfold i. destruct ((count =? 0) || (picos =? 0)) eqn:E; [lia|].
    apply orb_false_iff in E. destruct E as [_ Ep].
    apply (spec_scale_props (sfmt_binary f) (count * 1000000000000) picos). lia. }
  rewrite body_of_fill by (try exact Hx; now apply spec_suffix_no_space).
  apply andb_true_iff. split; [now apply str_eqb_eq|].
  unfold throughput_sig_sb. rewrite Hf.
  destruct (N.eq_dec count 0) as [->|Hc].
  { change (0 =? 0) with true. cbv iota. rewrite (H0 eq_refl). unfold i. change (0 =? 0) with true. cbn [orb].
    now apply str_eqb_eq. }
  destruct (count =? 0) eqn:Ec; [lia|].
  destruct (N.eq_dec picos 0) as [->|Hp].
  { change (0 =? 0) with true. cbv iota. rewrite (Hinf Hc eq_refl). unfold i. try rewrite Ec. change (0 =? 0) with true. cbn [orb].
    now apply str_eqb_eq. }
  destruct (picos =? 0) eqn:Ep; [lia|].
  rewrite (Hgen Hc Hp). unfold i. try rewrite Ec. try rewrite Ep. cbn [orb].
  unfold scaled_sb_approx.
  assert (H : scaled_sb f (thr_sig prec) (count * 1000000000000) picos
            (spec_scaled_string f (thr_sig prec) (count * 1000000000000) picos) = true) by now apply scaled_sb_spec.
  unfold spec_scaled_string in H.
  destruct (spec_scale (sfmt_binary f) (count * 1000000000000) picos) as [i' st]. cbn [fst snd].
  now rewrite H.
Qed.

Example throughput_with_guard_satisfiable :
  display_throughput_with 3 1234 1000000000 false (Some 4) (Some 16)
  = Ok [49; 46; 50; 51; 52; 32; 77; 105; 116; 101; 109; 47; 115; 32; 32; 32].   (* "1.234 Mitem/s   " *)
Proof. reflexivity. Qed.
