(** Proofs about Model/Loop.v, part 7: C03's counts for a tuned sample size
    ([c03_tuned_sb] holds of the model's output). *)

From DivanV Require Import Base.Res Generated.Consts Model.Timestamp Model.Loop Proofs.Loop Proofs.LoopProps Proofs.LoopSb Proofs.LoopMeaning.
From Coq Require Import ZifyN ZifyBool ZifyNat Lia.
Local Open Scope N_scope.
Ltac Zify.zify_post_hook ::= Z.div_mod_to_equations.
Arguments N.add : simpl never.
Arguments N.sub : simpl never.
Arguments N.mul : simpl never.
Arguments N.div : simpl never.
Arguments N.modulo : simpl never.
Arguments N.pow : simpl never.
Arguments N.min : simpl never.
Arguments N.max : simpl never.

Theorem c03_tuned_model_sb c init hist out t s :
  c_test c = false ->
  bench_loop c init hist = Ok out -> out_done out = true ->
  seen_of_outcome t out = Ok s -> (0 < t)%nat ->
  c03_tuned_sb c t init (firstn (rounds_of (out_state out)) hist) s = true.
Proof.
  intros Ht H Hdone Hs Htpos. unfold c03_tuned_sb. cbv zeta.
  destruct (zero_case c) eqn:Hz; [reflexivity|]. cbn [orb].
  rewrite (tuned_bench c Ht). destruct (c_size c) as [sz|] eqn:Es; [reflexivity|]. cbn [negb orb].
  destruct (bench_loop_spec c init hist out Ht Hz H) as [k [Hk [Hst [Hlt Hend]]]].
  rewrite Hdone in Hend.
  assert (Hpre : firstn (rounds_of (out_state out)) hist = firstn k hist).
  { rewrite Hst, rounds_spec_state, (firstn_len_le hist k Hk). reflexivity. }
  rewrite Hpre. set (pre := firstn k hist) in *.
  assert (Hlen : length pre = k) by (apply firstn_len_le; exact Hk).
  destruct (uniform t pre) eqn:Hub; [|reflexivity]. cbn [negb].
  apply uniform_spec in Hub.
  destruct (first_pass c pre) as [j0|] eqn:Ef; [|reflexivity].
  pose proof (first_pass_lt c pre j0 Ef) as Hj0. rewrite Hlen in *.
  set (n := sample_count_of c). set (r := ceil_div n (N.of_nat t)). set (m := (j0 + N.to_nat r)%nat).
  assert (Htn : 0 < N.of_nat t) by lia.
  (* samples counted after j rounds, j0 < j <= k *)
  assert (Hcnt : forall j, (j0 < j)%nat -> (j <= k)%nat ->
            counted_of c (firstn j hist) = N.of_nat t * N.of_nat (j - j0)).
  { intros j Hj Hjk. rewrite <- (firstn_firstn_le hist j k Hjk). fold pre.
    unfold counted_of. rewrite (tuned_bench c Ht), Es.
    rewrite (first_pass_firstn_some c pre j0 j Ef Hj).
    rewrite (total_len_uniform t) by (apply uniform_skipn, uniform_firstn; exact Hub).
    rewrite skipn_length, firstn_length, Hlen. f_equal. lia. }
  destruct (forallb _ _) eqn:Hfree; [|reflexivity].
  destruct (k <? m)%nat eqn:Ekm.
  - (* fewer rounds: only the ceiling can have stopped the loop *)
    apply Nat.ltb_lt in Ekm.
    unfold continue_after, continue_of in Hend. rewrite (Hcnt k Hj0 (le_n k)) in Hend.
    assert (Hc : N.of_nat t * N.of_nat (k - j0) <? sample_count_of c = true).
    { apply N.ltb_lt. apply (ceil_div_lt n (N.of_nat t) (N.of_nat (k - j0)) Htn). unfold m in Ekm. fold r. lia. }
    rewrite Hc in Hend. cbn [orb] in Hend. rewrite Bool.andb_true_r in Hend.
    apply N.leb_le. apply N.ltb_ge in Hend.
    unfold pre, elapsed_after. rewrite firstn_firstn_le by lia. exact Hend.
  - apply Nat.ltb_ge in Ekm.
    destruct ((c_min c <=? elapsed_after c init pre m) || (c_max c <=? elapsed_after c init pre m)) eqn:Hb; [|reflexivity].
    assert (Hkm : k = m).
    { destruct (Nat.eq_dec k m) as [E|E]; [exact E|exfalso].
      assert (Hmk : (m < k)%nat) by lia.
      specialize (Hlt m Hmk). apply continue_after_spec in Hlt. destruct Hlt as [Hmax Hor].
      assert (Hr1 : (1 <= N.to_nat r)%nat).
      { assert (0 < r); [|lia]. apply (ceil_div_lt n (N.of_nat t) 0 Htn).
        assert (n <> 0); [|lia]. apply has_samples_count. unfold zero_case in Hz.
        destruct (has_samples c); [reflexivity|]. rewrite Bool.orb_true_r in Hz. discriminate. }
      unfold counted_after in Hor. rewrite (Hcnt m) in Hor by (unfold m; lia).
      replace (m - j0)%nat with (N.to_nat r) in Hor by (unfold m; lia). rewrite N2Nat.id in Hor.
      pose proof (ceil_div_ge n (N.of_nat t) Htn) as Hge. fold r in Hge. fold n in Hor.
      unfold pre in Hb. rewrite (elapsed_after_firstn c init hist k m) in Hb by lia.
      apply Bool.orb_true_iff in Hb. rewrite !N.leb_le in Hb. lia. }
    rewrite Hkm, Nat.eqb_refl. cbn [andb].
    destruct (seen_all t out s Hs) as [_ [_ [_ [_ [Hsam _]]]]].
    rewrite Hsam, Hst. cbn [spec_state s_store]. fold pre.
    rewrite store_of_samples_len, (kept_of_passed c pre j0 Ht Es Ef).
    rewrite (concat_len_uniform t) by (apply uniform_skipn; exact Hub).
    rewrite skipn_length, Hlen, Hkm. apply N.eqb_eq. unfold m. lia.
Qed.
