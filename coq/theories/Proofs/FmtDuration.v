(** Lemmas about Model/FmtDuration.v: the duration display equals the
    declarative specification for every picosecond value (all of [N]), never
    panics, never overflows its 128-bit intermediate; meaning of [duration_sb]. *)

From DivanV Require Import Base.Res Generated.Consts Model.FmtF64 Model.FmtDuration Proofs.FmtF64.
From Coq Require Import Lia ZifyBool ZifyN ZifyNat.
Ltac Zify.zify_post_hook ::= Z.div_mod_to_equations.
Local Open Scope N_scope.
Arguments N.add : simpl never.
Arguments N.sub : simpl never.
Arguments N.mul : simpl never.
Arguments N.div : simpl never.
Arguments N.modulo : simpl never.
Arguments N.pow : simpl never.

(** Evaluate closed powers of ten / two. *)
Ltac pow_eval :=
  repeat match goal with
  | |- context [?b ^ ?k] =>
      let v := eval vm_compute in (b ^ k) in
      progress change (b ^ k) with v
  | H : context [?b ^ ?k] |- _ =>
      let v := eval vm_compute in (b ^ k) in
      progress change (b ^ k) with v in H
  end.

Definition day_v : N := 86400000000000000.

Lemma sig_cases : forall sig, sig <= 7 ->
  sig = 0 \/ sig = 1 \/ sig = 2 \/ sig = 3 \/ sig = 4 \/ sig = 5 \/ sig = 6 \/ sig = 7.
Proof. intros. lia. Qed.

(** ** The two paths of the body *)

Lemma at_float : forall sig width p i u suf,
  sig <= 7 -> scale_picos i = Ok u -> scale_suffix i = Ok suf -> u <> 0 ->
  p < day_v * 10 ^ sig -> p * 10 ^ sig < u * 10 ^ 15 ->
  fmt_duration_at sig width p i = FOk (fill_to width (trunc_numeral p u sig ++ [ch_space] ++ suf))
  /\ p * pow10_sat128 sig < 2 ^ 128.
Proof.
  intros sig width p i u suf Hs Hu Hsuf Hu0 Hp Hn.
  unfold fmt_duration_at. rewrite Hu, Hsuf.
  change day_picos with (Ok day_v). cbn [fbind].
  assert (Hm : pow10_sat128 sig = 10 ^ sig) by (unfold pow10_sat128; destruct (39 <=? sig) eqn:E; [lia|reflexivity]).
  rewrite Hm.
  assert (Hov : p * 10 ^ sig < 2 ^ 128).
  { destruct (sig_cases sig Hs) as [->|[->|[->|[->|[->|[->|[->| ->]]]]]]]; unfold day_v in *; pow_eval; lia. }
  split; [|exact Hov].
  destruct ((day_v * 10 ^ sig <? 2 ^ 128) && (day_v * 10 ^ sig <=? p)) eqn:Ei; [lia|].
  unfold checked_mul. destruct (p * 10 ^ sig <? 2 ^ 128) eqn:Em; [|lia]. cbn [fbind].
  unfold checked_div. destruct (u =? 0) eqn:Eu; [lia|]. cbn [fbind].
  assert (Hg : f64_exact_guard (p * 10 ^ sig / u) sig = true).
  { unfold f64_exact_guard. apply andb_true_iff. split; [|lia].
    apply N.ltb_lt. apply N.div_lt_upper_bound; [exact Hu0|exact Hn]. }
  rewrite Hg. unfold f64_display_exact.
  rewrite format_trunc; [reflexivity|exact Hu0|]. pow_eval. lia.
Qed.

Lemma trunc_numeral_int : forall p u sig, u <> 0 -> 10 ^ sig <= p / u ->
  trunc_numeral p u sig = digits_of (p / u).
Proof.
  intros p u sig Hu Hq. unfold trunc_numeral.
  pose proof (digits_of_len_bounds (p / u)) as [Hub _].
  set (d := len (digits_of (p / u))) in *.
  assert (Hd : sig < d) by (apply pow10_lt_inv; lia).
  replace (sig - d) with 0 by lia. unfold render_fix. change (10 ^ 0) with 1.
  rewrite N.mul_1_r, N.div_1_r, N.mod_1_r. cbn [N.to_nat frac_part pad_digits strip0 rev drop_while0].
  now rewrite app_nil_r.
Qed.

Lemma at_int : forall sig width p i u suf,
  sig <= 7 -> scale_picos i = Ok u -> scale_suffix i = Ok suf ->
  day_v * 10 ^ sig <= p ->
  fmt_duration_at sig width p i = FOk (fill_to width (trunc_numeral p day_v sig ++ [ch_space] ++ suf)).
Proof.
  intros sig width p i u suf Hs Hu Hsuf Hp.
  unfold fmt_duration_at. rewrite Hu, Hsuf.
  change day_picos with (Ok day_v). cbn [fbind].
  assert (Hm : pow10_sat128 sig = 10 ^ sig) by (unfold pow10_sat128; destruct (39 <=? sig) eqn:E; [lia|reflexivity]).
  rewrite Hm.
  assert (Hov : day_v * 10 ^ sig < 2 ^ 128).
  { destruct (sig_cases sig Hs) as [->|[->|[->|[->|[->|[->|[->| ->]]]]]]]; unfold day_v in *; pow_eval; lia. }
  destruct ((day_v * 10 ^ sig <? 2 ^ 128) && (day_v * 10 ^ sig <=? p)) eqn:Ei; [|lia].
  unfold checked_div. change (day_v =? 0) with false. cbn [fbind].
  rewrite trunc_numeral_int; [reflexivity|unfold day_v; lia|].
  apply N.div_le_lower_bound; [unfold day_v; lia|lia].
Qed.

(** ** Scale selection *)

Lemma scale_index_cases : forall p,
  (p < 1000 /\ scale_index p = 0) \/
  (1000 <= p < 1000000 /\ scale_index p = 1) \/
  (1000000 <= p < 1000000000 /\ scale_index p = 2) \/
  (1000000000 <= p < 1000000000000 /\ scale_index p = 3) \/
  (1000000000000 <= p < 60000000000000 /\ scale_index p = 4) \/
  (60000000000000 <= p < 3600000000000000 /\ scale_index p = 5) \/
  (3600000000000000 <= p < 86400000000000000 /\ scale_index p = 6) \/
  (86400000000000000 <= p /\ scale_index p = 7).
Proof.
  intros p. unfold scale_index, unit_picos_table. cbn [scale_walk].
  repeat match goal with |- context [p <? ?c] => destruct (N.ltb_spec p c) end;
  let rec pick := first [ solve [split; [lia|reflexivity]] | left; solve [split; [lia|reflexivity]] | right; pick ] in
  pick.
Qed.

Definition unit_at (i : N) : N * str := nth (N.to_nat i) spec_units spec_ps.

Lemma spec_unit_by_index : forall sig p,
  spec_unit sig p =
  unit_at (if (scale_index p =? 0) && (3 <? sig) then 1 else scale_index p).
Proof.
  intros sig p. unfold spec_unit, spec_units. cbn [fold_left fst].
  destruct (scale_index_cases p) as [[H ->]|[[H ->]|[[H ->]|[[H ->]|[[H ->]|[[H ->]|[[H ->]|[H ->]]]]]]]];
  repeat match goal with |- context [?c <=? p] => destruct (N.leb_spec c p); try lia end;
  cbn [fst spec_ps N.eqb Pos.eqb andb]; destruct (3 <? sig); reflexivity.
Qed.

(** ** The display equals the specification (significant figures up to 7,
    any width, every picosecond value). *)
Lemma fmt_duration_with_spec : forall prec width p,
  sig_of prec <= 7 ->
  fmt_duration_with prec width p = FOk (spec_duration_string (sig_of prec) width p).
Proof.
  intros prec width p Hs. unfold fmt_duration_with, spec_duration_string.
  set (sig := sig_of prec) in *.
  rewrite spec_unit_by_index.
  change fmt_pico_as_nano_above with 3.
  set (i := if (scale_index p =? 0) && (3 <? sig) then 1 else scale_index p).
  assert (Hi : i = 0 /\ p < 1000 /\ sig <= 3 \/
               i = 1 /\ p < 1000000 \/
               i = 2 /\ 1000000 <= p < 1000000000 \/
               i = 3 /\ 1000000000 <= p < 1000000000000 \/
               i = 4 /\ 1000000000000 <= p < 60000000000000 \/
               i = 5 /\ 60000000000000 <= p < 3600000000000000 \/
               i = 6 /\ 3600000000000000 <= p < 86400000000000000 \/
               i = 7 /\ 86400000000000000 <= p).
  { unfold i. destruct (scale_index_cases p) as [[H ->]|[[H ->]|[[H ->]|[[H ->]|[[H ->]|[[H ->]|[[H ->]|[H ->]]]]]]]];
    cbn [N.eqb Pos.eqb andb]; try lia. destruct (3 <? sig) eqn:E; lia. }
  clearbody i.
  destruct Hi as [[-> [Hp Hs3]]|[[-> Hp]|[[-> Hp]|[[-> Hp]|[[-> Hp]|[[-> Hp]|[[-> Hp]|[-> Hp]]]]]]]];
  cbn [unit_at N.to_nat Pos.to_nat Pos.iter_op Nat.add nth spec_units spec_ps].
  8: { (* days: float or integer path *)
    destruct (N.lt_ge_cases p (day_v * 10 ^ sig)) as [Hlt|Hge].
    - eapply at_float; try reflexivity; try lia; try exact Hs; try exact Hlt.
      destruct (sig_cases sig Hs) as [E|[E|[E|[E|[E|[E|[E|E]]]]]]]; rewrite E in *; unfold day_v in *; pow_eval; lia.
    - eapply at_int; try reflexivity; try exact Hs; exact Hge. }
  all: eapply at_float; try reflexivity; try lia; try exact Hs;
    destruct (sig_cases sig Hs) as [E|[E|[E|[E|[E|[E|[E|E]]]]]]]; rewrite E in *; unfold day_v; pow_eval; lia.
Qed.

Lemma fmt_duration_spec : forall p, fmt_duration p = FOk (spec_duration_string 4 None p).
Proof. intros p. apply (fmt_duration_with_spec None None p). unfold sig_of, fmt_default_sig_figs. lia. Qed.

(** Never a panic, never [FInexact]; the 128-bit product of the float path
    does not overflow and the integer handed to [f64] is below 10^15 < 2^53. *)
Lemma fmt_duration_total : forall p, exists s, fmt_duration p = FOk s.
Proof. intros p. eexists. apply fmt_duration_spec. Qed.

Lemma fmt_duration_with_total : forall prec width p, sig_of prec <= 7 ->
  exists s, fmt_duration_with prec width p = FOk s.
Proof. intros. eexists. now apply fmt_duration_with_spec. Qed.

Lemma float_path_no_overflow : forall sig p, sig <= 7 -> p < day_v * 10 ^ sig ->
  p * pow10_sat128 sig < 2 ^ 128.
Proof.
  intros sig p Hs Hp.
  assert (Hm : pow10_sat128 sig = 10 ^ sig) by (unfold pow10_sat128; destruct (39 <=? sig) eqn:E; [lia|reflexivity]).
  rewrite Hm.
  destruct (sig_cases sig Hs) as [E|[E|[E|[E|[E|[E|[E|E]]]]]]]; rewrite E in *; unfold day_v in *; pow_eval; lia.
Qed.

(** The integer handed to [f64] on the float path (default precision) is
    below 10^15 < 2^53, so the conversion is exact. *)
Lemma float_operand_small : forall p, p < day_v * 10 ^ 4 ->
  p * 10 ^ 4 / fst (spec_unit 4 p) < 10 ^ 15 /\ 10 ^ 15 < 2 ^ 53.
Proof.
  intros p Hp. split; [|pow_eval; lia]. rewrite spec_unit_by_index. change (3 <? 4) with true.
  unfold day_v in Hp. pow_eval.
  destruct (scale_index_cases p) as [[H ->]|[[H ->]|[[H ->]|[[H ->]|[[H ->]|[[H ->]|[[H ->]|[H ->]]]]]]]];
  match goal with |- context [unit_at ?i] =>
    let v := eval vm_compute in (unit_at i) in change (unit_at i) with v end;
  cbn [fst]; apply N.div_lt_upper_bound; lia.
Qed.

(** ** Meaning of [duration_sb] *)

Lemma spec_unit_nz : forall sig p, fst (spec_unit sig p) <> 0.
Proof.
  intros. rewrite spec_unit_by_index.
  set (i := if (scale_index p =? 0) && (3 <? sig) then 1 else scale_index p).
  assert (Hi : i = 0 \/ i = 1 \/ i = 2 \/ i = 3 \/ i = 4 \/ i = 5 \/ i = 6 \/ i = 7).
  { unfold i. destruct (scale_index_cases p) as [[H ->]|[[H ->]|[[H ->]|[[H ->]|[[H ->]|[[H ->]|[[H ->]|[H ->]]]]]]]];
    cbn [N.eqb Pos.eqb andb]; try lia. destruct (3 <? sig); lia. }
  destruct Hi as [->|[->|[->|[->|[->|[->|[->| ->]]]]]]]; vm_compute; discriminate.
Qed.

Lemma spec_suffix_no_space : forall sig p, notin ch_space (snd (spec_unit sig p)).
Proof.
  intros. rewrite spec_unit_by_index.
  set (i := if (scale_index p =? 0) && (3 <? sig) then 1 else scale_index p).
  assert (Hi : i = 0 \/ i = 1 \/ i = 2 \/ i = 3 \/ i = 4 \/ i = 5 \/ i = 6 \/ i = 7).
  { unfold i. destruct (scale_index_cases p) as [[H ->]|[[H ->]|[[H ->]|[[H ->]|[[H ->]|[[H ->]|[[H ->]|[H ->]]]]]]]];
    cbn [N.eqb Pos.eqb andb]; try lia. destruct (3 <? sig); lia. }
  destruct Hi as [->|[->|[->|[->|[->|[->|[->| ->]]]]]]]; vm_compute;
  repeat (constructor; [intros HH; discriminate HH|]); constructor.
Qed.

Lemma str_eqb_eq : forall x y, str_eqb x y = true <-> x = y.
Proof.
  induction x as [|a x IH]; intros [|b y]; cbn [str_eqb]; split; intros H; try discriminate; try reflexivity.
  - apply andb_true_iff in H. destruct H as [H1 H2]. apply N.eqb_eq in H1. apply IH in H2. now subst.
  - inversion H; subst. rewrite N.eqb_refl. cbn [andb]. now apply IH.
Qed.

Lemma trunc_numeral_no_space : forall a b sig, notin ch_space (trunc_numeral a b sig).
Proof. intros. unfold trunc_numeral. apply render_fix_no_space. Qed.

Lemma fill_to_split : forall width num suffix,
  fill_to width (num ++ [ch_space] ++ suffix) =
  num ++ ch_space :: suffix ++
    repeat_byte ch_space (N.to_nat (match width with None => 0 | Some w => w - (len num + 1 + len suffix) end)).
Proof.
  intros width num suffix. unfold fill_to.
  assert (Hl : len (num ++ [ch_space] ++ suffix) = len num + 1 + len suffix).
  { rewrite !len_app, len_cons, len_nil. lia. }
  destruct width as [w|].
  - rewrite Hl. destruct (len num + 1 + len suffix <=? w) eqn:E.
    + rewrite <- !app_assoc. reflexivity.
    + replace (w - (len num + 1 + len suffix)) with 0 by lia. cbn [N.to_nat repeat_byte repeat].
      rewrite app_nil_r. reflexivity.
  - cbn [N.to_nat repeat_byte repeat]. rewrite app_nil_r. reflexivity.
Qed.

Lemma duration_sb_spec : forall sig width p out,
  duration_sb sig width p out = true <-> out = FOk (spec_duration_string sig width p).
Proof.
  intros sig width p out. unfold duration_sb, spec_duration_string.
  pose proof (spec_unit_nz sig p) as Hu. pose proof (spec_suffix_no_space sig p) as Hsuf.
  destruct (spec_unit sig p) as [u suffix]. cbn [fst snd] in Hu, Hsuf.
  rewrite fill_to_split.
  destruct out as [s| |]; [|split; intros; discriminate|split; intros; discriminate].
  split.
  - intros H. destruct (split_at ch_space s) as [num orest] eqn:Es.
    apply split_at_inv in Es. destruct Es as [_ Es].
    destruct orest as [rest|]; [|discriminate].
    apply andb_true_iff in H. destruct H as [Hn Hr].
    apply numeral_sb_spec in Hn; [|exact Hu]. apply str_eqb_eq in Hr. subst. reflexivity.
  - intros H. inversion H; subst. clear H.
    rewrite split_at_app by apply trunc_numeral_no_space.
    rewrite numeral_sb_complete by exact Hu. cbn [andb]. apply str_eqb_eq. reflexivity.
Qed.

Lemma duration_model_sb : forall prec width p, sig_of prec <= 7 ->
  duration_sb (sig_of prec) width p (fmt_duration_with prec width p) = true.
Proof. intros. apply duration_sb_spec. now apply fmt_duration_with_spec. Qed.

(** ** Readable forms for Properties/C18.v *)

Lemma duration_trunc : forall p,
  let '(u, suffix) := spec_unit 4 p in
  let d := len (digits_of (p / u)) in
  let k := 4 - d in
  fmt_duration p = FOk (render_fix (p * 10 ^ k / u) k ++ [ch_space] ++ suffix).
Proof.
  intros p. pose proof (fmt_duration_spec p) as H. unfold spec_duration_string in H.
  destruct (spec_unit 4 p) as [u suffix]. exact H.
Qed.

Lemma duration_with_trunc : forall prec width p,
  sig_of prec <= 7 ->
  let sig := sig_of prec in
  let '(u, suffix) := spec_unit sig p in
  let d := len (digits_of (p / u)) in
  let k := sig - d in
  fmt_duration_with prec width p =
  FOk (fill_to width (render_fix (p * 10 ^ k / u) k ++ [ch_space] ++ suffix)).
Proof.
  intros prec width p Hs. pose proof (fmt_duration_with_spec prec width p Hs) as H.
  unfold spec_duration_string in H. cbv zeta.
  destruct (spec_unit (sig_of prec) p) as [u suffix]. exact H.
Qed.

(** [spec_unit] is what the property says: one of the eight units, the largest
    one not exceeding [p]; below 1 ns: ns (more than 3 significant figures) or ps. *)
Lemma spec_unit_largest : forall sig p,
  In (spec_unit sig p) spec_units /\
  (1000 <= p -> fst (spec_unit sig p) <= p /\
                forall u, In u spec_units -> fst u <= p -> fst u <= fst (spec_unit sig p)) /\
  (p < 1000 -> spec_unit sig p = if 3 <? sig then spec_ns else spec_ps).
Proof.
  intros sig p. rewrite spec_unit_by_index.
  destruct (scale_index_cases p) as [[H ->]|[[H ->]|[[H ->]|[[H ->]|[[H ->]|[[H ->]|[[H ->]|[H ->]]]]]]]];
  cbn [N.eqb Pos.eqb andb];
  try (destruct (3 <? sig));
  match goal with |- context [unit_at ?i] =>
    let v := eval vm_compute in (unit_at i) in change (unit_at i) with v end;
  (split; [unfold spec_units; cbn [In]; tauto|]); (split; [|intros; try lia; reflexivity]);
  intros Hp; try lia; cbn [fst]; (split; [lia|]);
  intros u Hu Hle; unfold spec_units in Hu; cbn [In] in Hu;
  repeat (destruct Hu as [<-|Hu]; [cbn [fst] in *; lia|]); contradiction.
Qed.

(** The guards of the theorems are satisfiable by non-trivial values. *)
Example duration_with_guard_satisfiable :
  sig_of (Some 0) <= 7 /\ sig_of None <= 7 /\
  fmt_duration_with (Some 0) (Some 6) 1001 = FOk [49; 32; 110; 115; 32; 32].
Proof. vm_compute. repeat split; discriminate. Qed.

Example no_overflow_guard_satisfiable : 4 <= 7 /\ 2 ^ 64 + 1 < day_v * 10 ^ 4.
Proof. vm_compute. split; [discriminate|reflexivity]. Qed.

(** Outside the theorems' guard (recorded, not part of C18's quantifier: the
    table printer never asks for a precision): from 11 significant figures on
    the code's [picos * multiple] overflows u128 for values still on the float
    path (debug build: panic; release build: wraps and prints garbage), and
    from 8 on the pre-scaled integer can exceed 2^53, where the model's float
    assumption no longer applies (the implementation then rounds up:
    [{:.8}] of 8639999999999999999999999 ps prints "100000000 d"). *)
Example large_precision_overflows :
  fmt_duration_with (Some 20) None (10 ^ 19) = FPanic Overflow.
Proof. reflexivity. Qed.

Example precision_8_outside_float_assumption :
  fmt_duration_with (Some 8) None 8639999999999999999999999 = FInexact.
Proof. reflexivity. Qed.

(** ** Glue for C05: a duration never prints "NaN" or "inf" *)

Lemma spec_unit_suffix_letters : forall sig p,
  In (snd (spec_unit sig p)) (map snd spec_units) /\
  ~ In 78 (snd (spec_unit sig p)) /\ ~ In 102 (snd (spec_unit sig p)).
Proof.
  intros. rewrite spec_unit_by_index.
  set (i := if (scale_index p =? 0) && (3 <? sig) then 1 else scale_index p).
  assert (Hi : i = 0 \/ i = 1 \/ i = 2 \/ i = 3 \/ i = 4 \/ i = 5 \/ i = 6 \/ i = 7).
  { unfold i. destruct (scale_index_cases p) as [[H ->]|[[H ->]|[[H ->]|[[H ->]|[[H ->]|[[H ->]|[[H ->]|[H ->]]]]]]]];
    cbn [N.eqb Pos.eqb andb]; try lia. destruct (3 <? sig); lia. }
  destruct Hi as [->|[->|[->|[->|[->|[->|[->| ->]]]]]]]; vm_compute;
  (split; [tauto|]); split; intros HH;
  repeat (destruct HH as [HH|HH]; [discriminate HH|]); exact HH.
Qed.

Lemma duration_prints_no_nan : forall p,
  exists num suffix,
    fmt_duration p = FOk (num ++ [ch_space] ++ suffix) /\
    numeral_chars num /\ In suffix (map snd spec_units) /\
    ~ contains nan_str (num ++ [ch_space] ++ suffix) /\
    ~ contains inf_str (num ++ [ch_space] ++ suffix).
Proof.
  intros p. pose proof (fmt_duration_spec p) as H. unfold spec_duration_string in H.
  pose proof (spec_unit_suffix_letters 4 p) as [Hin [H78 H102]].
  destruct (spec_unit 4 p) as [u suffix]. cbn [snd fill_to] in *.
  exists (trunc_numeral p u 4), suffix. split; [exact H|].
  split; [apply trunc_numeral_chars|]. split; [exact Hin|].
  apply no_nan_inf; [apply trunc_numeral_chars|exact H78|exact H102].
Qed.
