(** Proofs about the pool model, part 3: the ghost log of task calls.  [Inv2]
    relates the log to the control state (index [i] of the current broadcast is
    in the log iff the control state says it has been called), keeps the log
    duplicate free, freezes what was logged for returned broadcasts, and ties
    the return records to the script.  Consequences: C06 once-per-index and
    returns-after-all. *)

From DivanV Require Import Base.Res Generated.Consts Model.Pool Proofs.Pool.
From Coq Require Import Arith Lia List Bool FinFun.
Import ListNotations.
Import PoolM.

Arguments Nat.sub : simpl never.
Arguments Nat.mul : simpl never.
Arguments Nat.eqb : simpl never.
Arguments Nat.leb : simpl never.
Arguments Nat.ltb : simpl never.

(** * [called] depends on little *)

Lemma called_ext s s' :
  caller_ran (cst s') = caller_ran (cst s) -> sent (cst s') = sent (cst s) -> cur s' = cur s ->
  (forall j, option_map (is_wrun (cur s)) (nth_error (ws s') j) = option_map (is_wrun (cur s)) (nth_error (ws s) j)) ->
  forall i, called s' i = called s i.
Proof.
  intros H1 H2 H3 H4 [|j]; cbn; auto.
  rewrite H2, H3. specialize (H4 j).
  destruct (nth_error (ws s') j), (nth_error (ws s) j); cbn in H4; try discriminate; auto.
  inversion H4. now rewrite H0.
Qed.

Lemma wrun_set_nth cu j (w w' : wstate) l :
  nth_error l j = Some w -> is_wrun cu w' = is_wrun cu w ->
  forall j', option_map (is_wrun cu) (nth_error (set_nth j w' l) j') = option_map (is_wrun cu) (nth_error l j').
Proof.
  intros E H j'. destruct (Nat.eq_dec j j') as [<-|N].
  - rewrite nth_error_set_nth_eq by (eapply nth_error_lt; eauto). rewrite E. cbn. now rewrite H.
  - now rewrite nth_error_set_nth_neq.
Qed.

(** * The invariant *)

Definition ret_ok (s : state) (r : ret) : Prop :=
  (if in_broadcast (cst s) then r_b r < cur s else r_b r <= cur s)
  /\ forall i, In (r_b r, i) (calls s) <-> i <= r_n r.

Record Inv2 (scr : list nat) (s : state) : Prop := {
  J_nodup : NoDup (calls s);
  J_le : forall d, In d (calls s) -> fst d <= cur s;
  J_pan : incl (panics s) (calls s);
  J_cur : in_broadcast (cst s) = true -> forall i, In (cur s, i) (calls s) <-> called s i = true;
  J_pos : in_broadcast (cst s) = true -> 1 <= cur s;
  J_ret : Forall (ret_ok s) (returned s);
  J_len : length (returned s) = if in_broadcast (cst s) then cur s - 1 else cur s;
  J_num : map r_b (returned s) = seq 1 (length (returned s));
  J_hist : map r_n (returned s) ++ (if in_broadcast (cst s) then [bcast_n (cst s)] else []) ++ script s = scr
}.

Lemma inv2_init scr : Inv2 scr (init scr).
Proof.
  constructor; cbn; auto.
  - constructor.
  - intros d [].
  - intros d [].
  - discriminate.
  - discriminate.
Qed.

(** Steps that leave the log, the records and the broadcast alone. *)
Lemma inv2_same scr s s' :
  calls s' = calls s -> panics s' = panics s -> returned s' = returned s -> cur s' = cur s ->
  in_broadcast (cst s') = in_broadcast (cst s) -> bcast_n (cst s') = bcast_n (cst s) -> script s' = script s ->
  (in_broadcast (cst s) = true -> forall i, called s' i = called s i) ->
  Inv2 scr s -> Inv2 scr s'.
Proof.
  intros Hc Hp Hr Hu Hi Hn Hs Hcal J.
  constructor.
  - rewrite Hc. apply J.
  - rewrite Hc, Hu. apply J.
  - rewrite Hp, Hc. apply J.
  - rewrite Hi, Hu, Hc. intros B i. rewrite Hcal by auto. now apply (J_cur _ _ J).
  - rewrite Hi, Hu. apply J.
  - rewrite Hr. eapply Forall_impl; [|exact (J_ret _ _ J)]. intros r [R1 R2]. split.
    + now rewrite Hi, Hu.
    + now rewrite Hc.
  - rewrite Hr, Hi, Hu. apply J.
  - rewrite Hr. apply J.
  - rewrite Hr, Hi, Hn, Hs. apply J.
Qed.

Lemma NoDup_snoc {A} (l : list A) x : NoDup l -> ~ In x l -> NoDup (l ++ [x]).
Proof.
  intros N H.
  induction l as [|h t IH]; cbn.
  - constructor; [intros []|constructor].
  - inversion N; subst. constructor.
    + rewrite in_app_iff. cbn. intros [X|[X|[]]]; [contradiction|]. subst. apply H. now left.
    + apply IH; auto. intro X. apply H. now right.
Qed.

Lemma in_snoc {A} (l : list A) x y : In y (l ++ [x]) <-> In y l \/ y = x.
Proof. rewrite in_app_iff. cbn. intuition. Qed.

(** Logging one more call [(cur, x)] during a broadcast. *)
Lemma inv2_log scr s s' x (p : bool) :
  Inv2 scr s -> in_broadcast (cst s) = true ->
  calls s' = calls s ++ [(cur s, x)] -> panics s' = (if p then panics s ++ [(cur s, x)] else panics s) ->
  returned s' = returned s -> cur s' = cur s ->
  in_broadcast (cst s') = in_broadcast (cst s) -> bcast_n (cst s') = bcast_n (cst s) -> script s' = script s ->
  called s x = false ->
  (forall i, called s' i = if Nat.eqb i x then true else called s i) ->
  Inv2 scr s'.
Proof.
  intros J B Hc Hp Hr Hu Hi Hn Hs Hx Hcal.
  assert (Nin : ~ In (cur s, x) (calls s)).
  { intro X. apply (J_cur _ _ J B) in X. congruence. }
  constructor.
  - rewrite Hc. apply NoDup_snoc; auto. apply J.
  - rewrite Hc, Hu. intros d. rewrite in_snoc. intros [X| ->]; [now apply (J_le _ _ J)|]. cbn. lia.
  - rewrite Hp, Hc. destruct p.
    + intros d. rewrite !in_snoc. intros [X| ->]; auto. left. now apply (J_pan _ _ J).
    + intros d X. rewrite in_snoc. left. now apply (J_pan _ _ J).
  - rewrite Hu, Hc. intros _ i. rewrite in_snoc, Hcal. destruct (Nat.eqb i x) eqn:E.
    + apply Nat.eqb_eq in E. subst. intuition.
    + apply Nat.eqb_neq in E. rewrite (J_cur _ _ J B). split; [intros [X|X]; auto; congruence|auto].
  - rewrite Hi, Hu. apply J.
  - rewrite Hr. eapply Forall_impl; [|exact (J_ret _ _ J)]. intros r [R1 R2]. rewrite B in R1. split.
    + rewrite Hi, B, Hu. exact R1.
    + rewrite Hc. intros i. rewrite in_snoc, <- R2. split; [intros [X|X]; auto; inversion X; lia|auto].
  - rewrite Hr, Hi, Hu. apply J.
  - rewrite Hr. apply J.
  - rewrite Hr, Hi, Hn, Hs. apply J.
Qed.

(** ** Each transition *)

Lemma inv2_begin scr s n rest :
  Inv s -> Inv2 scr s -> cst s = CIdle -> script s = n :: rest -> Inv2 scr (st_begin s n rest).
Proof.
  intros I J Hc Es.
  assert (B' : in_broadcast (if Nat.eqb n 0 then CRun 0 else CSend 1 n) = true) by now destruct (Nat.eqb n 0).
  assert (N' : bcast_n (if Nat.eqb n 0 then CRun 0 else CSend 1 n) = n).
  { destruct (Nat.eqb n 0) eqn:E; cbn; auto. apply Nat.eqb_eq in E. auto. }
  constructor; unfold st_begin; cbn.
  - apply J.
  - intros d X. apply (J_le _ _ J) in X. lia.
  - apply J.
  - intros _ i. split.
    + intro X. apply (J_le _ _ J) in X. cbn in X. lia.
    + intro X. exfalso. destruct i as [|j]; cbn in X.
      * destruct (Nat.eqb n 0); discriminate.
      * apply andb_prop in X. destruct X as [X _]. apply Nat.ltb_lt in X.
        destruct (Nat.eqb n 0); cbn in X; lia.
  - lia.
  - eapply Forall_impl; [|exact (J_ret _ _ J)]. intros r [R1 R2]. rewrite Hc in R1. cbn in R1.
    split; auto. cbn. rewrite B'. lia.
  - rewrite B'. pose proof (J_len _ _ J) as L. rewrite Hc in L. cbn in L. lia.
  - apply J.
  - rewrite B', N'. pose proof (J_hist _ _ J) as H. rewrite Hc, Es in H. cbn in H. exact H.
Qed.

Lemma inv2_send scr s j n :
  Inv s -> Inv2 scr s -> cst s = CSend (S j) n -> nth_error (ws s) j = Some WIdle ->
  Inv2 scr (st_send s (S j) n).
Proof.
  intros I J Hc Hj.
  pose proof (I_rc s I) as R. unfold rc_ok in R. rewrite Hc in R. destruct R as (_ & _ & R3 & _).
  eapply inv2_same; [..|exact J]; cbn; auto.
  - rewrite Hc. now destruct (Nat.eqb (S j) n).
  - rewrite Hc. now destruct (Nat.eqb (S j) n).
  - intros _ [|j']; cbn.
    + rewrite Hc. now destruct (Nat.eqb (S j) n).
    + rewrite Hc. cbn.
      destruct (Nat.eq_dec j j') as [<-|N].
      * rewrite nth_error_set_nth_eq by (eapply nth_error_lt; eauto). rewrite Hj. cbn.
        rewrite Nat.eqb_refl. cbn. rewrite andb_false_r.
        symmetry. apply andb_false_intro1. apply Nat.ltb_ge. lia.
      * rewrite nth_error_set_nth_neq by auto. f_equal.
        destruct (Nat.eqb (S j) n) eqn:E; cbn.
        -- apply Nat.eqb_eq in E. subst n.
           destruct (Nat.ltb (S j') (S (S j))) eqn:A, (Nat.ltb (S j') (S j)) eqn:B; auto;
             [apply Nat.ltb_lt in A; apply Nat.ltb_ge in B|apply Nat.ltb_ge in A; apply Nat.ltb_lt in B]; lia.
        -- destruct (Nat.ltb (S j') (S (S j))) eqn:A, (Nat.ltb (S j') (S j)) eqn:B; auto;
             [apply Nat.ltb_lt in A; apply Nat.ltb_ge in B|apply Nat.ltb_ge in A; apply Nat.ltb_lt in B]; lia.
Qed.

Lemma inv2_run0 scr s n p : Inv s -> Inv2 scr s -> cst s = CRun n -> Inv2 scr (st_run0 s n p).
Proof.
  intros I J Hc.
  eapply (inv2_log scr s _ 0 p); eauto; cbn; try (now rewrite Hc).
  intros [|j]; cbn; auto. now rewrite Hc.
Qed.

Lemma inv2_topark scr s n cv : Inv2 scr s -> cst s = CLoad n -> Inv2 scr (st_topark s n cv).
Proof.
  intros J Hc. eapply inv2_same; [..|exact J]; cbn; auto; try (now rewrite Hc).
  intros _. apply called_ext; cbn; auto; now rewrite Hc.
Qed.

Lemma inv2_to_load scr s n tok : Inv2 scr s -> cst s = CPark n -> Inv2 scr (to_load s n tok).
Proof.
  intros J Hc. eapply inv2_same; [..|exact J]; cbn; auto; try (now rewrite Hc).
  intros _. apply called_ext; cbn; auto; now rewrite Hc.
Qed.

(** At return every index [0..n] has been called (and nothing else). *)
Lemma all_called_at_return scr s n :
  Inv s -> Inv2 scr s -> cst s = CLoad n -> rc s = 0 ->
  forall i, In (cur s, i) (calls s) <-> i <= n.
Proof.
  intros I J Hc Hr i.
  pose proof (I_rc s I) as R. unfold rc_ok in R. rewrite Hc in R. destruct R as (R1 & R2).
  assert (Z : Forall (fun w => pre_dec (cur s) w = false) (ws s)).
  { apply count_zero_forall. unfold count_pre in R1. lia. }
  rewrite (J_cur _ _ J) by now rewrite Hc.
  destruct i as [|j]; cbn; rewrite Hc; cbn.
  - split; auto. lia.
  - destruct (nth_error (ws s) j) as [w|] eqn:E.
    + pose proof (Forall_nth_error _ _ _ _ Z E) as Pw.
      assert (Wr : is_wrun (cur s) w = false) by (destruct w; cbn in *; auto).
      rewrite Wr. cbn. rewrite andb_true_r. rewrite Nat.ltb_lt. lia.
    + apply nth_error_None in E. rewrite andb_false_r. split; [discriminate|lia].
Qed.

Lemma inv2_return scr s n cv tok :
  Inv s -> Inv2 scr s -> cst s = CLoad n -> rc s = 0 -> Inv2 scr (do_return s n cv tok).
Proof.
  intros I J Hc Hr.
  assert (B : in_broadcast (cst s) = true) by now rewrite Hc.
  pose proof (J_pos _ _ J B) as P.
  pose proof (J_len _ _ J) as L. rewrite B in L.
  constructor; unfold do_return; cbn; try apply J.
  - discriminate.
  - discriminate.
  - apply Forall_app. split.
    + eapply Forall_impl; [|exact (J_ret _ _ J)]. intros r [R1 R2]. rewrite B in R1. split; auto. cbn. lia.
    + constructor; [|constructor]. split; cbn; [lia|]. eapply all_called_at_return; eauto.
  - rewrite app_length. cbn. lia.
  - rewrite map_app, app_length. cbn. rewrite seq_app. rewrite <- (J_num _ _ J). cbn. f_equal. f_equal. lia.
  - pose proof (J_hist _ _ J) as H. rewrite B, Hc in H. cbn in H. rewrite map_app. cbn.
    rewrite <- app_assoc. exact H.
Qed.

Lemma inv2_wrun scr s j b p :
  Inv s -> Inv2 scr s -> nth_error (ws s) j = Some (WRun b) -> Inv2 scr (st_wrun s (S j) b p).
Proof.
  intros I J Hj.
  pose proof (Forall_nth_error _ _ _ _ (I_wf s I) Hj) as Wf. cbn in Wf. destruct Wf as [-> Al].
  assert (B : in_broadcast (cst s) = true) by (rewrite <- (I_alive s I); exact Al).
  pose proof (I_sent s I j _ Hj eq_refl) as Sn.
  eapply (inv2_log scr s _ (S j) p); eauto; cbn.
  - rewrite Hj. cbn. rewrite Nat.eqb_refl. cbn. apply andb_false_r.
  - intros [|j']; cbn; auto.
    destruct (Nat.eqb (S j') (S j)) eqn:E.
    + apply Nat.eqb_eq in E. inversion E; subst j'.
      rewrite nth_error_set_nth_eq by (eapply nth_error_lt; eauto). cbn.
      rewrite andb_true_r. apply Nat.ltb_lt. exact Sn.
    + apply Nat.eqb_neq in E. rewrite nth_error_set_nth_neq by congruence. reflexivity.
Qed.

Lemma inv2_worker scr s j w w' s' :
  Inv2 scr s -> nth_error (ws s) j = Some w -> is_wrun (cur s) w' = is_wrun (cur s) w ->
  ws s' = set_nth j w' (ws s) -> cst s' = cst s -> cur s' = cur s ->
  calls s' = calls s -> panics s' = panics s -> returned s' = returned s -> script s' = script s ->
  Inv2 scr s'.
Proof.
  intros J Hj Hw Hws Hc Hu Hca Hp Hr Hs.
  eapply inv2_same; [..|exact J]; auto; try (now rewrite Hc).
  intros _. apply called_ext; auto; try (now rewrite Hc).
  rewrite Hws. eapply wrun_set_nth; eauto.
Qed.

Lemma inv2_drop scr s : Inv2 scr s -> cst s = CIdle -> script s = [] -> Inv2 scr (st_drop s).
Proof.
  intros J Hc Es. eapply inv2_same; [..|exact J]; cbn; auto; try (now rewrite Hc).
Qed.

Lemma inv2_wexit scr s j : Inv2 scr s -> cst s = CDone -> Inv2 scr (st_wexit s (S j)).
Proof.
  intros J Hc. eapply inv2_same; [..|exact J]; cbn; auto; try (now rewrite Hc).
Qed.

Theorem inv2_step c scr s l s' : good c -> Inv s -> Inv2 scr s -> step c s l = Some s' -> Inv2 scr s'.
Proof.
  intros G I J H. pose proof G as (G1 & G2 & G3). apply step_inv in H. destruct l; cbn in H.
  - destruct H as (Hc & rest & Es & ->). now apply inv2_begin.
  - destruct H as (n & Hc & Hg & ->). destruct (getw_pos _ _ _ Hg) as (j & -> & Hj). now apply inv2_send.
  - destruct H as (n & Hc & ->). now apply inv2_run0.
  - destruct H as (n & Hc & ->). rewrite leave_good by auto.
    destruct (Nat.eqb (rc s) 0) eqn:E.
    + apply Nat.eqb_eq in E. now apply inv2_return.
    + now apply inv2_topark.
  - destruct H as (n & Hc & _ & ->). rewrite G2. now apply inv2_to_load.
  - destruct H as (n & Hc & ->). rewrite G2. now apply inv2_to_load.
  - destruct H as (b & Hg & ->). destruct (getw_pos _ _ _ Hg) as (j & -> & Hj). now apply inv2_wrun.
  - destruct H as (b & Hg & ->). destruct (getw_pos _ _ _ Hg) as (j & -> & Hj).
    eapply (inv2_worker scr s j _ (WDec b)); eauto.
  - destruct H as (b & Hg & ->). destruct (getw_pos _ _ _ Hg) as (j & -> & Hj).
    eapply (inv2_worker scr s j (WDec b) (if Nat.eqb (rc s) (c_unpark_old c) then WUnpark b else WIdle)); eauto.
    cbn. now destruct (Nat.eqb (rc s) (c_unpark_old c)).
  - destruct H as (b & Hg & ->). destruct (getw_pos _ _ _ Hg) as (j & -> & Hj).
    eapply (inv2_worker scr s j _ WIdle); eauto.
  - destruct H as (Hc & Es & ->). now apply inv2_drop.
  - destruct H as (Hc & Hg & ->). destruct (getw_pos _ _ _ Hg) as (j & -> & Hj). now apply inv2_wexit.
Qed.

Theorem inv2_reachable c scr s : good c -> reachable c scr s -> Inv2 scr s.
Proof.
  intros G R. induction R.
  - apply inv2_init.
  - eapply inv2_step; eauto. eapply inv_reachable; eauto.
Qed.

(** * From the Prop-level statement to the boolean observation *)

Lemma call_eqb_eq a b : call_eqb a b = true <-> a = b.
Proof.
  destruct a as [a1 a2], b as [b1 b2]. unfold call_eqb. cbn.
  rewrite andb_true_iff, !Nat.eqb_eq. split; [intros [-> ->]; auto|intro H; inversion H; auto].
Qed.

Lemma vmem_In c v : vmem c v = true <-> In c v.
Proof.
  unfold vmem. rewrite existsb_exists. split.
  - intros (x & Hx & E). apply call_eqb_eq in E. now subst.
  - intro H. exists c. split; auto. now apply call_eqb_eq.
Qed.

Lemma filter_none c l : ~ In c l -> filter (call_eqb c) l = [].
Proof.
  induction l as [|h t IH]; cbn; auto. intro H.
  destruct (call_eqb c h) eqn:E.
  - apply call_eqb_eq in E. subst. exfalso. apply H. now left.
  - apply IH. intro X. apply H. now right.
Qed.

Lemma count_call_once c l : NoDup l -> In c l -> count_call c l = 1.
Proof.
  unfold count_call. induction l as [|h t IH]; cbn; [intros _ []|].
  intros N H. inversion N; subst.
  destruct (call_eqb c h) eqn:E.
  - apply call_eqb_eq in E. subst. rewrite filter_none by auto. reflexivity.
  - destruct H as [->|H]; [|now apply IH].
    assert (X : call_eqb c c = true) by now apply call_eqb_eq. congruence.
Qed.

Lemma once_per_index_intro s b n :
  NoDup (calls s) -> (forall i, In (b, i) (calls s) <-> i <= n) -> once_per_index s b n = true.
Proof.
  intros N H. unfold once_per_index. apply andb_true_intro. split.
  - apply forallb_forall. intros i Hi. apply in_seq in Hi. apply Nat.eqb_eq.
    apply count_call_once; auto. apply H. lia.
  - apply Nat.eqb_eq.
    set (F := filter (fun d : call => Nat.eqb (fst d) b) (calls s)).
    set (M := map (pair b) (seq 0 (S n))).
    assert (NF : NoDup F) by (apply NoDup_filter; auto).
    assert (NM : NoDup M).
    { apply Injective_map_NoDup; [|apply seq_NoDup]. intros x y E. now inversion E. }
    assert (FM : forall d, In d F <-> In d M).
    { intros [b' i]. unfold F, M. rewrite filter_In, in_map_iff. cbn [fst]. rewrite Nat.eqb_eq. split.
      - intros [X ->]. exists i. split; auto. apply in_seq. apply H in X. lia.
      - intros (i' & E & X). inversion E; subst. apply in_seq in X. split; auto. apply H. lia. }
    assert (L1 : length F <= length M) by (apply NoDup_incl_length; auto; intros d; apply FM).
    assert (L2 : length M <= length F) by (apply NoDup_incl_length; auto; intros d; apply FM).
    assert (LM : length M = S n) by (unfold M; now rewrite map_length, seq_length).
    change (length F = S n). lia.
Qed.

(** * Consequences *)

(** Every returned broadcast [r_b] with [r_n] auxiliary threads had each index
    [0..=r_n] called exactly once and nothing else; this stays true for the
    rest of the execution. *)
Theorem once_per_index_returned c scr s r :
  good c -> reachable c scr s -> In r (returned s) ->
  once_per_index s (r_b r) (r_n r) = true
  /\ NoDup (calls s) /\ (forall i, In (r_b r, i) (calls s) <-> i <= r_n r).
Proof.
  intros G R Hr. pose proof (inv2_reachable _ _ _ G R) as J.
  pose proof (J_ret _ _ J) as Rt. rewrite Forall_forall in Rt. destruct (Rt _ Hr) as [_ H].
  repeat split; try apply H; try apply J. apply once_per_index_intro; auto. apply J.
Qed.

(** Index 0 is called by the caller and index [k >= 1] by worker [k]: the only
    transitions that log a call. *)
Theorem call_sites c s l s' :
  step c s l = Some s' ->
  calls s' = calls s
  \/ (exists p, l = ERun0 p /\ calls s' = calls s ++ [(cur s, 0)])
  \/ (exists k p b, l = EWRun k p /\ getw s k = Some (WRun b) /\ 1 <= k /\ calls s' = calls s ++ [(b, k)]).
Proof.
  intro H. apply step_inv in H. destruct l; cbn in H.
  - destruct H as (_ & rest & _ & ->). now left.
  - destruct H as (n & _ & _ & ->). now left.
  - destruct H as (n & _ & ->). right. left. eauto.
  - destruct H as (n & _ & ->). left. now destruct (leave c s).
  - destruct H as (n & _ & _ & ->). left. now destruct (c_loop c).
  - destruct H as (n & _ & ->). left. now destruct (c_loop c).
  - destruct H as (b & Hg & ->). right. right. exists k, p, b. repeat split; auto.
    destruct k; [discriminate|lia].
  - destruct H as (b & _ & ->). now left.
  - destruct H as (b & _ & ->). now left.
  - destruct H as (b & _ & ->). now left.
  - destruct H as (_ & _ & ->). now left.
  - destruct H as (_ & _ & ->). now left.
Qed.

(** The records are the broadcasts of the script, in order. *)
Theorem returned_is_script c scr s :
  good c -> reachable c scr s -> final s = true ->
  map r_n (returned s) = scr /\ map r_b (returned s) = seq 1 (length scr).
Proof.
  intros G R F. pose proof (inv2_reachable _ _ _ G R) as J.
  unfold final in F. destruct (cst s) eqn:Hc; try discriminate.
  pose proof (J_hist _ _ J) as H. rewrite Hc in H. cbn in H.
  assert (Es : script s = []).
  { clear - R Hc. induction R; [discriminate|].
    apply step_inv in H. destruct l; cbn in H.
    - destruct H as (_ & rest & _ & ->). cbn in Hc. destruct (Nat.eqb n 0); discriminate.
    - destruct H as (n & _ & _ & ->). cbn in Hc. destruct (Nat.eqb k n); discriminate.
    - destruct H as (n & _ & ->). discriminate.
    - destruct H as (n & _ & ->). destruct (leave c s); discriminate.
    - destruct H as (n & _ & _ & ->). destruct (c_loop c); discriminate.
    - destruct H as (n & _ & ->). destruct (c_loop c); discriminate.
    - destruct H as (b & _ & ->). cbn in *. auto.
    - destruct H as (b & _ & ->). cbn in *. auto.
    - destruct H as (b & _ & ->). cbn in *. auto.
    - destruct H as (b & _ & ->). cbn in *. auto.
    - destruct H as (_ & _ & ->). reflexivity.
    - destruct H as (Hd & _ & ->). cbn. auto. }
  rewrite Es, app_nil_r in H. split; auto.
  rewrite (J_num _ _ J). f_equal. rewrite <- H. now rewrite map_length.
Qed.

(** The caller leaves the wait loop (any step from inside a broadcast to
    outside) only when the counter is zero, no worker is still before its
    decrement, and all [n + 1] calls have been made. *)
Theorem returns_after_all c scr s l s' :
  good c -> reachable c scr s -> step c s l = Some s' ->
  in_broadcast (cst s) = true -> in_broadcast (cst s') = false ->
  rc s = 0 /\ Forall (fun w => any_pre w = false) (ws s)
  /\ (forall i, In (cur s, i) (calls s) <-> i <= bcast_n (cst s))
  /\ exists r, returned s' = returned s ++ [r] /\ r_b r = cur s /\ r_n r = bcast_n (cst s).
Proof.
  intros G R H B B'. pose proof G as (G1 & G2 & G3).
  pose proof (inv_reachable _ _ _ G R) as I. pose proof (inv2_reachable _ _ _ G R) as J.
  pose proof (inv_step _ _ _ _ G I H) as I'.
  apply step_inv in H. destruct l; cbn in H.
  - destruct H as (Hc & _). rewrite Hc in B. discriminate.
  - destruct H as (n & _ & _ & ->). cbn in B'. destruct (Nat.eqb k n); discriminate.
  - destruct H as (n & _ & ->). discriminate.
  - destruct H as (n & Hc & ->). rewrite leave_good in * by auto.
    destruct (Nat.eqb (rc s) 0) eqn:E; [|discriminate]. apply Nat.eqb_eq in E.
    split; auto. split; [|split].
    + eapply Forall_impl; [|exact (I_wf _ I')]. cbn. intros w. apply wf_false_no_pre.
    + rewrite Hc. cbn. eapply all_called_at_return; eauto.
    + eexists. split; [reflexivity|]. rewrite Hc. cbn. auto.
  - destruct H as (n & _ & _ & ->). rewrite G2 in B'. discriminate.
  - destruct H as (n & _ & ->). rewrite G2 in B'. discriminate.
  - destruct H as (b & _ & ->). cbn in B'. congruence.
  - destruct H as (b & _ & ->). cbn in B'. congruence.
  - destruct H as (b & _ & ->). cbn in B'. congruence.
  - destruct H as (b & _ & ->). cbn in B'. congruence.
  - destruct H as (Hc & _). rewrite Hc in B. discriminate.
  - destruct H as (Hc & _). rewrite Hc in B. discriminate.
Qed.
