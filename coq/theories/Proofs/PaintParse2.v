(** C20: the painted tree parses back to the skeleton of the picture.
    Part 2: from lines to tokens, from tokens to the tree. *)
From DivanV Require Import Base.Res Model.Painter Model.DriverPaint Model.Parse
  Proofs.Painter Proofs.PaintDriver Proofs.PaintOrder Proofs.PaintParse.
From Coq Require Import Lia.

Definition cells_sk (c : option (list str)) : list str :=
  match c with None => [] | Some row => map trim row end.

Definition tok_ok (l : lspec) (t : token) : Prop :=
  match l with
  | LTop n c => exists payload, t = TTop payload /\ split_payload payload = (n, cells_sk c)
  | LNode fl last n c =>
    exists payload, t = TNode fl last payload /\ split_payload payload = (n, cells_sk c)
  | LRow fl last row =>
    exists line t', t = TRow line /\ strip_prefix (row_prefix fl last) line = Some t' /\
                    map trim (split_on c_bar t') = map trim row
  | LBlank => t = TBlank
  end.

(** What the parser needs of the picture ([names_ok]). *)
Definition name_ok (n : str) : Prop := plain n /\ name_tail_ok n = true.

Definition cells_ok (c : option (list str)) : Prop :=
  match c with
  | None => True
  | Some row => Forall nobar row /\ Forall tame row /\ row_visible row
  end.

Definition spec_ok (l : lspec) : Prop :=
  match l with
  | LTop n c => name_ok n /\ cells_ok c /\ exists a r, n = a :: r /\ a <> sp
  | LNode _ _ n c => name_ok n /\ cells_ok c
  | LRow _ _ row => Forall nobar row /\ Forall tame row
  | LBlank => True
  end.

Lemma tame_no_nl : forall s, tame s -> no_nl s.
Proof. intros s H Hin. destruct (H nl Hin) as (E & _). congruence. Qed.

Lemma tail_payload : forall n c tail,
  name_ok n -> cells_ok c -> tail_ok c tail ->
  split_payload (n ++ tail) = (n, cells_sk c) /\ tame tail.
Proof.
  intros n c tail [Hp Hn] Hc Ht. unfold split_payload.
  destruct c as [row|]; cbn [tail_ok cells_ok cells_sk] in *.
  - destruct Ht as (k & s & Hk & -> & Sh). destruct Hc as (Hnb & Htm & Hv).
    split.
    + rewrite take_name_spec; [|exact Hn|].
      * unfold parse_cells. pose proof (row_trim_visible row s k Sh Hv) as Hne.
        destruct (trim (spaces k ++ s)); [congruence|].
        rewrite (row_cells row s k Sh Hnb). reflexivity.
      * right. destruct k as [|[|k]]; [lia | lia|]. eexists. reflexivity.
    + apply tame_app; [apply tame_spaces | eapply row_shape_tame; eauto].
  - destruct Ht as (k & -> & Hk). split; [|apply tame_spaces].
    rewrite take_name_spec; [|exact Hn|].
    + unfold parse_cells. rewrite trim_spaces. reflexivity.
    + destruct Hk as [->|Hk]; [left; reflexivity|]. right.
      destruct k as [|[|k]]; [lia | lia|]. eexists. reflexivity.
Qed.

Lemma glyph_no_nl : forall l, no_nl (branch_glyph l).
Proof. intros [] H; cbn in H; repeat destruct H as [H|H]; try discriminate; auto. Qed.

Lemma no_nl_app : forall a b, no_nl a -> no_nl b -> no_nl (a ++ b).
Proof. unfold no_nl. intros a b Ha Hb H. apply in_app_or in H. tauto. Qed.

Lemma line_tok : forall l line, spec_ok l -> line_ok l line -> tok_ok l (classify line) /\ no_nl line.
Proof.
  intros l line Hs Hl. destruct l as [n c | fl last n c | fl last row |]; cbn [spec_ok line_ok tok_ok] in *.
  - (* top *)
    destruct Hs as (Hn & Hc & a & r & -> & Ha). destruct Hl as (tail & -> & Ht).
    destruct (tail_payload _ _ _ Hn Hc Ht) as [Hsp Htt].
    assert (Htame : tame ((a :: r) ++ tail)) by (apply tame_app; [apply plain_tame, Hn | exact Htt]).
    split; [|apply tame_no_nl; exact Htame].
    rewrite classify_tame by exact Htame. cbn [app other_token].
    destruct Hn as [Hp _]. destruct (Hp a (or_introl eq_refl)) as (_ & Hb & _).
    destruct (N.eqb a sp) eqn:E1; [apply N.eqb_eq in E1; congruence|].
    destruct (N.eqb a c_bar) eqn:E2; [apply N.eqb_eq in E2; congruence|].
    cbn [orb]. eexists. split; [reflexivity | exact Hsp].
  - (* node *)
    destruct Hs as (Hn & Hc). destruct Hl as (tail & -> & Ht).
    destruct (tail_payload _ _ _ Hn Hc Ht) as [Hsp Htt].
    split.
    + rewrite classify_node. eexists. split; [reflexivity | exact Hsp].
    + apply no_nl_app; [apply tame_no_nl, tame_units|].
      apply no_nl_app; [apply glyph_no_nl|].
      apply no_nl_app; [apply tame_no_nl, plain_tame, Hn | apply tame_no_nl, Htt].
  - (* row *)
    destruct Hs as (Hnb & Htm). destruct Hl as (k & s & Hk & -> & Sh).
    assert (Hbar : tame (if last then [] else [c_bar])).
    { destruct last; intros c Hc; [destruct Hc|]. destruct Hc as [<-|[]]. repeat split; discriminate. }
    assert (Htame : tame (units_str fl ++ (if last then [] else [c_bar]) ++ spaces k ++ s)).
    { apply tame_app; [apply tame_units|]. apply tame_app; [exact Hbar|].
      apply tame_app; [apply tame_spaces | eapply row_shape_tame; eauto]. }
    split; [|apply tame_no_nl; exact Htame].
    rewrite classify_tame by exact Htame.
    destruct k as [|[|k]]; [lia | lia|].
    assert (Hother : other_token (units_str fl ++ (if last then [] else [c_bar]) ++ spaces (S (S k)) ++ s)
                     = TRow (units_str fl ++ (if last then [] else [c_bar]) ++ spaces (S (S k)) ++ s)).
    { destruct fl as [|[] fl']; [destruct last|..]; reflexivity. }
    rewrite Hother. eexists. exists (spaces k ++ s). split; [reflexivity|]. split.
    + replace (units_str fl ++ (if last then [] else [c_bar]) ++ spaces (S (S k)) ++ s)
        with (row_prefix fl last ++ spaces k ++ s).
      * apply strip_prefix_app.
      * unfold row_prefix. rewrite <- !app_assoc. destruct last; reflexivity.
    + apply row_cells; assumption.
  - subst. split; [reflexivity | intros []].
Qed.

Lemma lines_toks : forall specs ls,
  Forall spec_ok specs -> Forall2 line_ok specs ls ->
  Forall2 tok_ok specs (map classify ls) /\ Forall no_nl ls.
Proof.
  intros specs ls Hs H. induction H as [|l line specs ls Hl _ IH]; [split; constructor|].
  inversion Hs; subst. destruct (line_tok l line H1 Hl) as [Ht Hn]. destruct (IH H2) as [A B].
  split; constructor; auto.
Qed.

(** ** Tokens to tree *)

Definition hd_ok (d : nat) (toks : list token) : Prop :=
  match toks with
  | TNode us _ _ :: _ => length us <= d
  | TRow _ :: _ => False
  | _ => True
  end.

Lemma hd_ok_weaken : forall d d' toks, d <= d' -> hd_ok d toks -> hd_ok d' toks.
Proof. intros d d' [|[] ?] Hle H; cbn in *; auto. lia. Qed.

Lemma bools_eqb_refl : forall l, bools_eqb l l = true.
Proof. induction l as [|[] r IH]; cbn; auto. Qed.

Lemma p_rows_ok : forall fl last rows toks rest,
  Forall2 tok_ok (map (LRow fl last) rows) toks ->
  (match rest with TRow _ :: _ => False | _ => True end) ->
  p_rows (row_prefix fl last) (toks ++ rest) = Some (map (map trim) rows, rest).
Proof.
  induction rows as [|row r IH]; intros toks rest H Hr.
  - inversion H; subst. cbn [app map]. destruct rest as [|[] ?]; try reflexivity. contradiction.
  - cbn [map] in H. inversion H as [|? t ? toks' Ht Hrest]; subst.
    destruct Ht as (line & t' & -> & Es & Ec). cbn [app p_rows]. rewrite Es.
    rewrite (IH toks' rest Hrest Hr). rewrite Ec. reflexivity.
Qed.

Lemma lay_kids_head : forall fl kids toks,
  kids <> [] -> Forall2 tok_ok (lay_kids fl kids) toks ->
  exists l payload toks', toks = TNode fl l payload :: toks'.
Proof.
  intros fl [|[n c rows kids'] r] toks Hne H; [congruence|].
  cbn [lay_kids] in H. rewrite lay_node_eq in H. cbn [app] in H.
  inversion H as [|? t ? toks' Ht _]; subst. destruct Ht as (payload & -> & _). eauto.
Qed.

Lemma hd_ok_lay : forall fl kids toks rest d,
  Forall2 tok_ok (lay_kids fl kids) toks -> length fl <= d -> hd_ok d rest ->
  hd_ok d (toks ++ rest).
Proof.
  intros fl kids toks rest d H Hd Hr. destruct kids as [|k r].
  - inversion H; subst. exact Hr.
  - destruct (lay_kids_head fl (k :: r) toks) as (l & payload & toks' & ->); [congruence | exact H|].
    cbn. exact Hd.
Qed.

Lemma next_child_lay : forall fl kids toks rest,
  kids <> [] -> Forall2 tok_ok (lay_kids fl kids) toks ->
  next_is_child (length fl) (toks ++ rest) = true.
Proof.
  intros fl kids toks rest Hne H.
  destruct (lay_kids_head fl kids toks Hne H) as (l & payload & toks' & ->).
  cbn. apply PeanoNat.Nat.eqb_refl.
Qed.

Lemma next_child_no : forall d rest, hd_ok d rest -> next_is_child (S d) rest = false.
Proof.
  intros d [|[] ?] H; cbn in *; auto. apply PeanoNat.Nat.eqb_neq. lia.
Qed.

Lemma p_nodes_kids : forall fuel kids fl toks rest,
  kids <> [] -> Forall2 tok_ok (lay_kids fl kids) toks -> hd_ok (length fl) rest ->
  length toks <= fuel ->
  p_nodes fuel fl (toks ++ rest) = Some (map sk_of_pic kids, rest).
Proof.
  induction fuel as [|f IH]; intros kids fl toks rest Hne H Hr Hlen.
  - destruct (lay_kids_head fl kids toks Hne H) as (l & payload & toks' & ->). cbn in Hlen. lia.
  - destruct kids as [|[n c rows kids'] r]; [congruence|]. clear Hne.
    cbn [lay_kids] in H. rewrite lay_node_eq in H.
    set (last := match r with [] => true | _ :: _ => false end) in *.
    apply Forall2_app_inv_l in H. destruct H as (tnode & tsibs & Hnode & Hsibs & ->).
    cbn [app] in Hnode. inversion Hnode as [|? t0 ? tbody Ht0 Hbody]; subst.
    destruct Ht0 as (payload & -> & Esp).
    apply Forall2_app_inv_l in Hbody. destruct Hbody as (trows & tkids & Hrows & Hkids & ->).
    rewrite !app_length in Hlen. cbn [length] in Hlen. rewrite app_length in Hlen.
    cbn [app p_nodes]. rewrite bools_eqb_refl, Esp.
    rewrite <- !app_assoc.
    assert (Hsib_hd : hd_ok (length fl) (tsibs ++ rest)).
    { eapply hd_ok_lay; eauto. }
    assert (Hkid_hd : hd_ok (S (length fl)) (tkids ++ tsibs ++ rest)).
    { eapply (hd_ok_lay (fl ++ [negb last])); [exact Hkids | rewrite app_length; cbn; lia|].
      eapply hd_ok_weaken; [|exact Hsib_hd]. lia. }
    rewrite (p_rows_ok fl last rows trows (tkids ++ tsibs ++ rest) Hrows).
    2:{ destruct (tkids ++ tsibs ++ rest) as [|[] ?]; auto. }
    assert (Hkidsparse :
      (if next_is_child (S (length fl)) (tkids ++ tsibs ++ rest)
       then p_nodes f (fl ++ [negb last]) (tkids ++ tsibs ++ rest)
       else Some ([], tkids ++ tsibs ++ rest)) = Some (map sk_of_pic kids', tsibs ++ rest)).
    { destruct kids' as [|k1 kr].
      - inversion Hkids; subst. cbn [app map]. rewrite next_child_no by exact Hsib_hd. reflexivity.
      - replace (S (length fl)) with (length (fl ++ [negb last])) by (rewrite app_length; cbn; lia).
        rewrite (next_child_lay (fl ++ [negb last]) (k1 :: kr) tkids) by (congruence || exact Hkids).
        apply IH; [congruence | exact Hkids | | lia].
        rewrite app_length. cbn [length]. eapply hd_ok_weaken; [|exact Hsib_hd]. lia. }
    rewrite Hkidsparse.
    destruct r as [|k2 r'].
    + subst last. cbn [lay_kids] in Hsibs. inversion Hsibs; subst. cbn [app map]. reflexivity.
    + subst last. cbn match.
      rewrite (IH (k2 :: r') fl tsibs rest) by (congruence || assumption || lia).
      reflexivity.
Qed.

Definition pic_rows (p : pic) : list (list str) := match p with Pic _ _ rows _ => rows end.

Lemma p_top_ok : forall pics fuel toks,
  Forall (fun p => pic_rows p = []) pics ->
  Forall2 tok_ok (layout pics) toks -> length toks < fuel ->
  p_top fuel toks = Some (map sk_of_pic pics).
Proof.
  induction pics as [|[n c rows kids] r IH]; intros fuel toks Hrows H Hlen.
  - inversion H; subst. destruct fuel; [lia|]. reflexivity.
  - cbn [layout flat_map lay_top] in H. fold (layout r) in H.
    inversion Hrows as [|? ? Hr0 Hrows']; subst. cbn in Hr0. subst rows.
    cbn [app] in H. inversion H as [|? t0 ? tbody Ht0 Hbody]; subst.
    destruct Ht0 as (payload & -> & Esp).
    rewrite <- app_assoc in Hbody.
    apply Forall2_app_inv_l in Hbody. destruct Hbody as (tkids & trest & Hkids & Hrest & ->).
    cbn [app] in Hrest. inversion Hrest as [|? tb ? tmore Htb Hmore]; subst. cbn in Htb. subst tb.
    destruct fuel as [|f]; [lia|]. cbn [length] in Hlen. rewrite app_length in Hlen. cbn [length] in Hlen.
    cbn [p_top]. rewrite Esp.
    assert (Hk : (if next_is_child 0 (tkids ++ TBlank :: tmore) then p_nodes f [] (tkids ++ TBlank :: tmore)
                  else Some ([], tkids ++ TBlank :: tmore)) = Some (map sk_of_pic kids, TBlank :: tmore)).
    { destruct kids as [|k1 kr].
      - inversion Hkids; subst. reflexivity.
      - rewrite (next_child_lay [] (k1 :: kr) tkids) by (congruence || exact Hkids).
        apply p_nodes_kids; [congruence | exact Hkids | exact I | lia]. }
    rewrite Hk. rewrite (IH f tmore Hrows' Hmore) by lia. reflexivity.
Qed.

(** Every selected tree, of any depth and fan-out, whose picture satisfies
    the parser's requirements, is painted so that it parses back to exactly
    its skeleton. *)
Theorem parse_render : forall a t,
  forallb is_group t = true -> Forall wf_node t ->
  Forall spec_ok (layout (picture a t)) ->
  exists p out, paint a t = Ok (p, out) /\ parse out = Some (skeleton a t).
Proof.
  intros a t Hg Hwf Hok.
  destruct (paint_layout a t Hg Hwf) as (p & out & E & _ & _ & ls & -> & F).
  exists p, (unlines ls). split; [exact E|].
  destruct (lines_toks _ _ Hok F) as [Ht Hn].
  unfold parse. rewrite (lines_unlines ls Hn). unfold parse_lines, skeleton.
  apply p_top_ok; [|exact Ht | lia].
  unfold picture. rewrite Forall_map. rewrite Forall_forall. intros n Hin.
  rewrite forallb_forall in Hg. specialize (Hg n Hin). destruct n; [reflexivity | discriminate].
Qed.

(** Continuation rows belong to the node line above them: a row line has no
    glyph (it is never read as a node line), repeats the units of that node's
    ancestors, has a bar in the node's own column iff the node is not the last
    child, and its cells are recovered. *)
Lemma row_line_belongs : forall fl last row line,
  Forall nobar row -> Forall tame row -> line_ok (LRow fl last row) line ->
  classify line = TRow line /\
  exists t', strip_prefix (row_prefix fl last) line = Some t' /\
             map trim (split_on c_bar t') = map trim row.
Proof.
  intros fl last row line Hnb Htm Hl.
  destruct (line_tok (LRow fl last row) line (conj Hnb Htm) Hl) as [(l & t' & E & Es & Ec) _].
  assert (Hcl : classify line = other_token line).
  { destruct Hl as (k & s & Hk & -> & Sh). apply classify_tame.
    apply tame_app; [apply tame_units|]. apply tame_app.
    - destruct last; intros c Hc; [destruct Hc|]. destruct Hc as [<-|[]]. repeat split; discriminate.
    - apply tame_app; [apply tame_spaces | eapply row_shape_tame; eauto]. }
  assert (El : l = line).
  { rewrite Hcl in E. unfold other_token in E. destruct line as [|c0 r0]; [discriminate|].
    destruct (N.eqb c0 sp || N.eqb c0 c_bar); inversion E; reflexivity. }
  subst l. split; [exact E|]. exists t'. auto.
Qed.
