(** C12: [lookups_agree] follows from a hypothesis one can check on a registry:
    in the tree of the benchmarks' module paths no two sibling modules differ only
    by a leading "r#" ([no_raw_twins]). *)
From Coq Require Import Permutation.
From DivanV Require Import Base.Res Model.Registry Model.Tree Model.Driver
  Proofs.TreeBase Proofs.DriverExec Proofs.DriverC14 Proofs.TreeLeaves Proofs.Flat Proofs.FlatBridge Proofs.RawAttach.
Local Open Scope N_scope.
Arguments mk_leaf : simpl never.

(** No raw twins at any level. *)
Inductive no_twins : list skel -> Prop :=
| no_twins_intro : forall l, no_raw_twins_level l -> (forall r ch, In (SNode r ch) l -> no_twins ch) -> no_twins l.

Definition no_raw_twins (benches : list bench_entry) (groups : list group_entry) : Prop :=
  no_twins (map skel_of (from_benches (all_entries benches groups))).

Fixpoint skel_level (p : list str) (l : list skel) : option (list skel) :=
  match p with
  | [] => Some l
  | c :: rest => match skel_children c l with Some ch => skel_level rest ch | None => None end
  end.

Lemma attach_last_level : forall comps raw l,
  attach_last comps raw l = match skel_level comps l with Some lv => attach_name raw lv | None => raw end.
Proof.
  induction comps as [|c rest IH]; intros raw l; cbn; [reflexivity|].
  destruct (skel_children c l); [apply IH|reflexivity].
Qed.

Lemma skel_children_in : forall c l ch, skel_children c l = Some ch -> In (SNode c ch) l /\ In c (skel_names l).
Proof.
  intros c. induction l as [|[|r ch0] tl IH]; intros ch H; cbn in *; [discriminate| |].
  - destruct (IH ch H). split; [right|]; assumption.
  - destruct (str_eqb r c) eqn:E.
    + apply str_eqb_spec in E. inversion H; subst. split; left; reflexivity.
    + destruct (IH ch H). split; right; assumption.
Qed.

Lemma no_twins_level : forall p l lv, no_twins l -> skel_level p l = Some lv -> no_twins lv.
Proof.
  induction p as [|c rest IH]; intros l lv Hn H; cbn in H; [inversion H; subst; exact Hn|].
  destruct (skel_children c l) as [ch|] eqn:E; [|discriminate].
  inversion Hn as [? _ Hch]; subst. apply (IH ch lv); [|exact H].
  apply (Hch c ch). apply (skel_children_in c l ch E).
Qed.

Lemma skel_level_app : forall p q l lv, skel_level (p ++ q) l = Some lv ->
  exists lp, skel_level p l = Some lp /\ skel_level q lp = Some lv.
Proof.
  induction p as [|c rest IH]; intros q l lv H; cbn in *; [exists l; split; [reflexivity|exact H]|].
  destruct (skel_children c l) as [ch|]; [apply IH; exact H|discriminate].
Qed.

(** ** Every entry's raw path exists in the tree of the benchmarks *)
Lemma skel_children_app : forall c a b,
  skel_children c (a ++ b) = match skel_children c a with Some x => Some x | None => skel_children c b end.
Proof.
  intros c. induction a as [|[|r ch] tl IH]; intro b; cbn; [reflexivity|apply IH|].
  destruct (str_eqb r c); [reflexivity|apply IH].
Qed.

Lemma skel_children_absent : forall c l, ~ In c (parent_names l) -> skel_children c (map skel_of l) = None.
Proof.
  intros c. induction l as [|[r g ch|e a] tl IH]; intro H; cbn; [reflexivity| |].
  - destruct (str_eqb r c) eqn:E.
    + apply str_eqb_spec in E. subst. exfalso. apply H. left. reflexivity.
    + apply IH. intro Hin. apply H. right. exact Hin.
  - apply IH. exact H.
Qed.

Lemma skel_children_present : forall c l ch, skel_children c (map skel_of l) = Some ch -> In c (parent_names l).
Proof.
  intros c. induction l as [|[r g ch0|e a] tl IH]; intros ch H; cbn in *; [discriminate| |].
  - destruct (str_eqb r c) eqn:E; [apply str_eqb_spec in E; left; exact E|right; apply (IH ch H)].
  - apply (IH ch H).
Qed.

Lemma skel_level_from_path : forall e rest m, exists lv, skel_level (m :: rest) [skel_of (from_path e m rest)] = Some lv.
Proof.
  intros e. induction rest as [|n r IH]; intro m; cbn [from_path skel_of map skel_level skel_children]; rewrite str_eqb_refl.
  - eexists. reflexivity.
  - apply IH.
Qed.

Lemma insert_entry_paths : forall e path t,
  (exists lv, skel_level path (map skel_of (insert_entry path e t)) = Some lv) /\
  (forall q lv, skel_level q (map skel_of t) = Some lv ->
                exists lv', skel_level q (map skel_of (insert_entry path e t)) = Some lv').
Proof.
  intros e. induction path as [|m rest IH]; intro t.
  - split; [eexists; reflexivity|]. intros q lv H. cbn [insert_entry]. rewrite map_app.
    destruct q as [|c qr]; [eexists; reflexivity|]. cbn [skel_level] in *. rewrite skel_children_app.
    destruct (skel_children c (map skel_of t)) as [ch|]; [eexists; exact H|discriminate].
  - cbn [insert_entry]. destruct (update_first _ _ t) as [t'|] eqn:E.
    + apply update_first_some in E. destruct E as [l1 [g [ch0 [l2 [H1 [H2 Hnot]]]]]]. subst t t'.
      assert (Hm : forall X, skel_children m (map skel_of (l1 ++ Parent m g X :: l2)) = Some (map skel_of X)).
      { intro X. rewrite map_app, skel_children_app, (skel_children_absent m l1 Hnot). cbn. rewrite str_eqb_refl. reflexivity. }
      assert (Ho : forall c X, c <> m -> skel_children c (map skel_of (l1 ++ Parent m g X :: l2))
                                  = skel_children c (map skel_of (l1 ++ Parent m g ch0 :: l2))).
      { intros c X Hc. rewrite !map_app, !skel_children_app. cbn.
        assert (En : str_eqb m c = false) by (destruct (str_eqb m c) eqn:E2; [apply str_eqb_spec in E2; congruence|reflexivity]).
        rewrite En. reflexivity. }
      cbn [map_children]. destruct (IH ch0) as [IH1 IH2]. split.
      * cbn [skel_level]. rewrite Hm. exact IH1.
      * intros q lv H. destruct q as [|c qr]; [eexists; reflexivity|]. cbn [skel_level] in *.
        destruct (list_eq_dec N.eq_dec c m) as [Ec|Ec].
        -- subst c. rewrite Hm in *. apply (IH2 qr lv H).
        -- rewrite (Ho c _ Ec). eexists. exact H.
    + pose proof (update_first_none _ _ _ E) as Hnot. split.
      * cbn [skel_level]. rewrite map_app, skel_children_app, (skel_children_absent m t Hnot).
        destruct (skel_level_from_path e rest m) as [lv Hlv]. cbn [map] in *. cbn [skel_level] in Hlv. eexists. exact Hlv.
      * intros q lv H. destruct q as [|c qr]; [eexists; reflexivity|]. cbn [skel_level] in *. rewrite map_app, skel_children_app.
        destruct (skel_children c (map skel_of t)) as [ch|]; [eexists; exact H|discriminate].
Qed.

Lemma from_benches_paths_aux : forall es t e,
  In e es ->
  exists lv, skel_level (entry_path e) (map skel_of (fold_left (fun t e => insert_entry (entry_path e) e t) es t)) = Some lv.
Proof.
  induction es as [|x tl IH]; intros t e He; [contradiction|]. cbn [fold_left]. destruct He as [He|He].
  - subst x. destruct (insert_entry_paths e (entry_path e) t) as [[lv H] _].
    clear IH. revert H. generalize (insert_entry (entry_path e) e t) as t1. revert lv.
    induction tl as [|y tl2 IH2]; intros lv t1 H; cbn [fold_left]; [eexists; exact H|].
    destruct (insert_entry_paths y (entry_path y) t1) as [_ Hk]. destruct (Hk _ _ H) as [lv' H'].
    apply (IH2 lv' _ H').
  - apply IH. exact He.
Qed.

Lemma from_benches_paths : forall es e, In e es ->
  exists lv, skel_level (entry_path e) (map skel_of (from_benches es)) = Some lv.
Proof. intros es e He. apply (from_benches_paths_aux es [] e He). Qed.

Lemma entry_path_meta : forall e, exists extra, entry_path e = module_components (entry_meta e) ++ extra.
Proof. intros [b|g ge]; cbn; [exists []; rewrite app_nil_r; reflexivity|eexists; reflexivity]. Qed.

(** ** The two lookups agree *)
Lemma npath_cons2 : forall p a1 a2 q b1 b2,
  npath_eqb (p :: a1 :: a2) (q :: b1 :: b2) = str_eqb p q && npath_eqb (a1 :: a2) (b1 :: b2).
Proof. reflexivity. Qed.

Lemma npath_eqb_snoc : forall a x b y, npath_eqb (a ++ [x]) (b ++ [y]) = path_eqb a b && str_eqb (strip_raw x) (strip_raw y).
Proof.
  induction a as [|p a IH]; intros x b y.
  - destruct b as [|q b]; [reflexivity|]. cbn [app].
    destruct (b ++ [y]) as [|b1 b2] eqn:E; [destruct b; discriminate|]. cbn. rewrite andb_false_r. reflexivity.
  - destruct b as [|q b]; cbn [app].
    + destruct (a ++ [x]) as [|a1 a2] eqn:E; [destruct a; discriminate|]. cbn. rewrite andb_false_r. reflexivity.
    + destruct (a ++ [x]) as [|a1 a2] eqn:Ea; [destruct a; discriminate|].
      destruct (b ++ [y]) as [|b1 b2] eqn:Eb; [destruct b; discriminate|].
      rewrite npath_cons2, <- Ea, <- Eb, IH. unfold path_eqb. cbn [list_eqb]. rewrite andb_assoc. reflexivity.
Qed.

Lemma bool_eq_iff : forall b1 b2 : bool, (b1 = true <-> b2 = true) -> b1 = b2.
Proof. intros [|] [|] [H1 H2]; try reflexivity; [symmetry; apply H1; reflexivity|apply H2; reflexivity]. Qed.

Lemma path_eqb_snoc : forall a x b y, path_eqb (a ++ [x]) (b ++ [y]) = path_eqb a b && str_eqb x y.
Proof.
  intros a x b y. apply bool_eq_iff. rewrite andb_true_iff, !path_eqb_spec, str_eqb_spec. split.
  - intro H. apply app_inj_tail in H. exact H.
  - intros [H1 H2]. subst. reflexivity.
Qed.

Lemma snoc_exists : forall (P : list str), P <> [] -> exists Pm c, P = Pm ++ [c].
Proof. intros P H. destruct (exists_last H) as [Pm [c E]]. exists Pm, c. exact E. Qed.

Lemma find_ext_in : forall A (f g : A -> bool) l, (forall x, In x l -> f x = g x) -> find f l = find g l.
Proof.
  intros A f g. induction l as [|x tl IH]; intro H; [reflexivity|]. cbn. rewrite (H x (or_introl eq_refl)).
  destruct (g x); [reflexivity|]. apply IH. intros y Hy. apply H. right. exact Hy.
Qed.

Lemma lookups_agree_of_no_twins : forall benches groups,
  no_raw_twins benches groups -> lookups_agree benches groups.
Proof.
  intros benches groups Hnt e P suf He HP Hsuf.
  set (T0 := from_benches (all_entries benches groups)) in *.
  destruct (snoc_exists P HP) as [Pm [c EP]]. subst P.
  (* the level of Pm exists in the benches' tree and c is one of its module names *)
  destruct (entry_path_meta e) as [extra Hex]. rewrite Hsuf in Hex.
  destruct (from_benches_paths _ e He) as [lvE HlvE]. fold T0 in HlvE. rewrite Hex in HlvE.
  rewrite <- !app_assoc in HlvE. apply skel_level_app in HlvE. destruct HlvE as [lv [Hlv Hrest]].
  cbn [app skel_level] in Hrest. destruct (skel_children c lv) as [chc|] eqn:Ec; [|discriminate].
  pose proof (skel_children_in c lv chc Ec) as [_ Hcin].
  pose proof (no_twins_level Pm _ lv Hnt Hlv) as Hntlv. inversion Hntlv as [? Htw _]; subst.
  unfold find_module_group, fmk, find_module_group_by. apply find_ext_in.
  intros g _. f_equal. unfold attach_key, raw_key, raw_key_s, group_key. fold T0.
  rewrite npath_eqb_snoc, path_eqb_snoc. rewrite attach_last_level.
  destruct (path_eqb (module_components (g_meta g)) Pm) eqn:Em; [|reflexivity]. cbn [andb].
  apply path_eqb_spec in Em. rewrite Em, Hlv.
  destruct (str_eqb (strip_raw (m_raw (g_meta g))) (strip_raw c)) eqn:Es.
  - apply str_eqb_spec in Es. symmetry. apply str_eqb_spec. apply attach_name_in; [exact Htw|exact Hcin|symmetry; exact Es].
  - symmetry. destruct (str_eqb (attach_name (m_raw (g_meta g)) lv) c) eqn:E2; [|reflexivity].
    apply str_eqb_spec in E2. rewrite <- E2, attach_name_strip, str_eqb_refl in Es. discriminate.
Qed.

(** ** The headline statements under the checkable hypothesis *)
From DivanV Require Import Proofs.ListView.

Lemma exec_flat_no_twins : forall c benches groups,
  no_name_clash (attach_key benches groups) benches groups -> no_raw_twins benches groups ->
  Permutation (exec_forest c [] None (retain (c_filter c) (build_tree benches groups)))
              (flat_exec c benches groups).
Proof. intros c b g Hg Hn. apply exec_flat; [exact Hg|apply lookups_agree_of_no_twins; exact Hn]. Qed.

Lemma list_view_no_twins : forall srt, (forall t, forest_perm t (srt t)) ->
  forall c benches groups,
  no_name_clash (attach_key benches groups) benches groups -> no_raw_twins benches groups ->
  snd (run_action c srt List benches groups) = None /\
  Permutation (painted_leaves (fst (run_action c srt List benches groups))) (flat_list c benches groups).
Proof. intros srt Hs c b g Hg Hn. apply (list_view srt Hs); [exact Hg|apply lookups_agree_of_no_twins; exact Hn]. Qed.

Example no_raw_twins_registry :
  no_raw_twins [w_bench_a; x_bench] [w_mod_group] /\
  no_name_clash (attach_key [w_bench_a; x_bench] [w_mod_group]) [w_bench_a; x_bench] [w_mod_group].
Proof.
  split.
  - unfold no_raw_twins. vm_compute.
    repeat (constructor; [unfold no_raw_twins_level; vm_compute; repeat (constructor; [cbn; intuition discriminate|]); constructor|]);
      intros r ch Hin; cbn in Hin; repeat (destruct Hin as [Hin|Hin]; [inversion Hin; subst; clear Hin|]); try contradiction.
    all: repeat (constructor; [unfold no_raw_twins_level; vm_compute; repeat (constructor; [cbn; intuition discriminate|]); constructor|]);
      intros r0 ch0 Hin0; cbn in Hin0; repeat (destruct Hin0 as [Hin0|Hin0]; [inversion Hin0; subst; clear Hin0|]); try contradiction.
    all: repeat (constructor; [unfold no_raw_twins_level; vm_compute; repeat (constructor; [cbn; intuition discriminate|]); constructor|]);
      intros r1 ch1 Hin1; cbn in Hin1; repeat (destruct Hin1 as [Hin1|Hin1]; [inversion Hin1; subst; clear Hin1|]); try contradiction.
  - split; [cbn; constructor; [intros []|constructor]|]. intros h [Hh|[]] Hm. subst h. discriminate.
Qed.
