(** Runs made of rounds of arbitrary sizes (tuned sample size): every round of
    the model's per-thread log, read back through the global identifiers,
    satisfies the per-sample monitor and the timed-section decomposition, with
    the same counter set in every round. *)

From DivanV Require Import Base.Res Model.Sample Proofs.Sample Proofs.SamplePlace Proofs.SampleTimed.
From Coq Require Import Arith.
Local Open Scope nat_scope.

Lemma localize_gid t base n i : i < n -> localize t base n (gid t base i) = i.
Proof.
  intros Hi. unfold localize, gid. rewrite Nat.add_0_r.
  set (hi := (N.of_nat t * 4294967296)%N).
  assert (H1 : (hi + N.of_nat base <=? hi + N.of_nat (base + i))%N = true) by (apply N.leb_le; lia).
  assert (H2 : (hi + N.of_nat (base + i) <? hi + N.of_nat base + N.of_nat n)%N = true) by (apply N.ltb_lt; lia).
  rewrite H1, H2. cbn [andb]. lia.
Qed.

Lemma map_ev_roundtrip t base n (e : oev nat) :
  Forall (fun i => i < n) (ev_ids e) ->
  map_ev (localize t base n) (localize t base n) (map_ev (gid t base) (gid t base) e) = e.
Proof.
  intros H. destruct e; cbn in *; try reflexivity;
    repeat match goal with
    | H : Forall _ (_ :: _) |- _ => inversion H; clear H; subst
    end; rewrite ?localize_gid by assumption; reflexivity.
Qed.

Lemma map_roundtrip t base n (l : list (oev nat)) :
  ids_below n l ->
  map (map_ev (localize t base n) (localize t base n)) (map (map_ev (gid t base) (gid t base)) l) = l.
Proof.
  induction 1 as [|e l He Hl IH]; cbn; [reflexivity|].
  rewrite map_ev_roundtrip by exact He. rewrite IH. reflexivity.
Qed.

(** [sb_timed] does not look at identifiers. *)
Lemma split_at_map {A B} (h : A -> B) (p : B -> bool) (q : A -> bool) :
  (forall x, p (h x) = q x) ->
  forall l, split_at p (map h l) =
            (map h (fst (split_at q l)),
             match snd (split_at q l) with Some (y, r) => Some (h y, map h r) | None => None end).
Proof.
  intros H. induction l as [|x l IH]; cbn; [reflexivity|].
  rewrite H. destruct (q x); [reflexivity|].
  rewrite IH. destruct (split_at q l) as [a b]. reflexivity.
Qed.

Lemma forallb_map_ev {A B} (h : oev A -> oev B) (p : oev B -> bool) (q : oev A -> bool) l :
  (forall x, p (h x) = q x) -> forallb p (map h l) = forallb q l.
Proof. intros H. induction l as [|x l IH]; cbn; [reflexivity|]. rewrite H, IH. reflexivity. Qed.

Lemma filter_length_map {A B} (h : A -> B) (p : B -> bool) (q : A -> bool) l :
  (forall x, p (h x) = q x) -> length (filter p (map h l)) = length (filter q l).
Proof.
  intros H. induction l as [|x l IH]; cbn; [reflexivity|]. rewrite H. destruct (q x); cbn; rewrite IH; reflexivity.
Qed.

Lemma sb_timed_map {A B} (f g : A -> B) (l : list (oev A)) :
  sb_timed (map (map_ev f g) l) = sb_timed l.
Proof.
  unfold sb_timed.
  rewrite (split_at_map (map_ev f g) is_ts_start is_ts_start) by (intros x; destruct x; reflexivity).
  destruct (split_at is_ts_start l) as [pre [[y1 r1]|]]; cbn [fst snd]; [|reflexivity].
  rewrite (split_at_map (map_ev f g) is_ts_end is_ts_end) by (intros x; destruct x; reflexivity).
  destruct (split_at is_ts_end r1) as [timed [[y2 r2]|]]; cbn [fst snd]; [|reflexivity].
  rewrite (split_at_map (map_ev f g) is_snapshot is_snapshot) by (intros x; destruct x; reflexivity).
  destruct (split_at is_snapshot r2) as [sync [[y3 post]|]]; cbn [fst snd]; [|reflexivity].
  rewrite (forallb_map_ev (map_ev f g) is_pre_ev is_pre_ev) by (intros x; destruct x; reflexivity).
  rewrite (forallb_map_ev (map_ev f g) is_timed_ev is_timed_ev) by (intros x; destruct x; reflexivity).
  rewrite (forallb_map_ev (map_ev f g) is_end_sync_ev is_end_sync_ev) by (intros x; destruct x; reflexivity).
  rewrite (forallb_map_ev (map_ev f g) is_post_ev is_post_ev) by (intros x; destruct x; reflexivity).
  rewrite (filter_length_map (map_ev f g) is_clear is_clear) by (intros x; destruct x; reflexivity).
  reflexivity.
Qed.

(** The per-round logs of thread [t], not yet concatenated. *)
Fixpoint round_logs (c : rcfg) (t : nat) (sizes : list nat) (base : nat) : list (list (oev N)) :=
  match sizes with
  | [] => []
  | n :: rest =>
      map (map_ev (gid t base) (gid t base))
          (obs (run_vis c) (sample_prog (r_entry c) (r_shape c) n (r_cs c) (r_udrop c)))
      :: round_logs c t rest (base + n)
  end.

Lemma thread_log_rounds_concat c t sizes base :
  thread_log_rounds c t sizes base = concat (round_logs c t sizes base).
Proof.
  revert base. induction sizes as [|n rest IH]; intros base; cbn; [reflexivity|]. rewrite IH. reflexivity.
Qed.

(** For every entry point, shape, counter set, thread, and EVERY list of round
    sizes (1, 2, 4, ... of a tuned run or anything else): each round of the
    run, identified by the global ids it carries, passes the per-sample monitor
    configured with the run's one counter set and its own size, and the
    timed-section decomposition. *)
Theorem rounds_discipline c t sizes base :
  sb_samples_sizes c t base sizes (round_logs c t sizes base) = true.
Proof.
  revert base. induction sizes as [|n rest IH]; intros base; cbn; [reflexivity|].
  rewrite sb_timed_map.
  rewrite map_roundtrip by (apply ids_below_sample).
  unfold run_vis.
  rewrite (sb_sample_model (r_entry c) (r_shape c) n (r_cs c) (r_udrop c)).
  rewrite (sb_timed_model (r_entry c) (r_shape c) n (r_cs c) (r_udrop c)).
  cbn [andb]. apply IH.
Qed.

(** Every round also respects the cell discipline, on a fresh deferred store. *)
Theorem rounds_exec e sh cs u sizes :
  Forall (fun n => exec_ok (sample_prog e sh n cs u) = true) sizes.
Proof.
  apply Forall_forall. intros n _. unfold exec_ok.
  destruct (exec_sample_ok e sh n cs u) as (st & E & _). rewrite E. reflexivity.
Qed.
