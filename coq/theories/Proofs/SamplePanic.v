(** C01, panic safety: when the benchmarked function (or the generator) panics
    at any index, the part of the sample that ran plus what unwinding runs never
    misuses a cell, drops nothing twice and hands out nothing after its drop. *)

From DivanV Require Import Base.Res Model.Sample Proofs.Sample.
From Coq Require Import Arith.
Local Open Scope nat_scope.

(** * The cut program respects the memory discipline *)

Lemma call_step_panic s i r c s' :
  exec_step s (Call i r c) = SOk s' -> exists s'', exec_step s (CallPanic i r c) = SOk s''.
Proof.
  unfold exec_step. cbn [act_index]. unfold cell_step.
  destruct (in_use_fault c (fst (s i))); [discriminate|]. intros _. eexists. reflexivity.
Qed.

Lemma exec_cut_call k : forall l s s',
  exec l s = SOk s' -> exists s'', exec (cut_at_call k l) s = SOk s''.
Proof.
  induction l as [|a l IH]; intros s s' H; cbn in *.
  - exists s. reflexivity.
  - destruct (exec_step s a) as [s1|f j] eqn:E; [|discriminate].
    destruct a; cbn [cut_at_call exec]; rewrite ?E; try (eapply IH; exact H).
    destruct (Nat.eqb i k).
    + destruct (call_step_panic s i r c s1 E) as (s2 & E2). cbn [exec]. rewrite E2. eexists. reflexivity.
    + cbn [exec]. rewrite E. eapply IH. exact H.
Qed.

Lemma exec_cut_gen k : forall l s s',
  exec l s = SOk s' -> exists s'', exec (cut_at_gen k l) s = SOk s''.
Proof.
  induction l as [|a l IH]; intros s s' H; cbn in *.
  - exists s. reflexivity.
  - destruct (exec_step s a) as [s1|f j] eqn:E; [|discriminate].
    destruct a; cbn [cut_at_gen exec]; rewrite ?E; try (eapply IH; exact H).
    destruct (Nat.eqb i k).
    + cbn. eexists. reflexivity.
    + cbn [exec]. rewrite E. eapply IH. exact H.
Qed.

Lemma exec_guard_waits n s : exec (repeat GuardWait n) s = SOk s.
Proof. induction n as [|n IH]; cbn; [reflexivity|exact IH]. Qed.

Lemma exec_cut_ok site k l s s' :
  exec l s = SOk s' -> exists s'', exec (cut_prog site k l) s = SOk s''.
Proof.
  intros H. unfold cut_prog, unwind_actions. rewrite exec_app.
  destruct site.
  - destruct (exec_cut_call k l s s' H) as (s2 & E). rewrite E. exists s2. apply exec_guard_waits.
  - destruct (exec_cut_gen k l s s' H) as (s2 & E). rewrite E. exists s2. apply exec_guard_waits.
Qed.

(** * The memory discipline implies: no double drop, no use after drop *)

Fixpoint ndl_exec (l : list (oev nat)) (s : ndl) : option ndl :=
  match l with
  | [] => Some s
  | e :: rest => match ndl_step s e with Some s' => ndl_exec rest s' | None => None end
  end.

Lemma ndl_run_exec l : forall s s' rest,
  ndl_exec l s = Some s' -> ndl_run (l ++ rest) s = ndl_run rest s'.
Proof.
  induction l as [|e l IH]; intros s s' rest H; cbn in *.
  - inversion H; reflexivity.
  - destruct (ndl_step s e); [|discriminate]. apply IH. exact H.
Qed.

(** A flag of the monitor is set only for a cell the store knows as dropped. *)
Definition rel (s : store) (nd : ndl) : Prop :=
  forall j, (ndl_in nd j = true -> fst (s j) = IDropped)
            /\ (ndl_out nd j = true -> snd (s j) = ODropped).

Lemma rel_upd_keep s nd i v :
  rel s nd ->
  (ndl_in nd i = true -> fst v = IDropped) -> (ndl_out nd i = true -> snd v = ODropped) ->
  rel (upd s i v) nd.
Proof.
  intros H Hi Ho j. unfold upd. destruct (Nat.eqb_spec j i) as [->|Hne]; [split; assumption|apply H].
Qed.

Lemma rel_upd_in s nd i so :
  rel s nd -> (ndl_out nd i = true -> so = ODropped) ->
  rel (upd s i (IDropped, so)) (mkNDL (upd (ndl_in nd) i true) (ndl_out nd)).
Proof.
  intros H Ho j. cbn. unfold upd. destruct (Nat.eqb_spec j i) as [->|Hne].
  - split; [reflexivity|exact Ho].
  - apply H.
Qed.

Lemma rel_upd_out s nd i si :
  rel s nd -> (ndl_in nd i = true -> si = IDropped) ->
  rel (upd s i (si, ODropped)) (mkNDL (ndl_in nd) (upd (ndl_out nd) i true)).
Proof.
  intros H Hi j. cbn. unfold upd. destruct (Nat.eqb_spec j i) as [->|Hne].
  - split; [exact Hi|reflexivity].
  - apply H.
Qed.

Lemma not_dropped_flag_in s nd i :
  rel s nd -> fst (s i) <> IDropped -> ndl_in nd i = false.
Proof.
  intros H Hn. destruct (ndl_in nd i) eqn:E; [|reflexivity].
  exfalso. apply Hn. apply (H i). exact E.
Qed.

Lemma not_dropped_flag_out s nd i :
  rel s nd -> snd (s i) <> ODropped -> ndl_out nd i = false.
Proof.
  intros H Hn. destruct (ndl_out nd i) eqn:E; [|reflexivity].
  exfalso. apply Hn. apply (H i). exact E.
Qed.

Lemma in_use_not_dropped c si : in_use_fault c si = None -> si <> IDropped.
Proof. destruct si, c; cbn; congruence. Qed.

Lemma in_drop_not_dropped c si : in_drop_fault c si = None -> si <> IDropped.
Proof. destruct si, c; cbn; congruence. Qed.

Lemma out_drop_not_dropped c so : out_drop_fault c so = None -> so <> ODropped.
Proof. destruct so, c; cbn; congruence. Qed.

Lemma step_nd v a s s' nd :
  exec_step s a = SOk s' -> rel s nd ->
  exists nd', ndl_exec (obs1 v a) nd = Some nd' /\ rel s' nd'.
Proof.
  intros Hex Hrel. unfold exec_step in Hex.
  destruct a as [i|k i|i| | |i r c|i|i|i|i| | | |i c|i c|i r c|i| ]; cbn [act_index] in Hex;
    try (inversion Hex; subst; cbn; destruct v as [? ? ? []]; cbn; eexists; (split; [reflexivity|exact Hrel])).
  - (* Gen *)
    unfold cell_step in Hex. destruct (fst (s i)) eqn:Hf; try discriminate. inversion Hex; subst.
    assert (Fi : ndl_in nd i = false) by (eapply not_dropped_flag_in; [exact Hrel|rewrite Hf; discriminate]).
    exists nd. split; [cbn; destruct (v_gen v); reflexivity|].
    apply rel_upd_keep; [exact Hrel|rewrite Fi; discriminate|cbn; apply (Hrel i)].
  - (* Count *)
    unfold cell_step in Hex. destruct (in_use_fault InSlot (fst (s i))) eqn:Hu; [discriminate|].
    inversion Hex; subst.
    assert (Fi : ndl_in nd i = false) by (eapply not_dropped_flag_in; [exact Hrel|eapply in_use_not_dropped; exact Hu]).
    exists nd. split; [cbn; rewrite Fi; reflexivity|].
    apply rel_upd_keep; [exact Hrel|apply (Hrel i)|apply (Hrel i)].
  - (* ForgetIn *)
    unfold cell_step in Hex. destruct (in_use_fault InSlot (fst (s i))) eqn:Hu; [discriminate|].
    inversion Hex; subst.
    assert (Fi : ndl_in nd i = false) by (eapply not_dropped_flag_in; [exact Hrel|eapply in_use_not_dropped; exact Hu]).
    exists nd. split; [reflexivity|].
    apply rel_upd_keep; [exact Hrel|rewrite Fi; discriminate|cbn; apply (Hrel i)].
  - (* Call *)
    unfold cell_step in Hex. destruct (in_use_fault c (fst (s i))) eqn:Hu; [discriminate|].
    destruct (snd (s i)) eqn:Ho; try discriminate. inversion Hex; subst.
    assert (Fi : ndl_in nd i = false) by (eapply not_dropped_flag_in; [exact Hrel|eapply in_use_not_dropped; exact Hu]).
    assert (Fo : ndl_out nd i = false) by (eapply not_dropped_flag_out; [exact Hrel|rewrite Ho; discriminate]).
    exists nd. split; [cbn; rewrite Fi, Fo; reflexivity|].
    apply rel_upd_keep; [exact Hrel|rewrite Fi; discriminate|rewrite Fo; discriminate].
  - (* UserDropIn *)
    unfold cell_step in Hex. destruct (fst (s i)) eqn:Hf; try discriminate. inversion Hex; subst.
    assert (Fi : ndl_in nd i = false) by (eapply not_dropped_flag_in; [exact Hrel|rewrite Hf; discriminate]).
    cbn. destruct (v_idrop v); cbn.
    + rewrite Fi. eexists. split; [reflexivity|]. apply rel_upd_in; [exact Hrel|apply (Hrel i)].
    + exists nd. split; [reflexivity|]. apply rel_upd_keep; [exact Hrel|rewrite Fi; discriminate|cbn; apply (Hrel i)].
  - (* StoreOut *)
    unfold cell_step in Hex. destruct (snd (s i)) eqn:Ho; try discriminate. inversion Hex; subst.
    assert (Fo : ndl_out nd i = false) by (eapply not_dropped_flag_out; [exact Hrel|rewrite Ho; discriminate]).
    exists nd. split; [reflexivity|]. apply rel_upd_keep; [exact Hrel|cbn; apply (Hrel i)|rewrite Fo; discriminate].
  - (* ForgetOut *)
    unfold cell_step in Hex. destruct (snd (s i)) eqn:Ho; try discriminate. inversion Hex; subst.
    assert (Fo : ndl_out nd i = false) by (eapply not_dropped_flag_out; [exact Hrel|rewrite Ho; discriminate]).
    exists nd. split; [reflexivity|]. apply rel_upd_keep; [exact Hrel|cbn; apply (Hrel i)|rewrite Fo; discriminate].
  - (* DiscardOut *)
    unfold cell_step in Hex. destruct (snd (s i)) eqn:Ho; try discriminate. inversion Hex; subst.
    exists nd. split; [reflexivity|]. apply rel_upd_keep; [exact Hrel|cbn; apply (Hrel i)|reflexivity].
  - (* DropOut *)
    unfold cell_step in Hex. destruct (out_drop_fault c (snd (s i))) eqn:Hu; [discriminate|].
    inversion Hex; subst.
    assert (Fo : ndl_out nd i = false) by (eapply not_dropped_flag_out; [exact Hrel|eapply out_drop_not_dropped; exact Hu]).
    cbn. destruct (v_odrop v); cbn.
    + rewrite Fo. eexists. split; [reflexivity|]. apply rel_upd_out; [exact Hrel|apply (Hrel i)].
    + exists nd. split; [reflexivity|]. apply rel_upd_keep; [exact Hrel|cbn; apply (Hrel i)|reflexivity].
  - (* DropIn *)
    unfold cell_step in Hex. destruct (in_drop_fault c (fst (s i))) eqn:Hu; [discriminate|].
    inversion Hex; subst.
    assert (Fi : ndl_in nd i = false) by (eapply not_dropped_flag_in; [exact Hrel|eapply in_drop_not_dropped; exact Hu]).
    cbn. destruct (v_idrop v); cbn.
    + rewrite Fi. eexists. split; [reflexivity|]. apply rel_upd_in; [exact Hrel|apply (Hrel i)].
    + exists nd. split; [reflexivity|]. apply rel_upd_keep; [exact Hrel|reflexivity|cbn; apply (Hrel i)].
  - (* CallPanic *)
    unfold cell_step in Hex. destruct (in_use_fault c (fst (s i))) eqn:Hu; [discriminate|].
    inversion Hex; subst.
    assert (Fi : ndl_in nd i = false) by (eapply not_dropped_flag_in; [exact Hrel|eapply in_use_not_dropped; exact Hu]).
    cbn. rewrite Fi. destruct r; cbn.
    + exists nd. split; [reflexivity|]. apply rel_upd_keep; [exact Hrel|apply (Hrel i)|cbn; apply (Hrel i)].
    + destruct (v_idrop v); cbn.
      * rewrite Fi. eexists. split; [reflexivity|]. apply rel_upd_in; [exact Hrel|apply (Hrel i)].
      * exists nd. split; [reflexivity|]. apply rel_upd_keep; [exact Hrel|reflexivity|cbn; apply (Hrel i)].
Qed.

Lemma ndl_exec_app l1 l2 s :
  ndl_exec (l1 ++ l2) s = match ndl_exec l1 s with Some s' => ndl_exec l2 s' | None => None end.
Proof.
  revert s. induction l1 as [|e l1 IH]; intros s; cbn; [reflexivity|].
  destruct (ndl_step s e); [apply IH|reflexivity].
Qed.

(** Any action list that respects the memory discipline shows, to user code
    and destructors, no second drop and no use of a dropped value. *)
Theorem exec_implies_nodouble v : forall l s s' nd,
  exec l s = SOk s' -> rel s nd -> exists nd', ndl_exec (obs v l) nd = Some nd' /\ rel s' nd'.
Proof.
  induction l as [|a l IH]; intros s s' nd Hex Hrel; cbn in *.
  - inversion Hex; subst. exists nd. split; [reflexivity|exact Hrel].
  - destruct (exec_step s a) as [s1|f j] eqn:E; [|discriminate].
    destruct (step_nd v a s s1 nd E Hrel) as (nd1 & E1 & R1).
    destruct (IH s1 s' nd1 Hex R1) as (nd2 & E2 & R2).
    exists nd2. split; [|exact R2]. rewrite ndl_exec_app, E1. exact E2.
Qed.

Lemma rel_empty : rel empty_store (mkNDL (fun _ => false) (fun _ => false)).
Proof. intros j. cbn. split; discriminate. Qed.

Lemma ndl_exec_run l nd nd' : ndl_exec l nd = Some nd' -> ndl_run l nd = true.
Proof.
  intros H. rewrite <- (app_nil_r l). rewrite (ndl_run_exec l nd nd' [] H). reflexivity.
Qed.

(** For every entry point, shape, sample size, counter set, every index [k] at
    which the benchmarked function ([PanicCall]) or the generator ([PanicGen])
    panics: what ran of the sample, the unwinding callee's disposal of an owned
    argument and the destructors unwinding runs in the loop (none: the store of
    slots holds [MaybeUninit] cells) never misuse a cell; the events seen by
    user code contain no second drop of a value and no use of a dropped value.
    Values may be leaked. *)
Theorem panic_safe e sh n cs u multi site k :
  (exists st, exec (cut_prog site k (sample_prog e sh n cs u)) empty_store = SOk st)
  /\ sb_nodouble_local (obs (vis_of e sh multi) (cut_prog site k (sample_prog e sh n cs u))) = true.
Proof.
  destruct (exec_sample_ok e sh n cs u) as (st & Hex & _).
  destruct (exec_cut_ok site k _ _ _ Hex) as (st' & Hcut).
  split; [exists st'; exact Hcut|].
  destruct (exec_implies_nodouble (vis_of e sh multi) _ _ _ _ Hcut rel_empty) as (nd' & E & _).
  unfold sb_nodouble_local. eapply ndl_exec_run. exact E.
Qed.

(** The same holds of the complete sample (no panic). *)
Theorem nodouble_sample e sh n cs u multi :
  sb_nodouble_local (obs (vis_of e sh multi) (sample_prog e sh n cs u)) = true.
Proof.
  destruct (exec_sample_ok e sh n cs u) as (st & Hex & _).
  destruct (exec_implies_nodouble (vis_of e sh multi) _ _ _ _ Hex rel_empty) as (nd' & E & _).
  unfold sb_nodouble_local. eapply ndl_exec_run. exact E.
Qed.

(** The cut really is the sample up to the panicking call: everything before
    the call with index [k], then the unwinding call. *)
Lemma cut_at_call_prefix k l1 r c l2 :
  Forall (fun a => match a with Call i _ _ => i <> k | _ => True end) l1 ->
  cut_at_call k (l1 ++ Call k r c :: l2) = l1 ++ [CallPanic k r c].
Proof.
  induction 1 as [|a l1 Ha Hl IH]; cbn.
  - rewrite Nat.eqb_refl. reflexivity.
  - destruct a; cbn; try (rewrite IH; reflexivity).
    destruct (Nat.eqb_spec i k); [contradiction|]. rewrite IH. reflexivity.
Qed.

(** * How many waits the guard performs *)

Definition no_sync (a : action) : Prop :=
  match a with SyncStart | SyncEnd => False | _ => True end.

Lemma remaining_app l1 l2 rem :
  remaining_waits (l1 ++ l2) rem = remaining_waits l2 (remaining_waits l1 rem).
Proof.
  revert rem. induction l1 as [|a l1 IH]; intros rem; cbn; [reflexivity|].
  destruct a; apply IH.
Qed.

Lemma remaining_no_sync l rem : Forall no_sync l -> remaining_waits l rem = rem.
Proof.
  induction 1 as [|a l Ha Hl IH]; cbn; [reflexivity|]. destruct a; cbn in Ha; try contradiction; exact IH.
Qed.

Lemma cut_at_gen_prefix k l1 l2 :
  Forall (fun a => match a with Gen i => i <> k | _ => True end) l1 ->
  cut_at_gen k (l1 ++ Gen k :: l2) = l1 ++ [GenPanic k].
Proof.
  induction 1 as [|a l1 Ha Hl IH]; cbn.
  - rewrite Nat.eqb_refl. reflexivity.
  - destruct a; cbn; try (rewrite IH; reflexivity).
    destruct (Nat.eqb_spec i k); [contradiction|]. rewrite IH. reflexivity.
Qed.

Lemma Forall_flat_map_range {B} (P : B -> Prop) (blk : nat -> list B) a k :
  (forall i, a <= i < a + k -> Forall P (blk i)) -> Forall P (flat_map blk (seq a k)).
Proof.
  intros H. apply Forall_forall. intros x Hx. apply in_flat_map in Hx.
  destruct Hx as (i & Hi & Hx). apply in_seq in Hi. specialize (H i Hi).
  rewrite Forall_forall in H. apply H. exact Hx.
Qed.

Lemma seq_split3 n k : k < n -> seq 0 n = seq 0 k ++ k :: seq (S k) (n - S k).
Proof.
  intros H. replace n with (k + S (n - S k)) at 1 by lia. rewrite seq_app. reflexivity.
Qed.

(** The benchmarked function panics at call [k < n]: the thread has waited
    twice (start synchronisation), so the guard waits exactly once more. *)
Theorem unwind_after_call_panic e sh n cs u k :
  k < n ->
  exists ran, cut_prog PanicCall k (sample_prog e sh n cs u) = ran ++ [GuardWait]
              /\ Forall (fun a => a <> GuardWait) ran.
Proof.
  intros Hk. unfold sample_prog, sample_core, call_phase.
  set (s := eff_shape e sh). set (p := path_of s). set (c := eff_counters e cs). set (r := by_ref e).
  rewrite (seq_split3 n k Hk). rewrite flat_map_app. cbn [flat_map].
  unfold call_block at 2. cbn [app]. unfold gen_phase.
  set (l1 := flat_map (gen_block p c) (seq 0 n) ++ [SyncStart; TsStart] ++ flat_map (call_block p r u) (seq 0 k)).
  match goal with
  | |- context [cut_prog PanicCall k ?l] =>
      assert (Hl : exists l2, l = l1 ++ Call k r (in_cell p) :: l2)
  end.
  { unfold l1. eexists. rewrite <- !app_assoc. cbn [app]. reflexivity. }
  destruct Hl as (l2 & ->).
  assert (Hfree : Forall (fun a => match a with Call i _ _ => i <> k | _ => True end) l1).
  { unfold l1. apply Forall_app. split; [|apply Forall_app; split].
    - apply Forall_flat_map_range. intros i _. destruct p, c as [[] [] [] []]; repeat constructor.
    - repeat constructor.
    - apply Forall_flat_map_range. intros i Hi. destruct p, r, u; repeat constructor; cbn; lia. }
  unfold cut_prog. rewrite (cut_at_call_prefix k l1 r (in_cell p) l2 Hfree).
  assert (Hrem : remaining_waits (l1 ++ [CallPanic k r (in_cell p)]) wait_count = 1).
  { rewrite remaining_app. unfold l1. rewrite !remaining_app.
    rewrite (remaining_no_sync (flat_map (gen_block p c) (seq 0 n))).
    2:{ apply Forall_flat_map_range. intros i _. destruct p, c as [[] [] [] []]; repeat constructor. }
    cbn [remaining_waits wait_count Nat.sub].
    rewrite (remaining_no_sync (flat_map (call_block p r u) (seq 0 k))).
    2:{ apply Forall_flat_map_range. intros i _. destruct p, r, u; repeat constructor. }
    reflexivity. }
  unfold unwind_actions. rewrite Hrem. cbn [repeat].
  exists (l1 ++ [CallPanic k r (in_cell p)]). split; [reflexivity|].
  apply Forall_app. split; [|repeat constructor; discriminate].
  unfold l1. apply Forall_app. split; [|apply Forall_app; split].
  - apply Forall_flat_map_range. intros i _. destruct p, c as [[] [] [] []]; repeat constructor; discriminate.
  - repeat constructor; discriminate.
  - apply Forall_flat_map_range. intros i _. destruct p, r, u; repeat constructor; discriminate.
Qed.

(** The generator panics at index [k < n]: the thread has not waited yet, the
    guard performs all three waits. *)
Theorem unwind_after_gen_panic e sh n cs u k :
  k < n ->
  exists ran, cut_prog PanicGen k (sample_prog e sh n cs u) = ran ++ [GuardWait; GuardWait; GuardWait]
              /\ Forall (fun a => a <> GuardWait) ran.
Proof.
  intros Hk. unfold sample_prog, sample_core, gen_phase.
  set (s := eff_shape e sh). set (p := path_of s). set (c := eff_counters e cs). set (r := by_ref e).
  rewrite (seq_split3 n k Hk). rewrite flat_map_app. cbn [flat_map].
  unfold gen_block at 2. cbn [app].
  set (l1 := flat_map (gen_block p c) (seq 0 k)).
  match goal with
  | |- context [cut_prog PanicGen k ?l] =>
      assert (Hl : exists l2, l = l1 ++ Gen k :: l2)
  end.
  { unfold l1. eexists. rewrite <- !app_assoc. cbn [app]. reflexivity. }
  destruct Hl as (l2 & ->).
  assert (Hfree : Forall (fun a => match a with Gen i => i <> k | _ => True end) l1).
  { unfold l1. apply Forall_flat_map_range. intros i Hi.
    destruct p, c as [[] [] [] []]; repeat constructor; cbn; lia. }
  unfold cut_prog. rewrite (cut_at_gen_prefix k l1 l2 Hfree).
  assert (Hrem : remaining_waits (l1 ++ [GenPanic k]) wait_count = 3).
  { rewrite remaining_app. unfold l1.
    rewrite (remaining_no_sync (flat_map (gen_block p c) (seq 0 k))); [reflexivity|].
    apply Forall_flat_map_range. intros i _. destruct p, c as [[] [] [] []]; repeat constructor. }
  unfold unwind_actions. rewrite Hrem. cbn [repeat].
  exists (l1 ++ [GenPanic k]). split; [reflexivity|].
  apply Forall_app. split; [|repeat constructor; discriminate].
  unfold l1. apply Forall_flat_map_range. intros i _.
  destruct p, c as [[] [] [] []]; repeat constructor; discriminate.
Qed.
