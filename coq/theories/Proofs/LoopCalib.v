(** Proofs about Model/Loop.v, part 6: the time origin of the sampling loop and
    the first-use calibration of the timer overheads. *)

From DivanV Require Import Base.Res Generated.Consts Model.Timestamp Model.Loop Proofs.Loop Proofs.LoopProps Proofs.LoopSb.
Local Open Scope N_scope.

(** With the origin read after the overhead lookup the run depends on the
    clock after the calibration only, not on how long the calibration took. *)
Lemma cal_after c t0 calib hist :
  origin_before_calib = false -> bench_loop_cal c t0 calib hist = bench_loop c (t0 + calib) hist.
Proof. intros H. unfold bench_loop_cal. rewrite H. reflexivity. Qed.

Theorem calib_independent c t0 calib t0' calib' hist :
  origin_before_calib = false -> t0 + calib = t0' + calib' ->
  bench_loop_cal c t0 calib hist = bench_loop_cal c t0' calib' hist.
Proof. intros H E. rewrite !cal_after by exact H. rewrite E. reflexivity. Qed.

(** ... and the rounds are the least k of the rule, the elapsed time measured
    from just before the first sample. *)
Theorem rounds_least_cal c t0 calib hist out :
  origin_before_calib = false ->
  c_test c = false -> has_samples c = true ->
  bench_loop_cal c t0 calib hist = Ok out ->
  let k := rounds_of (out_state out) in
  (k <= length hist)%nat /\
  (forall j, (j < k)%nat -> continue_after c (t0 + calib) hist j = true) /\
  (if out_done out then continue_after c (t0 + calib) hist k = false
   else k = length hist /\ continue_after c (t0 + calib) hist k = true).
Proof. intros H Ht Hh Hb. rewrite (cal_after c t0 calib hist H) in Hb. exact (rounds_least c (t0 + calib) hist out Ht Hh Hb). Qed.

Theorem cal_model_sb c t0 calib hist out t s :
  origin_before_calib = false ->
  bench_loop_cal c t0 calib hist = Ok out -> seen_of_outcome t out = Ok s ->
  c04_cal_sb c t0 calib (firstn (rounds_of (out_state out)) hist) s = true.
Proof. intros H Hb Hs. rewrite (cal_after c t0 calib hist H) in Hb. exact (c04_model_sb c (t0 + calib) hist out t s Hb Hs). Qed.

(** With the origin read BEFORE the lookup the property fails: one sample of
    one iteration, min_time = 500 ps, a calibration of 800 ps, rounds of 101 ps
    each: the loop returns after one round (it sees 902 ps elapsed), although
    only 102 ps have elapsed since just before the first sample and the rule asks
    for five rounds. *)
Definition cal_cfg : cfg :=
  {| c_test := false; c_count := Some 1; c_size := Some 1; c_min := 500; c_max := u128_max; c_skip := false;
     c_freq := 1000000000000; c_prec := 1; c_oh := {| oh_loop := 0; oh_alloc := 0; oh_dealloc := 0; oh_realloc := 0 |};
     c_input_counts := qconst false |}.
Definition cal_hist : list round_obs :=
  [[ex_raw 801 902]; [ex_raw 903 1004]; [ex_raw 1005 1106]; [ex_raw 1107 1208]; [ex_raw 1209 1310]; [ex_raw 1311 1412]].

Theorem origin_before_refuted :
  exists out, bench_loop cal_cfg (origin_reading true 0 800) cal_hist = Ok out /\ out_done out = true /\
    rounds_of (out_state out) = 1%nat /\
    (forall j, (j < 5)%nat -> continue_after cal_cfg (0 + 800) cal_hist j = true) /\
    continue_after cal_cfg (0 + 800) cal_hist 5 = false.
Proof.
  eexists. split; [vm_compute; reflexivity|]. split; [reflexivity|]. split; [reflexivity|]. split.
  - intros j Hj. do 5 (destruct j as [|j]; [vm_compute; reflexivity|]). lia.
  - vm_compute. reflexivity.
Qed.

(** The same history with the origin read after the lookup: five rounds. *)
Example origin_after_example :
  exists out, bench_loop cal_cfg (origin_reading false 0 800) cal_hist = Ok out /\ out_done out = true /\
    rounds_of (out_state out) = 5%nat.
Proof. eexists. split; [vm_compute; reflexivity|]. split; reflexivity. Qed.
