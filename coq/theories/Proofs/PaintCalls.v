(** C20: ignored benchmarks are marked and not run; the calls made are exactly
    the expected ones. *)
From DivanV Require Import Base.Res Model.Painter Model.DriverPaint Model.Parse
  Proofs.Painter Proofs.PaintDriver.
From Coq Require Import Lia.

Lemma invokes_app : forall a b, invokes (a ++ b) = invokes a ++ invokes b.
Proof. intros. apply flat_map_app. Qed.

Lemma invokes_threads : forall a id arg outf has_tb ilb tcs i,
  invokes (for_last tcs i (fun i i_is_last tc =>
       let is_last_tc := if has_tb : bool then i_is_last else ilb in
       (if has_tb then [StartLeaf (thread_name tc) is_last_tc] else [])
       ++ [Invoke id arg tc]
       ++ (if did_run (outf i) && is_bench a
           then [FinishLeaf is_last_tc (cells (outf i))]
           else [FinishEmptyLeaf])))
  = calls_bench id arg tcs.
Proof.
  intros a id arg outf has_tb ilb tcs. induction tcs as [|tc r IH]; intros i; [reflexivity|].
  cbn [for_last calls_bench map]. rewrite invokes_app, IH.
  destruct has_tb; destruct (did_run (outf i) && is_bench a); reflexivity.
Qed.

Lemma invokes_bench : forall a id arg tcs outf name l,
  invokes (run_bench a id arg tcs outf name l) = calls_bench id arg tcs.
Proof.
  intros. unfold run_bench. rewrite for_enum_eq, !invokes_app, invokes_threads.
  destruct (Nat.ltb 1 (length tcs)); cbn; rewrite app_nil_r; reflexivity.
Qed.

Lemma invokes_args : forall a id tcs out names i,
  invokes (for_last names i (fun i il an => run_bench a id (Some i) tcs (out i) an il))
  = flat_map (fun ia => calls_bench id (Some (fst ia)) tcs) (enum_from i names).
Proof.
  intros a id tcs out names. induction names as [|an r IH]; intros i; [reflexivity|].
  cbn [for_last enum_from flat_map fst]. rewrite invokes_app, invokes_bench, IH. reflexivity.
Qed.

Lemma invokes_entry : forall a id name ignored args threads out l,
  invokes (run_bench_entry a id name ignored args threads out l) = calls_entry a id ignored args threads.
Proof.
  intros. unfold run_bench_entry, calls_entry.
  destruct ignored; [reflexivity|]. destruct (is_list a); [reflexivity|].
  destruct args as [names|].
  - rewrite for_enum_eq, !invokes_app, invokes_args. cbn. rewrite app_nil_r. reflexivity.
  - apply invokes_bench.
Qed.

Lemma invokes_node : forall a n l, invokes (run_node a l n) = calls a n.
Proof.
  intros a n. induction n as [name sc children IH | id name sc ignored args threads out] using node_ind2; intros l.
  - rewrite run_node_group, !invokes_app. cbn [invokes flat_map app calls]. rewrite app_nil_r.
    change (flat_map (fun o => match o with Invoke id a0 tc => [(id, a0, tc)] | _ => [] end) ?x) with (invokes x).
    induction children as [|c r IHr]; [reflexivity|].
    inversion IH; subst. cbn [run_kids flat_map]. rewrite invokes_app, H1, IHr by assumption. reflexivity.
  - apply invokes_entry.
Qed.

Lemma invokes_kids : forall a t, invokes (run_kids a t) = all_calls a t.
Proof.
  intros a t. induction t as [|n r IH]; [reflexivity|].
  cbn [run_kids]. unfold all_calls in *. cbn [flat_map]. rewrite invokes_app, invokes_node, IH. reflexivity.
Qed.

(** Ignored benchmarks: one line whose first cell is [(ignored)], no call;
    and over the whole tree the calls made are exactly [all_calls], to which
    ignored entries (and listing) contribute nothing. *)
Theorem ignored_marked : forall a,
  (forall id name args threads out l,
     run_bench_entry a id name true args threads out l = [IgnoreLeaf name l] /\
     calls_entry a id true args threads = [] /\
     pic_entry a name true args threads out =
       Pic name (Some (if is_bench a then from_first s_ignored else [s_ignored])) [] []) /\
  (forall t, invokes (paint_ops a t) = all_calls a t).
Proof.
  intros a. split; [intros; repeat split; reflexivity|].
  intros t. unfold paint_ops. destruct t as [|n r]; [reflexivity|].
  unfold run_tree. rewrite run_list_from_eq by reflexivity. apply invokes_kids.
Qed.
