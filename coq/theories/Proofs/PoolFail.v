(** Proofs about the failed-thread-creation extension (Model/PoolFail.v):
    (a) an aborted broadcast preserves every invariant of the pool model and
        touches nothing but the thread list and the script;
    (b) hence, for the code's shape, all C06 / C07 statements hold along every
        execution of the extended relation (any number of aborted broadcasts
        anywhere in the script);
    (c) the two seeded shapes (lock not recovered after poisoning = C06-m,
        sender pushed before the spawn = C06-n) are refuted by witnesses. *)

From DivanV Require Import Base.Res Generated.Consts Model.Pool Model.PoolFail
  Proofs.Pool Proofs.PoolLive Proofs.PoolCalls Proofs.PoolViews Proofs.PoolSlots.
From Coq Require Import Arith Lia List Bool Wf_nat.
Import ListNotations.
Import PoolM PoolF.

Arguments Nat.sub : simpl never.
Arguments Nat.mul : simpl never.
Arguments Nat.eqb : simpl never.
Arguments Nat.leb : simpl never.
Arguments Nat.ltb : simpl never.
Arguments list_sum : simpl never.

(** * (a) The aborted broadcast preserves the invariants *)

Lemma inv_abort s j rest : Inv s -> cst s = CIdle -> Inv (st_abort s j rest).
Proof.
  intros I Hc.
  assert (NP : Forall (fun w => any_pre w = false) (ws s)) by (apply no_pre_idle; auto; now rewrite Hc).
  assert (NP' : Forall (fun w => any_pre w = false) (ws s ++ repeat WIdle j)).
  { apply Forall_app; split; auto. now apply Forall_repeat. }
  constructor; unfold st_abort; cbn.
  - unfold rc_ok, count_pre; cbn. now apply count_pre_none.
  - apply Forall_app; split; [exact (I_wf s I)|]. apply Forall_repeat. exact Logic.I.
  - rewrite (I_alive s I), Hc. reflexivity.
  - exact Logic.I.
  - intros _. apply Forall_app; split.
    + apply (I_exit s I). rewrite Hc. discriminate.
    + apply Forall_repeat. discriminate.
  - apply (I_bad s I).
  - intros k w E P. exfalso. pose proof (Forall_nth_error _ _ _ _ NP' E) as F. cbn in F. congruence.
  - rewrite !app_length, !repeat_length. now rewrite (I_wv s I).
Qed.

Lemma inv2_abort scr s j n rest :
  Inv2 scr s -> cst s = CIdle -> script s = n :: rest ->
  Inv2 (map r_n (returned s) ++ rest) (st_abort s j rest).
Proof.
  intros J Hc Es. pose proof J as [J1 J2 J3 J4 J5 J6 J7 J8 J9].
  rewrite Hc in *. cbn in *.
  constructor; unfold st_abort; cbn; auto; try discriminate.
  eapply Forall_impl; [|exact J6]. intros r [R1 R2]. split; auto.
  cbn. rewrite Hc in R1. exact R1.
Qed.

Lemma invv_abort c s j rest : Inv s -> InvV c s -> cst s = CIdle -> InvV c (st_abort s j rest).
Proof.
  intros I V Hc. constructor; unfold st_abort; cbn; try discriminate.
  - intros k b H. unfold at_clone_or_dec in H. cbn in H.
    assert (Lt : k < length (ws s)).
    { destruct (Nat.lt_ge_cases k (length (ws s))) as [L|L]; auto. exfalso.
      rewrite !nth_error_app2 in H by auto.
      destruct H as [H|H]; apply nth_error_In in H; apply repeat_spec in H; discriminate. }
    rewrite !nth_error_app1 in H by auto. rewrite app_nth1 by (rewrite (I_wv s I); auto).
    now apply (V_worker _ _ V).
  - apply V.
Qed.

Lemma invs_abort s j rest : InvS s -> InvS (st_abort s j rest).
Proof.
  intros SS. constructor; unfold st_abort; cbn; [discriminate|].
  eapply Forall_impl; [|exact (S_ret _ SS)]. intros r H. rewrite H.
  symmetry. apply expected_slots_ext; reflexivity.
Qed.

(** From any state satisfying the pool invariants at a broadcast boundary, an
    aborted broadcast ([j] threads created, the next creation refused) leaves a
    state satisfying the same invariants, whose workers are the old ones plus
    the [j] successfully created idle ones; no task was handed out (no worker
    state changed), no call was made, the counter, the park token, the
    broadcast numbering and the records are untouched. *)
Theorem fail_preserves_inv c scr s j n rest :
  Inv s -> Inv2 scr s -> InvV c s -> InvS s ->
  cst s = CIdle -> script s = n :: rest ->
  let s' := st_abort s j rest in
  Inv s' /\ (exists scr', Inv2 scr' s') /\ InvV c s' /\ InvS s'
  /\ ws s' = ws s ++ repeat WIdle j /\ script s' = rest /\ cst s' = CIdle
  /\ calls s' = calls s /\ panics s' = panics s /\ rc s' = rc s /\ token s' = token s
  /\ cur s' = cur s /\ returned s' = returned s /\ bad s' = bad s.
Proof.
  intros I J V SS Hc Es. cbn zeta.
  split; [now apply inv_abort|].
  split; [eexists; eapply inv2_abort; eauto|].
  split; [now apply invv_abort|].
  split; [now apply invs_abort|].
  repeat split.
Qed.

(** * (b) Executions of the extended relation *)

Inductive xreachable (c : cfg) (fc : fcfg) (scr : list nat) : xstate -> Prop :=
| XR_init : xreachable c fc scr (xinit scr)
| XR_step x xl x' : xreachable c fc scr x -> xstep c fc x xl = Some x' -> xreachable c fc scr x'.

(** Inversion of [xstep]. *)
Definition chans_after (x : xstate) (l : label) : list bool :=
  match l with
  | EBegin n => if Nat.eqb n 0 then chans x else chans x ++ repeat true (n - length (chans x))
  | _ => chans x
  end.

Lemma xstep_inv c fc x xl x' :
  xstep c fc x xl = Some x' ->
  (exists l, xl = XStep l /\ step c (base x) l = Some (base x')
             /\ chans x' = chans_after x l /\ poisoned x' = poisoned x
             /\ (forall n, l = EBegin n -> n <> 0 -> lock_ok fc x = true /\ all_live x = true))
  \/ (exists n j rest, xl = XAbort n j /\ cst (base x) = CIdle /\ script (base x) = n :: rest
        /\ length (ws (base x)) + j < n /\ lock_ok fc x = true /\ all_live x = true
        /\ base x' = st_abort (base x) j rest
        /\ chans x' = chans x ++ repeat true j ++ (if f_push_after fc then [] else [false])
        /\ poisoned x' = true).
Proof.
  intro H. destruct xl as [l|n j]; cbn [xstep] in H.
  - left. exists l.
    destruct l;
      try (destruct (step c (base x) _) as [s'|] eqn:E; [|discriminate]; inversion H; subst; cbn;
           (split; [reflexivity|]); (split; [reflexivity|]); (split; [reflexivity|]); (split; [reflexivity|]);
           intros m Em; discriminate Em).
    destruct (Nat.eqb n 0) eqn:Z; cbn iota in H.
    + destruct (step c (base x) (EBegin n)) as [s'|] eqn:E; [|discriminate]. inversion H; subst; cbn.
      split; [reflexivity|]. split; [reflexivity|]. split; [unfold chans_after; now rewrite Z|]. split; [reflexivity|].
      intros m Em Nm. inversion Em; subst. apply Nat.eqb_eq in Z. contradiction.
    + destruct (lock_ok fc x && all_live x) eqn:L; [|discriminate]. apply andb_prop in L.
      destruct (step c (base x) (EBegin n)) as [s'|] eqn:E; [|discriminate]. inversion H; subst; cbn.
      split; [reflexivity|]. split; [reflexivity|]. split; [unfold chans_after; now rewrite Z|]. split; [reflexivity|].
      intros; exact L.
  - right. destruct (cst (base x)) eqn:Hc; try discriminate.
    destruct (script (base x)) as [|m rest] eqn:Es; try discriminate.
    destruct (Nat.eqb n m && Nat.ltb (length (ws (base x)) + j) n && lock_ok fc x && all_live x) eqn:G; [|discriminate].
    apply andb_prop in G. destruct G as [G G4]. apply andb_prop in G. destruct G as [G G3].
    apply andb_prop in G. destruct G as [G1 G2]. apply Nat.eqb_eq in G1. apply Nat.ltb_lt in G2. subst m.
    inversion H; subst; cbn. exists n, j, rest. repeat split; auto.
Qed.

(** All invariants of the base development, plus: [threads] has exactly one
    live entry per worker. *)
Record XInv (c : cfg) (x : xstate) : Prop := {
  X_inv : Inv (base x);
  X_inv2 : exists scr, Inv2 scr (base x);
  X_v : InvV c (base x);
  X_s : InvS (base x);
  X_ch : chans x = repeat true (length (ws (base x)))
}.

Lemma all_live_ok c x : XInv c x -> all_live x = true.
Proof.
  intros X. unfold all_live. rewrite (X_ch _ _ X), repeat_length, Nat.eqb_refl, andb_true_r.
  apply forallb_forall. intros b Hb. now apply repeat_spec in Hb.
Qed.

Theorem xinv_step c x xl x' : good c -> XInv c x -> xstep c code_fcfg x xl = Some x' -> XInv c x'.
Proof.
  intros G X H. destruct X as [I [scr J] V SS Ch].
  destruct (xstep_inv _ _ _ _ _ H) as [(l & -> & St & C1 & _ & _)|(n & j & rest & -> & Hc & Es & Lt & _ & _ & B & C1 & _)].
  - constructor.
    + eapply inv_step; eauto.
    + exists scr. eapply inv2_step; eauto.
    + eapply invv_step; eauto.
    + eapply invs_step; eauto.
    + rewrite C1. pose proof (spawn_reuse _ _ _ _ St) as L. unfold chans_after.
      destruct l; try (now rewrite L).
      destruct L as (L & _). rewrite L, Ch, repeat_length.
      destruct (Nat.eqb n 0) eqn:Z.
      * apply Nat.eqb_eq in Z. subst. now rewrite Nat.max_0_r.
      * rewrite <- repeat_app. f_equal. lia.
  - constructor; rewrite ?B.
    + now apply inv_abort.
    + eexists. eapply inv2_abort; eauto.
    + now apply invv_abort.
    + now apply invs_abort.
    + rewrite C1. cbn. rewrite app_nil_r, Ch, app_length, repeat_length. now rewrite <- repeat_app.
Qed.

Theorem xinv_reachable c scr x : good c -> xreachable c code_fcfg scr x -> XInv c x.
Proof.
  intros G R. induction R.
  - constructor; cbn.
    + apply inv_init.
    + eexists. apply inv2_init.
    + apply invv_init.
    + apply invs_init.
    + reflexivity.
  - eapply xinv_step; eauto.
Qed.

(** A step of the base relation is a step of the extended one (code shape). *)
Lemma xstep_of_step c x l s' :
  XInv c x -> step c (base x) l = Some s' ->
  exists x', xstep c code_fcfg x (XStep l) = Some x' /\ base x' = s'.
Proof.
  intros X St. pose proof (all_live_ok _ _ X) as A.
  destruct l; cbn [xstep]; rewrite ?St; try (eexists; split; [reflexivity|reflexivity]).
  destruct (Nat.eqb n 0).
  - eexists; split; reflexivity.
  - unfold lock_ok. cbn [f_recover code_fcfg]. rewrite orb_true_r, A. cbn [andb]. eexists; split; reflexivity.
Qed.

(** ** C06 along extended executions *)

Theorem x_c06 c scr x :
  good c -> xreachable c code_fcfg scr x ->
  bad (base x) = false
  /\ (forall r, In r (returned (base x)) ->
        once_per_index (base x) (r_b r) (r_n r) = true
        /\ (forall i, In (r_b r, i) (calls (base x)) <-> i <= r_n r)
        /\ r_slots r = expected_slots (base x) (r_b r) (r_n r)
        /\ (is_release (c_dec c) = true -> is_acquire (c_load c) = true ->
            view_has_all (r_b r) (r_n r) (r_view r) = true))
  /\ NoDup (calls (base x))
  /\ (in_broadcast (cst (base x)) = false -> Forall (fun w => any_pre w = false) (ws (base x))).
Proof.
  intros G R. destruct (xinv_reachable _ _ _ G R) as [I [scr' J] V SS _].
  split; [apply I|]. split; [|split; [apply J|intro B; now apply no_pre_idle]].
  intros r Hr.
  pose proof (J_ret _ _ J) as Rt. rewrite Forall_forall in Rt. destruct (Rt _ Hr) as [_ H].
  pose proof (S_ret _ SS) as Sr. rewrite Forall_forall in Sr.
  repeat split; try apply H; auto.
  - apply once_per_index_intro; auto. apply J.
  - intros Rl Aq. pose proof (V_ret _ _ V Rl Aq) as F. rewrite Forall_forall in F.
    apply view_has_all_intro. now apply F.
Qed.

(** ** C07 along extended executions *)

Lemma wake_inv c s n :
  Inv s -> cst s = CPark n -> rc s = 0 -> token s = false ->
  exists k, getw s k = Some (WUnpark (cur s)) /\ step c s (EWUnpark k) = Some (st_wunpark s k).
Proof.
  intros I Hc Hr Ht.
  pose proof (I_wake s I) as W. unfold wake_ok in W. rewrite Hc in W.
  destruct (Exists_nth_error _ _ (W Hr Ht)) as (j & w & E & ->).
  exists (S j). split; [exact E|]. unfold step. cbn [getw]. rewrite E. now destruct (cst s).
Qed.

Lemma deadlock_free_inv c s : good c -> Inv s -> final s = false -> can_move c s.
Proof.
  intros G I F.
  destruct (cst s) eqn:Hc.
  - destruct (script s) as [|n rest] eqn:Es.
    + exists EDrop, (st_drop s). split; [discriminate|]. unfold step. now rewrite Hc, Es.
    + exists (EBegin n), (st_begin s n rest). split; [discriminate|]. unfold step. now rewrite Hc, Es, Nat.eqb_refl.
  - pose proof (I_rc s I) as Rc. unfold rc_ok in Rc. rewrite Hc in Rc. destruct Rc as (_ & K1 & K2 & K3).
    destruct k as [|j]; [lia|].
    destruct (nth_error (ws s) j) as [w|] eqn:E; [|apply nth_error_None in E; lia].
    destruct w eqn:Ew.
    + exists (ESend (S j)), (st_send s (S j) n). split; [discriminate|].
      unfold step. rewrite Hc, Nat.eqb_refl. cbn [getw]. now rewrite E.
    + eapply (worker_moves c s (S j)); [exact E|discriminate|discriminate].
    + eapply (worker_moves c s (S j)); [exact E|discriminate|discriminate].
    + eapply (worker_moves c s (S j)); [exact E|discriminate|discriminate].
    + eapply (worker_moves c s (S j)); [exact E|discriminate|discriminate].
    + exfalso. assert (N : cst s <> CDone) by (rewrite Hc; discriminate).
      pose proof (Forall_nth_error _ _ _ _ (I_exit s I N) E) as X. now apply X.
  - exists (ERun0 false), (st_run0 s n false). split; [discriminate|]. unfold step. now rewrite Hc.
  - destruct (leave c s) eqn:El.
    + exists ELoad, (do_return s n (load_view c s) (token s)). split; [discriminate|]. unfold step. now rewrite Hc, El.
    + exists ELoad, (st_topark s n (load_view c s)). split; [discriminate|]. unfold step. now rewrite Hc, El.
  - destruct (token s) eqn:Et.
    + exists EPark. eexists. split; [discriminate|]. unfold step. rewrite Hc, Et. reflexivity.
    + destruct (Nat.eq_dec (rc s) 0) as [Z|NZ].
      * destruct (wake_inv c s n I Hc Z Et) as (k & _ & St).
        exists (EWUnpark k). eexists. split; [discriminate|]. exact St.
      * pose proof (I_rc s I) as Rc. unfold rc_ok in Rc. rewrite Hc in Rc. destruct Rc as (Rc & _).
        assert (P : 1 <= length (filter (pre_dec (cur s)) (ws s))) by (unfold count_pre in Rc; lia).
        destruct (count_pos_exists _ _ P) as (j & w & E & Pw).
        eapply (worker_moves c s (S j) w); [exact E| |]; intros ->; discriminate.
  - unfold final in F. rewrite Hc in F. unfold all_exited in F.
    destruct (forallb_false_exists _ _ F) as (j & w & E & Nw).
    destruct w eqn:Ew; try discriminate.
    + exists (EWExit (S j)), (st_wexit s (S j)). split; [discriminate|].
      unfold step. rewrite Hc. cbn [getw]. now rewrite E.
    + eapply (worker_moves c s (S j)); [exact E|discriminate|discriminate].
    + eapply (worker_moves c s (S j)); [exact E|discriminate|discriminate].
    + eapply (worker_moves c s (S j)); [exact E|discriminate|discriminate].
    + eapply (worker_moves c s (S j)); [exact E|discriminate|discriminate].
Qed.

Definition xlex_lt (x' x : xstate) : Prop := lex_lt (base x') (base x).

Lemma x_measure c x xl x' :
  good c -> XInv c x -> xstep c code_fcfg x xl = Some x' -> xl <> XStep ESpurious -> xlex_lt x' x.
Proof.
  intros G X H NS. unfold xlex_lt.
  destruct (xstep_inv _ _ _ _ _ H) as [(l & -> & St & _)|(n & j & rest & -> & Hc & Es & _ & _ & _ & B & _)].
  - eapply measure_decreases; eauto; [apply X|]. intros ->. now apply NS.
  - left. rewrite B. unfold outer_measure, st_abort; cbn. rewrite Es, Hc. cbn. lia.
Qed.

Theorem x_c07 c scr x :
  good c -> xreachable c code_fcfg scr x ->
  (* no lost wake-up *)
  (forall n, cst (base x) = CPark n -> rc (base x) = 0 -> token (base x) = false ->
     exists k x', getw (base x) k = Some (WUnpark (cur (base x))) /\ xstep c code_fcfg x (XStep (EWUnpark k)) = Some x')
  (* deadlock freedom *)
  /\ (xfinal x = false -> exists l x', l <> ESpurious /\ xstep c code_fcfg x (XStep l) = Some x')
  (* the measure decreases on every step that is not a spurious wake-up *)
  /\ (forall xl x', xstep c code_fcfg x xl = Some x' -> xl <> XStep ESpurious -> xlex_lt x' x).
Proof.
  intros G R. pose proof (xinv_reachable _ _ _ G R) as X. split; [|split].
  - intros n Hc Hr Ht. destruct (wake_inv c _ n (X_inv _ _ X) Hc Hr Ht) as (k & Hg & St).
    destruct (xstep_of_step c x _ _ X St) as (x' & Sx & _). eauto.
  - intro F. destruct (deadlock_free_inv c _ G (X_inv _ _ X) F) as (l & s' & NS & St).
    destruct (xstep_of_step c x _ _ X St) as (x' & Sx & _). eauto.
  - intros xl x' H NS. eapply x_measure; eauto.
Qed.

(** No infinite extended execution has finitely many spurious wake-ups. *)
Theorem x_no_infinite_run c scr (f : nat -> xstate) (ls : nat -> xlabel) :
  good c -> f 0 = xinit scr -> (forall i, xstep c code_fcfg (f i) (ls i) = Some (f (S i))) ->
  forall N, exists i, N <= i /\ ls i = XStep ESpurious.
Proof.
  intros G H0 Hs.
  assert (R : forall i, xreachable c code_fcfg scr (f i)).
  { induction i; [rewrite H0; constructor|]. econstructor; eauto. }
  assert (X : forall s, forall k, base (f k) = s -> exists i, k <= i /\ ls i = XStep ESpurious).
  { apply (lex_induction (fun s => forall k, base (f k) = s -> exists i, k <= i /\ ls i = XStep ESpurious)).
    intros s IH k Hk.
    assert (D : ls k = XStep ESpurious \/ ls k <> XStep ESpurious).
    { destruct (ls k) as [l|n j]; [destruct l|]; try (right; discriminate). now left. }
    destruct D as [E|NS]; [exists k; auto|].
    pose proof (x_measure c (f k) (ls k) (f (S k)) G (xinv_reachable _ _ _ G (R k)) (Hs k) NS) as L.
    unfold xlex_lt in L. rewrite Hk in L.
    destruct (IH _ L (S k) eq_refl) as (i & Hi & Ei). exists i. split; [lia|exact Ei]. }
  intros N. eapply X; eauto.
Qed.

(** From every state of an extended execution the final state is reached
    (pool dropped, every worker exited) without any spurious wake-up. *)
Theorem x_reaches_final c scr x :
  good c -> xreachable c code_fcfg scr x ->
  exists ls x', xrun c code_fcfg x ls = Some x' /\ xfinal x' = true /\ ~ In (XStep ESpurious) ls.
Proof.
  intros G.
  assert (P : forall s x, base x = s -> xreachable c code_fcfg scr x ->
              exists ls x', xrun c code_fcfg x ls = Some x' /\ xfinal x' = true /\ ~ In (XStep ESpurious) ls).
  { apply (lex_induction (fun s => forall x, base x = s -> xreachable c code_fcfg scr x ->
              exists ls x', xrun c code_fcfg x ls = Some x' /\ xfinal x' = true /\ ~ In (XStep ESpurious) ls)).
    intros s IH x0 Hb R. destruct (xfinal x0) eqn:F.
    - exists [], x0. cbn. auto.
    - pose proof (xinv_reachable _ _ _ G R) as X.
      destruct (deadlock_free_inv c _ G (X_inv _ _ X) F) as (l & s' & NS & St).
      destruct (xstep_of_step c x0 _ _ X St) as (x1 & Sx & Bx).
      assert (NS' : XStep l <> XStep ESpurious) by (intro E; inversion E; contradiction).
      pose proof (x_measure c x0 _ x1 G X Sx NS') as L. unfold xlex_lt in L. rewrite Hb in L.
      destruct (IH _ L x1 eq_refl (XR_step _ _ _ _ _ _ R Sx)) as (ls & x' & Rn & Fn & Nin).
      exists (XStep l :: ls), x'. cbn [xrun]. rewrite Sx. repeat split; auto.
      intros [E|E]; [now apply NS'|contradiction]. }
  intros R. eapply P; eauto.
Qed.

(** * An execution with an aborted broadcast (the hypotheses are satisfiable) *)

Lemma xrun_reachable c fc scr x ls x' :
  xreachable c fc scr x -> xrun c fc x ls = Some x' -> xreachable c fc scr x'.
Proof.
  revert x. induction ls as [|l ls IH]; cbn [xrun]; intros x R H.
  - now inversion H; subst.
  - destruct (xstep c fc x l) as [x1|] eqn:E; [|discriminate]. apply (IH x1); [|exact H]. econstructor; eauto.
Qed.

Definition x_labels : list xlabel :=
  XAbort 2 1 ::
  map XStep [EBegin 2; ESend 1; ESend 2; ERun0 false; EWRun 1 false; EWClone 1; EWDec 1; EWRun 2 true; EWClone 2; EWDec 2;
             ELoad; EDrop; EWUnpark 2; EWExit 1; EWExit 2].

(** Script [2; 2]: the first broadcast is aborted after thread 1 was created
    (the creation of thread 2 is refused); the second one creates the missing
    thread 2, reuses thread 1, runs its three calls (call 2 panics), returns;
    the pool is dropped and both workers exit.  One return record. *)
Example x_example :
  exists x, xreachable code_cfg code_fcfg [2; 2] x /\ xfinal x = true
            /\ map r_n (returned (base x)) = [2] /\ length (ws (base x)) = 2
            /\ map r_slots (returned (base x)) = [[Some 0; Some 1; None]].
Proof.
  destruct (xrun code_cfg code_fcfg (xinit [2; 2]) x_labels) as [x|] eqn:E; [|vm_compute in E; discriminate].
  assert (R : xreachable code_cfg code_fcfg [2; 2] x) by (eapply xrun_reachable; [constructor|exact E]).
  vm_compute in E. injection E as <-.
  eexists. split; [exact R|]. repeat split.
Qed.

(** * (c) The two seeded shapes are refuted *)

(** C06-m: [lock().unwrap()] instead of recovering from poisoning.  After an
    aborted broadcast the next broadcast with [n >= 1] cannot take the lock: in
    the code the caller panics there, before index 0 runs; in the model no step
    at all is enabled in a non-final state (deadlock freedom fails). *)
Definition fcfg_no_recover : fcfg := {| f_recover := false; f_push_after := true |}.

Theorem lock_not_recovered_refuted :
  exists x, xreachable code_cfg fcfg_no_recover [1; 1] x /\ xfinal x = false
            /\ script (base x) = [1] /\ forall xl, xstep code_cfg fcfg_no_recover x xl = None.
Proof.
  destruct (xstep code_cfg fcfg_no_recover (xinit [1; 1]) (XAbort 1 0)) as [x|] eqn:E; [|vm_compute in E; discriminate].
  assert (R : xreachable code_cfg fcfg_no_recover [1; 1] x) by (econstructor; [constructor|exact E]).
  vm_compute in E. injection E as <-.
  eexists. split; [exact R|]. split; [reflexivity|]. split; [reflexivity|].
  intros [l|n j].
  - destruct l; try reflexivity.
    + cbn [xstep]. destruct (Nat.eqb n 0) eqn:Z; [|reflexivity].
      apply Nat.eqb_eq in Z. subst. reflexivity.
    + destruct k as [|[|k]]; reflexivity.
    + destruct k as [|[|k]]; reflexivity.
    + destruct k as [|[|k]]; reflexivity.
    + destruct k as [|[|k]]; reflexivity.
  - cbn [xstep base cst script]. destruct (Nat.eqb n 1), (Nat.ltb (length (ws _) + j) n); reflexivity.
Qed.

(** C06-n: the sender enters [threads] before the thread is created.  After a
    refused creation the list holds a dead channel and counts a thread that
    does not exist; the next broadcast reaching that index does not create the
    thread and sends into the dead channel (in the code: [send(..).unwrap()]
    panics after the lower threads already have the task).  The invariant
    "one live entry per worker" is violated and the broadcast is not a step. *)
Definition fcfg_push_first : fcfg := {| f_recover := true; f_push_after := false |}.

Theorem push_before_spawn_refuted :
  exists x, xreachable code_cfg fcfg_push_first [2; 2] x
            /\ In false (chans x) /\ length (chans x) <> length (ws (base x))
            /\ script (base x) = [2] /\ xstep code_cfg fcfg_push_first x (XStep (EBegin 2)) = None.
Proof.
  destruct (xstep code_cfg fcfg_push_first (xinit [2; 2]) (XAbort 2 1)) as [x|] eqn:E; [|vm_compute in E; discriminate].
  assert (R : xreachable code_cfg fcfg_push_first [2; 2] x) by (econstructor; [constructor|exact E]).
  vm_compute in E. injection E as <-.
  eexists. split; [exact R|]. cbn. repeat split; auto.
Qed.
