(** C12, tree level: every entry becomes exactly one leaf under its raw module
    path; sibling parents have distinct names (the tree is the trie of the
    paths); group insertion changes slots only. *)
From Coq Require Import Permutation.
From DivanV Require Import Base.Res Model.Registry Model.Tree Proofs.TreeBase.
Local Open Scope N_scope.
Arguments mk_leaf : simpl never.

Definition rleaf := (list str * any_entry * option (list N))%type.

Definition prepend (r : str) (x : rleaf) : rleaf := (r :: fst (fst x), snd (fst x), snd x).

Fixpoint raw_leaves_node (t : tree) : list rleaf :=
  match t with
  | Leaf e a => [([], e, a)]
  | Parent r _ ch => map (prepend r) (flat_map raw_leaves_node ch)
  end.
Definition raw_leaves (l : list tree) : list rleaf := flat_map raw_leaves_node l.

Definition leaf_args (e : any_entry) : option (list N) :=
  match entry_runner e with
  | RPlain => None
  | RArgs _ vals => Some (index_list (length vals))
  end.
Definition rleaf_of (e : any_entry) : rleaf := (entry_path e, e, leaf_args e).

Definition parent_name (t : tree) : list str := match t with Parent r _ _ => [r] | Leaf _ _ => [] end.
Definition parent_names (l : list tree) : list str := flat_map parent_name l.

(** ** [update_first] on "first parent named m" *)
Lemma is_parent_named_spec : forall m t, is_parent_named m t = true <-> parent_name t = [m].
Proof.
  intros m [r g ch|e a]; cbn; split; intro H; try discriminate.
  - apply str_eqb_spec in H. congruence.
  - inversion H. apply str_eqb_refl.
Qed.

Lemma update_first_none : forall m f l,
  update_first (is_parent_named m) f l = None -> ~ In m (parent_names l).
Proof.
  intros m f. induction l as [|x tl IH]; intros H Hin; cbn in *; [exact Hin|].
  destruct (is_parent_named m x) eqn:E; [discriminate|].
  destruct (update_first _ f tl); [discriminate|].
  apply in_app_or in Hin. destruct Hin as [Hin|Hin]; [|apply (IH eq_refl Hin)].
  destruct x as [r g ch|e a]; cbn in Hin; [|exact Hin]. destruct Hin as [Hin|[]]. subst r.
  cbn in E. rewrite str_eqb_refl in E. discriminate.
Qed.

Lemma update_first_some : forall m f l l',
  update_first (is_parent_named m) f l = Some l' ->
  exists l1 g ch l2, l = l1 ++ Parent m g ch :: l2 /\ l' = l1 ++ f (Parent m g ch) :: l2 /\ ~ In m (parent_names l1).
Proof.
  intros m f. induction l as [|x tl IH]; intros l' H; cbn in H; [discriminate|].
  destruct (is_parent_named m x) eqn:E.
  - inversion H; subst. destruct x as [r g ch|e a]; [|discriminate]. cbn in E. apply str_eqb_spec in E. subst r.
    exists [], g, ch, tl. repeat split. intros [].
  - destruct (update_first _ f tl) as [tl'|] eqn:E2; [|discriminate]. inversion H; subst.
    destruct (IH tl' eq_refl) as [l1 [g [ch [l2 [H1 [H2 H3]]]]]]. subst.
    exists (x :: l1), g, ch, l2. repeat split. intro Hin. cbn in Hin. apply in_app_or in Hin.
    destruct Hin as [Hin|Hin]; [|exact (H3 Hin)].
    destruct x as [r g0 ch0|e a]; cbn in Hin; [|exact Hin]. destruct Hin as [Hin|[]]. subst r.
    cbn in E. rewrite str_eqb_refl in E. discriminate.
Qed.

(** The same for any predicate that holds of parents only. *)
Lemma update_first_some_gen : forall (p : tree -> bool) f l l',
  (forall t, p t = true -> exists r g ch, t = Parent r g ch) ->
  update_first p f l = Some l' ->
  exists l1 r g ch l2, l = l1 ++ Parent r g ch :: l2 /\ l' = l1 ++ f (Parent r g ch) :: l2 /\ p (Parent r g ch) = true
                       /\ (forall t, In t l1 -> p t = false).
Proof.
  intros p f l. induction l as [|x tl IH]; intros l' Hp H; cbn in H; [discriminate|].
  destruct (p x) eqn:E.
  - inversion H; subst. destruct (Hp x E) as [r [g [ch Hx]]]. subst x.
    exists [], r, g, ch, tl. repeat split; [exact E|intros t []].
  - destruct (update_first p f tl) as [tl'|] eqn:E2; [|discriminate]. inversion H; subst.
    destruct (IH tl' Hp eq_refl) as [l1 [r [g [ch [l2 [H1 [H2 [H3 H4]]]]]]]]. subst.
    exists (x :: l1), r, g, ch, l2. repeat split; [exact H3|]. intros t [Ht|Ht]; [subst; exact E|apply H4; exact Ht].
Qed.

Lemma is_parent_named_raw_parent : forall m t, is_parent_named_raw m t = true -> exists r g ch, t = Parent r g ch.
Proof. intros m [r g ch|e a] H; [exists r, g, ch; reflexivity|discriminate]. Qed.

(** ** Every inserted entry is one new leaf under its path; nothing else changes *)
Lemma raw_leaves_app : forall l1 l2, raw_leaves (l1 ++ l2) = raw_leaves l1 ++ raw_leaves l2.
Proof. intros. unfold raw_leaves. apply flat_map_app. Qed.

Lemma raw_leaves_from_path : forall e rest m,
  raw_leaves_node (from_path e m rest) = [(m :: rest, e, leaf_args e)].
Proof.
  intros e. induction rest as [|n r IH]; intro m; cbn [from_path raw_leaves_node flat_map].
  - unfold mk_leaf. fold (leaf_args e). reflexivity.
  - rewrite IH. reflexivity.
Qed.

Lemma raw_leaves_insert_entry : forall e path t,
  Permutation (raw_leaves (insert_entry path e t)) (raw_leaves t ++ [(path, e, leaf_args e)]).
Proof.
  intros e. induction path as [|m rest IH]; intro t; cbn [insert_entry].
  - rewrite raw_leaves_app. cbn. unfold mk_leaf. fold (leaf_args e). apply Permutation_refl.
  - destruct (update_first _ _ t) as [t'|] eqn:E.
    + apply update_first_some in E. destruct E as [l1 [g [ch [l2 [H1 [H2 _]]]]]]. subst.
      rewrite !raw_leaves_app. cbn [map_children raw_leaves flat_map raw_leaves_node].
      fold (raw_leaves (insert_entry rest e ch)). fold (raw_leaves ch). fold (raw_leaves l2).
      rewrite <- !app_assoc. apply Permutation_app_head.
      apply Permutation_trans with ((map (prepend m) (raw_leaves ch) ++ [(m :: rest, e, leaf_args e)]) ++ raw_leaves l2).
      * apply Permutation_app_tail.
        apply Permutation_trans with (map (prepend m) (raw_leaves ch ++ [(rest, e, leaf_args e)])).
        -- apply Permutation_map. apply IH.
        -- rewrite map_app. apply Permutation_refl.
      * rewrite <- !app_assoc. apply Permutation_app_head. apply Permutation_app_comm.
    + rewrite raw_leaves_app. cbn [raw_leaves flat_map]. rewrite raw_leaves_from_path, app_nil_r. apply Permutation_refl.
Qed.

Lemma raw_leaves_from_benches_aux : forall es t,
  Permutation (raw_leaves (fold_left (fun t e => insert_entry (entry_path e) e t) es t))
              (raw_leaves t ++ map rleaf_of es).
Proof.
  induction es as [|e es IH]; intro t; cbn [fold_left map].
  - rewrite app_nil_r. apply Permutation_refl.
  - eapply Permutation_trans; [apply IH|].
    eapply Permutation_trans; [apply Permutation_app_tail; apply raw_leaves_insert_entry|].
    rewrite <- app_assoc. apply Permutation_refl.
Qed.

Lemma raw_leaves_from_benches : forall es, Permutation (raw_leaves (from_benches es)) (map rleaf_of es).
Proof. intro es. apply (raw_leaves_from_benches_aux es []). Qed.

(** Group insertion leaves the skeleton alone. *)
Lemma raw_leaves_update_first_same : forall m f l l',
  (forall g ch, raw_leaves_node (f (Parent m g ch)) = raw_leaves_node (Parent m g ch)) ->
  update_first (is_parent_named m) f l = Some l' -> raw_leaves l' = raw_leaves l.
Proof.
  intros m f l l' Hf H. apply update_first_some in H. destruct H as [l1 [g [ch [l2 [H1 [H2 _]]]]]]. subst.
  rewrite !raw_leaves_app. cbn [raw_leaves flat_map]. rewrite Hf. reflexivity.
Qed.

Lemma raw_leaves_descend : forall k,
  (forall l, raw_leaves (k l) = raw_leaves l) ->
  forall comps l, raw_leaves (descend comps k l) = raw_leaves l.
Proof.
  intros k Hk. induction comps as [|c rest IH]; intro l; cbn [descend]; [apply Hk|].
  destruct (update_first _ _ l) as [l'|] eqn:E; cbn [or_same]; [|reflexivity].
  eapply raw_leaves_update_first_same; [|exact E].
  intros g ch. cbn [map_children raw_leaves_node]. fold (raw_leaves (descend rest k ch)). fold (raw_leaves ch).
  rewrite IH. reflexivity.
Qed.

Lemma raw_leaves_insert_group : forall g l, raw_leaves (insert_group l g) = raw_leaves l.
Proof.
  intros g l. unfold insert_group. apply raw_leaves_descend. intro l0.
  destruct (update_first _ _ l0) as [l'|] eqn:E; cbn [or_same]; [|reflexivity].
  apply update_first_some_gen in E; [|apply is_parent_named_raw_parent].
  destruct E as [l1 [r [g0 [ch [l2 [H1 [H2 _]]]]]]]. subst. rewrite !raw_leaves_app. reflexivity.
Qed.

Lemma raw_leaves_fold_groups : forall groups l, raw_leaves (fold_left insert_group groups l) = raw_leaves l.
Proof.
  induction groups as [|g gs IH]; intro l; cbn; [reflexivity|]. rewrite IH. apply raw_leaves_insert_group.
Qed.

Lemma tree_complete : forall benches groups,
  Permutation (raw_leaves (build_tree benches groups)) (map rleaf_of (all_entries benches groups)).
Proof.
  intros. unfold build_tree. rewrite raw_leaves_fold_groups. apply raw_leaves_from_benches.
Qed.

Lemma order_independent_leaves : forall es es',
  Permutation es es' -> Permutation (raw_leaves (from_benches es)) (raw_leaves (from_benches es')).
Proof.
  intros es es' H.
  eapply Permutation_trans; [apply raw_leaves_from_benches|].
  eapply Permutation_trans; [apply Permutation_map; exact H|].
  apply Permutation_sym. apply raw_leaves_from_benches.
Qed.

(** ** Sibling parents have distinct raw names *)
Inductive trie : tree -> Prop :=
| trie_leaf : forall e a, trie (Leaf e a)
| trie_parent : forall r g ch, NoDup (parent_names ch) -> Forall trie ch -> trie (Parent r g ch).
Definition trie_forest (l : list tree) : Prop := NoDup (parent_names l) /\ Forall trie l.

Lemma parent_names_app : forall l1 l2, parent_names (l1 ++ l2) = parent_names l1 ++ parent_names l2.
Proof. intros. unfold parent_names. apply flat_map_app. Qed.

Lemma parent_name_from_path : forall e rest m, parent_name (from_path e m rest) = [m].
Proof. intros e [|n r] m; reflexivity. Qed.

Lemma trie_from_path : forall e rest m, trie (from_path e m rest).
Proof.
  intros e. induction rest as [|n r IH]; intro m; cbn [from_path].
  - apply trie_parent; [constructor|]. constructor; [|constructor]. unfold mk_leaf. constructor.
  - apply trie_parent.
    + unfold parent_names. cbn [flat_map]. rewrite parent_name_from_path. cbn. constructor; [intros []|constructor].
    + constructor; [apply IH|constructor].
Qed.

Lemma NoDup_snoc : forall (l : list str) m, NoDup l -> ~ In m l -> NoDup (l ++ [m]).
Proof.
  induction l as [|x tl IH]; intros m Hnd Hin; cbn.
  - constructor; [intros []|constructor].
  - inversion Hnd as [|? ? Hx Htl]; subst. constructor.
    + intro H. apply in_app_or in H. destruct H as [H|[H|[]]]; [exact (Hx H)|]. subst. apply Hin. left. reflexivity.
    + apply IH; [exact Htl|]. intro H. apply Hin. right. exact H.
Qed.

Lemma trie_insert_entry : forall e path t, trie_forest t -> trie_forest (insert_entry path e t).
Proof.
  intros e. induction path as [|m rest IH]; intros t [Hnd Hall]; cbn [insert_entry].
  - split.
    + rewrite parent_names_app. cbn. unfold mk_leaf. cbn. rewrite app_nil_r. exact Hnd.
    + apply Forall_app. split; [exact Hall|]. constructor; [unfold mk_leaf; constructor|constructor].
  - destruct (update_first _ _ t) as [t'|] eqn:E.
    + apply update_first_some in E. destruct E as [l1 [g [ch [l2 [H1 [H2 _]]]]]]. subst.
      split.
      * rewrite parent_names_app in *. cbn in *. exact Hnd.
      * apply Forall_app in Hall. destruct Hall as [Ha Hb]. inversion Hb as [|? ? Hp Hc]; subst.
        apply Forall_app. split; [exact Ha|]. constructor; [|exact Hc].
        inversion Hp as [|? ? ? Hn Hf]; subst. cbn [map_children].
        destruct (IH ch (conj Hn Hf)) as [Hn' Hf']. apply trie_parent; assumption.
    + split.
      * rewrite parent_names_app. unfold parent_names at 2. cbn [flat_map]. rewrite parent_name_from_path. cbn [app].
        apply NoDup_snoc; [exact Hnd|]. eapply update_first_none. exact E.
      * apply Forall_app. split; [exact Hall|]. constructor; [apply trie_from_path|constructor].
Qed.

Lemma trie_from_benches : forall es, trie_forest (from_benches es).
Proof.
  intro es. unfold from_benches.
  assert (H : trie_forest []) by (split; constructor).
  revert H. generalize (@nil tree). induction es as [|e es IH]; intros t H; cbn; [exact H|].
  apply IH. apply trie_insert_entry. exact H.
Qed.

Lemma parent_names_update_first : forall m f l l',
  (forall g ch, parent_name (f (Parent m g ch)) = [m]) ->
  update_first (is_parent_named m) f l = Some l' -> parent_names l' = parent_names l.
Proof.
  intros m f l l' Hf H. apply update_first_some in H. destruct H as [l1 [g [ch [l2 [H1 [H2 _]]]]]]. subst.
  rewrite !parent_names_app. cbn [parent_names flat_map]. rewrite Hf. reflexivity.
Qed.

Lemma trie_update_first : forall m f l l',
  (forall g ch, parent_name (f (Parent m g ch)) = [m]) ->
  (forall g ch, trie (Parent m g ch) -> trie (f (Parent m g ch))) ->
  update_first (is_parent_named m) f l = Some l' -> trie_forest l -> trie_forest l'.
Proof.
  intros m f l l' Hn Hf H [Hnd Hall]. split.
  - rewrite (parent_names_update_first m f l l' Hn H). exact Hnd.
  - apply update_first_some in H. destruct H as [l1 [g [ch [l2 [H1 [H2 _]]]]]]. subst.
    apply Forall_app in Hall. destruct Hall as [Ha Hb]. inversion Hb as [|? ? Hp Hc]; subst.
    apply Forall_app. split; [exact Ha|]. constructor; [apply Hf; exact Hp|exact Hc].
Qed.

Lemma trie_descend : forall k,
  (forall l, trie_forest l -> trie_forest (k l)) ->
  forall comps l, trie_forest l -> trie_forest (descend comps k l).
Proof.
  intros k Hk. induction comps as [|c rest IH]; intros l H; cbn [descend]; [apply Hk; exact H|].
  destruct (update_first _ _ l) as [l'|] eqn:E; cbn [or_same]; [|exact H].
  eapply trie_update_first; [| |exact E|exact H].
  - intros g ch. reflexivity.
  - intros g ch Hp. inversion Hp as [|? ? ? Hn Hf]; subst. cbn [map_children].
    destruct (IH ch (conj Hn Hf)) as [Hn' Hf']. apply trie_parent; assumption.
Qed.

Lemma trie_insert_group : forall g l, trie_forest l -> trie_forest (insert_group l g).
Proof.
  intros g l H. unfold insert_group. apply trie_descend; [|exact H].
  intros l0 [Hnd Hall]. destruct (update_first _ _ l0) as [l'|] eqn:E; cbn [or_same]; [|split; assumption].
  apply update_first_some_gen in E; [|apply is_parent_named_raw_parent].
  destruct E as [l1 [r [g0 [ch [l2 [H1 [H2 _]]]]]]]. subst. split.
  - rewrite parent_names_app in *. exact Hnd.
  - apply Forall_app in Hall. destruct Hall as [Ha Hb]. inversion Hb as [|? ? Hp Hc]; subst.
    apply Forall_app. split; [exact Ha|]. constructor; [|exact Hc].
    inversion Hp; subst. cbn [set_group]. apply trie_parent; assumption.
Qed.

Lemma modules_merged : forall benches groups, trie_forest (build_tree benches groups).
Proof.
  intros. unfold build_tree. generalize (trie_from_benches (all_entries benches groups)).
  generalize (from_benches (all_entries benches groups)).
  induction groups as [|g gs IH]; intros t H; cbn; [exact H|]. apply IH. apply trie_insert_group. exact H.
Qed.
