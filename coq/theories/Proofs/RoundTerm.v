(** Group [round] (C08): termination (a strictly decreasing measure) and the
    outcome of every maximal execution as a function of the fault set. *)
From Coq Require Import List Arith Bool Lia NArith.
From DivanV Require Import Model.Round Proofs.RoundBase Proofs.RoundInv.
Import ListNotations.

(** * The measure decreases on every step *)

Lemma mu_tcase : forall c r i th b th' b',
  tcase c r i th b th' b' -> mu (ssize c r) (shp c) th' < mu (ssize c r) (shp c) th.
Proof.
  intros c r i th b th' b' H.
  destruct H as [a M BL NE|a M BL NE|M BL PL|M BL W PL NL|M BL W PL LT|M BL U PL FL|a M BL NA W PL FL|M BL R0|k M BL RK NL|k M BL RK LT];
    unfold mu; cbn [pc md blk remaining next_pc set_blk set_md set_rem];
    rewrite ?exec_pc, ?exec_md, ?exec_blk, ?exec_remaining; rewrite ?M, ?BL; try lia.
  - destruct (guard c); lia.
Qed.

Lemma rounds_cost_unfold : forall c r R, r < R ->
  rounds_cost c r (R - r) = round_cost c r + rounds_cost c (S r) (R - S r).
Proof. intros c r R H. replace (R - r) with (S (R - S r)) by lia. reflexivity. Qed.

Lemma measure_step : forall c st l st',
  fixed_code c -> Inv c st -> step c st l = Some st' -> measure c st' < measure c st.
Proof.
  intros c st l st' GD [L _] S. apply (step_cases _ _ _ _ (proj2 GD)) in S.
  destruct S as [G R|G R|k G F X|G F X|i th th' b' G N TC]; unfold measure; cbn [gp round ths]; rewrite G; try lia.
  - rewrite (rounds_cost_unfold _ _ _ R). unfold round_cost.
    rewrite map_map.
    rewrite (sum_map_const _ _ (2 * plen (ssize c (round st)) (shp c) + 9)).
    + rewrite L. lia.
    + intros x _. unfold mu, fresh; cbn. lia.
  - pose proof (sum_upd _ (mu (ssize c (round st)) (shp c)) i th' th (ths st) N).
    pose proof (mu_tcase _ _ _ _ _ _ _ TC). lia.
Qed.

Lemma exec_inv : forall c st tr st',
  1 <= nthreads c -> fixed_code c -> exec_from c st tr st' -> Inv c st -> Inv c st'.
Proof. intros c st tr st' T1 GD E. induction E; auto. intros. apply IHE. eapply inv_step; eauto. Qed.

Lemma exec_bound : forall c st tr st',
  1 <= nthreads c -> fixed_code c -> exec_from c st tr st' -> Inv c st ->
  length tr + measure c st' <= measure c st.
Proof.
  intros c st tr st' T1 GD E. induction E; intros I; cbn [length]; [lia|].
  pose proof (measure_step _ _ _ _ GD I H).
  assert (Inv c st') by (eapply inv_step; eauto). specialize (IHE H1). lia.
Qed.

(** * Which outcome: the fault set decides *)

Lemma find_idx_seq_some : forall (f : nat -> bool) a n k,
  k < n -> f (a + k) = true -> (forall j, j < k -> f (a + j) = false) ->
  find_idx f (seq a n) = Some k.
Proof.
  intros f a n. revert a. induction n as [|n IH]; intros a k K F L; [lia|]. cbn.
  destruct k as [|k].
  - rewrite Nat.add_0_r in F. rewrite F. reflexivity.
  - pose proof (L 0 ltac:(lia)) as Z. rewrite Nat.add_0_r in Z. rewrite Z.
    rewrite (IH (S a) k); [reflexivity|lia| |].
    + replace (S a + k) with (a + S k) by lia. exact F.
    + intros j Hj. replace (S a + j) with (a + S j) by lia. apply L. lia.
Qed.

Lemma find_idx_seq_none : forall (f : nat -> bool) a n,
  (forall j, j < n -> f (a + j) = false) -> find_idx f (seq a n) = None.
Proof.
  intros f a n. revert a. induction n as [|n IH]; intros a L; [reflexivity|]. cbn.
  pose proof (L 0 ltac:(lia)) as Z. rewrite Nat.add_0_r in Z. rewrite Z.
  rewrite IH; [reflexivity|]. intros j Hj. replace (S a + j) with (a + S j) by lia. apply L. lia.
Qed.

Lemma find_idx_seq_inv : forall (f : nat -> bool) n k,
  find_idx f (seq 0 n) = Some k -> k < n /\ f k = true /\ forall j, j < k -> f j = false.
Proof.
  intros f n k H. destruct (find_idx_some _ _ _ _ H) as (x & N & P & L).
  assert (k < n) as K. { rewrite <- (seq_length n 0). apply nth_error_Some. congruence. }
  rewrite nth_error_seq in N by lia. inversion N; subst. cbn in *. repeat split; auto.
  intros j Hj. apply (L j j); auto. rewrite nth_error_seq by lia. reflexivity.
Qed.

Lemma find_idx_seq_none_inv : forall (f : nat -> bool) n,
  find_idx f (seq 0 n) = None -> forall j, j < n -> f j = false.
Proof.
  intros f n H j Hj. apply (find_idx_none _ _ _ H). apply in_seq. lia.
Qed.

Definition tf_ok (c : config) (r i : nat) (th : thread) : Prop :=
  match md th with
  | Run => forall p, p < pc th -> userpos (ssize c r) (shp c) p = true -> fault c i r p = false
  | Returned => thread_faults c r i = false
  | Unwind | Unwound => thread_faults c r i = true
  end.

Definition FInv (c : config) (st : state) : Prop :=
  (forall r, r < round st -> round_faulty c r = None) /\
  match gp st with
  | GIdle => round st <= nrounds c
  | GRun => round st < nrounds c /\ forall i th, nth_error (ths st) i = Some th -> tf_ok c (round st) i th
  | GEnd None => round st = nrounds c
  | GEnd (Some k) => round st < nrounds c /\ round_faulty c (round st) = Some k
  end.

Lemma thread_faults_true : forall c r i p,
  p < plen (ssize c r) (shp c) -> userpos (ssize c r) (shp c) p = true -> fault c i r p = true ->
  thread_faults c r i = true.
Proof.
  intros c r i p L U F. unfold thread_faults. apply existsb_exists. exists p. split.
  - apply in_seq. lia.
  - rewrite U, F. reflexivity.
Qed.

Lemma thread_faults_false : forall c r i,
  (forall p, p < plen (ssize c r) (shp c) -> userpos (ssize c r) (shp c) p = true -> fault c i r p = false) ->
  thread_faults c r i = false.
Proof.
  intros c r i H. unfold thread_faults. destruct (existsb _ _) eqn:E; auto.
  apply existsb_exists in E. destruct E as (p & HI & X). apply in_seq in HI.
  apply andb_true_iff in X. destruct X as [U F]. rewrite (H p) in F; [discriminate|lia|auto].
Qed.

Lemma tf_ok_tcase : forall c r i th b th' b',
  fixed_code c ->
  thread_ok (ssize c r) (shp c) (bgen b) th ->
  tcase c r i th b th' b' -> tf_ok c r i th -> tf_ok c r i th'.
Proof.
  intros c r i th b th' b' GD OK H T.
  destruct H as [a M BL NE|a M BL NE|M BL PL|M BL W PL NL|M BL W PL LT|M BL U PL FL|a M BL NA W PL FL|M BL R0|k M BL RK NL|k M BL RK LT];
    unfold tf_ok in *; cbn [pc md blk remaining next_pc set_blk set_md set_rem];
    rewrite ?exec_pc, ?exec_md; rewrite ?M in *; auto.
  - (* leave a wait: the position passed is a wait, not user code *)
    unfold thread_ok in OK. rewrite M, BL in OK. destruct OK as (W & _).
    intros p Hp U. destruct (Nat.eq_dec p (pc th)) as [->|NEq].
    + apply userpos_nowait in U. congruence.
    + apply T; auto. lia.
  - apply thread_faults_false. intros p Hp U. apply T; auto. lia.
  - intros p Hp U. destruct (Nat.eq_dec p (pc th)) as [->|NEq].
    + apply userpos_nowait in U. congruence.
    + apply T; auto. lia.
  - rewrite (proj1 GD). eapply thread_faults_true; eauto.
  - intros p Hp U. destruct (Nat.eq_dec p (pc th)) as [->|NEq]; auto.
    apply T; auto. lia.
Qed.

Lemma finv_init : forall c, FInv c (init c).
Proof. intros c. split; cbn; [intros; lia|lia]. Qed.

Lemma finv_step : forall c st l st',
  fixed_code c -> Inv c st -> FInv c st -> step c st l = Some st' -> FInv c st'.
Proof.
  intros c st l st' GD [L K] [P Q] S. apply (step_cases _ _ _ _ (proj2 GD)) in S.
  destruct S as [G R|G R|k G F X|G F X|i th th' b' G N TC]; rewrite G in Q;
    unfold FInv; cbn [gp round ths bar].
  - split; auto. split; auto. intros i th Hi.
    apply nth_error_In in Hi. apply in_map_iff in Hi. destruct Hi as (y & <- & _).
    unfold tf_ok, fresh; cbn. intros; lia.
  - split; auto. lia.
  - (* join, some slot empty *)
    destruct Q as [RL Q]. split; auto. split; auto.
    destruct (find_idx_some _ _ _ _ X) as (x & Nx & Px & Lx).
    unfold round_faulty. rewrite <- (Nat.add_0_l k) at 1. rewrite <- L.
    assert (k < length (ths st)) as KL by (apply nth_error_Some; congruence).
    apply find_idx_seq_some; auto; cbn.
    + pose proof (Q k x Nx) as T. rewrite forallb_forall in F.
      pose proof (F x (nth_error_In _ _ Nx)) as FX. unfold tf_ok, finished, returned in *.
      destruct (md x); try discriminate; auto.
    + intros j Hj. destruct (nth_error (ths st) j) as [y|] eqn:Ny.
      * pose proof (Lx j y Hj Ny) as R. pose proof (Q j y Ny) as T.
        unfold tf_ok, returned in *. destruct (md y); try discriminate; auto.
      * apply nth_error_None in Ny. lia.
  - (* join, every slot filled *)
    destruct Q as [RL Q]. split; [|lia].
    intros r Hr. destruct (Nat.eq_dec r (round st)) as [->|NE]; [|apply P; lia].
    unfold round_faulty. apply find_idx_seq_none. cbn. intros j Hj.
    destruct (nth_error (ths st) j) as [y|] eqn:Ny.
    + pose proof (find_idx_none _ _ _ X y (nth_error_In _ _ Ny)) as R. pose proof (Q j y Ny) as T.
      unfold tf_ok, returned in *. destruct (md y); try discriminate; auto.
    + apply nth_error_None in Ny. lia.
  - destruct Q as [RL Q]. split; auto. split; auto.
    destruct (K G) as (_ & _ & C).
    intros j y Hj. destruct (nth_error_upd_inv _ _ _ _ _ _ Hj) as [[-> ->]|[NE Hj']]; [|apply Q; auto].
    eapply tf_ok_tcase; eauto. apply C. eapply nth_error_In; eauto.
Qed.

Lemma first_fault_skip : forall c r k,
  round_faulty c r = None -> first_fault c r (S k) = first_fault c (S r) k.
Proof. intros c r k H. cbn. rewrite H. reflexivity. Qed.

Lemma first_fault_from : forall c r,
  r <= nrounds c -> (forall r', r' < r -> round_faulty c r' = None) ->
  expected c = first_fault c r (nrounds c - r).
Proof.
  intros c r. unfold expected. induction r as [|r IH]; intros L H.
  - rewrite Nat.sub_0_r. reflexivity.
  - rewrite IH by (try lia; intros; apply H; lia).
    replace (nrounds c - r) with (S (nrounds c - S r)) by lia.
    apply first_fault_skip. apply H. lia.
Qed.

Lemma finv_final : forall c st o,
  FInv c st -> gp st = GEnd o -> o = option_map snd (expected c).
Proof.
  intros c st o [P Q] G. rewrite G in Q. destruct o as [k|].
  - destruct Q as [RL RF]. rewrite (first_fault_from c (round st)) by (auto; lia).
    replace (nrounds c - round st) with (S (nrounds c - S (round st))) by lia.
    cbn. rewrite RF. reflexivity.
  - rewrite (first_fault_from c (round st)) by (auto; lia).
    rewrite Q, Nat.sub_diag. reflexivity.
Qed.

(** What [expected] means. *)
Lemma first_fault_none : forall c r k,
  first_fault c r k = None <-> forall r', r <= r' < r + k -> round_faulty c r' = None.
Proof.
  intros c r k. revert r. induction k as [|k IH]; intros r; cbn.
  - split; auto. intros; lia.
  - destruct (round_faulty c r) eqn:E.
    + split; [discriminate|]. intros H. rewrite (H r) in E by lia. discriminate.
    + rewrite IH. split; intros H r' Hr.
      * destruct (Nat.eq_dec r' r) as [->|]; auto. apply H. lia.
      * apply H. lia.
Qed.

Lemma first_fault_some : forall c r k r1 i,
  first_fault c r k = Some (r1, i) ->
  r <= r1 < r + k /\ round_faulty c r1 = Some i /\ forall r', r <= r' < r1 -> round_faulty c r' = None.
Proof.
  intros c r k. revert r. induction k as [|k IH]; intros r r1 i H; cbn in H; [discriminate|].
  destruct (round_faulty c r) eqn:E.
  - inversion H; subst. repeat split; auto; try lia; try (intros; lia).
  - destruct (IH _ _ _ H) as (A & B & C). repeat split; auto; try lia.
    intros r' Hr. destruct (Nat.eq_dec r' r) as [->|]; auto. apply C. lia.
Qed.

Definition no_fault_in_range (c : config) : Prop :=
  forall r i p, r < nrounds c -> i < nthreads c ->
    p < plen (ssize c r) (shp c) -> userpos (ssize c r) (shp c) p = true -> fault c i r p = false.

Lemma expected_none_iff : forall c, expected c = None <-> no_fault_in_range c.
Proof.
  intros c. unfold expected. rewrite first_fault_none. unfold no_fault_in_range. split.
  - intros H r i p Hr Hi Hp U.
    pose proof (H r ltac:(lia)) as RF. unfold round_faulty in RF.
    pose proof (find_idx_seq_none_inv _ _ RF i Hi) as TF. cbv beta in TF.
    destruct (fault c i r p) eqn:F; auto.
    rewrite (thread_faults_true c r i p Hp U F) in TF. discriminate.
  - intros H r [_ Hr]. cbn in Hr. unfold round_faulty. apply find_idx_seq_none. cbn.
    intros j Hj. apply thread_faults_false. intros p Hp U. apply H; auto.
Qed.

Lemma expected_some : forall c r k,
  expected c = Some (r, k) ->
  r < nrounds c /\ k < nthreads c /\ thread_faults c r k = true /\
  (forall j, j < k -> thread_faults c r j = false) /\
  (forall r', r' < r -> round_faulty c r' = None).
Proof.
  intros c r k H. unfold expected in H. destruct (first_fault_some _ _ _ _ _ H) as (A & B & C).
  unfold round_faulty in B. destruct (find_idx_seq_inv _ _ _ B) as (K & F & L).
  repeat split; auto; try lia. intros. apply C. lia.
Qed.

(** * Every maximal execution ends, with the outcome [expected] *)

Theorem panic_terminates : forall c tr st,
  1 <= nthreads c -> fixed_code c ->
  exec_from c (init c) tr st ->
  length tr <= measure c (init c) /\
  ((forall l, step c st l = None) -> gp st = GEnd (option_map snd (expected c))).
Proof.
  intros c tr st T1 GD E.
  pose proof (exec_bound _ _ _ _ T1 GD E (inv_init c)) as B.
  assert (Inv c st) as I by (eapply exec_inv; eauto; apply inv_init).
  assert (FInv c st) as FI.
  { clear B I. assert (forall s t s', exec_from c s t s' -> Inv c s -> FInv c s -> FInv c s') as G.
    { intros s t s' X. induction X; auto. intros IS FS. apply IHX.
      - eapply inv_step; eauto.
      - eapply finv_step; eauto. }
    eapply G; eauto; [apply inv_init|apply finv_init]. }
  split; [lia|].
  intros STUCK. destruct (final st) eqn:F.
  - unfold final in F. destruct (gp st) eqn:G; try discriminate.
    f_equal. eapply finv_final; eauto.
  - destruct (deadlock_free _ _ I F) as (l & st' & S). rewrite STUCK in S. discriminate.
Qed.
