(** Proofs about Model/Retain.v: for every tree, [retain] keeps exactly the
    selected cases (in order), removes exactly the inner nodes without a
    selected case below, and leaves no empty node behind. *)
From Coq Require Import Permutation.
From DivanV Require Import Base.Res Model.SplitVec Model.Filter Model.Retain
  Proofs.SplitVec Proofs.Filter.

(** Induction principle for the nested type. *)
Section TreeInd.
  Variable P : tree -> Prop.
  Hypothesis HParent : forall n children, Forall P children -> P (Parent n children).
  Hypothesis HLeaf : forall n args, P (Leaf n args).

  Fixpoint tree_ind' (t : tree) : P t :=
    match t with
    | Parent n children =>
        HParent n children
          ((fix go (l : list tree) : Forall P l :=
              match l with
              | [] => Forall_nil P
              | c :: r => Forall_cons c (tree_ind' c) (go r)
              end) children)
    | Leaf n args => HLeaf n args
    end.
End TreeInd.

(** * List facts *)

Lemma filter_map_commute {A B : Type} (g : A -> B) (p : B -> bool) (l : list A) :
  filter p (map g l) = map g (filter (fun x => p (g x)) l).
Proof.
  induction l as [|x l IH]; cbn [map filter]; [reflexivity|].
  destruct (p (g x)); cbn [map]; rewrite IH; reflexivity.
Qed.

Lemma existsb_filter_nil {A : Type} (p : A -> bool) (l : list A) :
  existsb p l = match filter p l with [] => false | _ => true end.
Proof.
  induction l as [|x l IH]; cbn [existsb filter]; [reflexivity|].
  destruct (p x); [reflexivity|]. exact IH.
Qed.

Lemma list_eqb_refl {A : Type} (eqb : A -> A -> bool) (l : list A) :
  (forall x, eqb x x = true) -> list_eqb eqb l l = true.
Proof.
  intros H. induction l as [|x l IH]; cbn [list_eqb]; [reflexivity|].
  rewrite H, IH. reflexivity.
Qed.

Lemma str_eqb_refl (s : str) : str_eqb s s = true.
Proof. apply str_eqb_eq. reflexivity. Qed.

Lemma list_str_eqb_eq (a b : list str) : list_eqb str_eqb a b = true <-> a = b.
Proof.
  revert b. induction a as [|x a IH]; intros [|y b]; cbn [list_eqb]; split; intros H;
    try reflexivity; try discriminate.
  - apply andb_true_iff in H. destruct H as [H1 H2]. apply str_eqb_eq in H1. apply IH in H2. congruence.
  - injection H as -> ->. apply andb_true_iff. split; [apply str_eqb_refl | apply IH; reflexivity].
Qed.

(** * Per-tree statements *)

Definition kept_cases (pp : str) (o : option tree) : list str :=
  match o with Some t => cases_tree pp t | None => [] end.
Definition kept_parents (pp : str) (o : option tree) : list str :=
  match o with Some t => parents_tree pp t | None => [] end.

Section WithSelection.
  Variable f : str -> bool.

  Lemma forest_cases (sp : str) (children : list tree) :
    Forall (fun t => forall pp, kept_cases pp (retain_tree f pp t) = filter f (cases_tree pp t)) children ->
    flat_map (cases_tree sp) (filter_map (retain_tree f sp) children)
    = filter f (flat_map (cases_tree sp) children).
  Proof.
    intros H. induction H as [|c r Hc _ IH]; [reflexivity|].
    cbn [filter_map flat_map]. rewrite filter_app. rewrite <- (Hc sp). rewrite <- IH.
    destruct (retain_tree f sp c); reflexivity.
  Qed.

  (** The kept cases are the selected cases, in order. *)
  Lemma retain_tree_cases (t : tree) : forall pp,
    kept_cases pp (retain_tree f pp t) = filter f (cases_tree pp t).
  Proof.
    induction t as [n children IH|n args] using tree_ind'; intros pp.
    - cbn [retain_tree cases_tree tree_name].
      rewrite <- (forest_cases _ _ IH).
      fold (filter_map (retain_tree f (child_path pp n)) children).
      destruct (filter_map (retain_tree f (child_path pp n)) children) eqn:E; reflexivity.
    - destruct args as [args|].
      + cbn [retain_tree cases_tree tree_name].
        rewrite filter_map_commute.
        destruct (filter (fun arg => f (arg_path (child_path pp n) arg)) args) eqn:E; reflexivity.
      + cbn [retain_tree cases_tree tree_name filter].
        destruct (f (child_path pp n)); reflexivity.
  Qed.

  Lemma no_empty_cases (t : tree) : forall pp,
    no_empty_tree t = true -> cases_tree pp t <> [].
  Proof.
    induction t as [n children IH|n args] using tree_ind'; intros pp Hne.
    - cbn [no_empty_tree] in Hne. cbn [cases_tree tree_name].
      destruct children as [|c r]; [discriminate|].
      cbn [forallb] in Hne. apply andb_true_iff in Hne. destruct Hne as [Hc _].
      inversion IH as [|? ? Hc' _]; subst.
      cbn [flat_map]. intros Happ. apply app_eq_nil in Happ. destruct Happ as [Happ _].
      exact (Hc' _ Hc Happ).
    - destruct args as [args|]; cbn [cases_tree tree_name].
      + cbn [no_empty_tree] in Hne. destruct args; [discriminate|]. cbn [map]. discriminate.
      + discriminate.
  Qed.

  Lemma forest_no_empty (sp : str) (children : list tree) :
    Forall (fun t => forall pp t', retain_tree f pp t = Some t' -> no_empty_tree t' = true) children ->
    forallb no_empty_tree (filter_map (retain_tree f sp) children) = true.
  Proof.
    intros H. induction H as [|c r Hc _ IH]; [reflexivity|].
    cbn [filter_map]. destruct (retain_tree f sp c) as [c'|] eqn:E; [|exact IH].
    cbn [forallb]. rewrite (Hc sp c' E). exact IH.
  Qed.

  (** Whatever is kept has no empty group and no emptied leaf. *)
  Lemma retain_tree_no_empty (t : tree) : forall pp t',
    retain_tree f pp t = Some t' -> no_empty_tree t' = true.
  Proof.
    induction t as [n children IH|n args] using tree_ind'; intros pp t' H.
    - cbn [retain_tree tree_name] in H.
      fold (filter_map (retain_tree f (child_path pp n)) children) in H.
      pose proof (forest_no_empty (child_path pp n) children IH) as Hall.
      destruct (filter_map (retain_tree f (child_path pp n)) children) as [|c r] eqn:E; [discriminate|].
      injection H as <-. cbn [no_empty_tree]. exact Hall.
    - destruct args as [args|]; cbn [retain_tree tree_name] in H.
      + destruct (filter (fun arg => f (arg_path (child_path pp n) arg)) args) eqn:E; [discriminate|].
        injection H as <-. reflexivity.
      + destruct (f (child_path pp n)); [|discriminate]. injection H as <-. reflexivity.
  Qed.

  (** A node survives iff a selected case lies below it. *)
  Lemma retain_tree_survives (t : tree) (pp : str) :
    (exists t', retain_tree f pp t = Some t') <-> has_selected_below f pp t = true.
  Proof.
    unfold has_selected_below. rewrite existsb_filter_nil.
    rewrite <- retain_tree_cases.
    destruct (retain_tree f pp t) as [t'|] eqn:E; cbn [kept_cases].
    - pose proof (no_empty_cases t' pp (retain_tree_no_empty t pp t' E)) as Hne.
      destruct (cases_tree pp t'); [contradiction|].
      split; [reflexivity|]. intros _. exists t'. reflexivity.
    - split; [intros [t' H]; discriminate | discriminate].
  Qed.

  Lemma retain_tree_removed (t : tree) (pp : str) :
    retain_tree f pp t = None <-> filter f (cases_tree pp t) = [].
  Proof.
    pose proof (retain_tree_survives t pp) as H. unfold has_selected_below in H.
    rewrite existsb_filter_nil in H.
    destruct (retain_tree f pp t) as [t'|] eqn:E.
    - split; [discriminate|]. intros Hnil. rewrite Hnil in H.
      destruct H as [H _]. specialize (H (ex_intro _ t' eq_refl)). discriminate.
    - split; [|reflexivity]. intros _.
      destruct (filter f (cases_tree pp t)); [reflexivity|].
      destruct H as [_ H]. destruct (H eq_refl) as [t' Ht']. discriminate.
  Qed.

  Lemma forest_parents (sp : str) (children : list tree) :
    Forall (fun t => forall pp, kept_parents pp (retain_tree f pp t) = parents_with_selected f pp t) children ->
    flat_map (parents_tree sp) (filter_map (retain_tree f sp) children)
    = flat_map (parents_with_selected f sp) children.
  Proof.
    intros H. induction H as [|c r Hc _ IH]; [reflexivity|].
    cbn [filter_map flat_map]. rewrite <- (Hc sp). rewrite <- IH.
    destruct (retain_tree f sp c); reflexivity.
  Qed.

  (** The inner nodes kept are the inner nodes with a selected case below. *)
  Lemma retain_tree_parents (t : tree) : forall pp,
    kept_parents pp (retain_tree f pp t) = parents_with_selected f pp t.
  Proof.
    induction t as [n children IH|n args] using tree_ind'; intros pp.
    - pose proof (retain_tree_survives (Parent n children) pp) as Hs.
      cbn [parents_with_selected tree_name].
      destruct (has_selected_below f pp (Parent n children)) eqn:Hsel.
      + destruct Hs as [_ Hs]. destruct (Hs eq_refl) as [t' Ht'].
        rewrite Ht'. cbn [kept_parents].
        cbn [retain_tree tree_name] in Ht'.
        fold (filter_map (retain_tree f (child_path pp n)) children) in Ht'.
        rewrite <- (forest_parents _ _ IH).
        destruct (filter_map (retain_tree f (child_path pp n)) children) eqn:E; [discriminate|].
        injection Ht' as <-. reflexivity.
      + destruct (retain_tree f pp (Parent n children)) as [t'|] eqn:E; [|reflexivity].
        destruct Hs as [Hs _]. specialize (Hs (ex_intro _ t' eq_refl)). discriminate.
    - destruct args as [args|]; cbn [retain_tree parents_with_selected tree_name].
      + destruct (filter (fun arg => f (arg_path (child_path pp n) arg)) args); reflexivity.
      + destruct (f (child_path pp n)); reflexivity.
  Qed.

  (** * Forest (whole tree) statements *)

  Lemma retain_forest_cases (pp : str) (ts : list tree) :
    cases_forest pp (retain_forest f pp ts) = filter f (cases_forest pp ts).
  Proof.
    unfold cases_forest, retain_forest. apply forest_cases.
    apply Forall_forall. intros t _. apply retain_tree_cases.
  Qed.

  Lemma retain_forest_no_empty (pp : str) (ts : list tree) :
    forallb no_empty_tree (retain_forest f pp ts) = true.
  Proof.
    unfold retain_forest. apply forest_no_empty.
    apply Forall_forall. intros t _. apply retain_tree_no_empty.
  Qed.

  Lemma retain_forest_parents (pp : str) (ts : list tree) :
    flat_map (parents_tree pp) (retain_forest f pp ts) = flat_map (parents_with_selected f pp) ts.
  Proof.
    unfold retain_forest. apply forest_parents.
    apply Forall_forall. intros t _. apply retain_tree_parents.
  Qed.

  (** [C13_retain_spec] *)
  Lemma retain_spec (ts : list tree) :
    cases (retain f ts) = filter f (cases ts)
    /\ forallb no_empty_tree (retain f ts) = true
    /\ parents (retain f ts) = flat_map (parents_with_selected f []) ts
    /\ (forall t pp, (exists t', retain_tree f pp t = Some t') <-> existsb f (cases_tree pp t) = true).
  Proof.
    split; [apply retain_forest_cases|].
    split; [apply retain_forest_no_empty|].
    split; [apply retain_forest_parents|].
    intros t pp. apply retain_tree_survives.
  Qed.

  (** A case runs iff it is a case of the tree and is selected; nothing else. *)
  Lemma retain_in (ts : list tree) (c : str) :
    In c (cases (retain f ts)) <-> In c (cases ts) /\ f c = true.
  Proof.
    destruct (retain_spec ts) as [H _]. rewrite H. apply filter_In.
  Qed.

  Lemma retain_sb_model (ts : list tree) : retain_sb f ts (retain f ts) = true.
  Proof.
    destruct (retain_spec ts) as (H1 & H2 & H3 & _).
    unfold retain_sb. rewrite H1, H2, H3.
    rewrite !list_eqb_refl; [reflexivity | apply str_eqb_refl | apply str_eqb_refl].
  Qed.

  Lemma retain_sb_meaning (ts out : list tree) :
    retain_sb f ts out = true <->
    cases out = filter f (cases ts)
    /\ forallb no_empty_tree out = true
    /\ parents out = flat_map (parents_with_selected f []) ts.
  Proof.
    unfold retain_sb. rewrite !andb_true_iff, !list_str_eqb_eq. tauto.
  Qed.

End WithSelection.

(** * The panicking-filter version agrees with the pure one when the filter
    never panics (which [Proofs/Filter.v] shows for every reachable set). *)
Section WithTotalFilter.
  Variable fr : str -> res bool.
  Variable f : str -> bool.
  Hypothesis Hf : forall p, fr p = Ok (f p).

  Lemma filter_res_pure (g : str -> str) (args : list str) :
    filter_res (fun a => fr (g a)) args = Ok (filter (fun a => f (g a)) args).
  Proof.
    induction args as [|a r IH]; [reflexivity|].
    cbn [filter_res filter]. rewrite Hf. cbn [bind]. rewrite IH. cbn [bind].
    destruct (f (g a)); reflexivity.
  Qed.

  Lemma forest_res_pure (sp : str) (children : list tree) :
    Forall (fun t => forall pp, retain_tree_res fr pp t = Ok (retain_tree f pp t)) children ->
    filter_map_res (retain_tree_res fr sp) children = Ok (filter_map (retain_tree f sp) children).
  Proof.
    intros H. induction H as [|c r Hc _ IH]; [reflexivity|].
    cbn [filter_map_res filter_map]. rewrite (Hc sp). cbn [bind].
    fold (filter_map_res (retain_tree_res fr sp) r). rewrite IH. cbn [bind].
    fold (filter_map (retain_tree f sp) r).
    destruct (retain_tree f sp c); reflexivity.
  Qed.

  Lemma retain_tree_res_pure (t : tree) : forall pp,
    retain_tree_res fr pp t = Ok (retain_tree f pp t).
  Proof.
    induction t as [n children IH|n args] using tree_ind'; intros pp.
    - cbn [retain_tree_res retain_tree tree_name].
      fold (filter_map_res (retain_tree_res fr (child_path pp n)) children).
      rewrite (forest_res_pure _ _ IH). cbn [bind].
      fold (filter_map (retain_tree f (child_path pp n)) children).
      destruct (filter_map (retain_tree f (child_path pp n)) children); reflexivity.
    - destruct args as [args|]; cbn [retain_tree_res retain_tree tree_name].
      + rewrite (filter_res_pure (arg_path (child_path pp n)) args). cbn [bind].
        destruct (filter (fun arg => f (arg_path (child_path pp n) arg)) args); reflexivity.
      + rewrite Hf. cbn [bind]. destruct (f (child_path pp n)); reflexivity.
  Qed.

  Lemma retain_res_pure (ts : list tree) : retain_res fr ts = Ok (retain f ts).
  Proof.
    unfold retain_res, retain, retain_forest. apply forest_res_pure.
    apply Forall_forall. intros t _. apply retain_tree_res_pure.
  Qed.
End WithTotalFilter.

(** * End to end: filters from any history of insertions, any tree. *)
Lemma select_correct (matches : str -> str -> bool) (ops : list (pfilter * bool)) (ts : list tree) :
  select matches ops ts = Ok (retain (is_match_spec matches ops) ts).
Proof.
  unfold select. destruct (fs_build_ok matches ops) as (fs & Hb & _ & Hm).
  rewrite Hb. cbn [bind]. apply retain_res_pure. exact Hm.
Qed.

Lemma select_runs_iff (matches : str -> str -> bool) (ops : list (pfilter * bool)) (ts : list tree) :
  exists out, select matches ops ts = Ok out /\
    cases out = filter (is_match_spec matches ops) (cases ts) /\
    (forall c, In c (cases out) <-> In c (cases ts) /\ is_match_spec matches ops c = true) /\
    forallb no_empty_tree out = true /\
    parents out = flat_map (parents_with_selected (is_match_spec matches ops) []) ts.
Proof.
  exists (retain (is_match_spec matches ops) ts). split; [apply select_correct|].
  destruct (retain_spec (is_match_spec matches ops) ts) as (H1 & H2 & H3 & _).
  split; [exact H1|]. split; [intros c; apply retain_in|]. split; assumption.
Qed.

(** Examples: a leaf whose arguments are all filtered out disappears together
    with its (then empty) parents, a leaf with an empty argument list disappears
    even when everything is selected, inner-node names alone select nothing. *)
Definition ex_s (l : list N) : str := l.
Example retain_example :
  let a := [97%N] in let b := [98%N] in let x := [120%N] in let y := [121%N] in
  let t := [Parent a [Leaf b (Some [x; y]); Parent b [Leaf x None]]; Leaf y (Some [])] in
  (* select only "a::b::y" *)
  retain (fun p => str_eqb p (a ++ sep ++ b ++ sep ++ y)) t = [Parent a [Leaf b (Some [y])]]
  (* select everything: the leaf with no arguments at all still goes *)
  /\ retain (fun _ => true) t = [Parent a [Leaf b (Some [x; y]); Parent b [Leaf x None]]]
  (* a filter matching only the inner node "a::b" keeps nothing *)
  /\ retain (fun p => str_eqb p (a ++ sep ++ b)) t = [].
Proof. repeat split; reflexivity. Qed.
